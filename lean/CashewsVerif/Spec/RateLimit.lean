import CashewsVerif.Model.Decor.Breaker
/-
C15 — the property statement, executable: what a trace of observed calls must look like.
Used twice: the theorems of `Props/C15.lean` say every trace of the models satisfies it, and the
driver evaluates the same definitions on the traces observed on the real code (spec oracle).
Mathlib-free.
-/
namespace CashewsVerif.Decor.Spec
open CashewsVerif.Decor

/-! ### fixed window (`rate_limit`) -/

/-- the first rejected call of a window, if any -/
def firstRejection (w : List Ev) : Option Ev := w.find? (fun e => !e.ran)

/-- the instant at which the counter of window `w` lapses: `period` after the first counted call
    or, once a call has been rejected, the ban `ttl` after that first rejection -/
def lapseOf (period ttl : Nat) (w : List Ev) : Nat :=
  match firstRejection w with
  | some r => r.ts + ttl
  | none => (w.head?.map (·.ts)).getD 0 + period

/-- cut a trace into counter windows by the lapse rule alone: a call belongs to the current window
    iff it arrives strictly before the window's lapse, otherwise it is the first counted call of
    the next one.  `cur` = the current window so far. -/
def windows (period ttl : Nat) (cur : List Ev) : List Ev → List (List Ev)
  | [] => if cur.isEmpty then [] else [cur]
  | e :: rest =>
    if !cur.isEmpty && decide (e.ts < lapseOf period ttl cur) then windows period ttl (cur ++ [e]) rest
    else if cur.isEmpty then windows period ttl [e] rest
    else cur :: windows period ttl [e] rest

/-- in one window: the first `limit` calls run, every later one is rejected (never a fault) -/
def RunsFirst (limit : Nat) (w : List Ev) : Prop :=
  ∀ i e, w[i]? = some e → e.dec = if i < limit then .run else .reject

/-- executable form of what the property demands of one window (upper bound only): at most `limit`
    runs, and nothing runs after the first rejection -/
def windowHolds (limit : Nat) (w : List Ev) : Bool :=
  decide (w.countP (·.ran) ≤ limit) && ((w.dropWhile (·.ran)).all fun e => e.dec = .reject)

def fixedHolds (limit period ttl : Nat) (tr : List Ev) : Bool :=
  (windows period ttl [] tr).all (windowHolds limit)

/-! ### sliding window (`slice_rate_limit`) -/

/-- call instants strictly increase (the property's own quantifier): every wait but the first is positive -/
def StrictlyIncreasing : List Nat → Prop
  | [] => True
  | _ :: rest => ∀ dt ∈ rest, 0 < dt

instance : ∀ l, Decidable (StrictlyIncreasing l)
  | [] => isTrue trivial
  | _ :: rest => inferInstanceAs (Decidable (∀ dt ∈ rest, 0 < dt))

/-- number of runs in the half-open interval `[t, t + period)` -/
def runsIn (tr : List Ev) (t len : Nat) : Nat :=
  tr.countP fun e => e.ran && decide (t ≤ e.ts) && decide (e.ts < t + len)

/-- number of runs in the closed interval `[t, t + period]` -/
def runsInClosed (tr : List Ev) (t len : Nat) : Nat :=
  tr.countP fun e => e.ran && decide (t ≤ e.ts) && decide (e.ts ≤ t + len)

/-- executable: it suffices to test the intervals that start at a call instant -/
def slidingHolds (limit period : Nat) (tr : List Ev) : Bool :=
  tr.all fun e => decide (runsIn tr e.ts period ≤ limit) &&
    (decide (limit < 2) || decide (runsInClosed tr e.ts period ≤ limit))

/-! ### circuit breaker -/
open Breaker

/-- "within the last `period`": how many of the earlier counted instants `ats` lie in
    `[now - period, now)` — read off a log that itself lapses `period` after its last entry
    (so an entry exactly `period` old is still counted iff a younger one exists). -/
def winCount (ats : List Nat) (now period : Nat) : Nat :=
  if ats.any (fun a => decide (now < a + period)) then ats.countP (inWindow period now) else 0

def _root_.CashewsVerif.Decor.Breaker.BEv.admitted (e : BEv) : Bool := e.res ≠ .rejected
def _root_.CashewsVerif.Decor.Breaker.BEv.failed (e : BEv) : Bool := match e.res with | .ran .fail _ => true | _ => false
/-- the breaker opened at this call: it was let through and `:open` is live right after it -/
def _root_.CashewsVerif.Decor.Breaker.BEv.opened (e : BEv) : Bool := e.admitted && e.openAfter

/-- calls made / failed within the last period at the moment of a call at `now`, the call itself included -/
def totalAt (past : List BEv) (now period : Nat) : Nat :=
  winCount ((past.filter (·.admitted)).map (·.ts)) now period + 1
def failsAt (past : List BEv) (now period : Nat) : Nat :=
  winCount ((past.filter (·.failed)).map (·.ts)) now period + 1

/-- the trip rule of the property -/
def shouldOpen (p : Params) (past : List BEv) (e : BEv) : Bool :=
  e.failed && decide (p.minCalls ≤ totalAt past e.ts p.period) &&
    decide (p.rate * totalAt past e.ts p.period ≤ 100 * failsAt past e.ts p.period)

/-- the breaker is open at `now`: some earlier call opened it less than `ttl` ago -/
def openAt (p : Params) (past : List BEv) (now : Nat) : Bool :=
  past.any fun e => e.opened && decide (now < e.ts + p.ttl)

/-- what the property demands of the call `e` made after the calls `past` -/
def breakerStepHolds (p : Params) (past : List BEv) (e : BEv) : Bool :=
  if openAt p past e.ts then e.res = .rejected            -- while open it never runs the function
  else e.admitted && (e.opened == shouldOpen p past e)       -- opens exactly when the trip rule says

def breakerHoldsFrom (p : Params) (past : List BEv) : List BEv → Bool
  | [] => true
  | e :: rest => breakerStepHolds p past e && breakerHoldsFrom p (past ++ [e]) rest

def breakerHolds (p : Params) (tr : List BEv) : Bool := breakerHoldsFrom p [] tr

end CashewsVerif.Decor.Spec
