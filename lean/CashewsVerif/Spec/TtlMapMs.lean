import CashewsVerif.Model.RedisBackend
/-
The reference of C19: what each *cashews command* means on a millisecond TTL map.

This is C01's reference (`Spec/TtlMap.lean`) with the differences that are Redis' own semantics,
mirrored and not judged:
  * TTLs are milliseconds; `get_expire` answers whole seconds rounded half up (`TTL`);
  * a TTL-less `set` clears the deadline (no inheritance);
  * values are byte strings: an int is stored as its decimal text, anything else as the serializer's bytes;
  * `expire(k, 0)` removes the key (`PEXPIRE k 0`);
  * keys hold typed values (string / set / sorted set / bit array); a command used on the wrong type
    fails: suppressed → the command's failure value, unsuppressed → CacheBackendInteractionError.
The state is a keyspace `KS` (map key ↦ value+deadline, visible strictly before the deadline, plus the
list of keys in first-write order that enumeration commands walk).

For strings, counters, locks, TTLs and patterns the meaning is written out here independently of the wire
commands.  For sets and bit fields the reference is the single Redis command of that name (`Srv.execPrim`):
their semantics are Redis' own, what the refinement theorem adds is the translation around them.
-/
namespace CashewsVerif.Redis
namespace Ref

/-- a command that cannot be carried out: suppressed → its failure value, else the documented error -/
def failOut (cfg : Cfg) (o : ROut) : ROut := if cfg.suppress then o else .raise

/-- one Redis command applied to a keyspace (used for sets and bit fields only) -/
def prim (t : KS) (c : Cmd) : KS × Reply :=
  let r := ({ ks := t, loaded := [] } : Srv).execPrim c
  (r.1.ks, r.2)

def matching (t : KS) (pat : String) : List String :=
  t.dom.filter fun k => t.present k && glob pat k

def strValue (cfg : Cfg) (t : KS) (k : String) : Option CVal :=
  match t.find k with
  | some ⟨.str b, _⟩ => decode cfg b
  | _ => none

/-- the sliding-window log: forget the entries below `a`, count those in [a, b]; when the count is below the limit
add `b` (re-arming the TTL when one is given) and count it -/
def slide (t : KS) (k : String) (old : List Int) (dl : Option Nat) (a b maxv : Int) (ms : Nat) : KS × Int :=
  let kept := old.filter fun x => !(decide (0 ≤ x) && decide (x < a))
  let n : Int := (kept.filter fun x => decide (a ≤ x) && decide (x ≤ b)).length
  let t1 := if kept.isEmpty then t.del k else t.put k ⟨.zset kept, dl⟩
  if n < maxv then
    let new := if b ∈ kept then kept else kept ++ [b]
    let dl1 := if kept.isEmpty then none else dl
    let dl2 := if ms > 0 then some (t.now + ms) else dl1
    (t1.put k ⟨.zset new, dl2⟩, n + 1)
  else (t1, n)

def step (cfg : Cfg) (t : KS) : ROp → KS × ROut
  | .set k v ttl c =>
    let go := match c with | .always => true | .nx => !t.present k | .xx => t.present k
    if go then (t.put k ⟨.str (encode v), (pxOf ttl).map (t.now + ·)⟩, .bool true) else (t, .bool false)
  | .setMany kvs ttl =>
    (kvs.foldl (fun t kv => t.put kv.1 ⟨.str (encode kv.2), (pxOf ttl).map (t.now + ·)⟩) t, .none_)
  | .get k =>
    match t.find k with
    | none => (t, .val none)
    | some ⟨.str b, _⟩ => (t, .val (decode cfg b))
    | some _ => (t, failOut cfg (.val none))
  | .getMany ks => (t, .vals (ks.map (strValue cfg t)))
  | .exists_ k => (t, .bool (t.present k))
  | .incr k by_ ttl =>
    let upd (cur : Int) (dl : Option Nat) : KS × ROut :=
      let n := cur + by_
      let dl' := match pxOf ttl with
        | some ms => if n = 1 then some (t.now + ms) else dl      -- the TTL is applied iff the result is 1
        | none => dl
      (t.put k ⟨.str (.num n), dl'⟩, .int n)
    match t.find k with
    | none => upd 0 none
    | some ⟨.str (.num i), dl⟩ => upd i dl
    | some _ => (t, failOut cfg .none_)
  | .delete k => (t.del k, .bool (t.present k))
  | .deleteMany ks => if ks.isEmpty then (t, failOut cfg .none_) else (t.delMany ks, .none_)
  | .expire k ms =>
    match t.find k with
    | none => (t, .none_)
    | some e => if ms = 0 then (t.del k, .none_) else (t.put k { e with dl := some (t.now + ms) }, .none_)
  | .getExpire k =>
    match t.find k with
    | none => (t, .int (-2))
    | some e => match e.dl with
      | none => (t, .int (-1))
      | some d => (t, .int (((d - t.now + 500) / 1000 : Nat)))
  | .clear => (t.flush, .none_)
  | .keysCount => (t, .int (t.dom.filter t.present).length)
  | .scan pat count => if count = 0 then (t, failOut cfg (.keys [])) else (t, .keys (matching t pat))
  | .getMatch pat count =>
    if count = 0 then (t, failOut cfg (.pairs []))
    else (t, .pairs ((matching t pat).filterMap fun k => (strValue cfg t k).map fun v => (k, v)))
  | .deleteMatch pat =>
    if pat.toList.contains '*' then (t.delMany (matching t pat), .none_) else (t.del pat, .none_)
  | .setLock k tok ms =>
    if t.present k then (t, .bool false)
    else (t.put k ⟨.str tok, (pxOf (some ms)).map (t.now + ·)⟩, .bool true)   -- write-if-absent with a lease (`ms = 0`: without one)
  | .unlock k tok =>
    match t.find k with
    | none => (t, .int 0)
    | some ⟨.str b, _⟩ => if b = tok then (t.del k, .int 1) else (t, .int 0)   -- delete iff owner
    | some _ => (t, failOut cfg .none_)
  | .isLocked k => (t, .bool (t.present k))
  | .setAdd k ms ttl =>
    let r := prim t (.sadd k ms)
    match ttl with
    | none => (r.1, if r.2 = .err then failOut cfg .none_ else .none_)
    | some ms' =>
      let t2 := (prim r.1 (.pexpire k ms')).1
      (t2, if r.2 = .err then failOut cfg .none_ else .none_)
  | .setRemove k ms =>
    let r := prim t (.srem k ms)
    (r.1, if r.2 = .err then failOut cfg .none_ else .none_)
  | .setPop k count =>
    let r := prim t (.spop k count)
    match r.2 with
    | .strs l => (r.1, .keys l)
    | _ => (r.1, failOut cfg (.keys []))
  | .getBits k idx size =>
    let r := prim t (.bitfield k (idx.map fun i => .get size i))
    match r.2 with
    | .ints l => (r.1, .ints l)
    | _ => (r.1, failOut cfg (.ints []))
  | .incrBits k idx size by_ =>
    -- every counter saturates
    let r := prim t (.bitfield k (incrBitsOps idx size by_))
    match r.2 with
    | .ints l => (r.1, .ints l)
    | _ => (r.1, failOut cfg (.ints []))
  | .sliceIncr k start stop maxv ttl =>
    match Srv.scoreOf start, Srv.scoreOf stop with
    | some a, some b =>
      match t.find k with
      | none => if (0 : Int) < maxv then
          (t.put k ⟨.zset [b], if ttl.getD 0 > 0 then some (t.now + ttl.getD 0) else none⟩, .int 1) else (t, .int 0)
      | some ⟨.zset old, dl⟩ => ((slide t k old dl a b maxv (ttl.getD 0)).1, .int (slide t k old dl a b maxv (ttl.getD 0)).2)
      | some _ => (t, failOut cfg .none_)
    | _, _ => (t, failOut cfg .none_)
  | .ping => (t, .pong)
  | .adv dt => (t.adv dt, .none_)

/-- what a command answers when the server cannot be reached and errors are suppressed:
reads give the default (an empty result; `get_expire` gives 0), writes report failure (`False` / `None`);
only `ping` raises -/
def failureValue : ROp → ROut
  | .set _ _ _ _ => .bool false
  | .setMany _ _ => .none_
  | .get _ => .val none
  | .getMany ks => .vals (ks.map fun _ => none)
  | .exists_ _ => .bool false
  | .incr _ _ _ => .none_
  | .delete _ => .bool false
  | .deleteMany _ => .none_
  | .expire _ _ => .none_
  | .getExpire _ => .int 0
  | .clear => .none_
  | .keysCount => .none_
  | .scan _ _ => .keys []
  | .getMatch _ _ => .pairs []
  | .deleteMatch _ => .none_
  | .setLock _ _ _ => .bool false
  | .unlock _ _ => .none_
  | .isLocked _ => .bool false
  | .setAdd _ _ _ => .none_
  | .setRemove _ _ => .none_
  | .setPop _ _ => .keys []
  | .getBits _ _ _ => .ints []
  | .incrBits _ _ _ _ => .ints []
  | .sliceIncr _ _ _ _ _ => .none_
  | .ping => .raise
  | .adv _ => .none_

def run (cfg : Cfg) (t : KS) : List ROp → KS × List ROut
  | [] => (t, [])
  | op :: ops =>
    ((run cfg (step cfg t op).1 ops).1, (step cfg t op).2 :: (run cfg (step cfg t op).1 ops).2)

end Ref
end CashewsVerif.Redis
