/-
Spec of C13: the glob language in which `*` is the only wildcard.

`glob pat key` — the pattern, read as literal text in which only `'*'` stands for any run of
characters (possibly empty, any characters at all), matches the whole key.  Structural
recursion on the pattern; nothing but `'*'` is special: `. + ( ) | ^ $ { }`, letters and
`':'` are all compared by equality.  Mathlib-free (the driver links against this).
-/
namespace CashewsVerif.Glob

/-- `p` holds of some suffix of `s` (the part of the key left after `'*'` swallowed a run) -/
def anySuffix (p : List Char → Bool) : List Char → Bool
  | [] => p []
  | c :: s => p (c :: s) || anySuffix p s

/-- the property's reading of a pattern -/
def glob : List Char → List Char → Bool
  | [], key => key.isEmpty
  | p :: ps, key =>
    if p = '*' then anySuffix (glob ps) key
    else match key with
      | [] => false
      | c :: key' => c == p && glob ps key'

end CashewsVerif.Glob
