import CashewsVerif.Model.Tx
import CashewsVerif.Spec.TtlMap
/-
Specification side of C03 / C04 (Mathlib-free, executable):

* `NoDeadlineCrossed` — the explicit, decidable proviso of both properties;
* `obs` — what C04 compares of a command's answer;
* `ATx` — the *abstract* transaction: backend and overlay are ideal `TtlMap`s, the backend is never
  written before commit, `commit` is defined point-wise.  `TxSt` (over `Mem`, with lock keys, in any
  mode) is proved to refine it; the simulation of direct execution is proved about `ATx`.
-/
namespace CashewsVerif

/-! ### the proviso -/

def Op.dt : Op → Nat
  | .adv dt => dt
  | _ => 0

/-- the TTL argument(s) a command carries -/
def Op.ttls : Op → List (Option Nat)
  | .set _ _ ttl _ => [ttl]
  | .setMany _ ttl => [ttl]
  | .incr _ _ ttl => [ttl]
  | .expire _ ttl => [ttl]
  | _ => []

/-- the instant at which a block that starts at `now` and runs `ops` ends -/
def endTime (now : Time) : List Op → Time
  | [] => now
  | op :: ops => endTime (now + op.dt) ops

/-- a deadline that is still ahead at `T` (or no deadline) -/
def dlAfter (T : Time) (dl : Option Time) : Bool :=
  match dl with
  | none => true
  | some d => decide (T < d)

/-- no deadline of the store lies in `(now, T]`: each is already past at `now` or still ahead at `T` -/
def storeStable (now T : Time) : Store → Bool
  | [] => true
  | (_, e) :: s =>
    (match e.dl with
     | none => true
     | some d => decide (d ≤ now) || decide (T < d)) && storeStable now T s

/-- every TTL a command of `ops` carries, counted from the instant the command runs, ends after `T` -/
def assignedOk (T : Time) : Time → List Op → Bool
  | _, [] => true
  | now, op :: ops =>
    op.ttls.all (fun ttl => dlAfter T (deadlineOf now ttl)) && assignedOk T (now + op.dt) ops

/-- **NoDeadlineCrossed** (DESIGN §7 C03/C04): time may advance inside the transaction, but no
deadline — of a store key, or assigned by a command of the transaction — is passed before the block
ends. -/
def NoDeadlineCrossed (b : Mem) (ops : List Op) : Bool :=
  let T := endTime b.now ops
  storeStable b.now T b.store && assignedOk T b.now ops

/-! ### what C04 observes of an answer -/

/-- full answer for get / get_many / exists / set (nx, xx) / incr; "is it missing?" for get_expire;
nothing for the commands whose return value the property does not speak about (`delete` always
answers True inside a transaction) -/
def obs (op : Op) (o : Out) : Out :=
  match op, o with
  | .getExpire _, .int n => .bool (n == -2)
  | .delete _, _ => .unit
  | _, o => o

def obsAll : List Op → List Out → List Out
  | op :: ops, o :: os => obs op o :: obsAll ops os
  | _, _ => []

/-- the commands C03 calls writes, plus passage of time -/
def Op.isWrite : Op → Bool
  | .set .. | .setMany .. | .incr .. | .delete .. | .deleteMany .. | .expire .. | .adv .. => true
  | _ => false

def writesOf (ops : List Op) : List Op := ops.filter Op.isWrite

/-- commands a transaction routes (everything but `clear`) -/
def Op.isTxOp : Op → Bool
  | .clear => false
  | _ => true

/-! ### the abstract transaction -/

structure ATx where
  b   : TtlMap
  ov  : TtlMap
  del : List Key

namespace ATx

def begin_ (b : TtlMap) : ATx := { b := b, ov := { now := b.now, m := fun _ => none }, del := [] }

/-- the transaction's view of a key -/
def view (a : ATx) (k : Key) : Option Entry :=
  if k ∈ a.del then none else (a.ov.find k).or (a.b.find k)

def present (a : ATx) (k : Key) : Bool :=
  (a.ov.find k).isSome || (decide (k ∉ a.del) && (a.b.find k).isSome)

def put (a : ATx) (k : Key) (v : Val) (ttl : Option Nat) : ATx :=
  { a with del := a.del.filter (· ≠ k), ov := a.ov.write k v ttl }

/-- `incr` first copies the store's value (or 0) into the overlay, without a deadline -/
def seed (a : ATx) (k : Key) : ATx :=
  if (a.ov.find k).isNone ∧ k ∉ a.del
  then { a with ov := a.ov.write k (((a.b.find k).map (·.val)).getD (.int 0)) none } else a

/-- one position of `get_many`: an overlay hit wins, else the store's answer unless pending delete -/
def getOne (a : ATx) (k : Key) : Option Val :=
  match a.ov.find k with
  | some e => some e.val
  | none => if k ∈ a.del then none else (a.b.find k).map (·.val)

def delete (a : ATx) (k : Key) : ATx := { a with ov := a.ov.remove k, del := k :: a.del }

def getExpire (a : ATx) (k : Key) : Int :=
  if k ∈ a.del then -2
  else
    let l := a.ov.getExpire k
    if l ≥ 0 then l
    else
      let be := a.b.getExpire k
      if be = -2 ∧ l = -1 then -1 else be

def step (a : ATx) : Op → ATx × Out
  | .set k v ttl c =>
    match c with
    | .always => (a.put k v ttl, .bool true)
    | .nx => if a.present k then (a, .bool false) else (a.put k v ttl, .bool true)
    | .xx => if a.present k then (a.put k v ttl, .bool true) else (a, .bool false)
  | .setMany kvs ttl =>
    (kvs.foldl (fun a kv => a.put kv.1 kv.2 ttl) a, .unit)
  | .get k => (a, .val (if k ∈ a.del then none else ((a.ov.find k).or (a.b.find k)).map (·.val)))
  | .getMany ks =>
    (a, .vals (ks.map a.getOne))
  | .exists_ k => (a, .bool (a.present k))
  | .incr k by_ ttl =>
    let a1 := a.seed k
    ({ a1 with ov := (a1.ov.incr k by_ ttl).1, del := a1.del.filter (· ≠ k) }, (a1.ov.incr k by_ ttl).2)
  | .delete k => (a.delete k, .bool true)
  | .deleteMany ks => (ks.foldl delete a, .unit)
  | .expire k ttl =>
    if k ∈ a.del then (a, .unit)
    else match a.ov.find k with
      | some e => ({ a with ov := a.ov.write k e.val ttl }, .unit)
      | none =>
        match a.b.find k with
        | none => (a, .unit)
        | some e => ({ a with ov := a.ov.write k e.val ttl }, .unit)
  | .getExpire k => (a, .int (a.getExpire k))
  | .clear => ({ a with del := [], ov := { a.ov with m := fun _ => none }, b := { a.b with m := fun _ => none } }, .unit)
  | .adv dt => ({ a with b := { a.b with now := a.b.now + dt }, ov := { a.ov with now := a.ov.now + dt } }, .unit)
  | .purge => (a, .unit)

def run (a : ATx) : List Op → ATx × List Out
  | [] => (a, [])
  | op :: ops =>
    let (a', o) := a.step op
    let (a'', os) := run a' ops
    (a'', o :: os)

/-- the store after commit, key by key: an overlay entry wins (keeping its own deadline; one written
without TTL inherits the deadline of the store's live entry unless that entry is being deleted), a
pending delete removes, anything else is untouched -/
def commitAt (a : ATx) (k : Key) : Option Entry :=
  match a.ov.find k with
  | some e =>
    some ⟨e.val, match e.dl with
      | some d => some d
      | none => if k ∈ a.del then none else (a.b.find k).bind (·.dl)⟩
  | none => if k ∈ a.del then none else a.b.find k

def commit (a : ATx) : TtlMap := { now := a.b.now, m := a.commitAt }

end ATx
end CashewsVerif
