import CashewsVerif.Model.Ttl
/-
What a duration string *means* (the README's `'1d2h3m50s'` notation), written without looking at
the parser or at the generated unit table: units d/h/m/s are worth 86400/3600/60/1 seconds and a
string of `<number><unit>` segments denotes the sum.  Mathlib-free.
-/
namespace CashewsVerif.Ttl

inductive U where
  | d | h | m | s
  deriving DecidableEq, Repr

def U.char : U → Char
  | .d => 'd' | .h => 'h' | .m => 'm' | .s => 's'

def U.secs : U → Nat
  | .d => 86400 | .h => 3600 | .m => 60 | .s => 1

/-- decimal rendering of a number, as `str(n)` / f-strings produce it -/
def digits (n : Nat) : List Char := Nat.toDigits 10 n

/-- `f"{n}{unit}"` for every segment, concatenated -/
def render (segs : List (Nat × U)) : List Char :=
  segs.flatMap fun p => digits p.1 ++ [p.2.char]

def total : List (Nat × U) → Nat
  | [] => 0
  | p :: ps => p.1 * p.2.secs + total ps

end CashewsVerif.Ttl
