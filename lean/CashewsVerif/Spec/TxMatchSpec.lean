import CashewsVerif.Model.TxMatch
import CashewsVerif.Spec.TxSpec
/-
Specification side of C03 / C04 for histories that contain PATTERN commands (`Model/TxMatch.lean`);
Mathlib-free, executable.  Extends `Spec/TxSpec.lean`:

* `TxCmd.timing`, `NoDeadlineCrossedC` — the proviso (a pattern command takes no time and assigns no TTL);
* `obsC`, `obsAllC` — what C04 compares of an answer (`scan` / `get_match`: what was yielded for each key of
  the key universe, whatever the order of the iteration);
* `writesOfC` — the commands C03 calls writes: now including `delete_match`;
* `TtlMap.removeMatch` — `delete_match` on the ideal map; `ATx.deleteMatchL` — on the abstract transaction.
-/
namespace CashewsVerif
open CashewsVerif.Glob

/-- a command as far as time and TTLs are concerned: a pattern command takes no time and carries no TTL,
like a read of no keys -/
def TxCmd.timing : TxCmd → Op
  | .op o => o
  | _ => .getMany []

/-- **NoDeadlineCrossed** for histories with pattern commands -/
def NoDeadlineCrossedC (b : Mem) (cmds : List TxCmd) : Bool := NoDeadlineCrossed b (cmds.map TxCmd.timing)

/-- the instant at which a block that starts at `now` and runs `cmds` ends -/
def endTimeC (now : Time) (cmds : List TxCmd) : Time := endTime now (cmds.map TxCmd.timing)

/-- the commands C03 calls writes (plus passage of time): `delete_match` is one of them -/
def TxCmd.isWrite : TxCmd → Bool
  | .op o => o.isWrite
  | .deleteMatch _ => true
  | _ => false

def writesOfC (cmds : List TxCmd) : List TxCmd := cmds.filter TxCmd.isWrite

/-- What C04 observes of an answer.  Regular commands: `obs`.  `scan`: which keys of the universe `K` were
yielded.  `get_match`: for each key of `K`, the (first) pair yielded for it.  (The order of an iteration over
two stores is not part of the property; that nothing is yielded twice is C13's `tx_scan_same`.) -/
def obsC (K : List Key) : TxCmd → COut → COut
  | .op o, .out r => .out (obs o r)
  | .scan _, .keys ks => .keys (K.filter fun k => ks.contains k)
  | .getMatch _, .pairs kvs => .pairs (K.filterMap fun k => kvs.find? (·.1 == k))
  | _, o => o

def obsAllC (K : List Key) : List TxCmd → List COut → List COut
  | c :: cs, o :: os => obsC K c o :: obsAllC K cs os
  | _, _ => []

namespace TtlMap

/-- `delete_match` on the ideal map: every key whose name the pattern matches is gone -/
def removeMatch (name : Nat → List Char) (t : TtlMap) (pat : List Char) : TtlMap :=
  { t with m := fun k => if glob pat (name k) then none else t.m k }

/-- direct execution on the ideal map (state only) -/
def stepC (name : Nat → List Char) (t : TtlMap) : TxCmd → TtlMap
  | .op o => (t.step o).1
  | .deleteMatch pat => t.removeMatch name pat
  | _ => t

def runC (name : Nat → List Char) (t : TtlMap) : List TxCmd → TtlMap
  | [] => t
  | c :: cs => runC name (t.stepC name c) cs

end TtlMap

/-- `delete_match` on the abstract transaction: matching overlay entries are dropped and the scanned store keys
`ks` become pending deletes.  `ks` is the list the backend's `scan` yielded; the theorems only use that it
holds exactly the live matching keys of the store. -/
def ATx.deleteMatchL (name : Nat → List Char) (a : ATx) (pat : List Char) (ks : List Key) : ATx :=
  { a with ov := a.ov.removeMatch name pat, del := ks.reverse ++ a.del }

end CashewsVerif
