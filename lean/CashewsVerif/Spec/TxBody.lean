import CashewsVerif.Model.TxSched
/-
C05 spec — what a transaction body *means*, with no scheduling, locking, sleeping or parking in sight:
a fold over the body's commands that buffers writes, given the values its read-through backend reads
returned (`reads`).  `own_writes_only` states that, under every schedule, what a task's steps did to the
store and what its caller got are exactly what this fold says.
-/
namespace CashewsVerif.TxSched

structure BodySt where
  ov : AL := []
  del : List Nat := []
  results : List (Option Int) := []

inductive BodyRes where
  | normal (s : BodySt) (unused : List (Option Int))   -- ran to its end; reads left over
  | raised                                             -- the body raised its own exception
  | starved                                            -- needed a backend read that never happened

def setxSpec (s : BodySt) (k : Nat) (v : Int) (e p : Bool) : BodySt :=
  if p = e then { s with ov := s.ov.put k v, del := s.del.filter (· ≠ k), results := s.results ++ [some 1] }
  else { s with results := s.results ++ [some 0] }

def specBody : List Cmd → List (Option Int) → BodySt → BodyRes
  | [], rd, s => .normal s rd
  | .set k v :: r, rd, s => specBody r rd { s with ov := s.ov.put k v, del := s.del.filter (· ≠ k) }
  | .incr k n :: r, rd, s =>
    match s.ov.get k with
    | some v => specBody r rd { s with ov := s.ov.put k (v + n), results := s.results ++ [some (v + n)] }
    | none =>
      if k ∈ s.del then
        specBody r rd { s with ov := s.ov.put k n, del := s.del.filter (· ≠ k), results := s.results ++ [some n] }
      else
        match rd with
        | [] => .starved
        | x :: rd' =>
          specBody r rd' { s with ov := s.ov.put k (x.getD 0 + n), results := s.results ++ [some (x.getD 0 + n)] }
  | .get k :: r, rd, s =>
    if k ∈ s.del then specBody r rd { s with results := s.results ++ [none] }
    else match s.ov.get k with
      | some v => specBody r rd { s with results := s.results ++ [some v] }
      | none =>
        match rd with
        | [] => .starved
        | x :: rd' => specBody r rd' { s with results := s.results ++ [x] }
  | .delete k :: r, rd, s => specBody r rd { s with ov := s.ov.erase k, del := k :: s.del.filter (· ≠ k) }
  | .expire k :: r, rd, s =>
    -- re-time `k`: nothing if it is deleted or already buffered (same value); else buffer what the backend holds, if anything
    if k ∈ s.del then specBody r rd s
    else match s.ov.get k with
      | some _ => specBody r rd s
      | none =>
        match rd with
        | [] => .starved
        | none :: rd' => specBody r rd' s
        | some v :: rd' => specBody r rd' { s with ov := s.ov.put k v }
  | .setx k v e :: r, rd, s =>
    -- set only if present (`e`) / only if absent: presence is the buffer's, else the deletion mark's, else the backend's
    match s.ov.get k with
    | some _ => specBody r rd (setxSpec s k v e true)
    | none =>
      if k ∈ s.del then specBody r rd (setxSpec s k v e false)
      else match rd with
        | [] => .starved
        | x :: rd' => specBody r rd' (setxSpec s k v e x.isSome)
  | .sleep _ :: r, rd, s => specBody r rd s
  | .raise :: _, _, _ => .raised
  | .nestIn _ :: r, rd, s => specBody r rd s
  | .nestOut :: r, rd, s => specBody r rd s

/-- the backend commands of a commit, for a final body state -/
def commitMuts (s : BodySt) : List Mut :=
  (if s.del ≠ [] then [Mut.delMany s.del] else []) ++ (if s.ov ≠ [] then [Mut.setMany s.ov] else [])

end CashewsVerif.TxSched
