import CashewsVerif.Model.TxSched
/-
C05 spec — what a transaction body *means*, with no scheduling, locking, sleeping or parking in sight:
a fold over the body's commands that buffers writes, given the values its read-through backend reads
returned (`reads`).  `own_writes_only` states that, under every schedule, what a task's steps did to the
store and what its caller got are exactly what this fold says.
-/
namespace CashewsVerif.TxSched

structure BodySt where
  ov : AL := []                     -- buffered writes of the segment that is open (since the last explicit commit / rollback)
  del : List Nat := []              -- buffered deletions of the open segment
  results : List (Option Int) := []
  done : List Mut := []             -- the store mutations of the explicit `tx.commit()`s so far, in order
  pend : List (Nat × Int) := []     -- the increments `(k, n)` issued in the open segment
  cinc : List (Nat × Int) := []     -- the increments of the segments ended by an explicit `tx.commit()`

inductive BodyRes where
  | normal (s : BodySt) (unused : List (Option Int))   -- ran to its end; reads left over
  | raised                                             -- the body raised its own exception
  | starved                                            -- needed a backend read that never happened

def setxSpec (s : BodySt) (k : Nat) (v : Int) (e p : Bool) : BodySt :=
  if p = e then { s with ov := s.ov.put k v, del := s.del.filter (· ≠ k), results := s.results ++ [some 1] }
  else { s with results := s.results ++ [some 0] }

/-- (with explicit `commit` / `rollback` commands a body is a sequence of *segments*; `done` / `cinc` collect what the
explicitly committed segments did, `ov` / `del` / `pend` describe the open one, which the end of the block commits iff
the body returns) -/
def specBody : List Cmd → List (Option Int) → BodySt → BodyRes
  | [], rd, s => .normal s rd
  | .set k v :: r, rd, s => specBody r rd { s with ov := s.ov.put k v, del := s.del.filter (· ≠ k) }
  | .incr k n :: r, rd, s =>
    match s.ov.get k with
    | some v => specBody r rd { s with ov := s.ov.put k (v + n), results := s.results ++ [some (v + n)], pend := s.pend ++ [(k, n)] }
    | none =>
      if k ∈ s.del then
        specBody r rd { s with ov := s.ov.put k n, del := s.del.filter (· ≠ k), results := s.results ++ [some n],
                               pend := s.pend ++ [(k, n)] }
      else
        match rd with
        | [] => .starved
        | x :: rd' =>
          specBody r rd' { s with ov := s.ov.put k (x.getD 0 + n), results := s.results ++ [some (x.getD 0 + n)],
                                  pend := s.pend ++ [(k, n)] }
  | .get k :: r, rd, s =>
    if k ∈ s.del then specBody r rd { s with results := s.results ++ [none] }
    else match s.ov.get k with
      | some v => specBody r rd { s with results := s.results ++ [some v] }
      | none =>
        match rd with
        | [] => .starved
        | x :: rd' => specBody r rd' { s with results := s.results ++ [x] }
  | .delete k :: r, rd, s => specBody r rd { s with ov := s.ov.erase k, del := k :: s.del.filter (· ≠ k) }
  | .expire k :: r, rd, s =>
    -- re-time `k`: nothing if it is deleted or already buffered (same value); else buffer what the backend holds, if anything
    if k ∈ s.del then specBody r rd s
    else match s.ov.get k with
      | some _ => specBody r rd s
      | none =>
        match rd with
        | [] => .starved
        | none :: rd' => specBody r rd' s
        | some v :: rd' => specBody r rd' { s with ov := s.ov.put k v }
  | .setx k v e :: r, rd, s =>
    -- set only if present (`e`) / only if absent: presence is the buffer's, else the deletion mark's, else the backend's
    match s.ov.get k with
    | some _ => specBody r rd (setxSpec s k v e true)
    | none =>
      if k ∈ s.del then specBody r rd (setxSpec s k v e false)
      else match rd with
        | [] => .starved
        | x :: rd' => specBody r rd' (setxSpec s k v e x.isSome)
  | .sleep _ :: r, rd, s => specBody r rd s
  | .raise _ :: _, _, _ => .raised
  | .nestIn _ :: r, rd, s => specBody r rd s
  | .nestOut _ :: r, rd, s => specBody r rd s   -- also when an exception left the inner block and was caught outside it
  | .commit :: r, rd, s =>
    -- explicit `tx.commit()`: the open segment's write-set goes to the store, a new (empty) segment begins
    specBody r rd { s with done := s.done ++ commitMutsOf s.ov s.del, ov := [], del := [],
                           cinc := s.cinc ++ s.pend, pend := [] }
  | .rollback :: r, rd, s =>
    -- explicit `tx.rollback()`: the open segment is dropped
    specBody r rd { s with ov := [], del := [], pend := [] }

/-- the backend commands of the commit of the segment that is open in body state `s` -/
def commitMuts (s : BodySt) : List Mut := commitMutsOf s.ov s.del

end CashewsVerif.TxSched
