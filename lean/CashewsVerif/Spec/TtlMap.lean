import CashewsVerif.Model.Basic
/-
The ideal TTL map of C01: a key holds its last written value until it is deleted or its
deadline passes.  Eager semantics: `find` never shows an entry at or after its deadline.
This is the specification every higher-level model is written against.
-/
namespace CashewsVerif

structure TtlMap where
  now : Time
  m   : Key → Option Entry

namespace TtlMap

def init : TtlMap := { now := 0, m := fun _ => none }

def find (t : TtlMap) (k : Key) : Option Entry :=
  match t.m k with
  | some e => if e.live t.now then some e else none
  | none => none

/-- A write. With a TTL the key gets that deadline; without one it keeps the deadline of a
present key (cashews' documented inheritance) and has none otherwise. -/
def write (t : TtlMap) (k : Key) (v : Val) (ttl : Option Nat) : TtlMap :=
  let dl := match deadlineOf t.now ttl with
    | some d => some d
    | none => (t.find k).bind (·.dl)
  { t with m := fun k' => if k' = k then some ⟨v, dl⟩ else t.m k' }

def remove (t : TtlMap) (k : Key) : TtlMap :=
  { t with m := fun k' => if k' = k then none else t.m k' }

def getExpire (t : TtlMap) (k : Key) : Int :=
  match t.find k with
  | none => -2
  | some e => match e.dl with
    | none => -1
    | some d => roundTicks (d - t.now)

def incr (t : TtlMap) (k : Key) (by_ : Int) (ttl : Option Nat) : TtlMap × Out :=
  let cur : Option Int := match t.find k with
    | none => some 0
    | some e => e.val.toInt?
  match cur with
  | none => (t, .err)
  | some c =>
    let n := c + by_
    (t.write k (.int n) (if n = 1 then ttl else none), .int n)

def step (t : TtlMap) : Op → TtlMap × Out
  | .set k v ttl c =>
    let present := (t.find k).isSome
    match c with
    | .always => (t.write k v ttl, .bool true)
    | .nx => if present then (t, .bool false) else (t.write k v ttl, .bool true)
    | .xx => if present then (t.write k v ttl, .bool true) else (t, .bool false)
  | .setMany kvs ttl => (kvs.foldl (fun t kv => t.write kv.1 kv.2 ttl) t, .unit)
  | .get k => (t, .val ((t.find k).map (·.val)))
  | .getMany ks => (t, .vals (ks.map fun k => (t.find k).map (·.val)))
  | .exists_ k => (t, .bool (t.find k).isSome)
  | .incr k by_ ttl => t.incr k by_ ttl
  | .delete k => (t.remove k, .bool (t.find k).isSome)
  | .deleteMany ks => (ks.foldl remove t, .unit)
  | .expire k ttl =>
    match t.find k with
    | none => (t, .unit)
    | some e => (t.write k e.val ttl, .unit)
  | .getExpire k => (t, .int (t.getExpire k))
  | .clear => ({ t with m := fun _ => none }, .unit)
  | .adv dt => ({ t with now := t.now + dt }, .unit)
  | .purge => (t, .unit)

/-- run a history, collecting outputs -/
def run (t : TtlMap) : List Op → TtlMap × List Out
  | [] => (t, [])
  | op :: ops =>
    let (t', o) := t.step op
    let (t'', os) := run t' ops
    (t'', o :: os)

end TtlMap
end CashewsVerif
