import CashewsVerif.Model.Bits
/-
C18 — the property statement for bit fields, as an executable ideal object: an *array of
independent saturating counters of width `w`*.  A state is a total function field ↦ value;
never-written fields read 0; incrementing field `i` changes only field `i`; the value saturates
within `[0, 2^w - 1]`.  Mathlib-free.  (Only the command vocabulary `Op` is shared with the model.)
-/
namespace CashewsVerif.Counters

/-- saturating addition within `[0, 2^w - 1]` -/
def satAdd (w : Nat) (x : Nat) (by_ : Int) : Nat :=
  (min (max 0 ((x : Int) + by_)) ((2 : Int) ^ w - 1)).toNat

/-- the never-written array -/
def init : Nat → Nat := fun _ => 0

/-- increment one counter -/
def incr (c : Nat → Nat) (w i : Nat) (by_ : Int) : Nat → Nat :=
  fun j => if i = j then satAdd w (c i) by_ else c j

/-- `get_bits`: read the listed counters -/
def getMany (c : Nat → Nat) (idxs : List Nat) : List Nat := idxs.map c

/-- `incr_bits`: increment the listed counters one after the other (an index listed twice is
incremented twice) and report each counter right after its increment -/
def incrMany (c : Nat → Nat) (w : Nat) (idxs : List Nat) (by_ : Int) : (Nat → Nat) × List Nat :=
  idxs.foldl (fun (s : (Nat → Nat) × List Nat) i =>
    let c' := incr s.1 w i by_
    (c', s.2 ++ [c' i])) (c, [])

open CashewsVerif.Bits (Op)

def step (w : Nat) (c : Nat → Nat) : Op → (Nat → Nat) × List Nat
  | .getBits idxs => (c, getMany c idxs)
  | .incrBits idxs by_ => incrMany c w idxs by_

/-- all answers of a history, in order -/
def run (w : Nat) (c : Nat → Nat) : List Op → List (List Nat)
  | [] => []
  | op :: rest => let r := step w c op; r.2 :: run w r.1 rest

/-! ## the counter array of a key with a lifetime

The ideal object for a bit-field key in a TTL store, with *eager* expiry: the array exists
(`live`) from its first increment until it is deleted or its deadline passes; at that instant it
is the never-written array again (all counters 0, no deadline) — whether or not anything looked at
the key in between. -/

structure TCounters where
  now  : Nat
  c    : Nat → Nat
  dl   : Option Nat
  live : Bool

def fresh (now : Nat) : TCounters := ⟨now, init, none, false⟩

open CashewsVerif.Bits (TOp b2l)

def tstep (w : Nat) (t : TCounters) : TOp → TCounters × List Nat
  | .getBits idxs => (t, getMany t.c idxs)
  | .incrBits idxs by_ =>
    let r := incrMany t.c w idxs by_
    ({ t with c := r.1, live := true }, r.2)
  | .expire ttl =>
    (if t.live && ttl != 0 then { t with dl := some (t.now + ttl) } else t, [])
  | .delete => (fresh t.now, b2l t.live)
  | .touch => (t, b2l t.live)
  | .adv dt =>
    let now' := t.now + dt
    match t.dl with
    | none => ({ t with now := now' }, [])
    | some d => (if d ≤ now' then fresh now' else { t with now := now' }, [])

def trun (w : Nat) (t : TCounters) : List TOp → List (List Nat)
  | [] => []
  | op :: rest => let r := tstep w t op; r.2 :: trun w r.1 rest

/-! ## several keys: each key its own eagerly expiring counter array; a copy copies the VALUE -/

abbrev MCounters := Nat → TCounters

def MCounters.set (m : MCounters) (k : Nat) (t : TCounters) : MCounters := fun k' => if k' = k then t else m k'

open CashewsVerif.Bits (MOp)

/-- `copy src dst ttl`: when `src` holds an array, `dst` holds the same counter values from now on
(its own array: later commands on one key do not show on the other), with the new deadline or the
one `dst` had -/
def mstep (w : Nat) (m : MCounters) : MOp → MCounters × List Nat
  | .on k op => let r := tstep w (m k) op; (m.set k r.1, r.2)
  | .adv dt => (fun k => (tstep w (m k) (.adv dt)).1, [])
  | .copy src dst ttl =>
    if (m src).live then
      let d := m dst
      (m.set dst { d with c := (m src).c, live := true, dl := if ttl ≠ 0 then some (d.now + ttl) else d.dl }, b2l true)
    else (m, b2l false)

def mrun (w : Nat) (m : MCounters) : List MOp → List (List Nat)
  | [] => []
  | op :: rest => let r := mstep w m op; r.2 :: mrun w r.1 rest

end CashewsVerif.Counters
