import CashewsVerif.Model.Bits
/-
C18 — the property statement for bit fields, as an executable ideal object: an *array of
independent saturating counters of width `w`*.  A state is a total function field ↦ value;
never-written fields read 0; incrementing field `i` changes only field `i`; the value saturates
within `[0, 2^w - 1]`.  Mathlib-free.  (Only the command vocabulary `Op` is shared with the model.)
-/
namespace CashewsVerif.Counters

/-- saturating addition within `[0, 2^w - 1]` -/
def satAdd (w : Nat) (x : Nat) (by_ : Int) : Nat :=
  (min (max 0 ((x : Int) + by_)) ((2 : Int) ^ w - 1)).toNat

/-- the never-written array -/
def init : Nat → Nat := fun _ => 0

/-- increment one counter -/
def incr (c : Nat → Nat) (w i : Nat) (by_ : Int) : Nat → Nat :=
  fun j => if i = j then satAdd w (c i) by_ else c j

/-- `get_bits`: read the listed counters -/
def getMany (c : Nat → Nat) (idxs : List Nat) : List Nat := idxs.map c

/-- `incr_bits`: increment the listed counters one after the other (an index listed twice is
incremented twice) and report each counter right after its increment -/
def incrMany (c : Nat → Nat) (w : Nat) (idxs : List Nat) (by_ : Int) : (Nat → Nat) × List Nat :=
  idxs.foldl (fun (s : (Nat → Nat) × List Nat) i =>
    let c' := incr s.1 w i by_
    (c', s.2 ++ [c' i])) (c, [])

open CashewsVerif.Bits (Op)

def step (w : Nat) (c : Nat → Nat) : Op → (Nat → Nat) × List Nat
  | .getBits idxs => (c, getMany c idxs)
  | .incrBits idxs by_ => incrMany c w idxs by_

/-- all answers of a history, in order -/
def run (w : Nat) (c : Nat → Nat) : List Op → List (List Nat)
  | [] => []
  | op :: rest => let r := step w c op; r.2 :: run w r.1 rest

end CashewsVerif.Counters
