import CashewsVerif.Driver.Tx
import CashewsVerif.Model.TxDefault
/-
Reads with a caller-supplied default, on top of the C03 / C04 driver protocol (Driver/Tx.lean):

  get <k> d=<val>               `cache.get(k, default=<val>)`
  getmany <k> ... d=<val>       `cache.get_many(k, ..., default=<val>)`

`<val>` is a value of the alphabet (`i:<int>`, `t:<nat>`, `n`).  Without the last word the read uses the
harness's private sentinel and is answered by `TxDriver.step` as before (`-` = not there).  With it, the
state moves exactly as for the plain read and both answers (`tx=`, `direct=`) are passed through
`Out.withDefault` (Model/TxDefault.lean).  A `d=` on any other command, or an unparsable value, is `bad-op`.
-/
namespace CashewsVerif.TxDriver
open CashewsVerif CashewsVerif.Proto

/-- `d=<val>` -/
def parseDefault? (w : String) : Option Val :=
  match w.splitOn "=" with
  | ["d", v] => parseVal? v
  | _ => none

def stepD (s : St) (line : String) : St × String :=
  let ws := words line
  match ws.getLast? with
  | none => step s line
  | some w =>
    if !w.startsWith "d=" then step s line else
    match parseDefault? w, parseOp? ws.dropLast with
    | some d, some op =>
      if !op.takesDefault then (s, "bad-op") else
      if s.dis.contains (ws.headD "") then
        -- a disabled read hands the caller's default back for every key
        let o : Out := match op with
          | .getMany ks => .vals (ks.map fun _ => some d)
          | _ => .val (some d)
        (s, s!"tx={showOut o} direct={showOut o} " ++ views s)
      else
      let o := (s.ctx.step (.cmd op)).2
      let o' := (s.direct.step op).2
      let s' := (step s (" ".intercalate ws.dropLast)).1
      (s', s!"tx={showOut (o.withDefault d)} direct={showOut (o'.withDefault d)} " ++ views s')
    | _, _ => (s, "bad-op")

def runD : IO Unit :=
  mainLoop stepD { ctx := Ctx.init (Mem.init 1000) 80, direct := Mem.init 1000, b0 := Mem.init 1000, acc := [] }

end CashewsVerif.TxDriver
