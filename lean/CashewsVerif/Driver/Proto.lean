import CashewsVerif.Model.Basic
/-
Line-protocol helpers shared by the drivers: tokenising, parsing numbers / values / TTLs,
printing outputs canonically.  One request line in, one answer line out.
-/
namespace CashewsVerif.Proto

def words (line : String) : List String :=
  let ws := (line.splitOn " ").map fun w => (w.replace "\n" "").replace "\r" ""
  ws.filter (· ≠ "")

def parseInt? (s : String) : Option Int := s.toInt?
def parseNat? (s : String) : Option Nat := s.toNat?

/-- `-` = absent, otherwise a natural number (ticks) -/
def parseTtl? (s : String) : Option (Option Nat) :=
  if s = "-" then some none else s.toNat?.map some

/-- values: `i:<int>`, `t:<nat>`, `n` -/
def parseVal? (s : String) : Option Val :=
  if s = "n" then some .nil
  else match s.splitOn ":" with
    | ["i", x] => x.toInt?.map .int
    | ["t", x] => x.toNat?.map .tok
    | ["y", x] => x.toNat?.map fun n => .tok (1000 + n)   -- a Python bytes payload b"y<n>": opaque like a token
    | _ => none

def parseCond? (s : String) : Option Cond :=
  if s = "a" then some .always else if s = "nx" then some .nx else if s = "xx" then some .xx else none

def allSome {α} : List (Option α) → Option (List α)
  | [] => some []
  | none :: _ => none
  | some a :: r => (allSome r).map (a :: ·)

def showVal : Val → String
  | .int i => s!"i:{i}"
  | .tok n => if n ≥ 1000 then s!"y:{n - 1000}" else s!"t:{n}"
  | .nil => "n"
  | .keys ks => "k:" ++ "+".intercalate (ks.map toString)
  | .nums ns => "l:" ++ "+".intercalate (ns.map toString)

def showOptVal : Option Val → String
  | none => "-"
  | some v => showVal v

def showOut : Out → String
  | .unit => "U"
  | .bool true => "T"
  | .bool false => "F"
  | .val v => s!"v={showOptVal v}"
  | .vals vs => "vs=" ++ ",".intercalate (vs.map showOptVal)
  | .int i => s!"n={i}"
  | .err => "E"

/-- read stdin line by line, thread a state, print one answer per line -/
partial def loop {σ} (h : IO.FS.Stream) (out : IO.FS.Stream) (step : σ → String → σ × String) (s : σ) : IO Unit := do
  let line ← h.getLine
  if line.isEmpty then
    out.flush
    return ()
  let (s', o) := step s line
  out.putStrLn o
  loop h out step s'

def mainLoop {σ} (step : σ → String → σ × String) (init : σ) : IO Unit := do
  loop (← IO.getStdin) (← IO.getStdout) step init

end CashewsVerif.Proto
