import CashewsVerif.Driver.Proto
import CashewsVerif.Model.Serial
/-
Line protocol shared by the C09 and C10 drivers (stateless: one request line, one answer line).

Every line is `<op> k=v k=v …` with the fields
  sec=<-|hex|s:hex|b:hex|o>   the configured secret as it reaches `HashSigner.__init__`: `-` = none (NullSigner);
                         `s:<hex>` (or bare `<hex>`) = a `str`, by its UTF-8 bytes; `b:<hex>` = `bytes`; `o` = neither (a number the
                         settings-url parser made).  The model applies `Serial.toBytes` (`_to_bytes`) to it
  dig=<md5|sha1|…>       the configured digest
  pk=<null|real>         NonPickler or a real pickler (whose verdicts are supplied on the line)
  reg=<e,e,…|->          the `register_type` calls made so far, OLDEST FIRST, each `e` = `<class>` or `<class>/<codec>`,
                         `<class>` = `<namehex>` (module-level class: `__qualname__ == __name__`) or `<namehex>.<qualnamehex>`:
                         the CLASS that was handed to `register_type`.  The registry consulted by this call is
                         `Registry.registerClasses Registry.empty` of them: the model derives the registry key with `Klass.tag`,
                         the same function it applies to the class of a value.  Codec: class `bytes` = identity codec; else
                         `/0` (or nothing) = box codec, `/1` = plain codec, `/2` = tolerant codec (below)
  key=<hex|!>            key.encode(); `!` = the key text cannot be encoded (UnicodeEncodeError: lone surrogate)
  mac=<label>:<msghex>:<machex>|-     the one MAC the harness computed (with the real hmac) for the model's query
  v= / w= / dumps=       values:  i:<int> | b:<hex> | o:<id>:<class> | x:<class>:<payloadhex>   (`<class>` of `type(value)`)
  loads=<ok:<val>|unp|attr|other|->   what the real `pickler.loads` did on the payload the model named
  same=<0|1>             `value is default`

ops:  labels | enc1 (→ MAC query) | enc2 (→ stored) | dec1 (→ MAC query) | dec2 (→ pre-loads decision) | dec3 (→ result)
Anything that does not parse is answered `bad-op`.
-/
namespace CashewsVerif.SerialDrv
open CashewsVerif.Serial

/-- objects other than int / bytes: an opaque Python object (identified by the harness' canonical-form
table) or an instance of a registered harness class `tag` holding `payload` -/
inductive Obj where
  | opaque (id : Nat) (klass : Klass)
  | boxed (klass : Klass) (payload : Bytes)
  deriving DecidableEq, Repr

def hexDigit? (c : Char) : Option Nat :=
  if '0' ≤ c ∧ c ≤ '9' then some (c.toNat - 48)
  else if 'a' ≤ c ∧ c ≤ 'f' then some (c.toNat - 87)
  else none

def hexList? : List Char → Option Bytes
  | [] => some []
  | [_] => none
  | a :: b :: r => do
    let x ← hexDigit? a
    let y ← hexDigit? b
    let t ← hexList? r
    pure ((x * 16 + y).toUInt8 :: t)

def hexToBytes? (s : String) : Option Bytes := hexList? s.toList

def hexOf (n : Nat) : Char := if n < 10 then Char.ofNat (48 + n) else Char.ofNat (87 + n)

def bytesToHex (b : Bytes) : String :=
  String.ofList (b.flatMap fun x => [hexOf (x.toNat / 16), hexOf (x.toNat % 16)])

/-- `<namehex>` (qualname = name) or `<namehex>.<qualnamehex>` -/
def parseKlass? (s : String) : Option Klass :=
  match s.splitOn "." with
  | [n] => do let b ← hexToBytes? n; pure ⟨b, b⟩
  | [n, q] => do pure ⟨← hexToBytes? n, ← hexToBytes? q⟩
  | _ => none

def showKlass (k : Klass) : String :=
  if k.qual = k.name then bytesToHex k.name else s!"{bytesToHex k.name}.{bytesToHex k.qual}"

def parseVal? (s : String) : Option (Serial.Val Obj) :=
  match s.splitOn ":" with
  | ["i", n] => n.toInt?.map .int
  | ["b", h] => (hexToBytes? h).map .bytes
  | ["o", id, k] => do pure (.obj (.opaque (← id.toNat?) (← parseKlass? k)))
  | ["x", k, p] => do pure (.obj (.boxed (← parseKlass? k) (← hexToBytes? p)))
  | _ => none

def showVal : Serial.Val Obj → String
  | .int i => s!"i:{i}"
  | .bytes b => s!"b:{bytesToHex b}"
  | .obj (.opaque id k) => s!"o:{id}:{showKlass k}"
  | .obj (.boxed k p) => s!"x:{showKlass k}:{bytesToHex p}"

def strBytes (s : String) : Bytes := s.toUTF8.toList

def showDigest (d : Digest) : String := String.fromUTF8! ⟨d.label.toArray⟩

/-- built-in registration `register_type(bytes, bytes_encoder, bytes_decoder)` -/
def bytesCodec : Codec Obj where
  enc := fun v => match v with
    | .bytes b => b
    | _ => []
  dec := fun b => some (.bytes b)

/-- the harness' registered classes: `enc(v) = b"+" + v.payload[::-1]`; the decoder raises `DecodeError`
unless the payload starts with `+`, else returns `cls(payload[1:][::-1])` where `cls` is the class that was handed to
`register_type` together with this pair (`tag` below) — not necessarily the class of the value that was encoded -/
def boxCodec (tag : Klass) : Codec Obj where
  enc := fun v => match v with
    | .obj (.boxed _ p) => 0x2b :: p.reverse
    | _ => []
  dec := fun q => match q with
    | 0x2b :: r => some (.obj (.boxed tag r.reverse))
    | _ => none

/-- second harness codec: `enc(v) = b"=" + v.payload`; the decoder raises `DecodeError` unless the payload starts
with `=` (so it rejects what `boxCodec` wrote) -/
def plainCodec (tag : Klass) : Codec Obj where
  enc := fun v => match v with
    | .obj (.boxed _ p) => 0x3d :: p
    | _ => []
  dec := fun q => match q with
    | 0x3d :: r => some (.obj (.boxed tag r))
    | _ => none

/-- third harness codec: writes like `plainCodec`, reads both formats -/
def tolerantCodec (tag : Klass) : Codec Obj where
  enc := fun v => match v with
    | .obj (.boxed _ p) => 0x3d :: p
    | _ => []
  dec := fun q => match q with
    | 0x3d :: r => some (.obj (.boxed tag r))
    | 0x2b :: r => some (.obj (.boxed tag r.reverse))
    | _ => none

/-- one entry of the `reg=` field: the class handed to `register_type` and the pair -/
def parseRegEntry? (e : String) : Option (Klass × Codec Obj) :=
  match e.splitOn "/" with
  | [h] => do
    let t ← parseKlass? h
    pure (t, if t = Klass.bytes then bytesCodec else boxCodec t)
  | [h, k] => do
    let t ← parseKlass? h
    if t = Klass.bytes then none
    else if k = "0" then pure (t, boxCodec t)
    else if k = "1" then pure (t, plainCodec t)
    else if k = "2" then pure (t, tolerantCodec t)
    else none
  | _ => none

abbrev Fields := List (String × String)

def parseFields (ws : List String) : Fields :=
  ws.filterMap fun w =>
    match w.splitOn "=" with
    | [k, v] => some (k, v)
    | _ => none

def Fields.get? (f : Fields) (k : String) : Option String := (f.find? (·.1 = k)).map (·.2)

structure MacEntry where
  d : Digest
  msg : Bytes
  mac : Bytes

def parseMac? (s : String) : Option (Option MacEntry) :=
  if s = "-" then some none
  else match s.splitOn ":" with
    | [lab, msg, mac] => do
      let d ← parseLabel (strBytes lab)
      pure (some { d := d, msg := ← hexToBytes? msg, mac := ← hexToBytes? mac })
    | _ => none

def parseLoads? (s : String) : Option (Loaded Obj) :=
  if s = "unp" then some .unpickling
  else if s = "attr" then some .attrError
  else if s = "other" then some .other
  else if s = "-" then some .other      -- never consulted (the model names no payload)
  else if s.startsWith "ok:" then (parseVal? (s.drop 3).toString).map .ok
  else none

/-- a byte string no MAC can be (not hex): the answer to a MAC query that is not in the table -/
def noMac : Bytes := [0x00]

structure Req where
  cfg : Cfg Obj
  /-- the class-level registry at the time of the call: the fold of the registrations announced on the line -/
  reg : Registry Obj
  /-- the same configuration whose MAC answers *every* query with the supplied value: if the two
  configurations disagree, the model asked for a MAC the driver did not announce -/
  cfgAny : Cfg Obj
  /-- `key.encode()`; `none` = it raises -/
  key : Option Bytes
  /-- `_to_bytes(secret)` is bytes -/
  secretOk : Bool
  f : Fields

def mkReq (f : Fields) : Option Req := do
  let sec ← f.get? "sec"
  let dig ← parseLabel (strBytes (← f.get? "dig"))
  let secArg : Option SecretArg ←
    if sec = "-" then pure none
    else if sec = "o" then pure (some .other)
    else if sec.startsWith "s:" then do pure (some (.str (← hexToBytes? (sec.drop 2).toString)))
    else if sec.startsWith "b:" then do pure (some (.bytes (← hexToBytes? (sec.drop 2).toString)))
    else do pure (some (.str (← hexToBytes? sec)))
  -- `get_serializer`: an empty secret is no secret (`Serial.signerOf`)
  let signer : Option Signer := signerOf secArg dig
  let secretOk : Bool := match secArg with
    | some a => (toBytes a).isSome
    | none => true
  let pk ← f.get? "pk"
  let regS ← f.get? "reg"
  let regs ← if regS = "-" then pure [] else Proto.allSome ((regS.splitOn ",").map parseRegEntry?)
  let keyS ← f.get? "key"
  let key : Option Bytes ← if keyS = "!" then pure none else (hexToBytes? keyS).map some
  let macE ← parseMac? ((f.get? "mac").getD "-")
  let dumps ← match f.get? "dumps" with
    | none => pure none
    | some "-" => pure none
    | some s => (parseVal? s).map some
  let loads ← parseLoads? ((f.get? "loads").getD "-")
  let pickler : Pickler Obj ←
    if pk = "null" then pure Pickler.null
    else if pk = "real" then pure { dumps := fun v => dumps.getD v, loads := fun _ => loads }
    else none
  let registry : Registry Obj := Registry.registerClasses Registry.empty regs
  let classOf : Obj → Klass := fun o => match o with
    | .opaque _ k => k
    | .boxed k _ => k
  let mac : Digest → Bytes → Bytes → Bytes := fun d _ m =>
    match macE with
    | some e => if e.d = d ∧ e.msg = m then e.mac else noMac
    | none => noMac
  let macAny : Digest → Bytes → Bytes → Bytes := fun _ _ _ =>
    match macE with
    | some e => e.mac
    | none => noMac
  let cfg : Cfg Obj := { mac := mac, signer := signer, pickler := pickler, classOf := classOf }
  pure { cfg := cfg, reg := registry, cfgAny := { cfg with mac := macAny }, key := key, secretOk := secretOk, f := f }

def showQuery : Option (Digest × Bytes) → String
  | none => "q=-"
  | some (d, m) => s!"q={showDigest d}:{bytesToHex m}"

/-- the MAC `encode` will ask for -/
def encQuery (cfg : Cfg Obj) (reg : Registry Obj) (key : Bytes) (v : Serial.Val Obj) : Option (Digest × Bytes) :=
  match v, cfg.signer with
  | .int _, _ => none
  | _, none => none
  | v, some s =>
    let payload := match customEncode cfg reg v with
      | some b => Serial.Val.bytes b
      | none => cfg.pickler.dumps v
    match payload with
    | .bytes p => some (s.digest, key ++ p)
    | _ => none

/-- the MAC `decode` will ask for -/
def decQuery (cfg : Cfg Obj) (key : Bytes) (w : Serial.Val Obj) (same : Bool) : Option (Digest × Bytes) :=
  if same then none
  else match w, cfg.signer with
    | .bytes b, some s =>
      if isIntLit b then none
      else match splitFirst us b with
        | none => none
        | some (hdr, p) =>
          match signAndDigest s hdr with
          | none => none
          | some (_, d) => some (d, key ++ p)
    | _, _ => none

def showPre : Pre Obj → String
  | .same => "same"
  | .pass v => s!"pass:{showVal v}"
  | .digit n => s!"digit:{n}"
  | .dflt => "dflt"
  | .unsecure => "unsecure"
  | .custom p => s!"custom:{bytesToHex p}"
  | .loads p => s!"loads:{bytesToHex p}"

def showRes : Res Obj → String
  | .value v => s!"value:{showVal v}"
  | .dflt => "dflt"
  | .unsecure => "unsecure"
  | .raised => "raised"

def showMacErr : MacErr → String
  | .key => "macerr:key"
  | .secret => "macerr:secret"

def showResK : ResK Obj → String
  | .res r => showRes r
  | .macError e => showMacErr e

/-- the MAC cannot be computed for this request: why -/
def macErr (r : Option Bytes) (secretOk : Bool) : Option MacErr :=
  match r, secretOk with
  | none, _ => some .key
  | some _, false => some .secret
  | some _, true => none

def parseSame? (f : Fields) : Option Bool :=
  match f.get? "same" with
  | some "1" => some true
  | some "0" => some false
  | none => some false
  | _ => none

def answer (op : String) (r : Req) : Option String := do
  match op with
  | "enc1" =>
    let v ← parseVal? (← r.f.get? "v")
    pure (match r.key, r.secretOk with
      | some kb, true => showQuery (encQuery r.cfg r.reg kb v)
      | _, _ => showQuery none)
  | "enc2" =>
    let v ← parseVal? (← r.f.get? "v")
    let a := encodeK r.cfg r.reg r.key r.secretOk v
    let b := encodeK r.cfgAny r.reg r.key r.secretOk v
    let miss := if a = b then 0 else 1
    pure (match a with
      | none => s!"stored=err miss={miss}"
      | some w => s!"stored={showVal w} miss={miss}")
  | "dec1" =>
    let w ← parseVal? (← r.f.get? "w")
    let same ← parseSame? r.f
    pure (match r.key, r.secretOk with
      | some kb, true => showQuery (decQuery r.cfg kb w same)
      | _, _ => showQuery none)
  | "dec2" =>
    let w ← parseVal? (← r.f.get? "w")
    let same ← parseSame? r.f
    match (if decodeUsesMac r.cfg w same then macErr r.key r.secretOk else none) with
    | some e => pure s!"pre={showMacErr e} miss=0"
    | none =>
      let a := preLoads r.cfg r.reg (r.key.getD []) w same
      let b := preLoads r.cfgAny r.reg (r.key.getD []) w same
      let miss := if a = b then 0 else 1
      pure s!"pre={showPre a} miss={miss}"
  | "dec3" =>
    let w ← parseVal? (← r.f.get? "w")
    let same ← parseSame? r.f
    let a := decodeK r.cfg r.reg r.key r.secretOk w same
    let b := decodeK r.cfgAny r.reg r.key r.secretOk w same
    let miss := if a = b then 0 else 1
    pure s!"res={showResK a} miss={miss}"
  | _ => none

def step (_ : Unit) (line : String) : Unit × String :=
  match Proto.words line with
  | ["labels"] => ((), "labels=" ++ ",".intercalate (Digest.all.map showDigest))
  | op :: rest =>
    match mkReq (parseFields rest) with
    | none => ((), "bad-op")
    | some r =>
      match answer op r with
      | none => ((), "bad-op")
      | some s => ((), s)
  | [] => ((), "bad-op")

end CashewsVerif.SerialDrv
