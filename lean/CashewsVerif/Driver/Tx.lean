import CashewsVerif.Driver.Proto
import CashewsVerif.Model.TxCtx
import CashewsVerif.Spec.TxSpec
import CashewsVerif.Spec.TxMatchSpec
import CashewsVerif.Model.TxGate
/-
Driver logic for C03 / C04 (executables: Drivers/C03.lean, Drivers/C04.lean).  One case = an initial store, then a task's events (blocks, commands, explicit
rollback / commit).  Every event is run on the transaction-context model (`Ctx`, the code's
behaviour) and every command also on a *direct* copy of the store (`Mem.step`, no transaction).

  case <cap> <timeout>          reset
  init <command>                apply to the backend and to the direct copy (building the initial store)
  enter fast|locked|serializable            a block on a context object of its own (`async with cache.transaction(m):`)
  enter fast|locked|serializable dec        the decorator form `@cache.transaction(m)` (a new object per call: same model event)
  enter fast|locked|serializable dec@<o>    the decorator form with the shared object <o> as the decorator (`@T[o]`): `__call__`
                                            builds a new object per call and does not touch `T[o]` — same model event
  enter fast|locked|serializable @<o>       a block on the shared context object number <o> (`async with T[o]:`)
  exit ok|exc|base|cancel       the block is left normally / by an `Exception` / by a `BaseException` that is not an
                                `Exception` / by `asyncio.CancelledError` delivered at a suspension point inside the body
  rollback | commitnow          explicit `tx.rollback()` / `tx.commit()` (anywhere in a body, commands may follow)
  <command>                     as in the C01 driver
  delmatch <pat>                `delete_match(pat)`   -- pattern commands (Model/TxMatch.lean), inside or outside a block;
  scan <pat>                    `scan(pat)`           -- <pat> travels as `x` + its code points in decimal joined by `.`
  getmatch <pat>                `get_match(pat)`      -- (`x107.42` = "k*", `x` = the empty pattern), as in Drivers/C13.lean

  out <command>                 a command of ANOTHER client (not in the task's transaction): applied to the backend store and to the direct
                                copy; accepted only while the running segment has issued no command yet (else `bad-op`)
  disable <word>... | enable <word>...   `cache.disable(Command.X, ...)` / `cache.enable(...)` (Model/TxGate.lean) for the commands named
                                by their protocol words (set setmany get getmany exists incr delete delmany expire getexpire delmatch
                                scan getmatch), anywhere in a program.  A command that is disabled when it is issued goes nowhere
                                (`TxSt.stepG` / `Mem.stepG` with the flag set) and is answered with its default: `N` (None) for
                                set / exists / incr / delete / getexpire, `U` for setmany / delmany / expire / delmatch, `v=-` /
                                `vs=-,...` (or the caller's default) for get / getmany, `ks=` / `kv=` for scan / getmatch.

Key names (`keyName`): the user keys 0, 2, 4 are "ka", "kb1", "kb2" (other even keys: "u<k>"); the reserved key 1 is
":serializable:lock" and the reserved key k + 3 is ":tx_lock:" ++ name of the user key k.
Answers of `scan`: `ks=<ids, ascending>` (`ks=` when nothing was yielded, `?dup` appended if a key was yielded twice);
of `get_match`: `kv=<id>=<val>;...` in ascending order of the ids.

Answers: `tx=<out> direct=<out> b=<backend live view> d=<direct live view>`; the lines that end a
transaction segment (outermost exit, explicit rollback / commit) add `ndc=T|F` — `NoDeadlineCrossed`
evaluated on the backend at the start of the segment and the commands of the segment.
Segments are syntactic: they start at the outermost `enter` and end at the matching `exit`.
At every segment end the views are printed first and then the direct copy is re-synchronised with
the backend, so every segment starts from `direct = backend`.
-/
namespace CashewsVerif.TxDriver
open CashewsVerif CashewsVerif.Proto

structure St where
  ctx    : Ctx
  direct : Mem
  b0     : Mem            -- backend when the current segment started
  acc    : List Op        -- commands of the current segment
  dis    : List String := []   -- protocol words of the commands that are disabled (`cache.disable`)

def parseKv? (s : String) : Option (Nat × Val) :=
  match s.splitOn "=" with
  | [k, v] => do let k ← k.toNat?; let v ← parseVal? v; pure (k, v)
  | _ => none

def parseOp? : List String → Option Op
  | ["set", k, v, ttl, c] => do
    pure (.set (← k.toNat?) (← parseVal? v) (← parseTtl? ttl) (← parseCond? c))
  | "setmany" :: ttl :: kvs => do
    pure (.setMany (← allSome (kvs.map parseKv?)) (← parseTtl? ttl))
  | ["get", k] => do pure (.get (← k.toNat?))
  | "getmany" :: ks => do pure (.getMany (← allSome (ks.map String.toNat?)))
  | ["exists", k] => do pure (.exists_ (← k.toNat?))
  | ["incr", k, b, ttl] => do pure (.incr (← k.toNat?) (← b.toInt?) (← parseTtl? ttl))
  | ["delete", k] => do pure (.delete (← k.toNat?))
  | "delmany" :: ks => do pure (.deleteMany (← allSome (ks.map String.toNat?)))
  | ["expire", k, ttl] => do pure (.expire (← k.toNat?) (← parseTtl? ttl))
  | ["getexpire", k] => do pure (.getExpire (← k.toNat?))
  | ["adv", dt] => do pure (.adv (← dt.toNat?))
  | ["purge"] => some .purge
  | _ => none

/-- the text of a model key (harness/txhist.py uses the same naming) -/
def keyName (k : Nat) : List Char :=
  if k = 0 then "ka".toList else if k = 2 then "kb1".toList else if k = 4 then "kb2".toList
  else if k = 1 then ":serializable:lock".toList
  else if k % 2 = 0 then ("u" ++ toString k).toList
  else if k = 3 then ":tx_lock:ka".toList else if k = 5 then ":tx_lock:kb1".toList else if k = 7 then ":tx_lock:kb2".toList
  else (":tx_lock:u" ++ toString (k - 3)).toList

/-- `x<code>.<code>...` -/
def decodeStr? (s : String) : Option (List Char) :=
  match s.toList with
  | 'x' :: rest =>
    if rest.isEmpty then some []
    else allSome (((String.ofList rest).splitOn ".").map fun w => w.toNat?.map Char.ofNat)
  | _ => none

def parseCmd? : List String → Option TxCmd
  | ["delmatch", p] => (decodeStr? p).map .deleteMatch
  | ["scan", p] => (decodeStr? p).map .scan
  | ["getmatch", p] => (decodeStr? p).map .getMatch
  | ws => (parseOp? ws).map .op

def insertNat (x : Nat) : List Nat → List Nat
  | [] => [x]
  | y :: ys => if x ≤ y then x :: y :: ys else y :: insertNat x ys

def insertPair (x : Nat × Option Val) : List (Nat × Option Val) → List (Nat × Option Val)
  | [] => [x]
  | y :: ys => if x.1 ≤ y.1 then x :: y :: ys else y :: insertPair x ys

def showCOut : COut → String
  | .out o => showOut o
  | .keys ks =>
    let sorted := ks.foldr insertNat []
    "ks=" ++ ",".intercalate (sorted.map toString) ++ (if ks.eraseDups.length = ks.length then "" else ",?dup")
  | .pairs kvs =>
    let sorted := kvs.foldr insertPair []
    "kv=" ++ ";".intercalate (sorted.map fun kv => s!"{kv.1}={showOptVal kv.2}")
      ++ (if (kvs.map (·.1)).eraseDups.length = kvs.length then "" else ";?dup")

/-- the protocol words a `disable` / `enable` line may name -/
def cmdWords : List String :=
  ["set", "setmany", "get", "getmany", "exists", "incr", "delete", "delmany", "expire", "getexpire", "delmatch", "scan", "getmatch"]

/-- what the middleware hands back for a disabled command (reads without a caller default) -/
def disabledAnswer (ws : List String) : String :=
  match ws with
  | "get" :: _ => "v=-"
  | "getmany" :: ks => "vs=" ++ ",".intercalate (ks.map fun _ => "-")
  | "scan" :: _ => "ks="
  | "getmatch" :: _ => "kv="
  | w :: _ => if w = "setmany" || w = "delmany" || w = "expire" || w = "delmatch" then "U" else "N"
  | [] => "N"

def parseMode? (s : String) : Option TxMode :=
  if s = "fast" then some .fast else if s = "locked" then some .locked
  else if s = "serializable" then some .serializable else none

def parseLeave? (s : String) : Option Leave :=
  if s = "ok" then some .ok else if s = "exc" then some .error else if s = "base" then some .base
  else if s = "cancel" then some .cancelled else if s = "falsy" then some .falsy else none

/-- insertion sort by key (tiny lists) -/
def insertKey (x : Nat × Entry) : List (Nat × Entry) → List (Nat × Entry)
  | [] => [x]
  | y :: ys => if x.1 ≤ y.1 then x :: y :: ys else y :: insertKey x ys

/-- live entries of a store, sorted by key; lock tokens (reserved keys) print as `L` -/
def showView (m : Mem) : String :=
  let live := m.store.filter (fun ke => ke.2.live m.now)
  let sorted := live.foldr insertKey []
  let one := fun (ke : Nat × Entry) =>
    let v := if reserved ke.1 then "L" else showVal ke.2.val
    let d := match ke.2.dl with | none => "-" | some d => toString d
    s!"{ke.1}:{v}:{d}"
  ",".intercalate (sorted.map one)

def views (s : St) : String := s!"b={showView s.ctx.st.b} d={showView s.direct}"

def showB (b : Bool) : String := if b then "T" else "F"

/-- close a segment: report the proviso, start the next segment at the current backend -/
def closeSeg (s : St) : St × String :=
  let ndc := NoDeadlineCrossed s.b0 s.acc
  ({ s with b0 := s.ctx.st.b, acc := [] }, s!"ndc={showB ndc}")

/-- `@<o>` -/
def parseObj? (w : String) : Option Nat :=
  if w.startsWith "@" then (w.drop 1).toNat? else none

/-- open a block: `x = none` an object of its own, `some o` the shared object `o` -/
def enterStep (s : St) (m : TxMode) (x : Option Nat) : St × String :=
  let wasIn := !s.ctx.frames.isEmpty
  let (c', o) := s.ctx.step (match x with | some ob => .enterObj ob m | none => .enter m)
  let s1 := { s with ctx := c' }
  let s' := if wasIn then s1 else { s1 with b0 := c'.st.b, acc := [] }
  (s', s!"tx={showOut o} " ++ views s')

def step (s : St) (line : String) : St × String :=
  match words line with
  | ["case", cap, timeout] =>
    match cap.toNat?, timeout.toNat? with
    | some c, some t =>
      ({ ctx := Ctx.init (Mem.init c) t, direct := Mem.init c, b0 := Mem.init c, acc := [] }, "ok")
    | _, _ => (s, "bad-op")
  | "init" :: ws =>
    match parseOp? ws with
    | none => (s, "bad-op")
    | some op =>
      if !s.ctx.frames.isEmpty then (s, "bad-op") else
      let (c', _) := s.ctx.step (.cmd op)
      let (d', _) := s.direct.step op
      let s' := { s with ctx := c', direct := d', b0 := c'.st.b }
      (s', "ok " ++ views s')
  | ["enter", m] =>
    match parseMode? m with
    | none => (s, "bad-op")
    | some m => enterStep s m none
  | ["enter", m, x] =>
    match parseMode? m with
    | none => (s, "bad-op")
    | some m =>
      if x = "dec" || (x.startsWith "dec@" && ((x.drop 4).toNat?).isSome) then enterStep s m none else
      match parseObj? x with
      | none => (s, "bad-op")
      | some o => enterStep s m (some o)
  | ["exit", how] =>
    match parseLeave? how with
    | none => (s, "bad-op")
    | some how =>
    let outer := s.ctx.frames.length = 1
    let (c', o) := s.ctx.step (.exit how)
    let s1 := { s with ctx := c' }
    if outer then
      let (s2, n) := closeSeg s1
      ({ s2 with direct := s2.ctx.st.b }, s!"tx={showOut o} {n} " ++ views s2)
    else (s1, s!"tx={showOut o} " ++ views s1)
  | ["rollback"] =>
    let (c', o) := s.ctx.step .rollback
    let (s2, n) := closeSeg { s with ctx := c' }
    ({ s2 with direct := s2.ctx.st.b }, s!"tx={showOut o} {n} " ++ views s2)
  | ["commitnow"] =>
    let (c', o) := s.ctx.step .commit
    let (s2, n) := closeSeg { s with ctx := c' }
    ({ s2 with direct := s2.ctx.st.b }, s!"tx={showOut o} {n} " ++ views s2)
  | "out" :: ws =>
    -- ANOTHER CLIENT's command (outside the task's transaction): straight to the backend store, and to the direct copy.
    -- Only where the running segment has buffered nothing yet (right after the outermost `enter`, `commitnow`, `rollback`).
    match parseOp? ws with
    | none => (s, "bad-op")
    | some op =>
      if !s.acc.isEmpty then (s, "bad-op") else
      if s.dis.contains (ws.headD "") then (s, s!"tx={disabledAnswer ws} direct={disabledAnswer ws} " ++ views s) else
      let (b', o) := s.ctx.st.b.step op
      let (d', o') := s.direct.step op
      let s' := { s with ctx := { s.ctx with st := { s.ctx.st with b := b' } }, direct := d', b0 := b' }
      (s', s!"tx={showOut o} direct={showOut o'} " ++ views s')
  | "disable" :: ws =>
    if ws.all cmdWords.contains then
      let s' := { s with dis := (s.dis ++ ws).eraseDups }
      (s', "ok " ++ views s')
    else (s, "bad-op")
  | "enable" :: ws =>
    if ws.all cmdWords.contains then
      let s' := { s with dis := s.dis.filter fun w => !ws.contains w }
      (s', "ok " ++ views s')
    else (s, "bad-op")
  | ws =>
    match parseCmd? ws with
    | none => (s, "bad-op")
    | some cmd =>
      if s.dis.contains (ws.headD "") then
        -- disabled when issued: `TxSt.stepG` / `Mem.stepG` with the flag set - nothing changes, the default comes back
        let c' := if s.ctx.inTx then { s.ctx with st := (s.ctx.st.stepG keyName (cmd, true)).1 } else s.ctx
        let s' := { s with ctx := c', direct := (s.direct.stepG keyName (cmd, true)).1 }
        (s', s!"tx={disabledAnswer ws} direct={disabledAnswer ws} " ++ views s')
      else
      -- a regular command `.op o` is `Ctx.step (.cmd o)` / `Mem.step o` (`Ctx.stepC`, `Mem.stepC` route it there)
      let (c', o) := s.ctx.stepC keyName cmd
      let (d', o') := s.direct.stepC keyName cmd
      let inBlock := !s.ctx.frames.isEmpty
      let s' := { s with ctx := c', direct := d', acc := if inBlock then s.acc ++ [cmd.timing] else s.acc,
                         b0 := if inBlock then s.b0 else c'.st.b }
      (s', s!"tx={showCOut o} direct={showCOut o'} " ++ views s')

def run : IO Unit :=
  mainLoop step { ctx := Ctx.init (Mem.init 1000) 80, direct := Mem.init 1000, b0 := Mem.init 1000, acc := [] }

end CashewsVerif.TxDriver
