import CashewsVerif.Spec.TtlMapMs
/-
Wire <-> model glue for the C19/C20 drivers: hex tokens, parsing of the wire-level command arrays
that the stub `redis` package forwards, rendering of model commands / replies / outputs.
-/
namespace CashewsVerif.Redis.Proto
open CashewsVerif CashewsVerif.Redis

def words (line : String) : List String :=
  let ws := (line.splitOn " ").map fun w => (w.replace "\n" "").replace "\r" ""
  ws.filter (· ≠ "")

def hexDigit (n : Nat) : Char := if n < 10 then Char.ofNat (48 + n) else Char.ofNat (87 + n)

/-- hex of the UTF-8 bytes of a text -/
def toHex (s : String) : String :=
  String.ofList (s.toUTF8.toList.foldr (fun b acc => hexDigit (b.toNat / 16) :: hexDigit (b.toNat % 16) :: acc) [])

def isHex (s : String) : Bool := s.length % 2 == 0 && s.toList.all fun c => c.isDigit || ('a' ≤ c && c ≤ 'f')

/-- the text of a hex token (bytes read as Latin-1; the harness only uses ASCII for keys) -/
def ofHex (h : String) : String := String.ofList (Srv.textOfHex h.toList)

/-- canonical decimal text of an integer: `0`, or an optional '-' followed by digits not starting with 0 -/
def canonInt? (s : String) : Option Int :=
  let cs := s.toList
  let body := match cs with | '-' :: r => r | r => r
  let neg := cs.head? == some '-'
  match body with
  | [] => none
  | ['0'] => if neg then none else some 0
  | c :: _ =>
    if c == '0' || !(body.all Char.isDigit) then none
    else
      let n : Nat := body.foldl (fun a d => a * 10 + (d.toNat - 48)) 0
      some (if neg then -(n : Int) else (n : Int))

/-- a byte string off the wire -/
def bytesOfHex (h : String) : Bytes :=
  match canonInt? (ofHex h) with
  | some i => .num i
  | none => .blob h

def bytesHex : Bytes → String
  | .num i => toHex (toString i)
  | .blob h => h

def natOfHex? (h : String) : Option Nat := (canonInt? (ofHex h)).bind fun i => if i < 0 then none else some i.toNat
def intOfHex? (h : String) : Option Int := canonInt? (ofHex h)

def allSome {α} : List (Option α) → Option (List α)
  | [] => some []
  | none :: _ => none
  | some a :: r => (allSome r).map (a :: ·)

/-! ### wire -> Cmd -/

def scriptOfSha? (sha : String) : Option Script :=
  [Script.unlock, .incrExpire, .incrSlice].find? fun s => s.sha == sha

def parseZBound? (t : String) : Option ZBound :=
  match t.toList with
  | '(' :: r => (Srv.parseDecimal? r).map .excl
  | r => (Srv.parseDecimal? r).map .incl

def parseFmt? (fmt off : String) : Option (Nat × Nat) :=
  match fmt.toList, off.toList with
  | 'u' :: n, '#' :: i => do
    let n ← (String.ofList n).toNat?
    let i ← (String.ofList i).toNat?
    if n == 0 || n > 63 then none else pure (n, i)
  | _, _ => none

def parseBf? : List String → Option (List BfOp)
  | [] => some []
  | "GET" :: fmt :: off :: r => do
    let (n, i) ← parseFmt? fmt off
    let rest ← parseBf? r
    pure (.get n i :: rest)
  | "INCRBY" :: fmt :: off :: b :: r => do
    let (n, i) ← parseFmt? fmt off
    let b ← canonInt? b
    let rest ← parseBf? r
    pure (.incrby n i b :: rest)
  | "OVERFLOW" :: m :: r => do
    let o ← if m == "SAT" then some Ovf.sat else if m == "WRAP" then some Ovf.wrap else none
    let rest ← parseBf? r
    pure (.overflow o :: rest)
  | _ => none

def parseSetOpts? : List String → Option (Option Nat × Cond)
  | [] => some (none, .always)
  | ["NX"] => some (none, .nx)
  | ["XX"] => some (none, .xx)
  | ["PX", ms] => do let n ← (canonInt? ms); if n < 0 then none else pure (some n.toNat, .always)
  | ["PX", ms, "NX"] => do let n ← (canonInt? ms); if n < 0 then none else pure (some n.toNat, .nx)
  | ["PX", ms, "XX"] => do let n ← (canonInt? ms); if n < 0 then none else pure (some n.toNat, .xx)
  | _ => none

def parseScanOpts? : List String → Option (Option String × Option Nat)
  | [] => some (none, none)
  | ["MATCH", p] => some (some p, none)
  | ["COUNT", n] => do let n ← (canonInt? n); if n < 0 then none else pure (none, some n.toNat)
  | ["MATCH", p, "COUNT", n] => do let n ← (canonInt? n); if n < 0 then none else pure (some p, some n.toNat)
  | _ => none

/-- tokens are hex, or `~` for a Python `None` argument -/
def parseWire? (toks : List String) : Option Cmd :=
  if toks.any (fun t => t != "~" && !isHex t) then none else
  let txt := toks.map fun t => if t == "~" then "~" else ofHex t
  match txt, toks with
  | "SET" :: k :: _ :: opts, _ :: _ :: v :: _ => do
    let (px, c) ← parseSetOpts? opts
    pure (.set k (bytesOfHex v) px c)
  | ["GET", k], _ => some (.get k)
  | "MGET" :: ks, _ => some (.mget ks)
  | "UNLINK" :: ks, _ => some (.unlink ks)
  | "DEL" :: ks, _ => some (.unlink ks)
  | "EXISTS" :: ks, _ => some (.exists_ ks)
  | ["PEXPIRE", k, ms], _ => do pure (.pexpire k (← canonInt? ms))
  | ["TTL", k], _ => some (.ttl k)
  | ["PTTL", k], _ => some (.pttl k)
  | ["INCRBY", k, b], _ => do pure (.incrby k (← canonInt? b))
  | "SCAN" :: cur :: opts, _ => do
    let c ← canonInt? cur
    if c < 0 then none else
    let (p, n) ← parseScanOpts? opts
    pure (.scan c.toNat p n)
  | ["FLUSHDB"], _ => some .flushdb
  | ["DBSIZE"], _ => some .dbsize
  | ["PING"], _ => some .ping
  | "SADD" :: k :: ms, _ => some (.sadd k ms)
  | "SREM" :: k :: ms, _ => some (.srem k ms)
  | ["SPOP", k, n], _ => do let n ← canonInt? n; if n < 0 then none else pure (.spop k n.toNat)
  | "BITFIELD" :: k :: ops, _ => do pure (.bitfield k (← parseBf? ops))
  | ["ZREMRANGEBYSCORE", k, lo, hi], _ => do pure (.zremrangebyscore k (← parseZBound? lo) (← parseZBound? hi))
  | ["ZCOUNT", k, lo, hi], _ => do pure (.zcount k (← parseZBound? lo) (← parseZBound? hi))
  | ["ZADD", k, sc, mem], _ => do
    let s ← Srv.parseDecimal? sc.toList
    if sc != mem then none else pure (.zadd k s)
  | ["SCRIPT", "LOAD", sha], _ => some (.scriptLoad (scriptOfSha? sha))    -- the stub sends the SHA1 of the text
  | "EVALSHA" :: sha :: nk :: key :: _, _ :: _ :: _ :: _ :: args =>
    if nk != "1" then none else
    if args.any (· == "~") then none else
    some (.evalsha (if sha == "~" then none else scriptOfSha? sha) key (args.map bytesOfHex))
  | _, _ => none

/-! ### Cmd -> wire (what the model says backend.py puts on the wire) -/

def showBound : ZBound → String
  | .incl x => toString x     -- never rendered by the backend model (script-internal)
  | .excl x => "(" ++ toString x

def bfToks : BfOp → List String
  | .get n i => ["GET", s!"u{n}", s!"#{i}"]
  | .incrby n i b => ["INCRBY", s!"u{n}", s!"#{i}", toString b]
  | .overflow .sat => ["OVERFLOW", "SAT"]
  | .overflow .wrap => ["OVERFLOW", "WRAP"]

def hx (l : List String) : List String := l.map toHex

def cmdToks : Cmd → List String
  | .set k v px c =>
    hx ["SET", k] ++ [bytesHex v]
      ++ (match px with | some ms => hx ["PX", toString ms] | none => [])
      ++ (match c with | .always => [] | .nx => hx ["NX"] | .xx => hx ["XX"])
  | .get k => hx ["GET", k]
  | .mget ks => hx ("MGET" :: ks)
  | .unlink ks => hx ("UNLINK" :: ks)
  | .exists_ ks => hx ("EXISTS" :: ks)
  | .pexpire k ms => hx ["PEXPIRE", k, toString ms]
  | .ttl k => hx ["TTL", k]
  | .pttl k => hx ["PTTL", k]
  | .incrby k b => hx ["INCRBY", k, toString b]
  | .scan cur pat count =>
    hx (["SCAN", toString cur] ++ (match pat with | some p => ["MATCH", p] | none => [])
        ++ (match count with | some n => ["COUNT", toString n] | none => []))
  | .flushdb => hx ["FLUSHDB"]
  | .dbsize => hx ["DBSIZE"]
  | .ping => hx ["PING"]
  | .sadd k ms => hx ("SADD" :: k :: ms)
  | .srem k ms => hx ("SREM" :: k :: ms)
  | .spop k n => hx ["SPOP", k, toString n]
  | .bitfield k ops => hx ("BITFIELD" :: k :: (ops.map bfToks).flatten)
  | .zremrangebyscore k lo hi => hx ["ZREMRANGEBYSCORE", k, showBound lo, showBound hi]
  | .zcount k lo hi => hx ["ZCOUNT", k, showBound lo, showBound hi]
  | .zadd k s => hx ["ZADD", k, toString s, toString s]
  | .scriptLoad s => hx ["SCRIPT", "LOAD", (match s with | some x => x.sha | none => "?")]
  | .evalsha sha key args =>
    (match sha with | some x => hx ["EVALSHA", x.sha] | none => hx ["EVALSHA"] ++ ["~"]) ++ hx ["1", key] ++ args.map bytesHex

def showReq : Req → String
  | .one c => ",".intercalate (cmdToks c)
  | .multi cs => "M:" ++ ";".intercalate (cs.map fun c => ",".intercalate (cmdToks c))

/-! ### replies to the stub -/

def showReply : Reply → String
  | .nil => "N"
  | .ok => "SOK"
  | .pong => "SPONG"
  | .int i => s!"I{i}"
  | .bulk b => "B" ++ bytesHex b
  | .bulks l => "L" ++ ",".intercalate (l.map fun | some b => "B" ++ bytesHex b | none => "N")
  | .strs l => "L" ++ ",".intercalate (l.map fun s => "B" ++ toHex s)
  | .scan c ks => s!"C{c}:" ++ ",".intercalate (ks.map toHex)
  | .ints l => "L" ++ ",".intercalate (l.map fun i => s!"I{i}")
  | .sha s => "B" ++ toHex s.sha
  | .err => "E"

/-! ### cashews-level ops and outputs -/

def parseCVal? (s : String) : Option CVal :=
  match s.splitOn ":" with
  | ["i", x] => x.toInt?.map .int
  | ["o", h] => if isHex h then some (.obj h) else none
  | _ => none

def parseBytes? (s : String) : Option Bytes :=
  match s.splitOn ":" with
  | ["i", x] => x.toInt?.map .num
  | ["x", h] => if isHex h then some (bytesOfHex h) else none
  | _ => none

def parseTtl? (s : String) : Option (Option Nat) := if s == "-" then some none else s.toNat?.map some

def key? (h : String) : Option String := if isHex h then some (ofHex h) else none
def keys? (l : List String) : Option (List String) := allSome (l.map key?)

def parseKv? (s : String) : Option (String × CVal) :=
  match s.splitOn "=" with
  | [k, v] => do pure (← key? k, ← parseCVal? v)
  | _ => none

def parseCond? (s : String) : Option Cond :=
  if s == "a" then some .always else if s == "nx" then some .nx else if s == "xx" then some .xx else none

def parseOp? : List String → Option ROp
  | ["set", k, v, ttl, c] => do pure (.set (← key? k) (← parseCVal? v) (← parseTtl? ttl) (← parseCond? c))
  | "setmany" :: ttl :: kvs => do pure (.setMany (← allSome (kvs.map parseKv?)) (← parseTtl? ttl))
  | ["get", k] => do pure (.get (← key? k))
  | "getmany" :: ks => do pure (.getMany (← keys? ks))
  | ["exists", k] => do pure (.exists_ (← key? k))
  | ["incr", k, b, ttl] => do pure (.incr (← key? k) (← b.toInt?) (← parseTtl? ttl))
  | ["delete", k] => do pure (.delete (← key? k))
  | "delmany" :: ks => do pure (.deleteMany (← keys? ks))
  | ["expire", k, ms] => do pure (.expire (← key? k) (← ms.toNat?))
  | ["getexpire", k] => do pure (.getExpire (← key? k))
  | ["clear"] => some .clear
  | ["keyscount"] => some .keysCount
  | ["scan", p, n] => do pure (.scan (← key? p) (← n.toNat?))
  | ["getmatch", p, n] => do pure (.getMatch (← key? p) (← n.toNat?))
  | ["delmatch", p] => do pure (.deleteMatch (← key? p))
  | ["setlock", k, tok, ms] => do pure (.setLock (← key? k) (← parseBytes? tok) (← ms.toNat?))
  | ["unlock", k, tok] => do pure (.unlock (← key? k) (← parseBytes? tok))
  | ["islocked", k] => do pure (.isLocked (← key? k))
  | "setadd" :: k :: ttl :: ms => do pure (.setAdd (← key? k) (← keys? ms) (← parseTtl? ttl))
  | "setrem" :: k :: ms => do pure (.setRemove (← key? k) (← keys? ms))
  | ["setpop", k, n] => do pure (.setPop (← key? k) (← n.toNat?))
  | "getbits" :: k :: size :: idx => do pure (.getBits (← key? k) (← allSome (idx.map String.toNat?)) (← size.toNat?))
  | "incrbits" :: k :: size :: b :: idx => do
    pure (.incrBits (← key? k) (← allSome (idx.map String.toNat?)) (← size.toNat?) (← b.toInt?))
  | ["sliceincr", k, a, b, m, ttl] => do
    pure (.sliceIncr (← key? k) (← parseBytes? a) (← parseBytes? b) (← m.toInt?) (← parseTtl? ttl))
  | ["ping"] => some .ping
  | ["adv", dt] => do pure (.adv (← dt.toNat?))
  | _ => none

def showCVal : CVal → String
  | .int i => s!"i:{i}"
  | .obj h => "o:" ++ h

def showOptCVal : Option CVal → String
  | none => "-"
  | some v => showCVal v

def showOut : ROut → String
  | .none_ => "N"
  | .bool true => "T"
  | .bool false => "F"
  | .val v => "v=" ++ showOptCVal v
  | .vals vs => "vs=" ++ ",".intercalate (vs.map showOptCVal)
  | .int i => s!"n={i}"
  | .keys ks => "ks=" ++ ",".intercalate (ks.map toHex)
  | .pairs kvs => "ps=" ++ ",".intercalate (kvs.map fun kv => toHex kv.1 ++ "=" ++ showCVal kv.2)
  | .ints l => "is=" ++ ",".intercalate (l.map toString)
  | .pong => "PONG"
  | .raise => "RAISE"
  | .raiseOther => "RAISEOTHER"

/-! ### canonical dump of the visible keyspace -/

def showRVal : RVal → String
  | .str b => "s" ++ bytesHex b
  | .set ms => "S" ++ "+".intercalate (ms.map toHex)
  | .zset ss => "Z" ++ "+".intercalate (ss.map toString)
  | .bits v => s!"b{v}"

def dumpKS (t : KS) : String :=
  let ks := t.dom.filter t.present
  s!"{t.now}[" ++ " ".intercalate (ks.map fun k =>
    match t.find k with
    | some e => toHex k ++ ":" ++ showRVal e.val ++ "@" ++ (match e.dl with | some d => toString d | none => "-")
    | none => "?") ++ "]"

end CashewsVerif.Redis.Proto
