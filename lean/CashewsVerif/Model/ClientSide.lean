import CashewsVerif.Spec.TtlMapMs
/-
Model of `cashews/backends/redis/client_side.py` (class `BcastClientSide`) for C20: several clients share one
server; each keeps a local in-memory copy fed by read-through and by its own writes, and a listener that applies the
invalidation messages the server broadcasts.   Mathlib-free.

Modelling decisions (all part of the trusted base, see DESIGN section 6 item 6):
* server-side tracking is `CLIENT TRACKING on REDIRECT <id> BCAST PREFIX <p>`: every *modification* of a key (a write
  that took effect, a delete of an existing key, an expiry, a re-timing) is announced to EVERY tracking client, the
  writer included; FLUSHDB is announced as a flush message.  All keys carry the prefix.
* keys expire on the server when time passes (`adv`): the announcement of an expiry is issued at that moment
  (idealised active expiry; a real server may be late).
* the local copy is cashews' `Memory` restricted to what is used here: a TTL map with milliseconds in which a TTL-less
  write onto a live entry keeps that entry's deadline (C01).  Its capacity (10000) is never reached.
* the connection is up (failures are C19's subject); the server's answers are those of `Srv.exec`.
* `set` / `set_lock` write the local copy after the server accepted and take the echo mark back otherwise (finding D26,
  repaired in the code); `reconnect` also forgets the echo marks (finding D31, repaired in the code).
* `scan` does not consult the local copy; `get_match` reads the server's SCAN pages through `get_many` (one page: the
  keyspace is smaller than `batch_size`); `get_expire` answers from the local copy when that holds a positive TTL, else asks
  the server and re-times the local entry with the answer (whole seconds).
* `expire(k, 0)` (a timeout below 1 ms) is modelled as repaired (finding D37, in the code): the server deletes the key, so the
  local copy gets the "known absent" marker and no echo mark, as in `delete`.
-/
namespace CashewsVerif.Redis.CS
open CashewsVerif CashewsVerif.Redis

inductive LVal where
  | val (v : CVal)
  | absent                      -- `_empty_in_redis`: "we know the server does not have it"
  deriving DecidableEq, Repr

structure LEntry where
  val : LVal
  dl : Option Nat
  deriving DecidableEq, Repr

def LEntry.live (e : LEntry) (now : Nat) : Bool :=
  match e.dl with
  | none => true
  | some d => decide (now < d)

inductive Msg where
  | keys (ks : List String)     -- invalidate these keys
  | flush                       -- `data is None`: the database was flushed
  deriving DecidableEq, Repr

structure Client where
  loc : String → Option LEntry          -- `_local_cache`
  marks : String → Option Nat           -- `_recently_update`: key ↦ deadline of the mark (now + 5 s)
  started : Bool                        -- `_listen_started`
  tracking : Bool                       -- the server holds a tracking subscription for this client
  queue : List Msg                      -- announcements sent to this client, not yet processed

def Client.init : Client :=
  { loc := fun _ => none, marks := fun _ => none, started := true, tracking := true, queue := [] }

structure St where
  srv : Srv
  cl : Nat → Client
  isEnc : String → Bool                 -- serializer decodability (run, not modelled)

def St.init (isEnc : String → Bool) : St := { srv := Srv.init, cl := fun _ => Client.init, isEnc := isEnc }

def MARK_MS : Nat := 5000                -- `_expire_for_recently_update = 5`

namespace Client

def lfind (c : Client) (now : Nat) (k : String) : Option LEntry := (c.loc k).filter fun e => e.live now

/-- `Memory._set`: own TTL, else the deadline of a live entry already there -/
def lset (c : Client) (now : Nat) (k : String) (v : LVal) (ttl : Option Nat) : Client :=
  let dl := match pxOf ttl with
    | some t => some (now + t)
    | none => (c.lfind now k).bind (·.dl)
  { c with loc := fun k' => if k' = k then some ⟨v, dl⟩ else c.loc k' }

def ldel (c : Client) (k : String) : Client := { c with loc := fun k' => if k' = k then none else c.loc k' }

def lclear (c : Client) : Client := { c with loc := fun _ => none }

/-- `Memory.expire`: only a live entry is re-timed -/
def lexpire (c : Client) (now : Nat) (k : String) (ms : Nat) : Client :=
  match c.lfind now k with
  | none => c
  | some e => c.lset now k e.val (some ms)

/-- Python's `round` of a non-negative time in milliseconds to whole seconds (ties go to the even neighbour) -/
def roundSecs (ms : Nat) : Nat :=
  let q := ms / 1000
  let r := ms % 1000
  if r < 500 then q else if 500 < r then q + 1 else if q % 2 = 0 then q else q + 1

/-- `Memory.get_expire`: NOT_EXIST = -2, UNLIMITED = -1, else `round(expire_at - time.time())` -/
def lttl (c : Client) (now : Nat) (k : String) : Int :=
  match c.lfind now k with
  | none => -2
  | some e => match e.dl with
    | none => -1
    | some d => (roundSecs (d - now) : Nat)

def ldelMatch (c : Client) (pat : String) : Client :=
  { c with loc := fun k => if glob pat k then none else c.loc k }

def marked (c : Client) (now : Nat) (k : String) : Bool :=
  match c.marks k with
  | some d => decide (now < d)
  | none => false

def mark (c : Client) (now : Nat) (k : String) : Client :=
  { c with marks := fun k' => if k' = k then some (now + MARK_MS) else c.marks k' }

def unmark (c : Client) (k : String) : Client :=
  { c with marks := fun k' => if k' = k then none else c.marks k' }

/-- the listener's treatment of one announced key:
`if not await self._recently_update.get(key): await self._local_cache.delete(key) else: await self._recently_update.delete(key)` -/
def applyKey (c : Client) (now : Nat) (k : String) : Client :=
  if c.marked now k then c.unmark k else c.ldel k

def applyMsg (c : Client) (now : Nat) : Msg → Client
  | .flush => c.lclear
  | .keys ks => ks.foldl (fun c k => c.applyKey now k) c

end Client

/-! ### the server side of tracking -/

/-- the keys a command modifies (for which the server issues announcements), judged on the state before it -/
def touched (s : Srv) : Cmd → List String
  | .set k v px c => if (s.exec (.set k v px c)).2 = .ok then [k] else []
  | .unlink ks => ks.filter s.ks.present
  | .pexpire k _ => if s.ks.present k then [k] else []
  | .incrby k b => if (s.exec (.incrby k b)).2 = .err then [] else [k]
  | .evalsha sha k args =>
    match (s.exec (.evalsha sha k args)).2 with
    | .err => []
    | .int 0 => (match sha with | some .incrExpire => [k] | _ => [])     -- unlock answering 0 changed nothing
    | _ => [k]
  | _ => []

def announce (cl : Nat → Client) (m : Msg) : Nat → Client :=
  fun i => if (cl i).tracking then { cl i with queue := (cl i).queue ++ [m] } else cl i

def announceKeys (cl : Nat → Client) (ks : List String) : Nat → Client :=
  ks.foldl (fun cl k => announce cl (.keys [k])) cl

/-- one wire command from any client: its effect on the server and the announcements it causes -/
def srvCmd (st : St) (c : Cmd) : St × Reply :=
  let r := st.srv.exec c
  let cl' := match c with
    | .flushdb => announce st.cl .flush
    | _ => announceKeys st.cl (touched st.srv c)
  ({ st with srv := r.1, cl := cl' }, r.2)

def srvMulti (st : St) (cs : List Cmd) : St := cs.foldl (fun st c => (srvCmd st c).1) st

/-- time passes: the keys whose deadline is crossed disappear and are announced -/
def advance (st : St) (dt : Nat) : St :=
  let gone := st.srv.ks.dom.filter fun k => st.srv.ks.present k && !((st.srv.ks.adv dt).present k)
  { st with srv := st.srv.adv dt, cl := announceKeys st.cl gone }

/-! ### the client commands -/

inductive Op where
  | get (c : Nat) (k : String)
  | getMany (c : Nat) (ks : List String)
  | getMatch (c : Nat) (pat : String)
  | scan (c : Nat) (pat : String)
  | getExpire (c : Nat) (k : String)
  | exists_ (c : Nat) (k : String)
  | set (c : Nat) (k : String) (v : CVal) (ttl : Option Nat) (cond : Cond)
  | setMany (c : Nat) (kvs : List (String × CVal)) (ttl : Option Nat)
  | incr (c : Nat) (k : String) (by_ : Int) (ttl : Option Nat)
  | delete (c : Nat) (k : String)
  | deleteMany (c : Nat) (ks : List String)
  | deleteMatch (c : Nat) (pat : String)
  | expire (c : Nat) (k : String) (ms : Nat)
  | clear (c : Nat)
  | setLock (c : Nat) (k : String) (tok : Bytes) (ms : Nat)
  | unlock (c : Nat) (k : String) (tok : Bytes)
  | deliver (c : Nat)            -- the listener of `c` processes every announcement sent to it so far
  | drop (c : Nat)               -- the invalidation connection of `c` breaks
  | reconnect (c : Nat)          -- …and is re-established (`_RECONNECT_WAIT` later)
  | adv (dt : Nat)
  deriving Repr

/-- **A refused reconnect attempt.**  `_listen_invalidate_forever` handles a connection that breaks and a reconnect attempt
that the server refuses (every `_RECONNECT_WAIT` seconds while the outage lasts) in the very same `except` branch:
`self._listen_started.clear(); await self._local_cache.clear(); await asyncio.sleep(_RECONNECT_WAIT)`.  A refused attempt of
a client whose connection is down is therefore the step `drop` taken again: it re-empties whatever the client's reads and
writes put into the local copy since the connection broke, and leaves the client stopped.  The timeline of an outage is
`drop c`, (commands of anybody, `refused c`)*, commands of anybody, `reconnect c`; what the commands of `c` inside it do to
its local copy is what `step` says for a client with `started = false`: reads are answered by the server AND REMEMBERED
locally, writes are remembered locally — only `reconnect` (and every `refused`) throws that away. -/
abbrev Op.refused (c : Nat) : Op := .drop c

def upd (cl : Nat → Client) (i : Nat) (c : Client) : Nat → Client := fun j => if j = i then c else cl j

def now (st : St) : Nat := st.srv.ks.now

def decodeS (st : St) : Bytes → Option CVal
  | .num i => some (.int i)
  | .blob h => if st.isEnc h then some (.obj h) else none

/-- the value of a string key on the server, decoded (`super().get`) -/
def srvValue (st : St) (k : String) : Option CVal :=
  match st.srv.ks.find k with
  | some ⟨.str b, _⟩ => decodeS st b
  | _ => none

/-- a lock token as the local copy keeps it (tokens are raw strings) -/
def tokVal : Bytes → CVal
  | .num i => .int i
  | .blob h => .obj h

/-- `get_many`: key by key the same decision as `get` (the misses go to the server in one MGET and are remembered) -/
def getManyCore (st : St) (i : Nat) (ks : List String) : St × List (Option CVal) :=
  let c := st.cl i
  let ans : String → Option CVal := fun k =>
    match (if c.started then c.lfind (now st) k else none) with
    | some ⟨.val v, _⟩ => some v
    | some ⟨.absent, _⟩ => none
    | none => srvValue st k
  let c' := ks.foldl (fun c' k =>
    match (if c.started then c.lfind (now st) k else none) with
    | some _ => c'
    | none => match srvValue st k with
      | some v => c'.lset (now st) k (.val v) none
      | none => c'.lset (now st) k .absent none) c
  ({ st with cl := upd st.cl i c' }, ks.map ans)

def step (st : St) : Op → St × ROut
  | .get i k =>
    -- local hit (value or "known absent") when the listener runs; else read through and remember
    let c := st.cl i
    match (if c.started then c.lfind (now st) k else none) with
    | some ⟨.val v, _⟩ => (st, .val (some v))
    | some ⟨.absent, _⟩ => (st, .val none)
    | none =>
      match srvValue st k with
      | some v => ({ st with cl := upd st.cl i (c.lset (now st) k (.val v) none) }, .val (some v))
      | none => ({ st with cl := upd st.cl i (c.lset (now st) k .absent none) }, .val none)
  | .getMany i ks => ((getManyCore st i ks).1, .vals (getManyCore st i ks).2)
  | .getMatch i pat =>
    -- `cursor, keys = await self._client.scan(cursor, match=…)`; `values = await self.get_many(*keys, default=_empty)`;
    -- the pairs whose value is not `_empty` are yielded
    let ks := Ref.matching st.srv.ks pat
    ((getManyCore st i ks).1, .pairs ((ks.zip (getManyCore st i ks).2).filterMap fun kv => kv.2.map fun v => (kv.1, v)))
  | .scan _ pat =>
    -- `async for key in super().scan(self._add_prefix(pattern)): yield self._remove_prefix(key)` — the server's keys
    (st, .keys (Ref.matching st.srv.ks pat))
  | .getExpire i k =>
    -- `if await self._local_cache.get_expire(key) > 0 and self._listen_started.is_set(): return <that>`
    -- `expire = await super().get_expire(…); await self._local_cache.expire(key, expire); return expire`
    let c := st.cl i
    if decide (0 < c.lttl (now st) k) && c.started then (st, .int (c.lttl (now st) k))
    else
      match (st.srv.exec (.ttl k)).2 with
      | .int t =>
        -- `Memory.expire(key, t)`: a live entry is stored again with deadline now + t; a negative t (-1: no TTL on the
        -- server, -2: no key) leaves it expired, i.e. gone; 0 is "no new TTL"
        let c' := match c.lfind (now st) k with
          | none => c
          | some e => if t < 0 then c.ldel k else c.lset (now st) k e.val (some (t.toNat * 1000))
        ({ st with cl := upd st.cl i c' }, .int t)
      | _ => (st, .none_)
  | .exists_ i k =>
    let c := st.cl i
    match (if c.started then c.lfind (now st) k else none) with
    | some ⟨.val _, _⟩ => (st, .bool true)
    | _ => (st, .bool (st.srv.ks.present k))
  | .set i k v ttl cond =>
    -- repaired (D26): mark, ask the server, then write the local copy iff accepted, else take the mark back
    let c := (st.cl i).mark (now st) k
    let (st1, r) := srvCmd { st with cl := upd st.cl i c } (.set k (encode v) (pxOf ttl) cond)
    if r = .ok then
      ({ st1 with cl := upd st1.cl i ((st1.cl i).lset (now st) k (.val v) ttl) }, .bool true)
    else ({ st1 with cl := upd st1.cl i ((st1.cl i).unmark k) }, .bool false)
  | .setMany i kvs ttl =>
    let c := kvs.foldl (fun c kv => (c.lset (now st) kv.1 (.val kv.2) ttl).mark (now st) kv.1) (st.cl i)
    (srvMulti { st with cl := upd st.cl i c } (kvs.map fun kv => .set kv.1 (encode kv.2) (pxOf ttl) .always), .none_)
  | .incr i k by_ ttl =>
    -- `_value = await super().incr(...); if _value: local.set(key, _value, expire); mark`
    let (st1, r) := match pxOf ttl with
      | none => srvCmd st (.incrby k by_)
      | some ms => srvCmd { st with srv := { st.srv with loaded := .incrExpire :: st.srv.loaded } }
                     (.evalsha (some .incrExpire) k [.num by_, .num ms])
    match r with
    | .int n =>
      if n ≠ 0 then
        ({ st1 with cl := upd st1.cl i (((st1.cl i).lset (now st) k (.val (.int n)) ttl).mark (now st) k) }, .int n)
      else (st1, .int n)
    | _ => (st1, .none_)                        -- refused by the server (wrong type): suppressed, `None`
  | .delete i k =>
    let c := (st.cl i).lset (now st) k .absent none
    let (st1, r) := srvCmd { st with cl := upd st.cl i c } (.unlink [k])
    (st1, .bool (truthy r))
  | .deleteMany i ks =>
    let c := ks.foldl (fun c k => c.lset (now st) k .absent none) (st.cl i)
    if ks.isEmpty then ({ st with cl := upd st.cl i c }, .none_)   -- `UNLINK` without keys is refused; suppressed
    else ((srvCmd { st with cl := upd st.cl i c } (.unlink ks)).1, .none_)
  | .deleteMatch i pat =>
    let c := (st.cl i).ldelMatch pat
    let st0 := { st with cl := upd st.cl i c }
    if pat.toList.contains '*' then
      ((srvCmd st0 (.unlink (Ref.matching st.srv.ks pat))).1, .none_)     -- scan + unlink of the pages (C19)
    else ((srvCmd st0 (.unlink [pat])).1, .none_)
  | .expire i k ms =>
    -- `if int(timeout * 1000) <= 0: await self._local_cache.set(key, _empty_in_redis); return await super().expire(…)` (D37)
    let c := st.cl i
    let c' := if ms = 0 then c.lset (now st) k .absent none else
      match c.lfind (now st) k with
      | some ⟨.val _, _⟩ => (c.lexpire (now st) k ms).mark (now st) k
      | _ => c
    ((srvCmd { st with cl := upd st.cl i c' } (.pexpire k ms)).1, .none_)
  | .clear i =>
    let c := (st.cl i).lclear
    ((srvCmd { st with cl := upd st.cl i c } .flushdb).1, .none_)
  | .setLock i k tok ms =>
    -- repaired like `set` (D26)
    let c := (st.cl i).mark (now st) k
    let (st1, r) := srvCmd { st with cl := upd st.cl i c } (.set k tok (some ms) .nx)
    if r = .ok then
      ({ st1 with cl := upd st1.cl i ((st1.cl i).lset (now st) k (.val (tokVal tok)) (some ms)) }, .bool true)
    else ({ st1 with cl := upd st1.cl i ((st1.cl i).unmark k) }, .bool false)
  | .unlock i k tok =>
    -- `await self._local_cache.unlock(key, value)`: the local entry goes iff it holds that token
    let c := st.cl i
    let c' := match c.lfind (now st) k with
      | some ⟨.val v, _⟩ => if v = tokVal tok then c.ldel k else c
      | _ => c
    let (st1, r) := srvCmd { st with cl := upd st.cl i c', srv := { st.srv with loaded := .unlock :: st.srv.loaded } }
      (.evalsha (some .unlock) k [tok])
    (st1, intOrNone r)
  | .deliver i =>
    let c := st.cl i
    let c' := c.queue.foldl (fun c m => c.applyMsg (now st) m) { c with queue := [] }
    ({ st with cl := upd st.cl i c' }, .none_)
  | .drop i =>
    -- `except ConnectionError: self._listen_started.clear(); await self._local_cache.clear()`; the server forgets the connection
    let c := st.cl i
    ({ st with cl := upd st.cl i { c.lclear with started := false, tracking := false, queue := [] } }, .none_)
  | .reconnect i =>
    -- `_listen_invalidate`: new channel, `_listen_started.set(); await self._local_cache.clear()` (+ marks forgotten: D31).
    -- The clear at THIS point is what removes the values and "known absent" markers that reads made during the outage
    -- (after the last refused attempt) wrote into the local copy; no invalidation will ever come for what changed meanwhile.
    let c := st.cl i
    ({ st with cl := upd st.cl i { c.lclear with started := true, tracking := true, queue := [], marks := fun _ => none } }, .none_)
  | .adv dt => (advance st dt, .none_)

def run (st : St) : List Op → St × List ROut
  | [] => (st, [])
  | op :: ops => ((run (step st op).1 ops).1, (step st op).2 :: (run (step st op).1 ops).2)

end CashewsVerif.Redis.CS
