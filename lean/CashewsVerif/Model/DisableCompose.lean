import CashewsVerif.Model.Disable
/-
C17 — the COMPOSITE commands of the facade: public methods that issue further backend commands behind
the caller's back.  Mathlib-free.

  * `CommandsTagsWrapper.set(..., tags=)` / `.incr(..., tags=)`  → `set_add` on the tag keys `_tag:<tag>`
    (cashews/wrapper/tags.py) — the tags backend may be a dedicated one under the prefix `_tag:`
  * `delete_tags`                                                → `set_pop` + `delete_many`
  * `get_or_set`                                                 → `get`, the caller's default, `set`
  * `cache.lock` (`_BackendInterface.lock` run on the facade)    → `set_lock`, the liveness probe
    (`_lock_probe(key)`: a PING with message `LOCK` routed — and disable-checked — by the LOCK KEY), `unlock`
  * `@cache.invalidate(template)`                                → the body, then `delete_match`
  * the on-remove callback the facade registers on every backend → `set_remove` on the tags backend

Every one of them is a PROGRAM over the facade's own public commands: each step goes through
`self.<command>(...)`, i.e. through routing (`_get_backend`) and the whole middleware stack (`execS`), and
what the program does next depends on what that step answered.  `Prog` is the type of all such programs
(whatever their control flow), `Prog.run` runs one against an arbitrary environment (the backends'
answers, abstracted), and the composites of cashews are particular values of it (`Comp.prog`).
The one exception is the on-remove callback: it is called BY a backend while that backend deletes keys,
and talks to the tags backend directly (there is no facade command around it); it is modelled as such
(`removeCallback`), with the check of the control state it makes itself.
-/
namespace CashewsVerif.Disable
open CashewsVerif.Route

/-- `self._tags_key_prefix = "_tag:"` -/
def tagPrefix : List Nat := [95, 116, 97, 103, 58]

/-- `self._tags_key_prefix + tag` -/
def tagKey (tag : List Nat) : List Nat := tagPrefix ++ tag

/-- the message of the liveness probe `ping(b"LOCK")`, decoded.  A plain `cache.ping(msg)` is routed by
the text of its message; the probe of `lock()` is NOT (fix D43): it is routed by the lock key. -/
def lockPing : List Nat := [76, 79, 67, 75]

/-- What a facade command handed back to the composite that called it — as much of it as the control
flow of the composites looks at. -/
inductive Ans where
  /-- `None`: what a disabled command answers (`_is_disable_middleware`), and what many commands answer anyway -/
  | none_
  /-- the object the composite passed as `default=` (the `_empty` sentinel of `get_or_set`) -/
  | dflt
  /-- `False`, `0`, an empty collection — not `None` -/
  | falsy
  | truthy
  /-- the members `set_pop` handed out -/
  | keys (ks : List (List Nat))
  /-- the backend command raised (the exception propagates through the composite) -/
  | raised
  deriving DecidableEq, Repr

/-- `bool(x)` -/
def Ans.truth : Ans → Bool
  | .none_ => false
  | .dflt => true
  | .falsy => false
  | .truthy => true
  | .keys ks => !ks.isEmpty
  | .raised => false

/-- The environment of a composite: what the backends do.  Both components are indexed by the position
of a backend call in the sequence of calls the composite has issued (commands and `init()`s, in order). -/
structure Env where
  /-- the (abstracted) answer of the backend to call number `n` -/
  ans : Nat → Ans
  /-- while the backend runs call number `n` it removes keys and tells its on-remove callbacks about
  them: one entry per callback invocation, holding the tags (by the facade's tag registry,
  `_group_by_tags(keys)`, in order) of the keys of that invocation -/
  removed : Nat → List (List (List Nat))

/-- what the composite sees of a sub-command's answer: the default shapes are fixed by the facade
(disabled: `None` / the default; inside `invalidate_further()`: the default / `None`), everything else
is the backend's answer -/
def toAns (env : Env) (n : Nat) : Res → Ans
  | .dflt => .dflt
  | .none_ => .none_
  | .emptyStream => .keys []
  | .resp i => env.ans (n + i)
  | .stream i => env.ans (n + i)
  | .many _ => .none_
  | .sum _ => .none_

/-- ```
async def _callback(keys, backend):                                  # tags.py, `_on_remove_callback`
    for tag, _keys in self._group_by_tags(keys).items():
        tags_backend = self._get_backend(self._tags_key_prefix + tag)    # resolved on every call, by the tag key
        if tags_backend.is_disable(Command.SET_REMOVE): continue
        await tags_backend.set_remove(self._tags_key_prefix + tag, *_keys)
```
one invocation whose keys carry the tags `tags`; `none` = `NotConfiguredError` (no backend for a tag key).
The backend of each tag key is looked up in the CURRENT table on every call (fix D48: no memo that
survives a later `setup()` / `setup_tags_backend()`), by the longest prefix of the tag key itself — the
backend `set_add(_tag:<tag>, …)` of the tagged write was routed to — and is asked DIRECTLY (not through
the middleware stack), in the context of the task that caused the deletion. -/
def removeCallback (t : Table) (w : World) (c : Nat) : List (List Nat) → Option (List Call)
  | [] => some []
  | tag :: r =>
    match t.getBackend (tagKey tag) with
    | none => none
    | some tb =>
      (removeCallback t w c r).map fun rest =>
        if isDisable w c tb [.setRemove] then rest else ⟨.raw tb, .setRemove, [tagKey tag]⟩ :: rest

/-- all invocations a backend makes while it runs one call -/
def callbacksOf (t : Table) (w : World) (c : Nat) : List (List (List Nat)) → Option (List Call)
  | [] => some []
  | tags :: r =>
    match removeCallback t w c tags, callbacksOf t w c r with
    | some a, some b => some (a ++ b)
    | _, _ => none

/-- the callbacks fired during the calls number `n`, `n+1`, … (`k` of them) -/
def callbacksFrom (t : Table) (w : World) (c : Nat) (env : Env) : Nat → Nat → Option (List Call)
  | _, 0 => some []
  | n, k + 1 =>
    match callbacksOf t w c (env.removed n), callbacksFrom t w c env (n + 1) k with
    | some a, some b => some (a ++ b)
    | _, _ => none

/-- A program over the facade's public commands. -/
inductive Prog where
  /-- `return` -/
  | done (r : Ans)
  /-- `raise LockedError(...)` -/
  | locked
  /-- the model's loop bound is exhausted (`delete_tags` and `lock(wait=True)` are `while True:` loops) -/
  | outOfFuel
  /-- the caller's own code runs: the `async with cache.lock(...)` block, the default factory of
  `get_or_set`, the decorated function -/
  | body (k : Prog)
  /-- `x = await self.<f>(...)`, then `k x` -/
  | call (f : FCmd) (k : Ans → Prog)

/-- how a composite ended -/
inductive POut where
  | ret (r : Ans)
  | locked
  | notConfigured
  /-- a backend command raised -/
  | raised
  | outOfFuel
  deriving DecidableEq, Repr

/-- what a composite did, in order -/
inductive PEv where
  /-- the facade command `f` was run: the backend calls it caused (`execS`) and the calls the
  on-remove callback made while the backends ran them -/
  | sub (f : FCmd) (calls : List BCall) (cbs : List Call)
  | body
  deriving DecidableEq, Repr

/-- Run a program in context `c` (inside a transaction iff `inTx`, inside `invalidate_further()` iff
`inv`), `ini` = initialised backends, `n` = backend calls issued so far.  Events, outcome,
initialised backends. -/
def Prog.run (t : Table) (w : World) (c : Nat) (inTx inv : Bool) (env : Env) :
    Prog → List Nat → Nat → List PEv × POut × List Nat
  | .done r, ini, _ => ([], .ret r, ini)
  | .locked, ini, _ => ([], .locked, ini)
  | .outOfFuel, ini, _ => ([], .outOfFuel, ini)
  | .body k, ini, n =>
    let r := Prog.run t w c inTx inv env k ini n
    (.body :: r.1, r.2.1, r.2.2)
  | .call f k, ini, n =>
    match execS t w c inTx inv ini f with
    | none => ([], .notConfigured, ini)
    | some x =>
      match callbacksFrom t w c env n x.2.1.length with
      | none => ([.sub f x.2.1 []], .notConfigured, x.2.2)     -- the callback found no backend for a tag key
      | some cbs =>
        if toAns env n x.1 = .raised then ([.sub f x.2.1 cbs], .raised, x.2.2)
        else
          let r := Prog.run t w c inTx inv env (k (toAns env n x.1)) x.2.2 (n + x.2.1.length)
          (.sub f x.2.1 cbs :: r.1, r.2.1, r.2.2)

/-! ### The composites of cashews -/

/-- `for tag in tags: await self.set_add(self._tags_key_prefix + tag, key, expire=...)`, then `return ret` -/
def addToTags (ret : Ans) : List (List Nat) → Prog
  | [] => .done ret
  | tag :: r => .call (.keyed .setAdd (tagKey tag)) fun _ => addToTags ret r

/-- ```
while True:                                                          # tags.py, `_delete_tag`
    keys = await self.set_pop(key=self._tags_key_prefix + tag, count=100)
    if not keys: break
    keys = list(keys)
    await self.delete_many(*keys)
    if len(keys) != 100: break
```
followed by `next`; at most `fuel` rounds -/
def deleteTag (tag : List Nat) (next : Prog) : Nat → Prog
  | 0 => .outOfFuel
  | fuel + 1 =>
    .call (.keyed .setPop (tagKey tag)) fun a =>
      match a with
      | .keys ks =>
        if ks.isEmpty then next
        else .call (.deleteMany ks) fun _ => if ks.length = 100 then deleteTag tag next fuel else next
      | _ => next

/-- ```
while True:                                                          # backends/interface.py, `lock`, run on the facade
    lock = await self.set_lock(key, identifier, expire=expire)
    if lock is None: yield; return                                   # the command is disabled: no locking
    if not lock:
        if await self._lock_probe(key) is None: yield; return
        if wait: await asyncio.sleep(check_interval); continue
        raise LockedError(...)
    try: yield
    finally: await self.unlock(key, identifier)
    return
```
with, on the facade (commands.py, fix D43),
```
async def _lock_probe(self, key):
    return await self._with_middlewares(Command.PING, key)(message=b"LOCK")
```
the liveness probe is a PING whose ROUTING STRING is the lock key (`.keyed .ping key`; the message is
`lockPing`): it asks — through the whole middleware stack, disable check included — the backend that
refused the lock, not the backend the text "LOCK" would be routed to.  At most `fuel` rounds. -/
def lockProg (key : List Nat) (wait : Bool) : Nat → Prog
  | 0 => .outOfFuel
  | fuel + 1 =>
    .call (.keyed .setLock key) fun a =>
      match a with
      | .none_ => .body (.done .none_)
      | a =>
        if a.truth then .body (.call (.keyed .unlock key) fun _ => .done .none_)
        else .call (.keyed .ping key) fun p =>
          match p with
          | .none_ => .body (.done .none_)
          | _ => if wait then lockProg key wait fuel else .locked

/-- every facade command of the program is a single-key command on `key` -/
def Prog.OnlyKey (key : List Nat) : Prog → Prop
  | .done _ => True
  | .locked => True
  | .outOfFuel => True
  | .body k => Prog.OnlyKey key k
  | .call f k => (∃ cmd, f = .keyed cmd key) ∧ ∀ a, Prog.OnlyKey key (k a)

inductive Comp where
  /-- any single public command (the trivial composite) -/
  | one (f : FCmd)
  /-- `cache.set(key, value, expire, exist, tags=tags)` -/
  | setTagged (key : List Nat) (tags : List (List Nat))
  /-- `cache.incr(key, tags=tags)` -/
  | incrTagged (key : List Nat) (tags : List (List Nat))
  /-- `cache.get_or_set(key, default=factory)` -/
  | getOrSet (key : List Nat)
  /-- `cache.delete_tags(*tags)` -/
  | deleteTags (tags : List (List Nat)) (fuel : Nat)
  /-- `async with cache.lock(key, expire, wait=wait, check_interval=...): <body>` -/
  | lock (key : List Nat) (wait : Bool) (fuel : Nat)
  /-- one call of a function decorated with `@cache.invalidate(pattern)` -/
  | invalidate (pattern : List Nat)

def Comp.prog : Comp → Prog
  | .one f => .call f fun a => .done a
  /- `_set = await super().set(...)`; `if _set and tags: for tag in tags: await self.set_add(...)`; `return _set` -/
  | .setTagged key tags =>
    .call (.keyed .set key) fun a => if a.truth then addToTags a tags else .done a
  /- `_set = await super().incr(...)`; `if tags and _set is not None: for tag in tags: await self.set_add(...)`;
     `return _set`  (since D73, /repo 1e5a055: a disabled `incr` answers None and files nothing) -/
  | .incrTagged key tags =>
    .call (.keyed .incr key) fun a => match a with
      | .none_ => .done a
      | _ => addToTags a tags
  /- `value = await self.get(key, default=_empty)`; `if value is not _empty: return value`;
     `_default = <the caller's default / factory>`; `await self.set(key, _default, expire=expire)`; `return _default` -/
  | .getOrSet key =>
    .call (.keyed .get key) fun a =>
      match a with
      | .dflt => .body (.call (.keyed .set key) fun _ => .done .truthy)
      | a => .done a
  /- `for tag in tags: await self._delete_tag(tag)` -/
  | .deleteTags tags fuel => tags.foldr (fun tag next => deleteTag tag next fuel) (.done .none_)
  | .lock key wait fuel => lockProg key wait fuel
  /- `result = await func(...)`; `await backend.delete_match(key)`; `return result`  (validation.py) -/
  | .invalidate pattern => .body (.call (.keyed .deleteMatch pattern) fun _ => .done .truthy)

/-- One composite run in context `c` -/
def runComp (t : Table) (w : World) (c : Nat) (inTx inv : Bool) (env : Env) (ini : List Nat) (cm : Comp) :
    List PEv × POut × List Nat :=
  Prog.run t w c inTx inv env cm.prog ini 0

/-- every backend call of an event list, with the facade command it was issued under -/
def PEv.bcalls : List PEv → List (FCmd × BCall)
  | [] => []
  | .sub f calls _ :: r => calls.map (fun bc => (f, bc)) ++ PEv.bcalls r
  | .body :: r => PEv.bcalls r

/-- every call the on-remove callback made -/
def PEv.cbcalls : List PEv → List Call
  | [] => []
  | .sub _ _ cbs :: r => cbs ++ PEv.cbcalls r
  | .body :: r => PEv.cbcalls r

/-- how often the caller's own code ran -/
def PEv.bodies : List PEv → Nat
  | [] => 0
  | .sub _ _ _ :: r => PEv.bodies r
  | .body :: r => PEv.bodies r + 1

/-- a composite as one step of a history (`Sys` of `Model/Disable.lean`): run in context `c` against the
current table, control state, `invalidate_further()` flag and initialised backends -/
def compStep (s : Sys) (c : Nat) (inTx : Bool) (env : Env) (cm : Comp) : Sys × List PEv × POut :=
  let r := runComp s.t s.w c inTx (s.inv c) env s.inited cm
  ({ s with inited := r.2.2 }, r.1, r.2.1)

end CashewsVerif.Disable
