import CashewsVerif.Model.Mem
/-
Model of `cashews/backends/transaction.py` (`TransactionBackend`, `LockTransactionBackend`), as
repaired by cd9f1a2 / fa23973 / 4d68168: a private overlay `Memory(size=sys.maxsize)` (`_local_cache`: as repaired by D45 the write buffer never evicts,
no serializer, never `init`-ed so no purge task), a pending-delete set (`_to_delete`) and, in the
locked / serializable modes, the set of lock keys taken on the real backend.

One function per method; the Python line is quoted next to each.  Overlay and backend are both
`Mem`s.  Mathlib-free (the driver links against this file).

Key space: the reserved ':'-prefixed lock keys live in the same backend store as the user's keys.
In the model a key is reserved iff it is odd; user keys are even; `lockKey` maps into the odd keys.
-/
namespace CashewsVerif

inductive TxMode where
  | fast | locked | serializable
  deriving DecidableEq, Repr

/-- reserved (':'-prefixed) keys of the model key space -/
def reserved (k : Key) : Bool := k % 2 == 1

/-- `_get_lock_key`: `":serializable:lock"` or `f":tx_lock:{key}"` -/
def lockKey : TxMode → Key → Key
  | .serializable, _ => 1
  | _, k => k + 3

structure TxSt where
  b       : Mem            -- `_backend` (the real store)
  ov      : Mem            -- `_local_cache = Memory()`
  del     : List Key       -- `_to_delete`
  locks   : List Key       -- `_locks` (lock keys, i.e. reserved keys of `b`)
  mode    : TxMode
  lockId  : Nat            -- `_lock_id = uuid4().hex`, a token
  timeout : Nat            -- `_timeout` in ticks (10 s = 80)

namespace TxSt
open Store

/-- `_BUFFER_SIZE = sys.maxsize`: the write buffer of a transaction is not a cache and must never evict a pending
write (D45: it used to be `Memory()` with the default LRU size 1000, so the 1001st buffered key pushed out the oldest) -/
def overlaySize : Nat := 9223372036854775807

/-- `Memory(size=_BUFFER_SIZE)`: empty, on the same clock -/
def freshOverlay (now : Time) : Mem := { now := now, cap := overlaySize, store := [] }

/-- `TransactionBackend(backend)` / `LockTransactionBackend(backend, serializable, timeout)` -/
def begin_ (b : Mem) (mode : TxMode) (lockId : Nat) (timeout : Nat) : TxSt :=
  { b := b, ov := freshOverlay b.now, del := [], locks := [], mode := mode, lockId := lockId, timeout := timeout }

/-- `_clear_local_storage` -/
def clearLocal (st : TxSt) : TxSt := { st with ov := freshOverlay st.b.now, del := [] }

/-! ### locks (`LockTransactionBackend._lock_updates`) -/

/-- One call of `_lock_updates(key)`.  `set_lock` is `set(lock_key, id, expire=timeout, exist=False)`
on the backend.  A single task never finds the lock taken; if it is (a foreign holder), the real
code sleeps and retries until `timeout` and raises `LockedError` — the model answers `false`
without modelling that wait (contention is C05's business). -/
def lockUpdates (st : TxSt) (k : Key) : TxSt × Bool :=
  if st.mode = .fast then (st, true)                       -- plain `TransactionBackend`: no locks
  else if lockKey st.mode k ∈ st.locks then (st, true)     -- `if lock_key in self._locks: return`
  else if (st.b.step (.set (lockKey st.mode k) (.tok st.lockId) (some st.timeout) .nx)).2 = .bool true then
    ({ st with b := (st.b.step (.set (lockKey st.mode k) (.tok st.lockId) (some st.timeout) .nx)).1,
               locks := lockKey st.mode k :: st.locks }, true)      -- `self._locks.add(lock_key); return`
  else
    ({ st with b := (st.b.step (.set (lockKey st.mode k) (.tok st.lockId) (some st.timeout) .nx)).1 }, false)

/-- `for key in keys: await self._lock_updates(key)` -/
def lockAll (st : TxSt) : List Key → TxSt × Bool
  | [] => (st, true)
  | k :: ks =>
    let (st', ok) := st.lockUpdates k
    if ok then lockAll st' ks else (st', false)

/-- `_unlock_updates`: `unlock(key, id)` = `if _get(key) != id: return False; _delete(key)` for every held lock -/
def unlockOne (id : Nat) (b : Mem) (lk : Key) : Mem :=
  if (b.rawGet lk).2 = some (.tok id) then ((b.rawGet lk).1.rawDelete lk).1 else (b.rawGet lk).1

def unlockAll (st : TxSt) : TxSt :=
  { st with b := st.locks.foldl (unlockOne st.lockId) st.b, locks := [] }

/-! ### `TransactionBackend` methods -/

/-- `exists`: overlay first, then the pending deletes, then the backend -/
def exists_ (st : TxSt) (k : Key) : TxSt × Bool :=
  let (ov', r) := st.ov.rawGet k                           -- `if await self._local_cache.exists(key): return True`
  if r.isSome then ({ st with ov := ov' }, true)
  else if k ∈ st.del then ({ st with ov := ov' }, false)   -- `if self._key_is_delete(key): return False`
  else
    let (b', r') := st.b.rawGet k                          -- `return await self._backend.exists(key)`
    ({ st with ov := ov', b := b' }, r'.isSome)

/-- the unconditional tail of `set`: `self._to_delete.discard(key); self._local_cache.set(key, value, expire)` -/
def put (st : TxSt) (k : Key) (v : Val) (ttl : Option Nat) : TxSt :=
  { st with del := st.del.filter (· ≠ k), ov := st.ov.rawSet k v ttl }

/-- `set` (fa23973: `if exist is not None and await self.exists(key) is not exist: return False`) -/
def set (st : TxSt) (k : Key) (v : Val) (ttl : Option Nat) (c : Cond) : TxSt × Out :=
  match c with
  | .always => (st.put k v ttl, .bool true)
  | .nx =>
    let (st', e) := st.exists_ k
    if e then (st', .bool false) else (st'.put k v ttl, .bool true)
  | .xx =>
    let (st', e) := st.exists_ k
    if e then (st'.put k v ttl, .bool true) else (st', .bool false)

/-- `set_many`: `self._to_delete.difference_update(pairs.keys()); self._local_cache.set_many(pairs, expire)`
— the same overlay `_set` calls and the same resulting set `_to_delete` as `put`-ing the pairs one by one -/
def setMany (st : TxSt) (kvs : List (Key × Val)) (ttl : Option Nat) : TxSt :=
  kvs.foldl (fun s kv => s.put kv.1 kv.2 ttl) st

/-- first half of `incr`: seed the overlay from the backend unless the key is already there or pending delete -/
def seed (st : TxSt) (k : Key) : TxSt :=
  if (st.ov.rawGet k).2.isNone ∧ k ∉ st.del then           -- `if not await self._local_cache.exists(key) and key not in self._to_delete:`
    -- `current = await self._backend.get(key, 0); await self._local_cache.set(key, current)`
    { st with b := (st.b.rawGet k).1,
              ov := (st.ov.rawGet k).1.rawSet k ((st.b.rawGet k).2.getD (.int 0)) none }
  else { st with ov := (st.ov.rawGet k).1 }

/-- `incr` -/
def incr (st : TxSt) (k : Key) (by_ : Int) (ttl : Option Nat) : TxSt × Out :=
  let st1 := st.seed k
  -- `self._to_delete.discard(key); return await self._local_cache.incr(key, value, expire=expire)`
  ({ st1 with del := st1.del.filter (· ≠ k), ov := (st1.ov.step (.incr k by_ ttl)).1 },
   (st1.ov.step (.incr k by_ ttl)).2)

/-- `delete`: `await self._local_cache.delete(key); self._to_delete.add(key); return True` -/
def delete (st : TxSt) (k : Key) : TxSt :=
  { st with ov := (st.ov.rawDelete k).1, del := k :: st.del }

/-- `delete_many`: `await self._local_cache.delete_many(*keys); self._to_delete.update(keys)` — the same
overlay `_delete` calls and the same resulting *set* `_to_delete` as deleting the keys one by one -/
def deleteMany (st : TxSt) (ks : List Key) : TxSt := ks.foldl delete st

/-- `expire` (4d68168: the overlay is consulted first) -/
def expire (st : TxSt) (k : Key) (ttl : Option Nat) : TxSt :=
  if k ∈ st.del then st                                    -- `if self._key_is_delete(key): return`
  else if (st.ov.rawGet k).2.isSome then                   -- `if await self._local_cache.exists(key):`
    { st with ov := ((st.ov.rawGet k).1.step (.expire k ttl)).1 }   -- `return await self._local_cache.expire(key, timeout)`
  else
    match (st.b.rawGet k).2 with                           -- `value = await self._backend.get(key, default=_empty)`
    | none => { st with ov := (st.ov.rawGet k).1, b := (st.b.rawGet k).1 }
    | some v =>                                            -- `await self._local_cache.set(key, value, expire=timeout)`
      { st with b := (st.b.rawGet k).1, ov := (st.ov.rawGet k).1.rawSet k v ttl }

/-- `get` -/
def get (st : TxSt) (k : Key) : TxSt × Option Val :=
  if k ∈ st.del then (st, none)                            -- `if self._key_is_delete(key): return default`
  else
    match (st.ov.rawGet k).2 with                          -- `value = await self._local_cache.get(key, default=_empty)`
    | some v => ({ st with ov := (st.ov.rawGet k).1 }, some v)
    | none =>                                              -- `return await self._backend.get(key, default=default)`
      ({ st with ov := (st.ov.rawGet k).1, b := (st.b.rawGet k).1 }, (st.b.rawGet k).2)

/-- `get_many`: overlay hit wins; otherwise the backend's answer unless the key is pending delete.
(The code asks the overlay for all keys, then the backend for all missed keys, each in `set`
iteration order; the model asks key by key.  Same answers and same live contents; only the internal
recency order of the two stores — not observable here — differs.) -/
def getMany (st : TxSt) : List Key → TxSt × List (Option Val)
  | [] => (st, [])
  | k :: ks =>
    match (st.ov.rawGet k).2 with
    | some v =>
      let r := getMany { st with ov := (st.ov.rawGet k).1 } ks
      (r.1, some v :: r.2)
    | none =>
      let r := getMany { st with ov := (st.ov.rawGet k).1, b := (st.b.rawGet k).1 } ks
      (r.1, (if k ∈ st.del then none else (st.b.rawGet k).2) :: r.2)

/-- `get_expire` (does not touch either store) -/
def getExpire (st : TxSt) (k : Key) : Int :=
  if k ∈ st.del then -2                                    -- `return NOT_EXIST`
  else
    let l := st.ov.getExpire k
    if l ≥ 0 then l                                        -- `if local_expire >= 0: return local_expire`
    else
      let be := st.b.getExpire k
      if be = -2 ∧ l = -1 then -1                          -- `if backend_expire is NOT_EXIST and local_expire is UNLIMITED`
      else be

/-- `clear` of the transaction backend (the `Cache` facade does not route `clear` here; excluded from
the properties, modelled for completeness) -/
def clear (st : TxSt) : TxSt :=
  { st with del := [], ov := { st.ov with store := [] }, b := { st.b with store := [] } }

/-- keys a command must lock first in the locked / serializable modes -/
def writeKeys : Op → List Key
  | .set k _ _ _ => [k]
  | .setMany kvs _ => kvs.map (·.1)
  | .incr k _ _ => [k]
  | .delete k => [k]
  | .deleteMany ks => ks
  | .expire k _ => [k]
  | _ => []

/-- the method of `TransactionBackend` itself (fast mode) -/
def baseStep (st : TxSt) : Op → TxSt × Out
  | .set k v ttl c => st.set k v ttl c
  | .setMany kvs ttl => (st.setMany kvs ttl, .unit)
  | .get k => let (st', r) := st.get k; (st', .val r)
  | .getMany ks => let (st', r) := st.getMany ks; (st', .vals r)
  | .exists_ k => let (st', r) := st.exists_ k; (st', .bool r)
  | .incr k by_ ttl => st.incr k by_ ttl
  | .delete k => (st.delete k, .bool true)
  | .deleteMany ks => (st.deleteMany ks, .unit)
  | .expire k ttl => (st.expire k ttl, .unit)
  | .getExpire k => (st, .int (st.getExpire k))
  | .clear => (st.clear, .unit)
  | .adv dt => ({ st with b := { st.b with now := st.b.now + dt }, ov := { st.ov with now := st.ov.now + dt } }, .unit)
  | .purge => ({ st with b := st.b.purge }, .unit)          -- a sweep of the *backend's* purge task

/-- a command inside a transaction, in the transaction's mode: lock the written keys, then the base method -/
def step (st : TxSt) (op : Op) : TxSt × Out :=
  let (st', ok) := st.lockAll (writeKeys op)
  if ok then st'.baseStep op else (st', .err)

def run (st : TxSt) : List Op → TxSt × List Out
  | [] => (st, [])
  | op :: ops =>
    let (st', o) := st.step op
    let (st'', os) := run st' ops
    (st'', o :: os)

/-! ### commit / rollback -/

/-- keys of overlay entries whose deadline has already passed (cd9f1a2: `if expire <= 0: self._to_delete.add(key); continue`) -/
def expiredKeys (now : Time) : Store → List Key
  | [] => []
  | (k, e) :: s =>
    match e.dl with
    | some d => if d ≤ now then k :: expiredKeys now s else expiredKeys now s
    | none => expiredKeys now s

/-- write one overlay entry to the backend with its exact remaining TTL (cd9f1a2) -/
def commitEntry (now : Time) (b : Mem) (ke : Key × Entry) : Mem :=
  match ke.2.dl with
  | none => b.rawSet ke.1 ke.2.val none
  | some d => if d ≤ now then b else b.rawSet ke.1 ke.2.val (some (d - now))

/-- `TransactionBackend.commit`: `delete_many(*_to_delete)`, then the overlay entries with their
remaining TTL, then `_clear_local_storage`.  (The code issues one `set_many` per distinct remaining
TTL; overlay keys are distinct, so this is the same set of `_set` calls in a different order — same
live contents, different internal recency order, which is not observable here.) -/
def commitBase (st : TxSt) : TxSt :=
  let now := st.b.now
  let del' := st.del ++ expiredKeys now st.ov.store
  let b1 := del'.foldl (fun s k => (s.rawDelete k).1) st.b
  let b2 := st.ov.store.foldl (commitEntry now) b1
  { st with b := b2, ov := freshOverlay now, del := [] }

/-- `LockTransactionBackend.commit`: `try: super().commit() finally: _unlock_updates()` -/
def commit (st : TxSt) : TxSt := st.commitBase.unlockAll

/-- `rollback`: `_clear_local_storage()`, then the locks are released -/
def rollback (st : TxSt) : TxSt := st.clearLocal.unlockAll

end TxSt
end CashewsVerif
