import CashewsVerif.Model.Basic
/-
Model of `cashews/backends/memory.py` (class `Memory`): an ordered association list
(`OrderedDict`; head = eviction victim, last = most recently used) with lazy expiry.
Each definition mirrors one method; the Python line is quoted next to it.
-/
namespace CashewsVerif

abbrev Store := List (Key × Entry)

namespace Store

def lookup : Store → Key → Option Entry
  | [], _ => none
  | (k', e) :: s, k => if k' = k then some e else lookup s k

def erase : Store → Key → Store
  | [], _ => []
  | (k', e) :: s, k => if k' = k then erase s k else (k', e) :: erase s k

/-- `self.store[key] = ...; self.store.move_to_end(key)` -/
def put (s : Store) (k : Key) (e : Entry) : Store := erase s k ++ [(k, e)]

def keys (s : Store) : List Key := s.map (·.1)

end Store

structure Mem where
  now   : Time
  cap   : Nat
  store : Store

namespace Mem
open Store

def init (cap : Nat) : Mem := { now := 0, cap := cap, store := [] }

/-- `_get`: absent → default; `move_to_end`; expired (`expire_at <= time.time()`) → delete, default. -/
def rawGet (s : Mem) (k : Key) : Mem × Option Val :=
  match lookup s.store k with
  | none => (s, none)
  | some e =>
    if e.live s.now then ({ s with store := put s.store k e }, some e.val)
    else ({ s with store := erase s.store k }, none)

/-- the deadline `_set` gives: own TTL, else the deadline of a live entry already there -/
def newDeadline (s : Mem) (k : Key) (ttl : Option Nat) : Option Time :=
  match deadlineOf s.now ttl with
  | some d => some d
  | none =>
    match lookup s.store k with
    | some e => if e.live s.now then e.dl else none
    | none => none

/-- `popitem(last=False)` when `len(self.store) > self.size` -/
def trim (cap : Nat) (st : Store) : Store := if st.length > cap then st.tail else st

/-- `_set` -/
def rawSet (s : Mem) (k : Key) (v : Val) (ttl : Option Nat) : Mem :=
  { s with store := trim s.cap (put s.store k ⟨v, s.newDeadline k ttl⟩) }

/-- `_delete` (with the repaired return value: an expired entry counts as absent) -/
def rawDelete (s : Mem) (k : Key) : Mem × Bool :=
  match lookup s.store k with
  | none => (s, false)
  | some e => ({ s with store := erase s.store k }, e.live s.now)

def getExpire (s : Mem) (k : Key) : Int :=
  match lookup s.store k with
  | none => -2
  | some e => match e.dl with
    | none => -1
    | some d => if d ≤ s.now then -2 else roundTicks (d - s.now)

def getMany (s : Mem) : List Key → Mem × List (Option Val)
  | [] => (s, [])
  | k :: ks =>
    let (s', v) := s.rawGet k
    let (s'', vs) := getMany s' ks
    (s'', v :: vs)

/-- one sweep of `_remove_expired`: `for key in dict(self.store): await self.get(key)` -/
def purge (s : Mem) : Mem := (s.store.keys).foldl (fun s k => (s.rawGet k).1) s

def step (s : Mem) : Op → Mem × Out
  | .set k v ttl c =>
    match c with
    | .always => (s.rawSet k v ttl, .bool true)
    | .nx =>
      let (s', r) := s.rawGet k          -- `await self._key_exist(key)`
      if r.isSome then (s', .bool false) else (s'.rawSet k v ttl, .bool true)
    | .xx =>
      let (s', r) := s.rawGet k
      if r.isSome then (s'.rawSet k v ttl, .bool true) else (s', .bool false)
  | .setMany kvs ttl => (kvs.foldl (fun s kv => s.rawSet kv.1 kv.2 ttl) s, .unit)
  | .get k => let (s', r) := s.rawGet k; (s', .val r)
  | .getMany ks => let (s', r) := s.getMany ks; (s', .vals r)
  | .exists_ k => let (s', r) := s.rawGet k; (s', .bool r.isSome)
  | .incr k by_ ttl =>
    let (s', r) := s.rawGet k            -- `int(await self._get(key, 0))`
    let cur : Option Int := match r with
      | none => some 0
      | some v => v.toInt?
    match cur with
    | none => (s', .err)
    | some c =>
      let n := c + by_
      (s'.rawSet k (.int n) (if n = 1 then ttl else none), .int n)
  | .delete k => let (s', b) := s.rawDelete k; (s', .bool b)
  | .deleteMany ks => (ks.foldl (fun s k => (s.rawDelete k).1) s, .unit)
  | .expire k ttl =>
    let (s1, r1) := s.rawGet k           -- `if not await self._key_exist(key): return`
    match r1 with
    | none => (s1, .unit)
    | some _ =>
      let (s2, r2) := s1.rawGet k        -- `value = await self._get(key, default=_missed)`
      match r2 with
      | none => (s2, .unit)
      | some v => (s2.rawSet k v ttl, .unit)
  | .getExpire k => (s, .int (s.getExpire k))
  | .clear => ({ s with store := [] }, .unit)
  | .adv dt => ({ s with now := s.now + dt }, .unit)
  | .purge => (s.purge, .unit)

def run (s : Mem) : List Op → Mem × List Out
  | [] => (s, [])
  | op :: ops =>
    let (s', o) := s.step op
    let (s'', os) := run s' ops
    (s'', o :: os)

end Mem
end CashewsVerif
