import CashewsVerif.Model.Basic
/-
Model of the tag feature (C12): `cashews/wrapper/tags.py` (`CommandsTagsWrapper`) on top of the
set commands of `cashews/backends/memory.py` (`set_add`, `set_remove`, `set_pop`) and of the
decorator `tags=` of `cashews/decorators/cache/simple.py`.

Two name spaces of one TTL map (C01 licenses reasoning over the map instead of the ordered
store as long as the store is within capacity; capacity and LRU order are C11's business):
`kv` holds the data keys, `ts` the tag member sets `'_tag:' + tag` (set-valued entries,
`Val.keys`, kept sorted).  Both are *physical* maps: an expired entry stays in them until a
command touches it, because that touch is what fires the on-remove callback that prunes tag
membership (`Memory._get` -> `_delete` -> `_call_on_remove_callbacks`).

The tag registry (`register_tag` + `get_key_tags`, i.e. template -> regex -> match -> format) is
abstracted as the function `tagOf : key ↦ tags the registry derives from the key`; the concrete
template layer is modelled in `Model/TagTemplates.lean`.

`last` and `since` are ghost fields (no command reads them): the tags carried by the latest
successful write of a key, and all tags carried by its writes since it was last explicitly
deleted.  They exist to *state* C12.
-/
namespace CashewsVerif.Tags

structure Cfg where
  /-- `TagsRegistry.get_key_tags(key)` -/
  tagOf : Nat → List Nat
  /-- `set_pop(..., count=100)` in `_delete_tag` -/
  batch : Nat
  /-- the data keys of the case (what a purge sweep visits) -/
  keys  : List Nat

structure St where
  now   : Nat
  kv    : Nat → Option Entry
  ts    : Nat → Option Entry
  last  : Nat → List Nat
  since : Nat → List Nat

def init : St := { now := 0, kv := fun _ => none, ts := fun _ => none, last := fun _ => [], since := fun _ => [] }

def upd {α} (m : Nat → α) (k : Nat) (a : α) : Nat → α := fun k' => if k' = k then a else m k'

/-- what `_get` sees: the entry if it is there and `time.time() < expire_at` -/
def liveAt (now : Nat) (m : Nat → Option Entry) (k : Nat) : Option Entry :=
  match m k with
  | some e => if e.live now then some e else none
  | none => none

/-- the Python set stored under a tag key -/
def members (e : Entry) : List Nat :=
  match e.val with
  | .keys ks => ks
  | _ => []

def membersOpt : Option Entry → List Nat
  | some e => members e
  | none => []

/-- `set.update({k})` on the sorted representation -/
def insertKey (k : Nat) : List Nat → List Nat
  | [] => [k]
  | x :: xs => if k < x then k :: x :: xs else if k = x then x :: xs else x :: insertKey k xs

namespace St

/-- `Memory.set_add(key, value, expire=expire)`:
```
val = await self._get(key, default=set()); val.update(values)
if key in self.store:
    expire_at, _ = self.store[key]
    if expire_at is None or not expire: del self.store[key]; expire = None
    else: expire = max(expire, expire_at - time.time())
self._set(key, val, expire=expire)
```
(an expired set was removed by `_get`, so `key in self.store` means "live") -/
def setAdd (s : St) (t k : Nat) (ttl : Option Nat) : St :=
  let cur := liveAt s.now s.ts t
  let dl : Option Nat :=
    match cur with
    | none => deadlineOf s.now ttl
    | some e =>
      match e.dl, deadlineOf s.now ttl with
      | some d, some d' => some (max d' d)
      | _, _ => none
  { s with ts := upd s.ts t (some ⟨.keys (insertKey k (membersOpt cur)), dl⟩) }

/-- the rule `set_add` had before 9a3ae50 (`val.update(values); self._set(key, val, expire=expire)`: the set takes the
TTL of the latest add, a TTL-less add keeps the old deadline) - kept only to show, in `Props/C12.lean`, that
it breaks the property (D20) -/
def setAddLegacy (s : St) (t k : Nat) (ttl : Option Nat) : St :=
  let cur := liveAt s.now s.ts t
  let dl := match deadlineOf s.now ttl with
    | some d => some d
    | none => cur.bind (·.dl)
  { s with ts := upd s.ts t (some ⟨.keys (insertKey k (membersOpt cur)), dl⟩) }

/-- `Memory.set_remove(key, value)`: `val = _get(key, set()); val.difference_update(values); self._set(key, val)`
(`_set` without TTL keeps the deadline of a live entry, none otherwise) -/
def setRemove (s : St) (t k : Nat) : St :=
  let cur := liveAt s.now s.ts t
  { s with ts := upd s.ts t (some ⟨.keys ((membersOpt cur).filter (· ≠ k)), cur.bind (·.dl)⟩) }

/-- `Memory.set_pop(key, count)`: pops up to `count` members (which ones is up to Python's set
order; the model takes the smallest), `self._set(key, values)` -/
def setPop (s : St) (t count : Nat) : St × List Nat :=
  let cur := liveAt s.now s.ts t
  ({ s with ts := upd s.ts t (some ⟨.keys ((membersOpt cur).drop count), cur.bind (·.dl)⟩) },
   (membersOpt cur).take count)

/-- `_on_remove_callback`: `for tag, keys in _group_by_tags([key]): tags_backend.set_remove('_tag:'+tag, key)` -/
def prune (cfg : Cfg) (s : St) (k : Nat) : St :=
  (cfg.tagOf k).foldl (fun s t => s.setRemove t k) s

/-- `Memory._delete`: `if key in self.store: pop; await self._call_on_remove_callbacks(key); return live` -/
def rawDelete (cfg : Cfg) (s : St) (k : Nat) : St × Bool :=
  match s.kv k with
  | none => (s, false)
  | some e => (prune cfg { s with kv := upd s.kv k none } k, e.live s.now)

/-- `Memory._get`: absent -> default; expired -> `_delete` (callbacks fire), default -/
def touch (cfg : Cfg) (s : St) (k : Nat) : St × Option Val :=
  match s.kv k with
  | none => (s, none)
  | some e => if e.live s.now then (s, some e.val) else ((s.rawDelete cfg k).1, none)

/-- `Memory._set`: own TTL, else the deadline of a live entry already there (no callback) -/
def rawSet (s : St) (k : Nat) (v : Val) (ttl : Option Nat) : St :=
  let dl := match deadlineOf s.now ttl with
    | some d => some d
    | none => (liveAt s.now s.kv k).bind (·.dl)
  { s with kv := upd s.kv k (some ⟨v, dl⟩) }

/-- `for tag in tags: await self.set_add('_tag:' + tag, key, expire=expire)` -/
def tagAll (s : St) (tags : List Nat) (k : Nat) (ttl : Option Nat) : St :=
  tags.foldl (fun s t => s.setAdd t k ttl) s

/-- ghost bookkeeping of a successful write -/
def noteWrite (s : St) (k : Nat) (tags : List Nat) : St :=
  { s with last := upd s.last k tags, since := upd s.since k (tags ++ s.since k) }

/-- ghost bookkeeping of an explicit deletion -/
def noteDelete (s : St) (k : Nat) : St := { s with since := upd s.since k [] }

/-- the unconditional part of `CommandsTagsWrapper.set`: `Memory._set`, then the `set_add`s -/
def writeTagged (s : St) (k : Nat) (v : Val) (ttl : Option Nat) (tags : List Nat) : St :=
  (((s.rawSet k v ttl).tagAll tags k ttl).noteWrite k tags)

/-- `CommandsTagsWrapper.set(key, value, expire, exist, tags)`:
`_set = await super().set(...)`; `if _set and tags: for tag in tags: set_add(...)`.
`Memory.set` tests `exist` through `_key_exist` = `_get` (lazy expiry, callbacks). -/
def wset (cfg : Cfg) (s : St) (k : Nat) (v : Val) (ttl : Option Nat) (c : Cond) (tags : List Nat) : St × Out :=
  match c with
  | .always => (s.writeTagged k v ttl tags, .bool true)
  | .nx =>
    let r := s.touch cfg k
    if r.2.isSome then (r.1, .bool false) else (r.1.writeTagged k v ttl tags, .bool true)
  | .xx =>
    let r := s.touch cfg k
    if r.2.isSome then (r.1.writeTagged k v ttl tags, .bool true) else (r.1, .bool false)

/-- `int(await self._get(key, 0))`: `none` = the stored value is not a number (the call raises) -/
def counterOf : Option Val → Option Int
  | none => some 0
  | some v => v.toInt?

/-- `CommandsTagsWrapper.incr(key, value, expire, tags)`.  `Memory.incr`: `value += int(_get(key, 0))`,
the TTL is applied iff the result is 1.  With `repaired = true` (commit 8a2895c):
`if tags: tag_expire = expire if _set == 1 else None; set_add(..., expire=tag_expire)`;
with `repaired = false` the former rule `if _set and tags: set_add(..., expire=expire)`
(kept only to show, in `Props/C12.lean`, that it breaks the property). -/
def wincrWith (repaired : Bool) (cfg : Cfg) (s : St) (k : Nat) (by_ : Int) (ttl : Option Nat) (tags : List Nat) : St × Out :=
  let r := s.touch cfg k
  match counterOf r.2 with
  | none => (r.1, .err)
  | some c =>
    let n := c + by_
    let kttl := if n = 1 then ttl else none
    let s2 := r.1.rawSet k (.int n) kttl
    let s3 := if repaired then s2.tagAll tags k kttl
              else if n = 0 then s2 else s2.tagAll tags k ttl
    (s3.noteWrite k tags, .int n)

def wincr := wincrWith true

/-- a call of a function decorated with `@cache(ttl, key=..., tags=...)` whose body returns `v`:
`cached = await backend.get(key, default=_empty)`; hit -> return it; miss -> run the body,
`await backend.set(key, result, expire=ttl, tags=tags)`.  `k` and `tags` are the key and the tags rendered from the
call's arguments *before* the body runs (`_tags = [...]; _cache_key = ...` are the first two lines of `_wrap`;
template level: `TagTpl.decorMiss`), so a body that mutates its arguments cannot change them.  The two outcomes are told apart in the output:
`.val (some c)` = served from the cache, `.vals [some v]` = the body ran and its result was stored. -/
def wcall (cfg : Cfg) (s : St) (k : Nat) (v : Val) (ttl : Option Nat) (tags : List Nat) : St × Out :=
  let r := s.touch cfg k
  match r.2 with
  | some c => (r.1, .val (some c))
  | none => (r.1.writeTagged k v ttl tags, .vals [some v])

/-- explicit deletion of one key (`delete`, and each key of `delete_many`) -/
def delKey (cfg : Cfg) (s : St) (k : Nat) : St := ((s.rawDelete cfg k).1).noteDelete k

/-- `delete_match(pattern)`: `async for key in self.scan(pattern): await self._delete(key)`; `scan`
skips entries that are expired.  `ks` = the keys that match the pattern (C13's business): several keys for a
glob, exactly the key of that name for a pattern without `*`, none for a pattern nothing matches.  The memory
backend has no shortcut for wildcard-free patterns: every removed key goes through `_delete`, so its on-remove
callbacks fire (membership in its tag sets is pruned) and it counts as explicitly deleted
(`Lemmas/TagsMatch.lean`: `delMatch_kv_since`, `delMatch_pruned`). -/
def delMatch (cfg : Cfg) (s : St) (ks : List Nat) : St :=
  ks.foldl (fun s k => if (liveAt s.now s.kv k).isSome then s.delKey cfg k else s) s

/-- `_delete_tag`:
```
while True:
    keys = await self.set_pop(key='_tag:' + tag, count=100)
    if not keys: break
    await self.delete_many(*keys)
    if len(keys) != 100: break
```
(the fuel is the number of members + 1: every further round has popped `batch` of them) -/
def deleteTagLoop (cfg : Cfg) : Nat → St → Nat → St
  | 0, s, _ => s
  | fuel + 1, s, t =>
    let r := s.setPop t cfg.batch
    if r.2.isEmpty then r.1
    else
      let s2 := r.2.foldl (delKey cfg) r.1
      if r.2.length ≠ cfg.batch then s2 else deleteTagLoop cfg fuel s2 t

def deleteTag (cfg : Cfg) (s : St) (t : Nat) : St :=
  deleteTagLoop cfg ((membersOpt (liveAt s.now s.ts t)).length + 1) s t

/-- `delete_tags(*tags)`: `for tag in tags: await self._delete_tag(tag)` -/
def deleteTags (cfg : Cfg) (s : St) (tl : List Nat) : St := tl.foldl (deleteTag cfg) s

end St

/-- the commands of the property's histories -/
inductive TOp where
  | set (k : Nat) (v : Val) (ttl : Option Nat) (c : Cond) (tags : List Nat)
  | incr (k : Nat) (by_ : Int) (ttl : Option Nat) (tags : List Nat)
  | call (k : Nat) (v : Val) (ttl : Option Nat) (tags : List Nat)
  | get (k : Nat)
  | exists_ (k : Nat)
  | delete (k : Nat)
  | deleteMany (ks : List Nat)
  | deleteMatch (ks : List Nat)
  | deleteTags (tl : List Nat)
  | adv (dt : Nat)
  | purge
  deriving Repr, DecidableEq

def step (cfg : Cfg) (s : St) : TOp → St × Out
  | .set k v ttl c tags => s.wset cfg k v ttl c tags
  | .incr k by_ ttl tags => s.wincr cfg k by_ ttl tags
  | .call k v ttl tags => s.wcall cfg k v ttl tags
  | .get k => let r := s.touch cfg k; (r.1, .val r.2)
  | .exists_ k => let r := s.touch cfg k; (r.1, .bool r.2.isSome)
  | .delete k => let r := s.rawDelete cfg k; (r.1.noteDelete k, .bool r.2)
  | .deleteMany ks => (ks.foldl (St.delKey cfg) s, .unit)
  | .deleteMatch ks => (s.delMatch cfg ks, .unit)
  | .deleteTags tl => (s.deleteTags cfg tl, .unit)
  | .adv dt => ({ s with now := s.now + dt }, .unit)
  -- one sweep of `_remove_expired`: `for key in dict(self.store): await self.get(key)`
  | .purge => (cfg.keys.foldl (fun s k => (s.touch cfg k).1) s, .unit)

def run (cfg : Cfg) (s : St) : List TOp → St × List Out
  | [] => (s, [])
  | op :: ops =>
    let r := step cfg s op
    let r' := run cfg r.1 ops
    (r'.1, r.2 :: r'.2)

/-- the state after a history (outputs dropped) -/
def exec (cfg : Cfg) (s : St) (ops : List TOp) : St := ops.foldl (fun s op => (step cfg s op).1) s

/-- readable = what `get` would return now -/
def readable (s : St) (k : Nat) : Option Val := (liveAt s.now s.kv k).map (·.val)

/-- the tags a command attaches to key `k` if it writes it ([] otherwise) -/
def TOp.tagsFor (k : Nat) : TOp → List Nat
  | .set k' _ _ _ tags => if k' = k then tags else []
  | .incr k' _ _ tags => if k' = k then tags else []
  | .call k' _ _ tags => if k' = k then tags else []
  | _ => []

/-- a command that may write key `k` -/
def TOp.writes (k : Nat) : TOp → Bool
  | .set k' _ _ _ _ => k' = k
  | .incr k' _ _ _ => k' = k
  | .call k' _ _ _ => k' = k
  | _ => false

/-- did the command, given its result, write its key?  (`set` answered True, `incr` a number, the
decorated body ran) -/
def TOp.wrote : TOp → Out → Bool
  | .set .., .bool true => true
  | .incr .., .int _ => true
  | .call .., .vals _ => true
  | _, _ => false

/-- **"the latest write of `k` carried ..."**, read off a chronological trace of commands and results:
the tag list of the last command that wrote `k` ([] if there is none). -/
def latestTags (k : Nat) (trace : List (TOp × Out)) : List Nat :=
  trace.foldl (fun acc p => if p.1.writes k && p.1.wrote p.2 then p.1.tagsFor k else acc) []

/-- the trace (commands with their results) of a history run from `s` -/
def trace (cfg : Cfg) (s : St) (ops : List TOp) : List (TOp × Out) := ops.zip (run cfg s ops).2

/-- documented usage: a tag is registered for the keys it is used with
(`cache.register_tag(tag, key_template)` before `set(..., tags=[tag])`; the decorator does it itself) -/
def TOp.registered (cfg : Cfg) : TOp → Bool
  | .set k _ _ _ tags => tags.all (fun t => (cfg.tagOf k).contains t)
  | .incr k _ _ tags => tags.all (fun t => (cfg.tagOf k).contains t)
  | .call k _ _ tags => tags.all (fun t => (cfg.tagOf k).contains t)
  | _ => true

/-! ### decorators that write again while their entry is alive (`early`, `soft`, `hit` / `dynamic`)

`cashews/wrapper/decorators.py` gives `tags=` to `cache`, `early`, `soft`, `hit` and `dynamic` (= `hit` with
`cache_hits=3, update_after=1`); `failover` and `iterator` take none.  Unlike the simple `@cache` (`wcall`: one write,
on a miss) these strategies **re-write** a key that is still readable: `early` recalculates a hot entry ahead of
its deadline (in the foreground or in a background task), `soft` recomputes after the soft deadline, `hit` updates at
`update_after` hits and recomputes beyond `cache_hits`.  Every such re-write is the wrapper command
`backend.set(key, value, expire=ttl, tags=_tags)` with the tags rendered from the arguments of the call that
triggered it - a tagged write like any other (`decorWrite`): it moves the key's deadline to `now + ttl`, and its
`set_add`s are what moves the tag sets' deadlines along.  Each decorated call is written here as the list of wrapper
commands it issues in state `s` (a program over the alphabet `TOp`, so every theorem about histories covers it) and
what the call did: `.val (some c)` = served `c` from the cache, nothing written; `.vals [some x]` = the body ran and
its result `x` was stored (first write or re-write); `.vals [none]` = the body ran and the condition rejected its result.  Which value a call that re-writes hands to its caller (the entry
it found, or the fresh result it waited for) is the strategy's business and left out.  The decorated body returns the
opaque token `x` at once (calls are sequential). -/

/-- `await backend.set(key, value, expire=ttl, tags=tags)` issued by a decorator (first write or re-write) -/
def decorWrite (k : Nat) (v : Val) (ttl : Option Nat) (tags : List Nat) : TOp := .set k v ttl .always tags

/-- **how the body of a decorated call runs and whether its result is stored**: the body takes `dur` ticks
(`time.perf_counter()` around it under `time_condition=`; 0 otherwise); `accept` = the decorator's condition accepts the
result of a call that found nothing it could serve, `acceptRefresh` = it accepts the result of a call that re-writes an
entry it DID find (`early`'s recalculation, `hit`'s update).  `cashews/wrapper/decorators.py`: the ordinary path (`_wrap`,
also with `lock=True` - the call runs under `cache.lock('lock:' + key)` - and with `protected=False` - no thunder protection)
accepts everything (`condition=None`: any result but `None`; the bodies return tokens); `time_condition=limit` accepts iff
the body took longer than `limit`; `upper=True` (`_wrap_with_condition`: the decorator is built again on every call, with the
same `**decor_kwargs` - tags included - and the condition `not detect.calls and <condition>`) rejects whatever is computed
after an entry was found while the call is still in progress, because finding one is recorded in `detect.calls` (a re-write
done in a background task runs after the call has returned and its record is cleared: accepted).  None of these options changes which key and
tags a stored result gets. -/
structure Run where
  dur : Nat
  accept : Bool
  acceptRefresh : Bool
  deriving DecidableEq, Repr

/-- the ordinary case: an immediate body, every result stored -/
def Run.plain : Run := ⟨0, true, true⟩

/-- the simple `@cache(ttl, key=, tags=)` under the options above (`wcall` / `.call` is the case `Run.plain`):
miss -> run the body (`dur` ticks), store the result if accepted -/
def simpleCall (cfg : Cfg) (s : St) (k : Nat) (v : Val) (ttl : Option Nat) (tags : List Nat) (r : Run) : List TOp × Out :=
  match (step cfg s (.get k)).2 with
  | .val (some c) => ([.get k], .val (some c))
  | _ =>
    if r.accept then ([.get k, .adv r.dur, decorWrite k v ttl tags], .vals [some v])
    else ([.get k, .adv r.dur], .vals [none])

/-- `@cache.early(ttl, early_ttl, tags=...)` (`cashews/decorators/cache/early.py`):
```
cached = await backend.get(_cache_key, default=_empty)
if cached is _empty: return await _get_result_for_early(*args_to_call)           # miss: compute, set(tags=_tags)
early_expire_at, result = cached
if early_expire_at >= datetime.now(timezone.utc): return result                  # served
if not await backend.set(lock_key, "1", expire=_early_ttl, exist=False): return result
task = asyncio.create_task(_get_result_for_early(*args_to_call, unlock=True))    # the recalculation
if not background: return await task
return result
# _get_result_for_early: result = await func(...); early_expire_at = now + early_ttl
#                        if condition(...): await backend.set(key, [early_expire_at, result], expire=ttl, tags=tags)
#                        finally: if unlock: backend.delete(key + ":lock")
```
The stored value `[early_expire_at, result]` is `.nums [stamp, x]`; `lk` is the lock key `key + ":lock"` (written
without tags, but a key like any other for the registry: its removal fires the on-remove callback).  In sequential
histories the lock is free (it is deleted when the recalculation ends).  With `retag = false` the recalculation
stores its result without tags ("the key is already in its tag sets") - kept only to show, in `Props/C12.lean`,
that this breaks the property. -/
def earlyCallWith (retag : Bool) (cfg : Cfg) (s : St) (k lk x : Nat) (ttl : Option Nat) (early : Nat) (tags : List Nat)
    (r : Run) : List TOp × Out :=
  let v := Val.nums [s.now + r.dur + early, x]
  let g := TOp.get k
  let l := TOp.set lk (.tok 1) (some early) .nx []
  match (step cfg s g).2 with
  | .val none =>
    if r.accept then ([g, .adv r.dur, decorWrite k v ttl tags], .vals [some (.tok x)])
    else ([g, .adv r.dur], .vals [none])
  | .val (some (.nums [stamp, c])) =>
    if s.now ≤ stamp then ([g], .val (some (.tok c)))
    else if (step cfg (step cfg s g).1 l).2 = .bool true then
      if r.acceptRefresh then
        ([g, l, .adv r.dur, decorWrite k v ttl (if retag then tags else []), .delete lk], .vals [some (.tok x)])
      else ([g, l, .adv r.dur, .delete lk], .vals [none])
    else ([g, l], .val (some (.tok c)))
  | _ => ([g], .err)

def earlyCall := earlyCallWith true

/-- `@cache.soft(ttl, soft_ttl, tags=...)` (`cashews/decorators/cache/soft.py`):
```
cached = await backend.get(_cache_key, default=_empty)
if cached is not _empty:
    soft_expire_at, result = cached
    if soft_expire_at > datetime.now(timezone.utc): return result                # served (recorded in detect.calls)
result = await func(*args, **kwargs)                                             # miss, or past the soft deadline
if condition(...):
    soft_expire_at = now + soft_ttl
    await backend.set(_cache_key, [soft_expire_at, result], expire=_ttl, tags=_tags)
return result
``` -/
def softCall (cfg : Cfg) (s : St) (k x : Nat) (ttl : Option Nat) (soft : Nat) (tags : List Nat) (r : Run) : List TOp × Out :=
  let w := decorWrite k (.nums [s.now + r.dur + soft, x]) ttl tags
  let compute : List TOp × Out :=
    if r.accept then ([.get k, .adv r.dur, w], .vals [some (.tok x)]) else ([.get k, .adv r.dur], .vals [none])
  match (step cfg s (.get k)).2 with
  | .val none => compute
  | .val (some (.nums [stamp, c])) => if s.now < stamp then ([.get k], .val (some (.tok c))) else compute
  | _ => ([.get k], .err)

/-- `@cache.hit(ttl, cache_hits, update_after, tags=...)` and `@cache.dynamic` (`cashews/decorators/cache/hit.py`);
`kc` is the counter key `key + ":counter"`, which the decorator registers for the same tags:
```
cached, hits = await asyncio.gather(backend.get(_cache_key, default=_empty),
                                    backend.incr(_cache_key + ":counter", expire=ttl, tags=_tags))
if cached is not _empty and hits and hits <= cache_hits:
    <recorded in detect.calls>
    if update_after and hits == update_after: <_get_and_save in a task, awaited unless background>
    return cached
return await _get_and_save(...)
# _get_and_save: result = await func(...)
#                if condition(...): await asyncio.gather(backend.delete(key + ":counter"),
#                                                        backend.set(key, result, expire=ttl, tags=tags))
```
(the in-memory commands never suspend, so the gathered commands run in the order they are listed) -/
def hitCall (cfg : Cfg) (s : St) (k kc x : Nat) (ttl : Option Nat) (tags : List Nat) (cacheHits updateAfter : Nat)
    (r : Run) : List TOp × Out :=
  let g := TOp.get k
  let i := TOp.incr kc 1 ttl tags
  let save (acc : Bool) : List TOp × Out :=
    if acc then ([g, i, .adv r.dur, .delete kc, decorWrite k (.tok x) ttl tags], .vals [some (.tok x)])
    else ([g, i, .adv r.dur], .vals [none])
  match (step cfg s g).2, (step cfg (step cfg s g).1 i).2 with
  | .val (some c), .int n =>
    if n ≠ 0 ∧ n ≤ (cacheHits : Int) then
      if updateAfter ≠ 0 ∧ n = (updateAfter : Int) then save r.acceptRefresh
      else ([g, i], .val (some c))
    else save r.accept
  | .val none, .int _ => save r.accept
  | _, _ => ([g, i], .err)

/-- did the decorated body run and its result get stored?  (`.vals [none]` = it ran and the condition rejected the result) -/
def bodyRan : Out → Bool
  | .vals [some _] => true
  | _ => false

/-- **a call of a function decorated with `tags=`**, by any of the decorators that take the parameter and under any of the
options that change the wrapping path (`Run`), made in state `s` for key `k` with the ttl and the tags of this call: the
wrapper commands it issues and what it did.  (`lk`, `kc`: the lock / counter key is another key than `k`.) -/
inductive DecorCall (cfg : Cfg) (s : St) (k : Nat) (ttl : Option Nat) (tags : List Nat) : List TOp × Out → Prop where
  | simple (v : Val) : DecorCall cfg s k ttl tags ([.call k v ttl tags], (step cfg s (.call k v ttl tags)).2)
  | simpleOpt (v : Val) (r : Run) : DecorCall cfg s k ttl tags (simpleCall cfg s k v ttl tags r)
  | early (lk x early : Nat) (r : Run) (h : lk ≠ k) : DecorCall cfg s k ttl tags (earlyCall cfg s k lk x ttl early tags r)
  | soft (x soft : Nat) (r : Run) : DecorCall cfg s k ttl tags (softCall cfg s k x ttl soft tags r)
  | hit (kc x cacheHits updateAfter : Nat) (r : Run) (h : kc ≠ k) :
      DecorCall cfg s k ttl tags (hitCall cfg s k kc x ttl tags cacheHits updateAfter r)

/-! ### several data backends routed by key prefix (`cache.setup(url); cache.setup(url, prefix="users:")`)

`CommandWrapper.delete_many(*keys)` (`cashews/wrapper/commands.py`), which `_delete_tag` hands the popped members to:
```
backends = {}
for key in keys: backends.setdefault(self._get_backend(key), []).append(key)
for _keys in backends.values(): await self._with_middlewares(Command.DELETE_MANY, _keys[0])(*_keys)
```
`owner k` is the backend whose prefix routes key `k`.  A backend only holds - and can only delete - the keys it owns.  The model's
`kv` is the union of the backends' stores (routing itself is C17's business). -/

/-- the backends of the call, in the order of their first key (`dict` insertion order) -/
def ownersOf (owner : Nat → Nat) : List Nat → List Nat
  | [] => []
  | k :: r => owner k :: (ownersOf owner r).filter (· ≠ owner k)

/-- one list of keys per backend -/
def groupsBy (owner : Nat → Nat) (ks : List Nat) : List (List Nat) :=
  (ownersOf owner ks).map fun b => ks.filter (owner · = b)

/-- each group goes to the backend that owns it -/
def deleteManyRouted (cfg : Cfg) (owner : Nat → Nat) (s : St) (ks : List Nat) : St :=
  (groupsBy owner ks).foldl (fun s g => g.foldl (St.delKey cfg) s) s

/-- every group goes to the backend of the FIRST key of the whole call (`keys[0]` for `_keys[0]`), which deletes what it owns of it -
kept only to show, in `Props/C12.lean`, that this breaks the property -/
def deleteManyMisrouted (cfg : Cfg) (owner : Nat → Nat) (s : St) (ks : List Nat) : St :=
  (groupsBy owner ks).foldl (fun s g => (g.filter (owner · = owner (ks.headD 0))).foldl (St.delKey cfg) s) s

end CashewsVerif.Tags
