/-
Model of the framing layer of `cashews/serialize.py` (C09, C10).  Mathlib-free (the drivers link against it).

What is modelled: `HashSigner.sign / check_sign / _get_sign_and_digestmod`, `NullSigner`,
`Serializer.encode / _custom_encode / decode / _custom_decode`, and the configurations that
`get_serializer` can build.  What is *abstract* (a field of `Cfg`, constrained only by explicit
hypotheses of the theorems, never by an axiom):

* the pickler: a pair `dumps / loads` (`cashews/picklers.py`: pickle, json, dill, …, NonPickler);
* the MAC: `mac : Digest → secret → message → Bytes` (`HashSigner._digestmods[label](secret, msg)`);
* the registered custom encoders/decoders and the class of a value (`type(value)`, a `Klass`: `__name__` and
  `__qualname__`); the registry key of a class is the ONE function `Klass.tag`, applied by `register_type` and by
  `_custom_encode` alike;
* how the caller's texts reach the MAC: `key.encode()` and `_to_bytes(secret)` (`encodeK` / `decodeK`, `SecretArg`).

The registry of custom types (`Serializer._type_mapping`) is a CLASS attribute that `register_type` updates at
any time, before or after serializers and caches are built: it is not part of a serializer's configuration.
It is therefore an explicit argument `reg` of `encode` and of `decode` — the registry *as it is when the call
is made* — and the round-trip theorems of C09 speak about a write-time and a read-time registry.
-/
namespace CashewsVerif.Serial

/-- Python `bytes` -/
abbrev Bytes := List UInt8

/-- `b"_"` -/
def us : UInt8 := 0x5f
/-- `b":"` -/
def colon : UInt8 := 0x3a

/-- `b.split(sep, 1)` when it yields two parts: (before, after) the *first* `sep`; `none` when `sep`
does not occur (Python then returns a one-element list and the tuple unpacking raises ValueError). -/
def splitFirst (sep : UInt8) : Bytes → Option (Bytes × Bytes)
  | [] => none
  | c :: r =>
    if c = sep then some ([], r)
    else match splitFirst sep r with
      | none => none
      | some (a, b) => some (c :: a, b)

def isDigit (c : UInt8) : Bool := 0x30 ≤ c && c ≤ 0x39

/-- `bytes.isdigit()`: non-empty and only ASCII decimal digits -/
def isDigits (b : Bytes) : Bool := !b.isEmpty && b.all isDigit

/-- `int(b)` for a digit-only byte string (leading zeros allowed) -/
def digitsVal (b : Bytes) : Nat := b.foldl (fun n c => 10 * n + (c.toNat - 48)) 0

/-- `b"-"` -/
def minus : UInt8 := 0x2d

/-- the integer shortcut of `decode` (serialize.py, after the D28 repair c2826f4):
`value.isdigit() or (value[:1] == b"-" and value[1:].isdigit())` -/
def isIntLit (b : Bytes) : Bool :=
  isDigits b || (match b with
    | c :: r => c = minus && isDigits r
    | [] => false)

/-- `int(b)` for such a byte string -/
def intVal (b : Bytes) : Int :=
  match b with
  | c :: r => if c = minus then -(digitsVal r : Int) else (digitsVal b : Int)
  | [] => 0

def isLowerHexChar (c : UInt8) : Bool := isDigit c || (0x61 ≤ c && c ≤ 0x66)

/-- the byte string consists of `0-9a-f` only: what `hexdigest().encode()` and `f"{s:x}".encode()` produce -/
def isLowerHex (b : Bytes) : Bool := b.all isLowerHexChar

/-- the keys of `HashSigner._digestmods` -/
inductive Digest where
  | sha1 | md5 | sha256 | sum
  deriving DecidableEq, Repr

/-- the label as it appears in a stored blob -/
def Digest.label : Digest → Bytes
  | .sha1 => [0x73, 0x68, 0x61, 0x31]                   -- b"sha1"
  | .md5 => [0x6d, 0x64, 0x35]                          -- b"md5"
  | .sha256 => [0x73, 0x68, 0x61, 0x32, 0x35, 0x36]     -- b"sha256"
  | .sum => [0x73, 0x75, 0x6d]                          -- b"sum"

def Digest.all : List Digest := [.sha1, .md5, .sha256, .sum]

/-- `digestmod in self._digestmods` -/
def parseLabel (b : Bytes) : Option Digest :=
  if b = Digest.label .sha1 then some .sha1
  else if b = Digest.label .md5 then some .md5
  else if b = Digest.label .sha256 then some .sha256
  else if b = Digest.label .sum then some .sum
  else none

/-- A Python object as far as the serializer can tell objects apart. -/
inductive Val (α : Type) where
  | int (i : Int)          -- `isinstance(value, int) and not isinstance(value, bool)`
  | bytes (b : Bytes)      -- `isinstance(value, bytes)`
  | obj (x : α)            -- anything else: None, bool, float, str, containers, dataclasses, …
  deriving DecidableEq, Repr

def Val.isBytes {α} : Val α → Bool
  | .bytes _ => true
  | _ => false

/-- What `Serializer._decode(p)` did: `pickler.loads(p)` followed, while the option `check_repr` is on (the default; a settings
url switches it off with `check_repr=false` / `0`, defect D72), by `repr(value)`, whose AttributeError (an object of a class that
lost attributes since it was pickled) counts as `attrError` and whose other failures are ignored (D58). -/
inductive Loaded (α : Type) where
  | ok (v : Val α)
  | unpickling            -- raised a member of `pickler.UnpicklingError`
  | attrError             -- raised AttributeError
  | other                 -- raised anything else (it propagates out of `decode`)
  deriving DecidableEq, Repr

/-- `cashews/picklers.py`: `dumps` returns bytes for every real pickler and its argument for `NonPickler`. -/
structure Pickler (α : Type) where
  dumps : Val α → Val α
  loads : Bytes → Loaded α

/-- NonPickler (`PicklerType.NULL`): both directions are the identity. -/
def Pickler.null {α} : Pickler α := { dumps := id, loads := fun b => .ok (.bytes b) }

/-- one entry of `Serializer._type_mapping`; `dec = none` stands for the decoder raising `DecodeError` -/
structure Codec (α : Type) where
  enc : Val α → Bytes
  dec : Bytes → Option (Val α)

/-- `HashSigner(secret, digestmod)` -/
structure Signer where
  secret : Bytes
  digest : Digest
  deriving DecidableEq, Repr

def tagBytes : Bytes := [0x62, 0x79, 0x74, 0x65, 0x73]   -- b"bytes"
def tagInt : Bytes := [0x69, 0x6e, 0x74]                  -- b"int"

/-- A Python class as far as `register_type(klass, …)` and `type(value)` are concerned: its `__name__` and its
`__qualname__` (`Outer.Inner`, `f.<locals>.Point`; equal to `__name__` for a module-level class).  Two different
classes may share their `__name__` (nested in different classes, local to different functions, other modules), and
a subclass is a class of its own: `type(value)` is the exact class, never a base. -/
structure Klass where
  name : Bytes
  qual : Bytes
  deriving DecidableEq, Repr

/-- **The registry key of a class**: `bytes(klass.__name__, "utf8")`.  ONE function, applied by `register_type` to the
class it is given (`cls._type_mapping[bytes(klass.__name__, "utf8")] = …`) and by `_custom_encode` to `type(value)`
(`value_type = bytes(type(value).__name__, "utf8")`); the stored envelope `tag:payload` starts with it.  If the two
sites used different functions (say `__qualname__` on one side), every class on which they differ would be registered
under a key that is never looked up (`Props.C09.registered_under_another_key_is_bypassed`). -/
def Klass.tag (k : Klass) : Bytes := k.name

/-- the builtin `int` -/
def Klass.int : Klass := ⟨tagInt, tagInt⟩
/-- the builtin `bytes` -/
def Klass.bytes : Klass := ⟨tagBytes, tagBytes⟩

structure Cfg (α : Type) where
  /-- `HashSigner._digestmods[label](secret, message)` -/
  mac : Digest → Bytes → Bytes → Bytes
  /-- `none` = `NullSigner` -/
  signer : Option Signer
  pickler : Pickler α
  /-- `type(value)` for values that are neither int nor bytes -/
  classOf : α → Klass

/-- `Serializer._type_mapping`: class-level, shared by every serializer of the process, consulted afresh by every
`encode` / `decode` call (`value_type in self._type_mapping`) -/
abbrev Registry (α : Type) := Bytes → Option (Codec α)

variable {α : Type}

/-- no type registered -/
def Registry.empty : Registry α := fun _ => none

/-- the dict assignment `cls._type_mapping[tag] = (encoder, decoder)`: a later assignment under the same key
replaces the pair (`register_type` is `Registry.registerClass` below) -/
def Registry.register (r : Registry α) (tag : Bytes) (c : Codec α) : Registry α :=
  fun t => if t = tag then some c else r t

/-- **`register_type(klass, encoder, decoder)`**: the dict assignment under `klass`'s registry key — the same
`Klass.tag` that `tagOf` applies to `type(value)`.  Classes with the same `__name__` share one slot. -/
def Registry.registerClass (r : Registry α) (k : Klass) (c : Codec α) : Registry α :=
  r.register k.tag c

/-- a sequence of `register_type` calls, oldest first -/
def Registry.registerClasses (r : Registry α) (l : List (Klass × Codec α)) : Registry α :=
  l.foldl (fun r kc => r.registerClass kc.1 kc.2) r

/-- a sequence of dict assignments, oldest first -/
def Registry.registerAll (r : Registry α) (l : List (Bytes × Codec α)) : Registry α :=
  l.foldl (fun r tc => r.register tc.1 tc.2) r

/-- every pair of `r` is still registered, unchanged, in `r'` (what registering further, new names gives) -/
def Registry.le (r r' : Registry α) : Prop := ∀ tag c, r tag = some c → r' tag = some c

/-! ### signing  (serialize.py:33-72) -/

/-- `_gen_sign`: `self._digestmods[digestmod](self._secret, key.encode() + value)` -/
def genSign (cfg : Cfg α) (s : Signer) (d : Digest) (key value : Bytes) : Bytes :=
  cfg.mac d s.secret (key ++ value)

/-- `HashSigner.sign`: `self._digestmod + b":" + sign + b"_" + value` -/
def hashSign (cfg : Cfg α) (s : Signer) (key value : Bytes) : Bytes :=
  s.digest.label ++ colon :: (genSign cfg s s.digest key value ++ us :: value)

inductive Check where
  | ok (payload : Bytes)
  | missing                -- SignIsMissingError
  | unsecure               -- UnSecureDataError
  deriving DecidableEq, Repr

/-- `_get_sign_and_digestmod`: optional `digest:` prefix, split at the first `:` (fix 45a2393);
an unknown label is `UnSecureDataError` (`none`). -/
def signAndDigest (s : Signer) (hdr : Bytes) : Option (Bytes × Digest) :=
  match splitFirst colon hdr with
  | none => some (hdr, s.digest)
  | some (lab, sig) =>
    match parseLabel lab with
    | none => none
    | some d => some (sig, d)

/-- `HashSigner.check_sign` -/
def checkHash (cfg : Cfg α) (s : Signer) (key value : Bytes) : Check :=
  match splitFirst us value with
  | none => .missing
  | some (hdr, payload) =>
    match signAndDigest s hdr with
    | none => .unsecure
    | some (sig, d) => if genSign cfg s d key payload = sig then .ok payload else .unsecure

/-- `self._signer.check_sign(key, value)` -/
def checkSign (cfg : Cfg α) (key value : Bytes) : Check :=
  match cfg.signer with
  | none => .ok value
  | some s => checkHash cfg s key value

/-- `self._signer.sign(key, value)`; `none` = TypeError (`HashSigner` needs bytes; unreachable through
`get_serializer`, which pairs a secret with a real pickler). -/
def sign (cfg : Cfg α) (key : Bytes) (v : Val α) : Option (Val α) :=
  match cfg.signer with
  | none => some v
  | some s =>
    match v with
    | .bytes b => some (.bytes (hashSign cfg s key b))
    | _ => none

/-! ### encode  (serialize.py:102-117) -/

/-- `type(value)` -/
def classOfVal (cfg : Cfg α) : Val α → Klass
  | .int _ => Klass.int
  | .bytes _ => Klass.bytes
  | .obj x => cfg.classOf x

/-- `bytes(type(value).__name__, "utf8")`: the registry key (`Klass.tag`) of the value's exact class -/
def tagOf (cfg : Cfg α) (v : Val α) : Bytes := (classOfVal cfg v).tag

/-- `_custom_encode`: `value_type + b":" + encoded_value` for a registered type, else `None` -/
def customEncode (cfg : Cfg α) (reg : Registry α) (v : Val α) : Option Bytes :=
  match reg (tagOf cfg v) with
  | none => none
  | some c => some (tagOf cfg v ++ colon :: c.enc v)

/-- `Serializer.encode`: what is handed to the store (`none` = it raised); `reg` = the registry at the time of
the call. -/
def encode (cfg : Cfg α) (reg : Registry α) (key : Bytes) (v : Val α) : Option (Val α) :=
  match v with
  | .int i => some (.int i)
  | v =>
    match customEncode cfg reg v with
    | some b => sign cfg key (.bytes b)
    | none => sign cfg key (cfg.pickler.dumps v)

/-! ### decode  (serialize.py:119-158) -/

/-- what `get` hands back -/
inductive Res (α : Type) where
  | value (v : Val α)
  | dflt                  -- the caller's default
  | unsecure              -- UnSecureDataError
  | raised                -- an exception of the pickler that is neither UnpicklingError-class nor AttributeError
  deriving DecidableEq, Repr

/-- The decision taken *before* the unpickler is reached. -/
inductive Pre (α : Type) where
  | same                  -- `value is default`
  | pass (v : Val α)      -- not bytes: returned as is
  | digit (n : Int)       -- `value.isdigit()` or `-` + digits: `int(value)`, no signature check
  | dflt                  -- SignIsMissingError
  | unsecure              -- UnSecureDataError
  | custom (p : Bytes)    -- the signature verified and `p` is `registered type:…`: custom decoder, no unpickling (fix d1f0dd9)
  | loads (p : Bytes)     -- the signature verified: `pickler.loads(p)` is called
  deriving DecidableEq, Repr

/-- `_is_custom_encoded`: `value.partition(b":")` has a separator and the part before it is a registered type
(`value_type in self._type_mapping`: the class-level registry as it is now, not as it was when the serializer
was built) -/
def isCustomEncoded (reg : Registry α) (p : Bytes) : Bool :=
  match splitFirst colon p with
  | none => false
  | some (tag, _) => (reg tag).isSome

/-- first half of `decode` (up to and excluding `self._decode(value)`); `same` = `value is default` -/
def preLoads (cfg : Cfg α) (reg : Registry α) (key : Bytes) (w : Val α) (same : Bool) : Pre α :=
  if same then .same
  else match w with
    | .bytes b =>
      if isIntLit b then .digit (intVal b)
      else match checkSign cfg key b with
        | .missing => .dflt
        | .unsecure => .unsecure
        | .ok p => if isCustomEncoded reg p then .custom p else .loads p
    | v => .pass v

/-- `_custom_decode` -/
def customDecode (reg : Registry α) (b : Bytes) : Res α :=
  match splitFirst colon b with
  | none => .dflt
  | some (tag, payload) =>
    match reg tag with
    | none => .dflt
    | some c =>
      match c.dec payload with
      | none => .dflt
      | some v => .value v

/-- second half of `decode`, given what `loads p` did -/
def postLoads (reg : Registry α) (p : Bytes) (r : Loaded α) : Res α :=
  match r with
  | .attrError => .dflt
  | .other => .raised
  | .unpickling => customDecode reg p
  | .ok (.bytes b) => customDecode reg b
  | .ok v => .value v

/-- `Serializer.decode`; `reg` = the registry at the time of the call -/
def decode (cfg : Cfg α) (reg : Registry α) (key : Bytes) (w : Val α) (same : Bool) : Res α :=
  match preLoads cfg reg key w same with
  | .same => .dflt
  | .pass v => .value v
  | .digit n => .value (.int n)
  | .dflt => .dflt
  | .unsecure => .unsecure
  | .custom p => customDecode reg p
  | .loads p => postLoads reg p (cfg.pickler.loads p)


/-! ### how the caller's texts reach the MAC: `key.encode()` and `_to_bytes(secret)`

Everything above takes the key and the secret as the BYTES the MAC is computed over.  The caller supplies a `str` key
and a `str | bytes` secret (or whatever the settings-url parser made of the text after `secret=`); the code turns them
into bytes at exactly one place, the MAC computation (`_gen_sign`: `key.encode() + value`, `self._secret`).  Both
conversions can fail, and the integrity statements of C10 are about the TEXTS only as far as the conversions are
injective (`Props.C10.EncInjective`, an explicit hypothesis there). -/

/-- what arrives as `secret=` at `HashSigner.__init__` -/
inductive SecretArg where
  | str (utf8 : Bytes)     -- a `str`, given by its (strict) UTF-8 encoding
  | bytes (b : Bytes)      -- `bytes`
  | other                  -- neither: an `int` / `float` (what `_serialize_params` makes of numeric-looking url text)
  deriving DecidableEq, Repr

/-- `_to_bytes`: `value.encode()` for a `str`, anything else is left alone; `none` = still not bytes afterwards
(`hmac.new` / `sum()` then raise TypeError at the first MAC computation).  Different `str`s stay different, a `str`
and the `bytes` of the same text are the same secret, and NO non-bytes object is rendered through `str()` (which would
identify `0042`, `042` and `42` once the url parser has made the int 42 of each). -/
def toBytes : SecretArg → Option Bytes
  | .str u => some u
  | .bytes b => some b
  | .other => none

/-- **`get_serializer`: `if secret: set_signer(HashSigner(secret, digestmod))`** — Python truthiness: no secret, the empty
`str` and the empty `bytes` (`os.environ.get("CACHE_SECRET", "")`) all mean NO signer; the pickler is chosen by the same test
(`_get_pickler(pickle_type or NULL, bool(secret))`: the NonPickler is replaced by pickle only when there IS a signer, which
needs bytes).  The two decisions must be made by one test: a signer on top of the NonPickler cannot sign anything but bytes
(`sign` returns `none`: TypeError).  A non-bytes object (`.other`) is taken as truthy. -/
def signerOf (secret : Option SecretArg) (d : Digest) : Option Signer :=
  match secret with
  | none => none
  | some a =>
    match toBytes a with
    | some [] => none
    | some b => some { secret := b, digest := d }
    | none => some { secret := [], digest := d }

/-- `_get_pickler(pickle_type or NULL, bool(secret))`: does the NonPickler stay?  (`asked` = a real pickler was asked for) -/
def nonPicklerStays (secret : Option SecretArg) (d : Digest) (asked : Bool) : Bool :=
  !asked && (signerOf secret d).isNone

/-- NOT what `HashSigner.check_sign` does, but what a verifier holding SEVERAL secrets would do (a "rotation list", e.g. the
configured text split at `,`): accept when the signature matches under ANY of them.  Kept in the model only to state what
that would mean (`Props.C10.any_secret_verifier_accepts_foreign_secret`): `HashSigner` holds ONE secret, the whole
configured text — `toBytes (.str u) = some u`, separators and all. -/
def checkHashAny (cfg : Cfg α) (secrets : List Bytes) (digest : Digest) (key value : Bytes) : Check :=
  match splitFirst us value with
  | none => .missing
  | some (hdr, payload) =>
    match signAndDigest { secret := [], digest := digest } hdr with
    | none => .unsecure
    | some (sig, d) =>
      if secrets.any (fun s => genSign cfg { secret := s, digest := digest } d key payload = sig) then .ok payload
      else .unsecure

/-- does `encode` compute a MAC?  (not for integers, not with the `NullSigner`) -/
def encodeUsesMac (cfg : Cfg α) (v : Val α) : Bool :=
  match v, cfg.signer with
  | .int _, _ => false
  | _, none => false
  | _, some _ => true

/-- does `decode` compute a MAC?  Only for stored bytes that are not an integer literal, that contain a `_`, and whose
header names a known digest — `check_sign` splits and looks the label up BEFORE `_gen_sign` touches key or secret. -/
def decodeUsesMac (cfg : Cfg α) (w : Val α) (same : Bool) : Bool :=
  if same then false
  else match w, cfg.signer with
    | .bytes b, some s =>
      if isIntLit b then false
      else match splitFirst us b with
        | none => false
        | some (hdr, _) => (signAndDigest s hdr).isSome
    | _, _ => false

/-- why a MAC could not be computed -/
inductive MacErr where
  | key                    -- `key.encode()` raised UnicodeEncodeError (a lone surrogate in the key)
  | secret                 -- the secret is not bytes: TypeError from `hmac.new` / `sum`
  deriving DecidableEq, Repr

inductive ResK (α : Type) where
  | res (r : Res α)
  | macError (e : MacErr)  -- the exception escapes `decode` (it is neither of the two signature errors)
  deriving DecidableEq, Repr

/-- `Serializer.encode` for a key text whose encoding is `key` (`none` = `key.encode()` raises) and a secret that is
(`secretOk`) or is not bytes after `_to_bytes`.  `none` = it raised.  `key.encode()` is evaluated first, then the MAC
is called with the secret. -/
def encodeK (cfg : Cfg α) (reg : Registry α) (key : Option Bytes) (secretOk : Bool) (v : Val α) : Option (Val α) :=
  if encodeUsesMac cfg v then
    match key, secretOk with
    | some kb, true => encode cfg reg kb v
    | _, _ => none
  else encode cfg reg (key.getD []) v      -- the key is not looked at (`Props.C10.encode_ignores_key_without_mac`)

/-- `Serializer.decode` likewise -/
def decodeK (cfg : Cfg α) (reg : Registry α) (key : Option Bytes) (secretOk : Bool) (w : Val α) (same : Bool) : ResK α :=
  if decodeUsesMac cfg w same then
    match key, secretOk with
    | none, _ => .macError .key
    | some _, false => .macError .secret
    | some kb, true => .res (decode cfg reg kb w same)
  else .res (decode cfg reg (key.getD []) w same)   -- the key is not looked at (`Props.C10.decode_ignores_key_without_mac`)

/-! ### the glue in `cashews/backends/memory.py`: where encode / decode are called

TTLs, LRU order and capacity are C01 / C11; here the store is just "key ↦ what `encode` returned". -/

abbrev SStore (α : Type) := List (Bytes × Val α)

def SStore.lookup : SStore α → Bytes → Option (Val α)
  | [], _ => none
  | (k', w) :: r, k => if k' = k then some w else SStore.lookup r k

/-- `Memory.set` (unconditional): `value = await self._serializer.encode(...)`, then `_set`; an exception
of `encode` leaves the store untouched -/
def SStore.set (cfg : Cfg α) (reg : Registry α) (st : SStore α) (k : Bytes) (v : Val α) : SStore α :=
  match encode cfg reg k v with
  | some w => (k, w) :: st
  | none => st

/-- `Memory.get`: `default` for an absent key, else `self._serializer.decode(...)` -/
def SStore.get (cfg : Cfg α) (reg : Registry α) (st : SStore α) (k : Bytes) : Res α :=
  match st.lookup k with
  | none => .dflt
  | some w => decode cfg reg k w false

/-- `Memory.set_many`: the same encode + `_set`, pair after pair -/
def SStore.setMany (cfg : Cfg α) (reg : Registry α) (st : SStore α) (pairs : List (Bytes × Val α)) : SStore α :=
  pairs.foldl (fun s kv => SStore.set cfg reg s kv.1 kv.2) st

/-- `Memory.get_many`: the same `_get`, key after key -/
def SStore.getMany (cfg : Cfg α) (reg : Registry α) (st : SStore α) (keys : List Bytes) : List (Res α) :=
  keys.map (SStore.get cfg reg st)

/-! ### the caller's objects: what "storing the value" means for a mutable object

`Memory._set` stores `copy(value)` of what the serializer hands it.  With the NonPickler and the NullSigner the serializer
hands the caller's own object through, so this copy is what makes the stored thing a VALUE (the content at the time of the
write) instead of a reference the caller can keep changing.  The store of the model holds `Val α`, never references; the
heap below makes that explicit. -/

/-- the caller's (mutable) objects: reference ↦ content of the moment -/
abbrev Heap (α : Type) := Nat → Val α

/-- the caller assigns to / appends to / clears … its own object `r` -/
def Heap.assign (h : Heap α) (r : Nat) (v : Val α) : Heap α := fun x => if x = r then v else h x

/-- `cache.set(key, obj)` with the caller's object `r`: `encode` of its content of the moment, then `_set` keeps a
`copy()` — a value -/
def SStore.setRef (cfg : Cfg α) (reg : Registry α) (st : SStore α) (h : Heap α) (k : Bytes) (r : Nat) : SStore α :=
  st.set cfg reg k (h r)

/-- what the caller does after the write: changes to its own objects (the store is not an argument: nothing the caller
does to its objects can reach it) -/
def Heap.run (h : Heap α) : List (Nat × Val α) → Heap α
  | [] => h
  | (r, v) :: rest => Heap.run (h.assign r v) rest

/-! ### transactions over a serializer-equipped backend  (`cashews/backends/transaction.py`)

The overlay of a transaction (`_local_cache`) is a `Memory()` WITHOUT serializer: it holds the VALUES written inside the
transaction, which `commit` hands to the backend's `set_many` (where they are encoded and signed for the key they are
committed under).  It must therefore never hold a STORED FORM: `set_raw` / `get_raw` are not transactional — they go
straight to the backend. -/

structure Tx (α : Type) where
  /-- newest first -/
  overlay : List (Bytes × Val α)
  deleted : List Bytes

def Tx.empty : Tx α := { overlay := [], deleted := [] }

def Tx.lookup (tx : Tx α) (k : Bytes) : Option (Val α) := SStore.lookup tx.overlay k

/-- `TransactionBackend.set` -/
def Tx.set (tx : Tx α) (k : Bytes) (v : Val α) : Tx α :=
  { overlay := (k, v) :: tx.overlay, deleted := tx.deleted.filter (· ≠ k) }

/-- `TransactionBackend.delete` -/
def Tx.delete (tx : Tx α) (k : Bytes) : Tx α :=
  { overlay := tx.overlay.filter (·.1 ≠ k), deleted := k :: tx.deleted }

/-- `TransactionBackend.set_raw`: `return await self._backend.set_raw(key, value)` — the backend's store, at once -/
def Tx.setRaw (_tx : Tx α) (st : SStore α) (k : Bytes) (w : Val α) : SStore α := (k, w) :: st

/-- `TransactionBackend.get`: deleted → default; the overlay's value as it is; else the backend's `get` (decode) -/
def Tx.get (cfg : Cfg α) (reg : Registry α) (tx : Tx α) (st : SStore α) (k : Bytes) : Res α :=
  if k ∈ tx.deleted then .dflt
  else match tx.lookup k with
    | some v => .value v
    | none => st.get cfg reg k

/-- the pairs `commit` writes: the latest value of every key of the overlay, oldest first -/
def Tx.pairs (tx : Tx α) : List (Bytes × Val α) := tx.overlay.reverse

/-- `commit`: `delete_many(*_to_delete)`, then `set_many(overlay)` through the backend's serializer -/
def Tx.commit (cfg : Cfg α) (reg : Registry α) (tx : Tx α) (st : SStore α) : SStore α :=
  SStore.setMany cfg reg (st.filter fun kv => !(tx.deleted.contains kv.1)) tx.pairs

/-! ### the process over time: `register_type` calls interleaved with writes -/

/-- one step of a process between the write and the read of a key: a `register_type` call (class level: it
reaches every serializer of the process) or a write -/
inductive Later (α : Type) where
  | register (klass : Klass) (c : Codec α)
  | set (k : Bytes) (v : Val α)

/-- the process state: the class-level registry and the store of one in-memory backend -/
def runLater (cfg : Cfg α) : Registry α × SStore α → List (Later α) → Registry α × SStore α
  | s, [] => s
  | (reg, st), .register klass c :: r => runLater cfg (reg.registerClass klass c, st) r
  | (reg, st), .set k v :: r => runLater cfg (reg, st.set cfg reg k v) r

/-! ### what `hexdigest().encode()` and `f"{s:x}".encode()` look like -/

def hexChar (n : Nat) : UInt8 := if n < 10 then (48 + n).toUInt8 else (87 + n).toUInt8

/-- `raw.hex().encode()` -/
def hexdigest (raw : Bytes) : Bytes := raw.flatMap fun b => [hexChar (b.toNat / 16), hexChar (b.toNat % 16)]

/-- `f"{n:x}".encode()` -/
def natHex (n : Nat) : Bytes :=
  if n < 16 then [hexChar n] else natHex (n / 16) ++ [hexChar (n % 16)]
termination_by n
decreasing_by omega

def byteSum (b : Bytes) : Nat := (b.map UInt8.toNat).sum

/-- `simple_sign` -/
def simpleSign (secret msg : Bytes) : Bytes := natHex (byteSum secret + byteSum msg)

/-- The shape of every entry of `HashSigner._digestmods`: an arbitrary raw keyed hash rendered by
`hexdigest()`, and the `sum` toy digest. -/
def macOfRaw (raw : Digest → Bytes → Bytes → Bytes) : Digest → Bytes → Bytes → Bytes
  | .sum, s, m => simpleSign s m
  | d, s, m => hexdigest (raw d s m)

end CashewsVerif.Serial
