import CashewsVerif.Model.Mem
import CashewsVerif.Spec.TtlMap
/-
Clock resolution.  `Mem` and `TtlMap` count time in ticks and never look at what a tick is worth - except
`get_expire`, which answers in whole seconds (`round(expire_at - time.time())`) and therefore divides by the number of
ticks per second; `Model/Basic.lean`'s `roundTicks` fixes that number to 8.  For the histories that run on a finer
clock (ticks of 2^-20 s: TTLs that are not a whole number of milliseconds, reads inside the last millisecond before
a deadline) the TTL query is stated here for any resolution `R`; with `R = 8` it is the old one
(`Lemmas/Fine.lean`).  Mathlib-free.
-/
namespace CashewsVerif

/-- Python's `round(d / R)` (half to even) for `d` ticks of `1/R` s -/
def roundDiv (R d : Nat) : Int :=
  let q := d / R
  let r := d % R
  if 2 * r < R then q else if 2 * r > R then q + 1 else if q % 2 = 0 then q else q + 1

/-- `Memory.get_expire` on a clock of `R` ticks per second -/
def Mem.getExpireR (R : Nat) (s : Mem) (k : Key) : Int :=
  match Store.lookup s.store k with
  | none => -2
  | some e => match e.dl with
    | none => -1
    | some d => if d ≤ s.now then -2 else roundDiv R (d - s.now)

/-- the ideal map's TTL query on a clock of `R` ticks per second -/
def TtlMap.getExpireR (R : Nat) (t : TtlMap) (k : Key) : Int :=
  match t.find k with
  | none => -2
  | some e => match e.dl with
    | none => -1
    | some d => roundDiv R (d - t.now)

end CashewsVerif
