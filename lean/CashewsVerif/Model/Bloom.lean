import CashewsVerif.Model.Bits
/-
C18 — Bloom filter decorators.  Executable model of `bloom` and `dual_bloom`
(`cashews/decorators/bloom.py`) over the bit-field model.  The element's index set is an input
here (it is `get_indexes` of the element's cache key, `Model/Indexes.lean`), and so is the answer
of the wrapped predicate (a scripted outcome).  Mathlib-free.
-/
namespace CashewsVerif.Bloom
open CashewsVerif.Bits

/-- `await backend.incr_bits(_cache_key, *indexes)` — width 1, by 1 -/
def addBits (a : Nat) (idxs : List Nat) : Nat := (incrBits a idxs 1 1).1

/-- `possible_set(values)` with `possible_set = all`, over `backend.get_bits(_cache_key, *hashes)` -/
def allSet (a : Nat) (idxs : List Nat) : Bool := (getBits a idxs 1).all (· != 0)

/-- `func.set(*args)`:
```
result = await func(*args, **kwargs)
if not result: return result
indexes = get_indexes(_bloom_key, number_of_buckets, index_size)
await backend.incr_bits(_cache_key, *indexes)
``` -/
def add (a : Nat) (idxs : List Nat) (result : Bool) : Nat :=
  if result then addBits a idxs else a

/-- the decorated predicate `_wrap` (in-memory backend: `values` is never `None`):
```
if possible_set(values):
    if check_false_positive: return await func(*args, **kwargs)
    return True
return False
```
`underlying` is what the wrapped function would answer now. -/
def query (a : Nat) (idxs : List Nat) (checkFp underlying : Bool) : Bool :=
  if allSet a idxs then (if checkFp then underlying else true) else false

/-- `_wrap` when the backend gives no answer (`get_bits` disabled on the facade, backend unavailable):
```
values = await backend.get_bits(_cache_key, *hashes)
if values is None: return await func(*args, **kwargs)
```
answers (result, was the wrapped function called); the filter is not consulted and not changed -/
def queryOff (underlying : Bool) : Bool × Bool := (underlying, true)

/-- does `_wrap` call the wrapped function? -/
def queryCalls (a : Nat) (idxs : List Nat) (checkFp : Bool) : Bool := allSet a idxs && checkFp

/-- the filter after a sequence of `func.set` calls, each given as (index set, result of the
wrapped function) -/
def runAdds (a : Nat) : List (List Nat × Bool) → Nat
  | [] => a
  | (idxs, r) :: rest => runAdds (add a idxs r) rest

/-! ### `dual_bloom` (modelled mainly for the correspondence: its own docstring allows false
negatives, the property does not speak about it; one theorem: an element recorded in the true
filter is never answered False) -/

/-- `not_set(values) = not all(values)` -/
def notSet (a : Nat) (idxs : List Nat) : Bool := !allSet a idxs

/-- `all_zeros(values)` -/
def allZeros (a : Nat) (idxs : List Nat) : Bool := (getBits a idxs 1).all (· == 0)

structure Dual where
  t : Nat      -- bits under `<key>:true`
  f : Nat      -- bits under `<key>:false`
  deriving Repr, DecidableEq

/-- one call of the `dual_bloom`-decorated function; answers (new state, result, was the wrapped
function called) -/
def dualCall (s : Dual) (it if_ : List Nat) (noCollisions underlying : Bool) : Dual × Bool × Bool :=
  if notSet s.t it && notSet s.f if_ then
    let t' := if underlying && (!noCollisions || allZeros s.t it) then addBits s.t it else s.t
    let f' := if !underlying && (!noCollisions || allZeros s.f if_) then addBits s.f if_ else s.f
    (⟨t', f'⟩, underlying, true)
  else if notSet s.t it && allSet s.f if_ then (s, false, false)
  else if notSet s.f if_ && allSet s.t it then (s, true, false)
  else (s, underlying, true)

/-- the state after a sequence of `dual_bloom` calls, each given as (indexes in the true filter,
indexes in the false filter, answer of the wrapped function) -/
def dualRun (noCollisions : Bool) (s : Dual) : List (List Nat × List Nat × Bool) → Dual
  | [] => s
  | (it, if_, u) :: rest => dualRun noCollisions (dualCall s it if_ noCollisions u).1 rest

/-! ### the filter's key has a lifetime

The filter is an ordinary key of the backend: `expire(filter_key, t)` (the usual way to rotate a
filter) gives it a deadline, `delete` drops it.  The decorator itself never passes a TTL. -/

/-- what can happen to a filter: `func.set(…)` (index set of the element, result of the wrapped
function), a call of the decorated predicate, commands on the filter's key, passage of time -/
inductive FOp where
  | add (idxs : List Nat) (result : Bool)
  | query (idxs : List Nat)
  | expire (ttl : Nat)
  | delete
  | touch
  | adv (dt : Nat)
  deriving Repr

/-- the store after one step (`func.set` = `incr_bits(key, *indexes)` at width 1 by 1 when the
wrapped function answered truthy; a query = `get_bits(key, *indexes)`, which purges a stale entry) -/
def fstep (t : TState) : FOp → TState
  | .add idxs r => if r then (tstep 1 t (.incrBits idxs 1)).1 else t
  | .query idxs => (tstep 1 t (.getBits idxs)).1
  | .expire ttl => (tstep 1 t (.expire ttl)).1
  | .delete => (tstep 1 t .delete).1
  | .touch => (tstep 1 t .touch).1
  | .adv dt => (tstep 1 t (.adv dt)).1

def frun (t : TState) : List FOp → TState
  | [] => t
  | op :: rest => frun (fstep t op) rest

/-- `possible_set(await backend.get_bits(_cache_key, *hashes))` -/
def tallSet (t : TState) (idxs : List Nat) : Bool := (tstep 1 t (.getBits idxs)).2.all (· != 0)

/-- the decorated predicate on a filter with a lifetime -/
def tquery (t : TState) (idxs : List Nat) (checkFp underlying : Bool) : Bool :=
  if tallSet t idxs then (if checkFp then underlying else true) else false

def tqueryCalls (t : TState) (idxs : List Nat) (checkFp : Bool) : Bool := tallSet t idxs && checkFp

/-- the filter's key stays alive through the whole history: after every step it (logically) holds
an array — it is never deleted and no deadline is reached -/
def aliveThrough (t : TState) : List FOp → Bool
  | [] => true
  | op :: rest => (fstep t op).view.isSome && aliveThrough (fstep t op) rest

/-! ### controls of the facade around steps on the filter

None of the `Cache` facade's controls has a step of its own in this model, because none may change
what a step does to the filter:
* `with invalidate_further():` — reacts to `get` / `get_many` / `get_match` / `incr` only; a lookup
  (`get_bits`) or an add (`incr_bits`) inside the block is the plain `query` / `add` step;
* `with cache.disabling(cmd):` — for `cmd = get_bits` the lookup is `queryOff` (the backend gives no
  answer, the wrapped function is asked, the filter is neither read nor changed); for `cmd = incr_bits`
  a `func.set` does not reach the filter (no step: the element is not added); any other command: plain steps;
* `async with cache.transaction(mode):` — `TransactionBackend` hands `get_bits` / `incr_bits` / `exists`
  (of a key its overlay does not hold) straight to the backend, and — repaired behaviour, proposed fix
  D53 — `expire` of a bit-field key as well (before, it took a snapshot of the array into the overlay
  and the commit wrote that snapshot back over the increments made meanwhile).  So `add`, `query`,
  `expire`, `touch` inside a block are the plain steps and entering / committing is no step.
  (`delete` of the filter's key inside a transaction is deferred to the commit: not modelled, not judged.) -/

end CashewsVerif.Bloom
