import CashewsVerif.Model.TxMatch
/-
Control state × transactions: `cache.disable(Command.X, ...)` (`cashews/wrapper/disable_control.py`).

    async def _is_disable_middleware(call, cmd, backend, *args, **kwargs):
        if backend.is_disable(cmd):
            ... return the command's default (None / the caller's default / an empty iterator)
        return await call(*args, **kwargs)

The middleware sits in front of every command the user issues through the `Cache` facade — inside a transaction
`backend` is the `TransactionBackend`, whose `is_disable` asks the wrapped backend — so a command that is disabled
WHEN IT IS ISSUED never reaches the transaction (or the store): nothing is buffered, no lock is taken, the default
comes back (`none` below).  A command that was enabled when it was issued has been ACCEPTED into the transaction.

`TransactionBackend.commit` flushes the accepted writes with `self._backend.delete_many(...)` /
`self._backend.set_many(...)` — calls on the backend object itself, not through the middleware: which commands are
disabled at commit time plays no part (`TxSt.commit` does not look at the control state).  In particular disabling
the BULK commands `delete_many` / `set_many` while `delete` / `set` / `incr` / `expire` stay enabled does not make
a commit drop the accepted deletes or sets.  Mathlib-free.
-/
namespace CashewsVerif

/-- a history under a control state that may change between commands: each command with "was it disabled when
it was issued?" -/
abbrev GHist := List (TxCmd × Bool)

/-- the commands that were enabled when issued, in order -/
def accepted (h : GHist) : List TxCmd := (h.filter fun cd => !cd.2).map (·.1)

/-! ### one transaction over several backends (`cashews/wrapper/transaction.py`, class `Transaction`)

A cache may route its keys by prefix to several backends; the `Transaction` object of a block holds one
`TransactionBackend` per backend a command of the block has touched (`wrap`: created at the first command - a read is
enough - routed to that backend), and ends all of them:

    async def commit(self):
        backends = list(self._backends.values())
        while backends:
            await backends.pop(0).commit()          # (a failing commit rolls the remaining ones back: C16)

    async def rollback(self): ... every backend's rollback

A key lives on exactly one backend, so the transaction states of the backends are independent of each other. -/

/-- `Transaction.commit`: every touched backend is committed, in the order in which they were touched -/
def commitAll : List TxSt → List TxSt
  | [] => []
  | st :: rest => st.commit :: commitAll rest

/-- `Transaction.rollback` -/
def rollbackAll : List TxSt → List TxSt
  | [] => []
  | st :: rest => st.rollback :: rollbackAll rest

namespace TxSt

/-- one command through the middleware, inside a transaction -/
def stepG (name : Nat → List Char) (st : TxSt) (cd : TxCmd × Bool) : TxSt × Option COut :=
  if cd.2 then (st, none) else ((st.stepC name cd.1).1, some (st.stepC name cd.1).2)

def runG (name : Nat → List Char) (st : TxSt) : GHist → TxSt × List (Option COut)
  | [] => (st, [])
  | cd :: h => (runG name (st.stepG name cd).1 h |>.1, (st.stepG name cd).2 :: (runG name (st.stepG name cd).1 h).2)

end TxSt

namespace Mem

/-- one command through the middleware, directly on the store -/
def stepG (name : Nat → List Char) (m : Mem) (cd : TxCmd × Bool) : Mem × Option COut :=
  if cd.2 then (m, none) else ((m.stepC name cd.1).1, some (m.stepC name cd.1).2)

def runG (name : Nat → List Char) (m : Mem) : GHist → Mem × List (Option COut)
  | [] => (m, [])
  | cd :: h => (runG name (m.stepG name cd).1 h |>.1, (m.stepG name cd).2 :: (runG name (m.stepG name cd).1 h).2)

end Mem
end CashewsVerif
