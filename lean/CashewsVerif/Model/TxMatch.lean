import CashewsVerif.Model.TxCtx
import CashewsVerif.Model.Glob
/-
The PATTERN commands inside a transaction (`cashews/backends/transaction.py`), as commands of the C03 / C04
transaction model (`Model/Tx.lean`): `delete_match` — which C03 lists among the transactional writes — and the
reads `scan` / `get_match`.  Mathlib-free (the driver links against this file).

    class TransactionBackend:                                   # fast mode
        async def delete_match(self, pattern):
            await self._local_cache.delete_match(pattern)
            async for key in self._backend.scan(pattern):
                self._to_delete.add(key)

    class LockTransactionBackend(TransactionBackend):           # locked / serializable mode
        async def delete_match(self, pattern):
            await self._local_cache.delete_match(pattern)
            async for key in self._backend.scan(pattern):
                await self._lock_updates(key)
                self._to_delete.add(key)

    scan / get_match are not overridden by the lock backend (reads take no lock):
        async def scan(self, pattern, batch_size=100):
            _local_state = set()
            async for key in self._local_cache.scan(pattern):
                yield key; _local_state.add(key)
            async for key in self._backend.scan(pattern, batch_size=batch_size):
                if self._key_is_delete(key): continue
                if key in _local_state: continue
                yield key

Patterns select keys by their NAME.  Keys of the model are numbers; `name : Nat → List Char` gives each key its
text, as in `Model/Glob.lean` (C13), whose `Glob.scan` / `Glob.deleteMatch` / `Glob.getMatchAll` are the commands of
the in-memory store (`Memory.scan` takes a snapshot `dict(self.store)` first, so the lock keys a `delete_match`
writes into the backend while it walks it do not change what it walks).

The reserved ':'-prefixed lock keys live in the same backend store, under names of their own.  The properties'
proviso — a pattern must not reach them — is the hypothesis `PatOk` of the theorems (`Lemmas/TxMatchRun.lean`).
-/
namespace CashewsVerif

/-- a command of a transaction history: a regular command or a pattern command -/
inductive TxCmd where
  | op (o : Op)
  | deleteMatch (pat : List Char)
  | scan (pat : List Char)
  | getMatch (pat : List Char)
  deriving Repr

/-- answers: a regular answer, the keys `scan` yielded (in order), the pairs `get_match` yielded (in order) -/
inductive COut where
  | out (o : Out)
  | keys (ks : List Key)
  | pairs (kvs : List (Key × Option Val))
  deriving DecidableEq, Repr

namespace TxSt

/-- `TransactionBackend.delete_match` (the plain backend, fast mode): the overlay's own `delete_match`, then every
matching key of the backend is ADDED to the pending deletes -/
def deleteMatchBase (name : Nat → List Char) (st : TxSt) (pat : List Char) : TxSt :=
  { st with ov := Glob.deleteMatch name st.ov pat,                       -- `await self._local_cache.delete_match(pattern)`
            del := (Glob.scan name st.b pat).foldl (fun d k => k :: d) st.del }   -- `self._to_delete.add(key)` for each scanned key

/-- the loop of `LockTransactionBackend.delete_match` over the scanned backend keys:
`await self._lock_updates(key); self._to_delete.add(key)`; a lock that cannot be taken raises `LockedError`
and leaves the keys marked so far marked (`false`) -/
def markAll (st : TxSt) : List Key → TxSt × Bool
  | [] => (st, true)
  | k :: ks =>
    let (st', ok) := st.lockUpdates k
    if ok then markAll { st' with del := k :: st'.del } ks else (st', false)

/-- `LockTransactionBackend.delete_match` -/
def deleteMatchLock (name : Nat → List Char) (st : TxSt) (pat : List Char) : TxSt × Bool :=
  ({ st with ov := Glob.deleteMatch name st.ov pat } : TxSt).markAll (Glob.scan name st.b pat)

/-- `TransactionBackend.scan`: the overlay's matches, then the backend's matches that are neither pending
deletes nor already yielded from the overlay -/
def scan (name : Nat → List Char) (st : TxSt) (pat : List Char) : List Key :=
  let loc := Glob.scan name st.ov pat
  loc ++ (Glob.scan name st.b pat).filter fun k => !st.del.contains k && !loc.contains k

/-- `TransactionBackend.get_match`: the same merge on (key, value) pairs; both sides are `Memory.get_match`
(every scanned key is read with `get`, which touches the store it is in).  The value alphabet of C03 / C04 has
no bit-field objects (they are C13's business). -/
def getMatch (name : Nat → List Char) (st : TxSt) (pat : List Char) : TxSt × List (Key × Option Val) :=
  let o := Glob.getMatchAll name st.ov pat
  let b := Glob.getMatchAll name st.b pat
  let seen := o.2.map (·.1)
  ({ st with ov := o.1, b := b.1 }, o.2 ++ b.2.filter fun kv => !st.del.contains kv.1 && !seen.contains kv.1)

/-- a command of a history inside a transaction, in the transaction's mode -/
def stepC (name : Nat → List Char) (st : TxSt) : TxCmd → TxSt × COut
  | .op o => let (st', r) := st.step o; (st', .out r)
  | .deleteMatch pat =>
    if st.mode = .fast then (st.deleteMatchBase name pat, .out .unit)
    else
      let (st', ok) := st.deleteMatchLock name pat
      (st', .out (if ok then .unit else .err))
  | .scan pat => (st, .keys (st.scan name pat))
  | .getMatch pat => let (st', r) := st.getMatch name pat; (st', .pairs r)

def runC (name : Nat → List Char) (st : TxSt) : List TxCmd → TxSt × List COut
  | [] => (st, [])
  | c :: cs =>
    let (st', o) := st.stepC name c
    let (st'', os) := runC name st' cs
    (st'', o :: os)

end TxSt

namespace Mem

/-- the same command executed directly on the store (no transaction) -/
def stepC (name : Nat → List Char) (m : Mem) : TxCmd → Mem × COut
  | .op o => let (m', r) := m.step o; (m', .out r)
  | .deleteMatch pat => (Glob.deleteMatch name m pat, .out .unit)
  | .scan pat => (m, .keys (Glob.scan name m pat))
  | .getMatch pat => let r := Glob.getMatchAll name m pat; (r.1, .pairs r.2)

def runC (name : Nat → List Char) (m : Mem) : List TxCmd → Mem × List COut
  | [] => (m, [])
  | c :: cs =>
    let (m', o) := m.stepC name c
    let (m'', os) := runC name m' cs
    (m'', o :: os)

end Mem

/-- a command issued by the task, routed as `Ctx.step (.cmd op)` routes a regular command
(`_get_backend`: `if tx: return tx.wrap(backend)`): to the running transaction, else straight to the backend -/
def Ctx.stepC (name : Nat → List Char) (c : Ctx) (cmd : TxCmd) : Ctx × COut :=
  if c.inTx then
    let (st', o) := c.st.stepC name cmd
    ({ c with st := st' }, o)
  else
    let (b', o) := c.st.b.stepC name cmd
    ({ c with st := { c.st with b := b' } }, o)

end CashewsVerif
