import CashewsVerif.Model.Mem
/-
`CommandWrapper.get_many` (cashews/wrapper/commands.py) over two backends routed by key prefix: the keys are grouped
per backend, each backend is asked once for its group, the answers are gathered in a dict and read out in the order
of the request.  `r k = true`: key `k` belongs to the second backend.  Mathlib-free.
-/
namespace CashewsVerif

/-- `dict.get` after `result.update(dict(zip(keys, values)))`: the last binding of a key wins -/
def lastLookup {α} : List (Key × α) → Key → Option α
  | [], _ => none
  | (k', v) :: rest, k =>
    match lastLookup rest k with
    | some x => some x
    | none => if k' = k then some v else none

/--
```
for key in keys: backends.setdefault(self._get_backend(key), []).append(key)
for _keys in backends.values():                       # in order of first appearance
    _values = await backend.get_many(*_keys, default=default)
    result.update(dict(zip(_keys, _values)))
return tuple(result.get(key) for key in keys)
```
`ga` / `gb`: what the first / second backend answers for a list of its keys. -/
def facadeGetMany (r : Key → Bool) (ga gb : List Key → List (Option Val)) (ks : List Key) : List (Option Val) :=
  let ka := ks.filter (fun k => !r k)
  let kb := ks.filter r
  let za := ka.zip (ga ka)
  let zb := kb.zip (gb kb)
  let bFirst := match ks with | k :: _ => r k | [] => false
  let d := if bFirst then zb ++ za else za ++ zb
  ks.map fun k => (lastLookup d k).getD none

/-- what a backend in state `s` answers to `get_many(*ks)` / to `get(k)` -/
def Mem.answers (s : Mem) (ks : List Key) : List (Option Val) :=
  match (s.step (.getMany ks)).2 with | .vals vs => vs | _ => []
def Mem.answer1 (s : Mem) (k : Key) : Option Val :=
  match (s.step (.get k)).2 with | .val r => r | _ => none

end CashewsVerif
