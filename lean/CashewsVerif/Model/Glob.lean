import CashewsVerif.Model.Mem
import CashewsVerif.Spec.Glob
/-
Model of the pattern commands (C13).  Mathlib-free (the driver links against this).

`cashews/backends/memory.py`, `Memory.scan`:

    regexp = re.compile(".*".join(re.escape(part) for part in pattern.split("*")), re.DOTALL)
    for key, (expire_at, _) in dict(self.store).items():
        if expire_at and expire_at <= time.time():
            continue
        if regexp.fullmatch(key):
            yield key

Three layers, each mirrored by a definition below:
  1. the regex *source text* Python builds (`source`: split on `*`, `re.escape` each piece, join by `.*`);
  2. the regex that text denotes — only literal characters and `.*` (DOTALL) can occur — as a
     tiny AST (`translate`), with a reader `parse` of exactly that fragment of Python's regex
     syntax (`\c` = the character `c`, `.*` = any run, an unescaped non-special character = itself),
     a denotational semantics `Matches` and an executable `fullmatch` (`matchRe`);
  3. the commands: `scan` / `delete_match` / `get_match` on the `Mem` model of C01 (stores may hold
     expired, not yet purged entries), and the transaction overlay's merge (`Tx`).

Keys of the `Mem` model are numbers; `name : Nat → List Char` gives each key its text (the theorems
hold for every naming).
-/
namespace CashewsVerif.Glob

/-! ### 1. what `re.compile` is given -/

/-- a regular expression of the fragment cashews can build: a literal character or `.*` -/
inductive Atom where
  | lit (c : Char)
  | anyStar
  deriving DecidableEq, Repr

abbrev Regex := List Atom

/-- `pattern.split("*")` as (first piece, remaining pieces): the result of `str.split` with a
separator is never empty. -/
def splitStar : List Char → List Char × List (List Char)
  | [] => ([], [])
  | c :: cs =>
    let r := splitStar cs
    if c = '*' then ([], r.1 :: r.2) else (c :: r.1, r.2)

/-- `pattern.split("*")` -/
def pieces (pat : List Char) : List (List Char) := (splitStar pat).1 :: (splitStar pat).2

/-- `sep.join(parts)` -/
def joinWith {α} (sep : List α) : List (List α) → List α
  | [] => []
  | [p] => p
  | p :: q :: ps => p ++ sep ++ joinWith sep (q :: ps)

/-- the regex a `re.escape`d piece denotes: its characters, literally -/
def lits (s : List Char) : Regex := s.map .lit

/-- the regex `Memory.scan` compiles: pieces literal, joined by `.*` -/
def translate (pat : List Char) : Regex := joinWith [.anyStar] ((pieces pat).map lits)

/-- the characters `re.escape` puts a backslash before (Python 3.12 `re._special_chars_map`) -/
def special (c : Char) : Bool :=
  ['(', ')', '[', ']', '{', '}', '?', '*', '+', '-', '|', '^', '$', '\\', '.', '&', '~', '#',
   ' ', '\t', '\n', '\r', '\x0b', '\x0c'].contains c

/-- `re.escape(part)` -/
def escape : List Char → List Char
  | [] => []
  | c :: s => if special c then '\\' :: c :: escape s else c :: escape s

/-- the text handed to `re.compile`: `".*".join(re.escape(part) for part in pattern.split("*"))` -/
def source (pat : List Char) : List Char := joinWith ['.', '*'] ((pieces pat).map escape)

/-- Reader of the fragment of Python's regex syntax that `source` can produce: a backslash followed
by a character is that character; `.*` is "any run" (DOTALL); an unescaped character that `re.escape`
would have escaped is outside the fragment (`none`); any other character is itself.
That CPython's `re` reads these three forms this way is the trusted fact of C13. -/
def parse : List Char → Option Regex
  | [] => some []
  | [c] => if special c then none else some [.lit c]
  | c :: d :: r =>
    if c = '\\' then (parse r).map (.lit d :: ·)
    else if c = '.' ∧ d = '*' then (parse r).map (.anyStar :: ·)
    else if special c then none
    else (parse (d :: r)).map (.lit c :: ·)

/-! ### 2. what the compiled regex accepts -/

/-- denotation of one atom: the runs of characters it can consume -/
def Atom.Den : Atom → List Char → Prop
  | .lit c, s => s = [c]
  | .anyStar, _ => True            -- `.` with DOTALL is any character, `*` any number of them

/-- `Matches r s`: the whole of `s` is in the language of `r` (`fullmatch`) -/
def Matches : Regex → List Char → Prop
  | [], s => s = []
  | a :: r, s => ∃ s₁ s₂, s = s₁ ++ s₂ ∧ a.Den s₁ ∧ Matches r s₂

/-- executable `regexp.fullmatch(key)`: backtracking over the length of the run `.*` takes -/
def matchRe : Regex → List Char → Bool
  | [], s => s.isEmpty
  | .lit c :: r, s =>
    match s with
    | [] => false
    | d :: s' => d == c && matchRe r s'
  | .anyStar :: r, s => anySuffix (matchRe r) s

/-! ### 3. the commands on the in-memory store -/

/-- `Memory.scan`: snapshot of the store in order; expired entries skipped; `fullmatch` -/
def scan (name : Nat → List Char) (m : Mem) (pat : List Char) : List Nat :=
  (m.store.filter fun ke => ke.2.live m.now && matchRe (translate pat) (name ke.1)).map (·.1)

/-- `Memory.delete_match`: `async for key in self.scan(pattern): await self._delete(key)` -/
def deleteMatch (name : Nat → List Char) (m : Mem) (pat : List Char) : Mem :=
  (scan name m pat).foldl (fun m k => (m.rawDelete k).1) m

/-- `Memory.get_match` before the bit-field filter: `async for key in self.scan(pattern): value = await self.get(key)`
— every scanned key with what `get` returned for it (the snapshot is taken first; each `get` moves its key to
the end of the live store).  `some v` is a stored value — `some .nil` a stored Python `None` — and `none` the
default `get` hands back for a key that is not there: the two are different results. -/
def getMatchAll (name : Nat → List Char) (m : Mem) (pat : List Char) : Mem × List (Nat × Option Val) :=
  let ks := scan name m pat
  let r := m.getMany ks
  (r.1, ks.zip r.2)

/-- `if not isinstance(value, Bitarray): yield key, value` — the one and only condition under which
`get_match` leaves a scanned key out: its value is a bit-field object (`incr_bits` keeps a `Bitarray` in the
same store; it is not a cached value).  `bits v` says whether the stored value `v` is such an object.
Nothing else is dropped: not `None`, not `0`, `''`, `b''`, `[]`, `False` — no truthiness test, no `is None` test. -/
def yielded (bits : Val → Bool) (kv : Nat × Option Val) : Bool :=
  match kv.2 with
  | some v => !bits v
  | none => true

/-- `Memory.get_match`:

    async for key in self.scan(pattern):
        value = await self.get(key)
        if not isinstance(value, Bitarray):
            yield key, value

`bits` = which stored values are `Bitarray` objects (the theorems hold for every such classification). -/
def getMatch (name : Nat → List Char) (bits : Val → Bool) (m : Mem) (pat : List Char) : Mem × List (Nat × Option Val) :=
  let r := getMatchAll name m pat
  (r.1, r.2.filter (yielded bits))

/-- the keys a reader can see: entries whose deadline has not been reached, in store order -/
def liveKeys (m : Mem) : List Nat := (m.store.filter fun ke => ke.2.live m.now).map (·.1)

/-- spec side of `scan`: the live keys whose text the glob pattern matches -/
def scanSpec (name : Nat → List Char) (m : Mem) (pat : List Char) : List Nat :=
  (liveKeys m).filter fun k => glob pat (name k)

/-! ### 3b. the iteration, step by step

`Memory.scan` is an async generator: between two `__anext__` steps the consumer (or any other task) runs and may
delete keys, write keys (evicting others when the store is at `size`), let time pass, purge.  The generator takes a
snapshot `dict(self.store)` — keys WITH their entries — at its first step and from then on never looks at the live
store: nothing that happens between two steps can make a step fail.  Each step checks the snapshot's deadline against
the clock of THAT step. -/

/-- one `__anext__` of `Memory.scan` over what is left of the snapshot, at instant `now`: the next key yielded (`none`:
the iteration is over) and the rest of the snapshot -/
def scanNext (name : Nat → List Char) (pat : List Char) (now : Nat) : Store → Option Nat × Store
  | [] => (none, [])
  | (k, e) :: r => if e.live now && matchRe (translate pat) (name k) then (some k, r) else scanNext name pat now r

/-- a whole iteration: step `i` runs at the instant `nows[i]` (whatever the consumer did in between); it ends when the
snapshot is exhausted (or the consumer stops asking) -/
def scanSteps (name : Nat → List Char) (pat : List Char) : List Nat → Store → List Nat
  | [], _ => []
  | now :: nows, snap =>
    match scanNext name pat now snap with
    | (some k, r) => k :: scanSteps name pat nows r
    | (none, _) => []

/-- one `__anext__` of `Memory.get_match`: the next scanned key is read from the LIVE store with `get` (a key that
vanished since the snapshot comes back with the default), bit-field objects are skipped -/
def getMatchNext (name : Nat → List Char) (bits : Val → Bool) (pat : List Char) :
    Mem → Store → (Mem × Option (Nat × Option Val)) × Store
  | m, [] => ((m, none), [])
  | m, (k, e) :: r =>
    if e.live m.now && matchRe (translate pat) (name k) then
      if yielded bits (k, (m.rawGet k).2) then (((m.rawGet k).1, some (k, (m.rawGet k).2)), r)
      else getMatchNext name bits pat (m.rawGet k).1 r
    else getMatchNext name bits pat m r

/-! ### 4. inside a transaction (`cashews/backends/transaction.py`, `TransactionBackend`) -/

/-- state of a `TransactionBackend`: the wrapped backend's store, the overlay `_local_cache`
(itself a `Memory`), the pending deletes `_to_delete`; one clock. -/
structure Tx where
  now : Nat
  backend : Store
  overlay : Store
  del : List Nat

namespace Tx

def bmem (t : Tx) : Mem := { now := t.now, cap := 1000, store := t.backend }
def omem (t : Tx) : Mem := { now := t.now, cap := 1000, store := t.overlay }

/-- `TransactionBackend.set` (unconditional form):
`self._to_delete.discard(key); return await self._local_cache.set(key, value, expire)` -/
def set (t : Tx) (k : Nat) (v : Val) (ttl : Option Nat) : Tx :=
  { t with del := t.del.filter (· != k), overlay := (t.omem.rawSet k v ttl).store }

/-- `TransactionBackend.delete`: `await self._local_cache.delete(key); self._to_delete.add(key)` -/
def delete (t : Tx) (k : Nat) : Tx :=
  { t with overlay := (t.omem.rawDelete k).1.store, del := t.del ++ [k] }

/-- `TransactionBackend.scan`: the overlay's matches, then the backend's matches that are neither
pending deletes (`_key_is_delete`) nor already yielded from the overlay (`_local_state`). -/
def scan (name : Nat → List Char) (t : Tx) (pat : List Char) : List Nat :=
  let loc := Glob.scan name t.omem pat
  loc ++ (Glob.scan name t.bmem pat).filter fun k => !t.del.contains k && !loc.contains k

/-- `TransactionBackend.get_match` (same merge, on (key, value) pairs; both sides are `Memory.get_match`, so
both leave bit-field objects out — `_local_state` only remembers the keys the overlay *yielded*) -/
def getMatch (name : Nat → List Char) (bits : Val → Bool) (t : Tx) (pat : List Char) : Tx × List (Nat × Option Val) :=
  let o := Glob.getMatch name bits t.omem pat
  let b := Glob.getMatch name bits t.bmem pat
  let seen := o.2.map (·.1)
  ({ t with overlay := o.1.store, backend := b.1.store },
   o.2 ++ b.2.filter fun kv => !t.del.contains kv.1 && !seen.contains kv.1)

/-- `TransactionBackend.delete_match`:
`await self._local_cache.delete_match(pattern); async for key in self._backend.scan(pattern): self._to_delete.add(key)` -/
def deleteMatch (name : Nat → List Char) (t : Tx) (pat : List Char) : Tx :=
  { t with overlay := (Glob.deleteMatch name t.omem pat).store,
           del := t.del ++ Glob.scan name t.bmem pat }

/-- The store one gets by performing the transaction's buffered effects directly on the backend:
the pending deletes, then the overlay's (still live) writes in overlay order.  "Direct selection"
is `Glob.scan` on this store.  (An overlay entry is put with the deadline it has in the overlay;
selection only depends on liveness at `now`.) -/
def direct (t : Tx) : Mem :=
  let b := t.del.foldl (fun m k => (m.rawDelete k).1) t.bmem
  { b with store := (t.overlay.filter fun ke => ke.2.live t.now).foldl (fun st ke => Store.put st ke.1 ke.2) b.store }

end Tx

end CashewsVerif.Glob
