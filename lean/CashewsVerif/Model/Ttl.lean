import CashewsVerif.Model.Basic
import CashewsVerif.Gen.TtlUnits
/-
Model of `cashews/ttl.py`: the duration-string parser `_ttl_from_str` on `List Char` (unit table
regenerated from the source, `Gen/TtlUnits.lean`) and `ttl_to_seconds` on the spellings a TTL may
have.  Results are in *ticks* (1 tick = 1/8 s) where a float / timedelta may carry eighths.
Mathlib-free.  ASCII only: Python's `str.isdigit`, `str.lower`, `str.strip` agree with the
functions below on ASCII input; other code points are outside the model.
-/
namespace CashewsVerif.Ttl

/-- `_STR_TO_DELTA[char]` → `int(….total_seconds())`; `none` = `char not in _STR_TO_DELTA` -/
def unitSeconds (c : Char) : Option Nat := Gen.ttlUnits.lookup c

/-- `int(mul)` for a string of ASCII digits -/
def intOf (mul : List Char) : Nat := Nat.ofDigitChars 10 mul 0

/-- loop state of `_ttl_from_str`: `result`, `mul` -/
structure PSt where
  result : Nat
  mul : List Char
  deriving DecidableEq, Repr

/-- one iteration of `for char in ttl.strip().lower()`; `none` = ValueError
```
        if char.isdigit():            mul += char
        elif char in _STR_TO_DELTA:   result += int(mul) * int(_STR_TO_DELTA[char].total_seconds()); mul = ""
        else:                         raise ValueError
```
`int("")` raises ValueError as well (a unit with no number in front of it). -/
def pstep (st : PSt) (c : Char) : Option PSt :=
  if c.isDigit then some { st with mul := st.mul ++ [c] }
  else match unitSeconds c with
    | some u => if st.mul = [] then none else some { result := st.result + intOf st.mul * u, mul := [] }
    | none => none

def ploop : PSt → List Char → Option PSt
  | st, [] => some st
  | st, c :: cs => match pstep st c with
    | none => none
    | some st' => ploop st' cs

/-- the characters `str.strip()` removes (ASCII) -/
def isSpace (c : Char) : Bool :=
  c = ' ' || c = '\t' || c = '\n' || c = '\r' || c = Char.ofNat 11 || c = Char.ofNat 12

def strip (s : List Char) : List Char :=
  ((s.dropWhile isSpace).reverse.dropWhile isSpace).reverse

/-- `if mul != "" and not result: return int(mul)` else `result` -/
def pfinish (st : PSt) : Nat :=
  if st.mul ≠ [] ∧ st.result = 0 then intOf st.mul else st.result

/-- `_ttl_from_str(ttl)` in seconds; `none` = ValueError -/
def ttlFromStr (s : List Char) : Option Nat :=
  (ploop ⟨0, []⟩ ((strip s).map Char.toLower)).map pfinish

/-- a TTL as the caller may spell it (not callable) -/
inductive Plain where
  | int (secs : Nat)            -- `type(ttl) == int`
  | float (ticks : Nat)         -- a float: returned as is (harness uses multiples of 1/8 s)
  | delta (ticks : Nat)         -- `timedelta.total_seconds()`
  | str (s : List Char)         -- `_ttl_from_str`
  deriving DecidableEq, Repr

/-- `ttl_to_seconds(ttl)` for a non-callable spelling, in ticks; `none` = ValueError -/
def Plain.ticks : Plain → Option Nat
  | .int n => some (8 * n)
  | .float t => some t
  | .delta t => some t
  | .str s => (ttlFromStr s).map (8 * ·)

/-- a TTL spelling: plain, or a callable of the call's arguments (here: its key) and the result
(here: an index the decorator models give to the result kind).  `ttl_to_seconds(ttl, *args,
result=…, with_callable=True)` calls it and normalises what it returned. -/
inductive Spelling where
  | plain (p : Plain)
  | callable (f : Nat → Nat → Plain)

def Spelling.ticks (sp : Spelling) (key res : Nat) : Option Nat :=
  match sp with
  | .plain p => p.ticks
  | .callable f => (f key res).ticks

end CashewsVerif.Ttl
