import CashewsVerif.Model.RedisBackend
/-
Model of the two lock WAIT LOOPS cashews runs on top of a backend, here over the Redis backend model (`Redis.step`:
`set_lock` = SET NX PX through the safe / unsafe client, `ping` = PING):

* `_BackendInterface.lock()` (cashews/backends/interface.py) — used by `async with cache.lock(...)`, `@cache.locked`,
  `@cache(..., lock=True)`:

      while True:
          lock = await self.set_lock(key, identifier, expire=expire)
          if lock is None: yield; return                       # command disabled (not reachable on the Redis backend: bool(...))
          if not lock:
              try:
                  if await self.ping(b"LOCK") is None: yield; return
              except CacheBackendInteractionError: yield; return    # the backend does not answer: run unprotected
              if wait: await asyncio.sleep(check_interval); continue
              raise LockedError(...)
          try: yield
          finally: await self.unlock(key, identifier)
          return

  The liveness ping is made after EVERY failed attempt: a suppressing client answers `False` to SET NX both when the key is
  held and when the server is unreachable, and only the ping tells the two apart.

* `LockTransactionBackend._lock_updates` (cashews/backends/transaction.py):

      wait = self._timeout; step = 0.1
      while wait > 0.0:
          wait -= step; wait = round(wait, 1)
          if await self._backend.set_lock(lock_key, self._lock_id, expire=self._timeout): self._locks.add(lock_key); return
          ...
          await asyncio.sleep(step)
      raise LockedError("probably deadlock or long running transactions")

The loops are written as small-step machines so that "the server goes down at ANY point of the loop" can be said: between
any two steps the rest of the system (the holder of the lock, other clients, the clock) acts through `env`, an arbitrary
function on worlds; it may do anything to the server, and can only move the call counter forward.  Mathlib-free.
-/
namespace CashewsVerif.Redis

/-- where a caller of `lock()` is inside `while True:` -/
inductive LPos where
  | atSetLock      -- about to `await self.set_lock(key, identifier, expire=expire)`
  | atPing         -- `set_lock` answered "not acquired": about to `await self.ping(b"LOCK")`
  | atSleep        -- the ping was answered and `wait` is set: `await asyncio.sleep(check_interval); continue`
  deriving DecidableEq, Repr

/-- how a caller leaves the loop -/
inductive LockOut where
  | acquired       -- runs its body holding the lock (`try: yield finally: unlock`)
  | unprotected    -- runs its body WITHOUT the lock (`yield; return`): the backend does not answer
  | lockedError    -- `wait=False` and the key is held: `raise LockedError`
  | raise          -- CacheBackendInteractionError escaped (suppression off: from `set_lock`)
  | raiseOther     -- anything else escaped
  deriving DecidableEq, Repr

/-- one step of `lock()` from position `p` -/
def lockStep (cfg : Cfg) (k : String) (tok : Bytes) (ms : Nat) (wait : Bool) (p : LPos) (w : World) : World × Sum LPos LockOut :=
  match p with
  | .atSetLock =>
    let r := step cfg w (.setLock k tok ms)
    (r.1, match r.2 with
      | .bool true => .inr .acquired
      | .bool false => .inl .atPing
      | .raise => .inr .raise
      | _ => .inr .raiseOther)
  | .atPing =>
    let r := step cfg w .ping
    (r.1, match r.2 with
      | .raise => .inr .unprotected                 -- `except CacheBackendInteractionError: yield; return`
      | .raiseOther => .inr .raiseOther
      | _ => if wait then .inl .atSleep else .inr .lockedError)
  | .atSleep => (w, .inl .atSetLock)

/-- `fuel` steps of the loop; before each of them the rest of the system acts (`env n`).  `none` = still inside the loop. -/
def lockRun (cfg : Cfg) (k : String) (tok : Bytes) (ms : Nat) (wait : Bool) (env : Nat → World → World) :
    Nat → LPos → World → World × Option LockOut
  | 0, _, w => (w, none)
  | fuel + 1, p, w =>
    let r := lockStep cfg k tok ms wait p (env fuel w)
    match r.2 with
    | .inl p' => lockRun cfg k tok ms wait env fuel p' r.1
    | .inr o => (r.1, some o)

/-- the rest of the system never takes client calls back -/
def EnvOk (env : Nat → World → World) : Prop := ∀ n w, w.calls ≤ (env n w).calls

/-- nobody else acts -/
def envId : Nat → World → World := fun _ w => w

/-- how `_lock_updates` ends -/
inductive TxLockOut where
  | acquired
  | lockedError    -- `raise LockedError("probably deadlock or long running transactions")` after `rounds` attempts
  | raise          -- CacheBackendInteractionError (suppression off)
  | raiseOther
  deriving DecidableEq, Repr

/-- `_lock_updates`: at most `rounds` (= timeout / 0.1) attempts, `asyncio.sleep(0.1)` (the rest of the system acts) between them -/
def txLockRun (cfg : Cfg) (k : String) (tok : Bytes) (ms : Nat) (env : Nat → World → World) : Nat → World → World × TxLockOut
  | 0, w => (w, .lockedError)
  | rounds + 1, w =>
    let r := step cfg (env rounds w) (.setLock k tok ms)
    match r.2 with
    | .bool true => (r.1, .acquired)
    | .bool false => txLockRun cfg k tok ms env rounds r.1
    | .raise => (r.1, .raise)
    | _ => (r.1, .raiseOther)

end CashewsVerif.Redis
