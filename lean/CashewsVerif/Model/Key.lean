/-
C08 — cache keys: model of `cashews/key.py`, `cashews/formatter.py`, `cashews/key_context.py`
(after fix c02b738) and of the part of `inspect.Signature.bind / bind_partial / apply_defaults`
they rely on.  Mathlib-free, executable (the driver `Drivers/C08.lean` links against it).

Text is `List Char` (code points, like a Python `str`); a Python `dict` is the list of its items in
insertion order with distinct keys; `bytes` is a list of numbers below 256.
-/
namespace CashewsVerif.KeyModel

abbrev Str := List Char

/-- the value alphabet of the property: str, int, bool, None, bytes, tuples, dicts (nested freely), and
sets / frozensets (the list of the elements in the order Python iterates them, distinct) -/
inductive PyVal where
  | str (s : Str)
  | int (i : Int)
  | bool (b : Bool)
  | none
  | bytes (bs : List Nat)
  | tuple (vs : List PyVal)
  | dict (kvs : List (Str × PyVal))
  | set (vs : List PyVal)
  deriving Repr, Inhabited

abbrev Dict := List (Str × PyVal)

/-- `d.get(n)` on an item list (first match; keys are distinct wherever Python has a dict) -/
def get? {α : Type} : List (Str × α) → Str → Option α
  | [], _ => none
  | (k, v) :: r, n => if k = n then some v else get? r n

/-- the items of `d` after `d.pop(n)` -/
def erase {α : Type} : List (Str × α) → Str → List (Str × α)
  | [], _ => []
  | (k, v) :: r, n => if k = n then erase r n else (k, v) :: erase r n

def keys {α : Type} (d : List (Str × α)) : List Str := d.map (·.1)

/-! ## value rendering — `cashews/formatter.py` -/

def hexDigit (n : Nat) : Char :=
  if n < 10 then Char.ofNat (48 + n) else Char.ofNat (87 + n)

/-- `bytes.hex()` -/
def hexOf : List Nat → Str
  | [] => []
  | b :: r => hexDigit (b / 16) :: hexDigit (b % 16) :: hexOf r

def isCont (b : Nat) : Bool := 128 ≤ b && b < 192

/-- `bytes.decode()` (strict UTF-8: no overlong forms, no surrogates, nothing above U+10FFFF);
`none` = `UnicodeDecodeError` -/
def utf8Decode : List Nat → Option Str
  | [] => some []
  | b0 :: r =>
    if b0 < 128 then (utf8Decode r).map (Char.ofNat b0 :: ·)
    else if 194 ≤ b0 && b0 < 224 then
      match r with
      | b1 :: r' =>
        if isCont b1 then (utf8Decode r').map (Char.ofNat ((b0 - 192) * 64 + (b1 - 128)) :: ·) else none
      | _ => none
    else if 224 ≤ b0 && b0 < 240 then
      match r with
      | b1 :: b2 :: r' =>
        if isCont b1 && isCont b2 && (b0 ≠ 224 || 160 ≤ b1) && (b0 ≠ 237 || b1 < 160) then
          (utf8Decode r').map (Char.ofNat ((b0 - 224) * 4096 + (b1 - 128) * 64 + (b2 - 128)) :: ·)
        else none
      | _ => none
    else if 240 ≤ b0 && b0 < 245 then
      match r with
      | b1 :: b2 :: b3 :: r' =>
        if isCont b1 && isCont b2 && isCont b3 && (b0 ≠ 240 || 144 ≤ b1) && (b0 ≠ 244 || b1 < 144) then
          (utf8Decode r').map
            (Char.ofNat ((b0 - 240) * 262144 + (b1 - 128) * 4096 + (b2 - 128) * 64 + (b3 - 128)) :: ·)
        else none
      | _ => none
    else none

/-- `_decode_bytes`: `value.decode()`, on `UnicodeDecodeError` `value.hex()` -/
def decodeBytes (bs : List Nat) : Str :=
  match utf8Decode bs with
  | some s => s
  | none => hexOf bs

/-- `":".join(parts)` -/
def joinColon : List Str → Str
  | [] => []
  | [s] => s
  | s :: r => s ++ ':' :: joinColon r

/-- insertion into a key-sorted list (Python compares `str` by code point, so does `List Char`) -/
def insKey (e : Str × Str) : List (Str × Str) → List (Str × Str)
  | [] => [e]
  | x :: r => if e.1 < x.1 then e :: x :: r else x :: insKey e r

/-- `sorted(value.items())` restricted to what it can compare: the (distinct) keys -/
def sortKey (l : List (Str × Str)) : List (Str × Str) := l.foldr insKey []

/-- insertion into a sorted list of texts -/
def insStr (e : Str) : List Str → List Str
  | [] => [e]
  | x :: r => if e < x then e :: x :: r else x :: insStr e r

/-- `sorted(texts)` (Python compares `str` by code point, so does `List Char`) -/
def sortStr (l : List Str) : List Str := l.foldr insStr []

/-- `str(int)` -/
def intText (i : Int) : Str := i.repr.toList

mutual
  /-- `_ReplaceFormatter._type_format` (the value of a field on the `str.format` fast path):
  str as is, bool lower-case, bytes utf-8 or hex, tuple joined by ':', dict sorted `k:v` joined by ':',
  set / frozenset: the *sorted* texts of the elements joined by ':' (`_decode_set`, D50: equal sets are
  one bound argument whatever order they iterate in), everything else `str(value)` — so `None` gives `"None"` -/
  def typeFmt : PyVal → Str
    | .str s => s
    | .int i => intText i
    | .bool b => if b then ['t', 'r', 'u', 'e'] else ['f', 'a', 'l', 's', 'e']
    | .none => ['N', 'o', 'n', 'e']
    | .bytes bs => decodeBytes bs
    | .tuple vs => joinColon (fmtList vs)
    | .dict kvs => joinColon ((sortKey (fmtItems kvs)).map fun kv => kv.1 ++ ':' :: kv.2)
    | .set vs => joinColon (sortStr (fmtList vs))
  /-- `_ReplaceFormatter._format_field` (container elements, and fields on the slow path):
  `None` gives `""`, everything else `_type_format` -/
  def fmtField : PyVal → Str
    | .none => []
    | .str s => s
    | .int i => intText i
    | .bool b => if b then ['t', 'r', 'u', 'e'] else ['f', 'a', 'l', 's', 'e']
    | .bytes bs => decodeBytes bs
    | .tuple vs => joinColon (fmtList vs)
    | .dict kvs => joinColon ((sortKey (fmtItems kvs)).map fun kv => kv.1 ++ ':' :: kv.2)
    | .set vs => joinColon (sortStr (fmtList vs))
  def fmtList : List PyVal → List Str
    | [] => []
    | v :: r => fmtField v :: fmtList r
  def fmtItems : List (Str × PyVal) → List (Str × Str)
    | [] => []
    | (k, v) :: r => (k, fmtField v) :: fmtItems r
end

/-! ## templates -/

/-- a template made of literal text and plain `{name}` fields -/
inductive Item where
  | lit (s : Str)
  | field (n : Str)
  deriving Repr, DecidableEq

abbrev Tmpl := List Item

def Tmpl.fields : Tmpl → List Str
  | [] => []
  | .lit _ :: r => Tmpl.fields r
  | .field n :: r => n :: Tmpl.fields r

/-- the format string Python sees (literals are brace-free in everything the harness generates) -/
def Tmpl.toFormat : Tmpl → Str
  | [] => []
  | .lit s :: r => s ++ Tmpl.toFormat r
  | .field n :: r => '{' :: n ++ '}' :: Tmpl.toFormat r

/-- substitute a text for every field -/
def renderWith (txt : Str → Str) : Tmpl → Str
  | [] => []
  | .lit s :: r => s ++ renderWith txt r
  | .field n :: r => txt n ++ renderWith txt r

/-- every field of the template is among the values: `format_string.format(**{k: _type_format(v)})`
succeeds (fast path of `_FuncFormatter.vformat`); otherwise its `KeyError` sends the call to
`string.Formatter.vformat` (slow path) -/
def fastPath (t : Tmpl) (vals : Dict) : Bool :=
  t.fields.all fun n => (get? vals n).isSome

/-- the text substituted for field `n`: on the fast path `_type_format(value)`; on the slow path
`_format_field(value)` — `None` renders `""` there — and `""` for a missing field (`get_field`
default of `default_formatter`) -/
def fieldText (fast : Bool) (vals : Dict) (n : Str) : Str :=
  match get? vals n with
  | some v => if fast then typeFmt v else fmtField v
  | none => []

/-- `_FuncFormatter.vformat` on templates of literals and plain fields -/
def render (t : Tmpl) (vals : Dict) : Str :=
  renderWith (fieldText (fastPath t vals) vals) t

/-- consecutive fields are separated by a literal containing ':' (`pend`: a field was rendered and
no ':' literal has followed it yet) -/
def sepAux : Bool → Tmpl → Bool
  | _, [] => true
  | pend, .lit s :: r => sepAux (pend && !(s.contains ':')) r
  | pend, .field _ :: r => !pend && sepAux true r

def separated (t : Tmpl) : Bool := sepAux false t

/-- Python's `type(v)` -/
inductive PyType where
  | str | int | bool | none | bytes | tuple | dict | set
  deriving DecidableEq, Repr

def PyVal.type : PyVal → PyType
  | .str _ => .str
  | .int _ => .int
  | .bool _ => .bool
  | .none => .none
  | .bytes _ => .bytes
  | .tuple _ => .tuple
  | .dict _ => .dict
  | .set _ => .set

/-! ## signatures and binding — `inspect.Signature._bind`, `BoundArguments.apply_defaults` -/

inductive Kind where
  | pos      -- POSITIONAL_OR_KEYWORD
  | kwOnly   -- KEYWORD_ONLY
  | varPos   -- *args
  | varKw    -- **kwargs
  deriving DecidableEq, Repr

structure Param where
  name : Str
  kind : Kind
  dflt : Option PyVal := none
  deriving Repr

abbrev Sig := List Param

structure Call where
  args : List PyVal
  kwargs : Dict
  deriving Repr

/-- a bound argument: a plain parameter, the `*args` tuple, the `**kwargs` dict -/
inductive BVal where
  | one (v : PyVal)
  | star (vs : List PyVal)
  | kw (kvs : Dict)
  deriving Repr

/-- `BoundArguments.arguments` (ordered) -/
abbrev Bound := List (Str × BVal)

/-- first loop of `_bind`: consume the positional arguments; returns the arguments bound so far
and the parameters left for the keyword loop (`chain(parameters_ex, parameters)`) -/
def bindPos (partial_ : Bool) (kw : Dict) : List Param → List PyVal → Option (Bound × List Param)
  | [], [] => some ([], [])
  | p :: rest, [] =>
    if p.kind = .varPos then some ([], rest)                 -- "just empty *args"
    else if (get? kw p.name).isSome || p.kind = .varKw || p.dflt.isSome || partial_ then some ([], p :: rest)
    else none                                                 -- missing a required argument
  | [], _ :: _ => none                                       -- too many positional arguments
  | p :: rest, a :: as =>
    match p.kind with
    | .varKw => none                                          -- too many positional arguments
    | .kwOnly => none
    | .varPos => some ([(p.name, .star (a :: as))], rest)
    | .pos =>
      if (get? kw p.name).isSome then none                   -- multiple values for argument
      else (bindPos partial_ kw rest as).map fun br => ((p.name, .one a) :: br.1, br.2)

/-- second loop of `_bind`: pop keyword arguments by parameter name; returns the arguments bound,
the keyword arguments left over, and the name of the `**kwargs` parameter if one was met -/
def bindKw (partial_ : Bool) : List Param → Dict → Option Str → Option (Bound × Dict × Option Str)
  | [], kw, kp => some ([], kw, kp)
  | p :: rest, kw, kp =>
    match p.kind with
    | .varKw => bindKw partial_ rest kw (some p.name)
    | .varPos => bindKw partial_ rest kw kp
    | _ =>
      match get? kw p.name with
      | some v => (bindKw partial_ rest (erase kw p.name) kp).map fun r => ((p.name, .one v) :: r.1, r.2)
      | none =>
        if !partial_ && p.dflt.isNone then none              -- missing a required argument
        else bindKw partial_ rest kw kp

/-- `Signature.bind` (`partial_ = false`) / `Signature.bind_partial` (`partial_ = true`);
`none` = `TypeError` -/
def bind (partial_ : Bool) (sig : Sig) (c : Call) : Option Bound :=
  match bindPos partial_ c.kwargs sig c.args with
  | none => none
  | some (b1, rest) =>
    match bindKw partial_ rest c.kwargs none with
    | none => none
    | some (b2, left, kp) =>
      if left.isEmpty then some (b1 ++ b2)
      else match kp with
        | some n => some (b1 ++ b2 ++ [(n, .kw left)])
        | none => none                                        -- got an unexpected keyword argument

/-- `BoundArguments.apply_defaults`: signature order; a missing parameter gets its default,
`()` for `*args`, `{}` for `**kwargs`, and is skipped otherwise (only after `bind_partial`) -/
def applyDefaults : Sig → Bound → Bound
  | [], _ => []
  | p :: rest, b =>
    match get? b p.name with
    | some v => (p.name, v) :: applyDefaults rest b
    | none =>
      match p.dflt with
      | some d => (p.name, .one d) :: applyDefaults rest b
      | none =>
        match p.kind with
        | .varPos => (p.name, .star []) :: applyDefaults rest b
        | .varKw => (p.name, .kw []) :: applyDefaults rest b
        | _ => applyDefaults rest b

/-- the call's bound arguments after defaults are applied — what the property calls
"the call's bound arguments": `sig.bind(*args, **kwargs)` then `apply_defaults()` -/
def boundArgs (sig : Sig) (c : Call) : Option Bound :=
  (bind false sig c).map (applyDefaults sig)

/-! ## `cashews/key.py` -/

def ARGS : Str := ['_', '_', 'a', 'r', 'g', 's', '_', '_']
def KWARGS : Str := ['_', '_', 'k', 'w', 'a', 'r', 'g', 's', '_', '_']

/-- the loop at the end of `_get_call_values`: `*args` goes under `__args__`, `**kwargs` under
`__kwargs__` *and* item by item (`result.update(_value)`) -/
def valuesOf : Bound → Dict
  | [] => []
  | (n, .one v) :: r => (n, v) :: valuesOf r
  | (_, .star vs) :: r => (ARGS, .tuple vs) :: valuesOf r
  | (_, .kw kvs) :: r => (KWARGS, .dict kvs) :: (kvs ++ valuesOf r)

def isNonVarKwParam (sig : Sig) (n : Str) : Bool :=
  sig.any fun p => p.name = n && p.kind ≠ .varKw

/-- `_get_call_values` (after c02b738): `bind` when there are positional arguments (a `TypeError`
propagates: `none`), otherwise `bind_partial` — and when even that raises, the raw keyword arguments
plus `__kwargs__` = those that name no parameter; then `apply_defaults` and the value dict -/
def callValues (sig : Sig) (c : Call) : Option Dict :=
  if c.args.isEmpty then
    match bind true sig c with
    | some b => some (valuesOf (applyDefaults sig b))
    | none => some (c.kwargs ++ [(KWARGS, .dict (c.kwargs.filter fun kv => !isNonVarKwParam sig kv.1))])
  else
    (bind false sig c).map fun b => valuesOf (applyDefaults sig b)

/-- name of a parameter inside templates (`get_func_params`) -/
def paramKey (p : Param) : Str :=
  match p.kind with
  | .varPos => ARGS
  | .varKw => KWARGS
  | _ => p.name

/-- `generate_key_template`: `<module>:<name>` then `:{__args__}` / `:{__kwargs__}` /
`:<param>:{<param>}` per parameter not excluded -/
def autoItems (excl : List Str) : Sig → Tmpl
  | [] => []
  | p :: rest =>
    if paramKey p ∈ excl then autoItems excl rest
    else match p.kind with
      | .varPos => .lit [':'] :: .field ARGS :: autoItems excl rest
      | .varKw => .lit [':'] :: .field KWARGS :: autoItems excl rest
      | _ => .lit (':' :: p.name ++ [':']) :: .field p.name :: autoItems excl rest

/-- `f"{func.__module__}:{func.__name__}"`, with `__qualname__` when the first parameter is `self` -/
def autoPrefix (mod name qual : Str) (sig : Sig) : Str :=
  match sig with
  | p :: _ => if paramKey p = ['s', 'e', 'l', 'f'] then mod ++ ':' :: qual else mod ++ ':' :: name
  | [] => mod ++ ':' :: name

def autoTemplate (mod name qual : Str) (excl : List Str) (sig : Sig) : Tmpl :=
  .lit (autoPrefix mod name qual sig) :: autoItems excl sig

/-- `key_context`: the values of the active `context(...)` blocks and the deprecated `rewrite` flag -/
structure Ctx where
  vals : Dict := []
  rewrite : Bool := false
  deriving Repr

def AT : Str := ['@']

/-- `default_format`: `values["@"] = ctx`; without `rewrite` the call's values win over the
context's, with it the context's win -/
def withCtx (ctx : Ctx) (vals : Dict) : Dict :=
  if ctx.rewrite then ctx.vals ++ (vals ++ [(AT, .dict ctx.vals)])
  else vals ++ [(AT, .dict ctx.vals)] ++ ctx.vals

/-- `get_cache_key(func, template, args, kwargs)`; `none` = `TypeError` from `bind` -/
def cacheKey (sig : Sig) (t : Tmpl) (ctx : Ctx) (c : Call) : Option Str :=
  (callValues sig c).map fun vals => render t (withCtx ctx vals)

/-! ## what the decorators derive from a template -/

def SELF : Str := ['s', 'e', 'l', 'f']

/-- `noself(decorator)(...)` without `key=`:
`kwargs["key"] = get_cache_key_template(method, exclude_parameters=("self",))` — the generated template
without the parameter whose name *is* `self` -/
def noselfTemplate (mod name qual : Str) (sig : Sig) : Tmpl := autoTemplate mod name qual [SELF] sig

/-- `get_cache_key_template(func, key, prefix)`: `f"{prefix}:{key}"` when a prefix is given -/
def withPrefix (pfx : Str) (t : Tmpl) : Tmpl :=
  if pfx = [] then t else .lit (pfx ++ [':']) :: t

/-- the key under which a cache decorator (`cache` / `early` / `soft` ...) stores the result of a call:
`get_cache_key(func, get_cache_key_template(func, key=key, prefix=prefix), args, kwargs)` -/
def decoratorKey (sig : Sig) (pfx : Str) (t : Tmpl) (ctx : Ctx) (c : Call) : Option Str :=
  cacheKey sig (withPrefix pfx t) ctx c

/-- the single-flight key of `thunder_protection(key=key)` (concurrent calls with the same key await one
execution): `get_cache_key(func, get_cache_key_template(func, key=key), args, kwargs)` — the same template,
no prefix, no exclusions -/
def flightKey (sig : Sig) (t : Tmpl) (ctx : Ctx) (c : Call) : Option Str :=
  cacheKey sig t ctx c

/-- the key context in which the body of a function decorated with a cashews decorator runs — and with it every
call the body makes: the caller's.  No decorator opens a key context around the decorated function;
`invalidate` enters its `template_context(**_args, rewrite=True)` (the values of the invalidating call, winning over
a call's own) only around `backend.delete_match(key)`, after `result = await func(*args, **kwargs)` -/
def bodyCtx (ambient : Ctx) (_ownValues : Dict) : Ctx := ambient

end CashewsVerif.KeyModel
