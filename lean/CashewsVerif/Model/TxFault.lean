import CashewsVerif.Model.Basic
/-
C16 — model of what a transaction block does when backend commands fail.

Mirrors `cashews/wrapper/transaction.py` (`TransactionContextDecorator.__aenter__/__aexit__/close` with the object's own
state (`_started` / `_inner`, kept per running transaction since 73da870 = D51; ONE task has one running transaction, for
which they are the `tx` / `inner` fields of `CtxObj`) — a context object may be kept by the program and entered again, nested in itself: `BodyCmd.block`,
`Transaction.wrap/commit/rollback/_rollback`) and `cashews/backends/transaction.py`
(`TransactionBackend.set/incr/get/delete/expire/exists/set_many/delete_many/commit/rollback`,
`LockTransactionBackend._lock_updates/_unlock_updates/set/incr/delete/expire/set_many/delete_many/commit/rollback`) for ONE task (the
*victim*), in an exception monad over a world state.

Other tasks appear as an **environment**: lock keys may be held by foreign owners (entries with `mine = false`),
and `env : Nat → List (backend × lock key)` says which foreign locks are RELEASED just before backend command
number `i` of the victim takes effect (another open transaction committing / rolling back while the victim runs:
during one of the `asyncio.sleep(step)` of the victim's wait loop, or while a command is in flight).  A blocked
`_lock_updates` (its `set_lock` answers False while the foreign entry is live) retries after a lock-step, up to
`attempts` times, then raises `LockedError`.  Acquisition is SEQUENTIAL, as in the code (`for key in pairs: await
self._lock_updates(key)`): a blocked acquisition has succeeded or raised before the next command starts, so no lock
attempt is pending when the block is left.

Failures come from a **fault oracle** `fails : Nat → Bool` on the global index of backend commands:
every command sent to a real backend bumps `counter`, is logged, and raises `Err.fault idx kind` *instead of
being executed* iff `fails idx` (a failing command has no effect on the backend: the "connection error"
reading of "a backend command fails").  The exception carries its **kind** (`base : Nat → Bool` of the oracle):
an `Exception` (connection error, ...) or a `BaseException` that is not an `Exception` — `asyncio.CancelledError`,
which is how a backend command cut short by `asyncio.timeout()` / `wait_for` / a cancelled task ends on
Python ≥ 3.11.  The handlers of the real code tell the two apart and so does the model:
  * `Transaction.commit`:   `except BaseException: await self._rollback(backends); raise`   — both kinds
  * `Transaction._rollback`: `except Exception as exc: error = error or exc` / `except BaseException as exc: interrupt =
                            interrupt or exc` … `if interrupt: raise interrupt`   — both kinds are passed over, every backend is
                            rolled back, the first BaseException is re-raised at the end (repair 12f0cbb, D36; before it a
                            BaseException LEFT the loop: `cfg.rbAll = false` keeps that old loop for the record)
  * `__aexit__`, `LockTransactionBackend.commit/rollback`: `try … finally`                  — both kinds
  * `asyncio.gather` in `_unlock_updates`: the awaiter gets the first exception, whatever its kind

State that survives a raised exception survives here too: `M α = FWorld → Res α × FWorld` returns the
world reached at the point of the raise (Python side effects are not rolled back by an exception).

Mathlib-free (the driver links against this file).
-/
namespace CashewsVerif.TxFault

/-! ### association lists (OrderedDict / dict): `put` = assign + `move_to_end` -/
section AL
variable {κ ε : Type} [DecidableEq κ]

def alLookup : List (κ × ε) → κ → Option ε
  | [], _ => none
  | (k', e) :: s, k => if k' = k then some e else alLookup s k

def alErase : List (κ × ε) → κ → List (κ × ε)
  | [], _ => []
  | (k', e) :: s, k => if k' = k then alErase s k else (k', e) :: alErase s k

def alPut (s : List (κ × ε)) (k : κ) (e : ε) : List (κ × ε) := alErase s k ++ [(k, e)]

end AL

inductive Mode where
  | fast | locked | serializable
  deriving DecidableEq, Repr

/-- the two classes of Python exceptions a handler can tell apart -/
inductive Kind where
  | exception        -- an `Exception`: caught by `except Exception` (and by `except BaseException`)
  | baseException    -- a `BaseException` that is no `Exception` (`asyncio.CancelledError`, …): `except Exception` lets it through
  deriving DecidableEq, Repr

/-- what the caller of the block can see raised -/
inductive Err where
  | fault (idx : Nat) (kind : Kind)   -- the exception injected into backend command number `idx`, with its kind
  | locked              -- `LockedError("probably deadlock or long running transactions")` (an `Exception`)
  | body                -- the body's own exception (of either kind: no handler of the modelled code ever catches it —
                        --  `__aexit__` only looks at `exc_tb` — so its kind is not recorded)
  deriving DecidableEq, Repr

/-- does `except Exception` let it through?  (asked only about what `tx_backend.rollback()` can raise: faults) -/
def Err.isBase : Err → Bool
  | .fault _ .baseException => true
  | _ => false

inductive Res (α : Type) where
  | ok (a : α)
  | err (e : Err)
  deriving Repr

/-- a stored value `(expire_at, value)` of `Memory.store`; values are ints in this family -/
structure DEntry where
  val : Int
  dl  : Option Nat
  deriving DecidableEq, Repr

/-- a lock key's entry: `mine` = its value is this transaction's `_lock_id` (a fresh uuid) -/
structure LEntry where
  mine : Bool
  dl   : Option Nat
  deriving DecidableEq, Repr

/-- `expire_at and expire_at <= time.time()` negated: live strictly before the deadline -/
def liveAt (dl : Option Nat) (now : Nat) : Bool :=
  match dl with
  | none => true
  | some d => decide (now < d)

/-- commands that reach a real backend (`self._backend.<cmd>` / direct facade call) -/
inductive BCmd where
  | get (k : Nat)
  | set (k : Nat) (v : Int)                      -- only issued outside a transaction (probe after the block)
  | setLock (lk : Nat) (ttl : Nat)
  | unlock (lk : Nat)
  | deleteMany (ks : List Nat)
  | setMany (kvs : List (Nat × Int)) (ttl : Option Nat)
  | has (k : Nat)                                -- `exists(key)` (`exists` is a Lean keyword)
  deriving DecidableEq, Repr

inductive Reply where
  | unit
  | bool (b : Bool)
  | val (v : Option Int)
  | int (i : Int)
  deriving DecidableEq, Repr

/-- one logged backend command: global index, backend id, command, whether the oracle made it raise -/
structure Ev where
  idx : Nat
  b : Nat
  cmd : BCmd
  failed : Bool
  deriving DecidableEq, Repr

/-- `TransactionBackend` / `LockTransactionBackend` object wrapped around backend `bid` -/
structure TxB where
  bid : Nat
  ov : List (Nat × DEntry)      -- `_local_cache.store` (an OrderedDict: order matters for the commit groups)
  del : List Nat                -- `_to_delete` (a set)
  locks : List Nat              -- `_locks` (a set; kept in acquisition order, see `unlockOrder`)
  deriving Repr

def TxB.fresh (b : Nat) : TxB := ⟨b, [], [], []⟩

/-- `Transaction`: `_backends.values()` in first-use order -/
structure Tx where
  backs : List TxB
  deriving Repr

/-- the mutable fields of a `TransactionContextDecorator` object that the program keeps and may enter again
(`tx = cache.transaction(); async with tx: …; async with tx: …`) -/
structure CtxObj where
  tx : Bool        -- `self._tx is not None`: this object started the transaction that is running
  inner : Nat      -- `self._inner`: how many open blocks of this object joined a transaction that was already running
  deriving DecidableEq, Repr

/-- the world: real backends' stores (keyed by (backend id, key)), the clock, the command counter and
log, the results the body saw, and the task's `_transaction` context variable -/
structure FWorld where
  counter : Nat
  now : Nat
  data : List ((Nat × Nat) × DEntry)
  locks : List ((Nat × Nat) × LEntry)
  log : List Ev
  outs : List Reply
  ctx : Option Tx
  objs : List (Nat × CtxObj)        -- the shared context objects (absent = as constructed: `_tx = None`, `_inner = 0`)
  deriving Repr

/-- parameters of a run that the code does not change -/
structure Cfg where
  mode : Mode
  timeout : Nat                 -- `self._timeout` in ticks: lock lease (truthy: `timeout or self.transaction_timeout`)
  attempts : Nat                -- iterations of the `while wait > 0.0` loop of `_lock_updates` (= f(timeout))
  uprio : List (Nat × Nat)      -- iteration order of the `_locks` *sets* (hash order; any order is allowed)
  fails : Nat → Bool            -- the fault oracle
  stepDt : Nat                  -- how much of the clock one `asyncio.sleep(step)` of the wait loop takes (any amount)
  env : Nat → List (Nat × Nat)  -- the environment: foreign locks (backend, lock key) released just before command `i`
  base : Nat → Bool             -- the kind of the exception a failing command `i` raises: true = BaseException only (cancellation)
  rbAll : Bool := true          -- the loop of `Transaction._rollback`: true (the default) = as in /repo since 12f0cbb: every
                                --  backend is rolled back, a BaseException is re-raised at the end; false = the OLD loop
                                --  (`except Exception` only: a BaseException left the loop) — kept only for the remark
                                --  theorem `old_rollback_loop_left_locks` of Props/C16.lean

/-- the kind of the exception command `i` raises if it is made to fail -/
def Cfg.kindAt (cfg : Cfg) (i : Nat) : Kind := if cfg.base i then .baseException else .exception

/-! ### the monad -/

def M (α : Type) := FWorld → Res α × FWorld

def M.pure {α} (a : α) : M α := fun w => (.ok a, w)

def M.bind {α β} (m : M α) (f : α → M β) : M β := fun w =>
  match m w with
  | (.ok a, w1) => f a w1
  | (.err e, w1) => (.err e, w1)

instance : Monad M where
  pure := M.pure
  bind := M.bind

def throw {α} (e : Err) : M α := fun w => (.err e, w)

def getW : M FWorld := fun w => (.ok w, w)

def modW (f : FWorld → FWorld) : M Unit := fun w => (.ok (), f w)

/-- `try: m  finally: fin` — `fin` always runs on the world `m` left; an exception of `fin` replaces `m`'s outcome -/
def tryFinally {α} (m : M α) (fin : M Unit) : M α := fun w =>
  match m w with
  | (r, w1) =>
    match fin w1 with
    | (.ok _, w2) => (r, w2)
    | (.err e, w2) => (.err e, w2)

/-! ### the in-memory backend, as far as these commands go (`cashews/backends/memory.py`) -/

/-- the deadline a TTL-less `_set` inherits: that of a live entry already under the key -/
def inheritDl {κ} [DecidableEq κ] (now : Nat) (s : List (κ × DEntry)) (k : κ) : Option Nat :=
  match alLookup s k with
  | some e => if liveAt e.dl now then e.dl else none
  | none => none

/-- `Memory._set`: `expire = time.time() + expire if expire else None`; without one, inherit the deadline of
a live entry; assign and `move_to_end` -/
def memSet {κ} [DecidableEq κ] (now : Nat) (s : List (κ × DEntry)) (k : κ) (v : Int) (ttl : Option Nat) :
    List (κ × DEntry) :=
  alPut s k ⟨v, (deadlineOf now ttl).or (inheritDl now s k)⟩

/-- `Memory._get`: absent → default; `move_to_end`; expired → delete, default -/
def memGet {κ} [DecidableEq κ] (now : Nat) (s : List (κ × DEntry)) (k : κ) : List (κ × DEntry) × Option Int :=
  match alLookup s k with
  | none => (s, none)
  | some e => if liveAt e.dl now then (alPut s k e, some e.val) else (alErase s k, none)

/-- effect and reply of a command that was *not* made to fail.  The lazy removal of an expired data entry by
a read is not API-visible and is left out (data is compared through live reads only). -/
def applyCmd (b : Nat) (c : BCmd) (w : FWorld) : Reply × FWorld :=
  match c with
  | .get k => (.val (memGet w.now w.data (b, k)).2, w)                                   -- `Memory.get`
  | .set k v => (.bool true, { w with data := memSet w.now w.data (b, k) v none })       -- `Memory.set` (exist=None)
  | .setLock lk ttl =>                                                                   -- `set(key, value, expire, exist=False)`
    match alLookup w.locks (b, lk) with
    | some e =>
      if liveAt e.dl w.now then (.bool false, w)
      else (.bool true, { w with locks := alPut w.locks (b, lk) ⟨true, some (w.now + ttl)⟩ })
    | none => (.bool true, { w with locks := alPut w.locks (b, lk) ⟨true, some (w.now + ttl)⟩ })
  | .unlock lk =>                                                                        -- `Memory.unlock` (owner-checked)
    match alLookup w.locks (b, lk) with
    | none => (.bool false, w)
    | some e =>
      if !liveAt e.dl w.now then (.bool false, { w with locks := alErase w.locks (b, lk) })   -- `_get` drops the expired entry
      else if e.mine then (.bool true, { w with locks := alErase w.locks (b, lk) })
      else (.bool false, w)
  | .deleteMany ks => (.unit, { w with data := ks.foldl (fun d k => alErase d (b, k)) w.data })
  | .setMany kvs ttl => (.unit, { w with data := kvs.foldl (fun d kv => memSet w.now d (b, kv.1) kv.2 ttl) w.data })
  | .has k => (.bool (memGet w.now w.data (b, k)).2.isSome, w)                           -- `Memory.exists` = `_key_exist`

/-- the environment releases one foreign lock: the other owner's `unlock` deletes its own entry; an entry
carrying the victim's token is never touched by anybody else (`unlock` is owner-checked) -/
def relOne (locks : List ((Nat × Nat) × LEntry)) (key : Nat × Nat) : List ((Nat × Nat) × LEntry) :=
  match alLookup locks key with
  | some e => if e.mine then locks else alErase locks key
  | none => locks

def envRel (keys : List (Nat × Nat)) (locks : List ((Nat × Nat) × LEntry)) : List ((Nat × Nat) × LEntry) :=
  keys.foldl relOne locks

/-- every backend command bumps the counter, is logged, and raises iff `fails counter`; what the environment
does up to that command (`env counter`) has happened before it takes effect -/
def backendCmd (cfg : Cfg) (b : Nat) (c : BCmd) : M Reply := fun w =>
  let i := w.counter
  let bad := cfg.fails i
  let w1 := { w with counter := i + 1, log := w.log ++ [⟨i, b, c, bad⟩], locks := envRel (cfg.env i) w.locks }
  if bad then (.err (.fault i (cfg.kindAt i)), w1)
  else
    match applyCmd b c w1 with
    | (r, w2) => (.ok r, w2)

/-! ### `Transaction.wrap` and the per-backend transaction objects -/

def findB : List TxB → Nat → TxB
  | [], b => TxB.fresh b
  | t :: r, b => if t.bid = b then t else findB r b

/-- update the wrapper of backend `b`, creating it at the end of `_backends` on first use (`Transaction.wrap`) -/
def upsert (b : Nat) (f : TxB → TxB) : List TxB → List TxB
  | [] => [f (TxB.fresh b)]
  | t :: r => if t.bid = b then f t :: r else t :: upsert b f r

def getB (w : FWorld) (b : Nat) : TxB :=
  match w.ctx with
  | some tx => findB tx.backs b
  | none => TxB.fresh b

def modB (b : Nat) (f : TxB → TxB) : M Unit :=
  modW fun w => { w with ctx := w.ctx.map fun tx => { tx with backs := upsert b f tx.backs } }

/-- `tx.wrap(backend)` in `TransactionWrapper._get_backend` -/
def wrap (b : Nat) : M Unit := modB b id

/-- `_get_lock_key`: one global key (0) when serializable, else one per key -/
def lockKey (m : Mode) (k : Nat) : Nat :=
  match m with
  | .serializable => 0
  | _ => k + 1

/-- the `while wait > 0.0` loop of `_lock_updates`: `set_lock`; on success remember the key; otherwise (the key
is held by a live foreign entry) `asyncio.sleep(step)` — one lock-step, taking `stepDt` of the clock (the real
sleeps are 0.1 s, not whole ticks: the correspondence runs with `stepDt = 0` and compares no clock in contended
runs) — and retry; `LockedError` at the end.  The foreign entry may be released by the environment before any of
the retries.  (The re-check `if lock_key in self._locks` after a failed attempt cannot fire: acquisitions of one
transaction backend are sequential.) -/
def lockLoop (cfg : Cfg) (b lk : Nat) : Nat → M Unit
  | 0 => throw .locked
  | n + 1 => do
    let r ← backendCmd cfg b (.setLock lk cfg.timeout)
    if r = .bool true then modB b (fun t => { t with locks := t.locks ++ [lk] })
    else do
      modW fun w => { w with now := w.now + cfg.stepDt }
      lockLoop cfg b lk n

/-- `LockTransactionBackend._lock_updates(key)`; `TransactionBackend` (fast mode) has none -/
def lockUpdates (cfg : Cfg) (b k : Nat) : M Unit := do
  match cfg.mode with
  | .fast => pure ()
  | m =>
    let w ← getW
    if lockKey m k ∈ (getB w b).locks then pure ()            -- `if lock_key in self._locks: return`
    else lockLoop cfg b (lockKey m k) cfg.attempts

def addDel (del : List Nat) (k : Nat) : List Nat := if k ∈ del then del else del ++ [k]

/-- `set(key, value, expire)` (exist=None): lock, `_to_delete.discard`, `_local_cache.set` → True -/
def txSet (cfg : Cfg) (b k : Nat) (v : Int) (ttl : Option Nat) : M Reply := do
  wrap b
  lockUpdates cfg b k
  let w ← getW
  modB b fun t => { t with del := t.del.filter (· ≠ k), ov := memSet w.now t.ov k v ttl }
  pure (.bool true)

def replyInt : Reply → Int
  | .val (some v) => v
  | _ => 0

/-- first half of `incr(key)`: `if not await self._local_cache.exists(key) and key not in self._to_delete:
current = await self._backend.get(key, 0); await self._local_cache.set(key, current)` -/
def incrSeed (cfg : Cfg) (b k : Nat) : M Unit := do
  let w ← getW
  let t := getB w b
  let p := memGet w.now t.ov k                              -- `exists` is a `_get`: it touches the order / drops an expired entry
  modB b fun t => { t with ov := p.1 }
  if p.2 = none ∧ k ∉ t.del then do
    let cur ← backendCmd cfg b (.get k)
    modB b fun t => { t with ov := memSet w.now t.ov k (replyInt cur) none }
  else pure ()

/-- `incr(key, 1, expire)`: lock; seed the overlay from the backend unless the key is buffered or pending deletion;
`_to_delete.discard`; `_local_cache.incr` (`value += int(await self._get(key, 0)); _expire = None if value != 1 else
expire; self._set(key, value, _expire)`: the TTL is applied only when the counter is created) -/
def txIncr (cfg : Cfg) (b k : Nat) (ttl : Option Nat) : M Reply := do
  wrap b
  lockUpdates cfg b k
  incrSeed cfg b k
  let w ← getW
  let p := memGet w.now (getB w b).ov k
  let nv : Int := 1 + p.2.getD 0
  modB b fun t => { t with del := t.del.filter (· ≠ k), ov := memSet w.now p.1 k nv (if nv = 1 then ttl else none) }
  pure (.int nv)

/-- `get(key)`: pending deletion → default; overlay hit; else the backend -/
def txGet (cfg : Cfg) (b k : Nat) : M Reply := do
  wrap b
  let w ← getW
  let t := getB w b
  if k ∈ t.del then pure (.val none)
  else do
    let p := memGet w.now t.ov k
    modB b fun t => { t with ov := p.1 }
    match p.2 with
    | some v => pure (.val (some v))
    | none => backendCmd cfg b (.get k)

/-- `delete(key)`: lock, `_local_cache.delete`, `_to_delete.add` → True -/
def txDelete (cfg : Cfg) (b k : Nat) : M Reply := do
  wrap b
  lockUpdates cfg b k
  modB b fun t => { t with ov := alErase t.ov k, del := addDel t.del k }
  pure (.bool true)

/-- `TransactionBackend.exists(key)`: `if await self._local_cache.exists(key): return True; if self._key_is_delete(key):
return False; return await self._backend.exists(key)` — the last one a backend command that can fail -/
def txExists (cfg : Cfg) (b k : Nat) : M Bool := do
  let w ← getW
  let t := getB w b
  let p := memGet w.now t.ov k                              -- `_local_cache.exists` is a `_get`
  modB b fun t => { t with ov := p.1 }
  if p.2.isSome then pure true
  else if k ∈ t.del then pure false
  else do
    let r ← backendCmd cfg b (.has k)
    pure (decide (r = .bool true))

/-- `set(key, value, expire, exist=True|False)`: lock; `if await self.exists(key) is not exist: return False` (the read
happens AFTER the lock was taken and can fail); then as an unconditional `set` -/
def txSetIf (cfg : Cfg) (b k : Nat) (v : Int) (ttl : Option Nat) (exist : Bool) : M Reply := do
  wrap b
  lockUpdates cfg b k
  let e ← txExists cfg b k
  if e ≠ exist then pure (.bool false)
  else do
    let w ← getW
    modB b fun t => { t with del := t.del.filter (· ≠ k), ov := memSet w.now t.ov k v ttl }
    pure (.bool true)

/-- `expire(key, timeout)`: lock;
```
if self._key_is_delete(key): return
if await self._local_cache.exists(key): return await self._local_cache.expire(key, timeout)
value = await self._backend.get(key, default=_empty)
if value is _empty: return
await self._local_cache.set(key, value, expire=timeout)
```
pending deletion → nothing; buffered → the buffered entry gets the new TTL (`Memory.expire`: `_set(key, stored value,
timeout)`); otherwise the value is READ from the backend (a command that can fail, after the lock was taken) and BUFFERED
with the new TTL — the store itself is not touched before commit.  `timeout = 0` is "no TTL given" to `_set`: a live
buffered entry keeps its deadline. -/
def txExpire (cfg : Cfg) (b k : Nat) (ttl : Nat) : M Reply := do
  wrap b
  lockUpdates cfg b k
  let w ← getW
  let t := getB w b
  if k ∈ t.del then pure .unit
  else do
    let p := memGet w.now t.ov k                            -- `_local_cache.exists`
    modB b fun t => { t with ov := p.1 }
    match p.2 with
    | some v =>
      modB b fun t => { t with ov := memSet w.now t.ov k v (some ttl) }
      pure .unit
    | none => do
      let r ← backendCmd cfg b (.get k)
      match r with
      | .val (some v) =>
        modB b fun t => { t with ov := memSet w.now t.ov k v (some ttl) }
        pure .unit
      | _ => pure .unit

/-- `for key in pairs: await self._lock_updates(key)` — one key after the other: the acquisition of a key has
returned or raised before the next one starts -/
def lockAll (cfg : Cfg) (b : Nat) : List Nat → M Unit
  | [] => pure ()
  | k :: rest => do
    lockUpdates cfg b k
    lockAll cfg b rest

/-- facade `cache.set_many(pairs, expire)` with all keys on backend `b` (distinct keys: `pairs` is a dict):
`LockTransactionBackend.set_many` locks every key in turn, then `TransactionBackend.set_many`:
`_to_delete.difference_update(pairs.keys()); _local_cache.set_many(pairs, expire)`.  Empty `pairs`: the facade
reaches no backend at all. -/
def txSetMany (cfg : Cfg) (b : Nat) (kvs : List (Nat × Int)) (ttl : Option Nat) : M Reply := do
  if kvs = [] then pure .unit
  else do
    wrap b
    lockAll cfg b (kvs.map (·.1))
    let w ← getW
    modB b fun t => { t with del := t.del.filter (fun k => k ∉ kvs.map (·.1)),
                             ov := kvs.foldl (fun ov kv => memSet w.now ov kv.1 kv.2 ttl) t.ov }
    pure .unit

/-- facade `cache.delete_many(*keys)` with all keys on backend `b`: lock every key in turn, then
`_local_cache.delete_many(*keys); _to_delete.update(keys)` -/
def txDelMany (cfg : Cfg) (b : Nat) (ks : List Nat) : M Reply := do
  if ks = [] then pure .unit
  else do
    wrap b
    lockAll cfg b ks
    modB b fun t => { t with ov := ks.foldl alErase t.ov, del := ks.foldl addDel t.del }
    pure .unit

/-! ### commit / rollback of one wrapped backend -/

/-- `expire_group.setdefault(expire, {})[key] = value` -/
def groupAdd (gs : List (Option Nat × List (Nat × Int))) (r : Option Nat) (kv : Nat × Int) :
    List (Option Nat × List (Nat × Int)) :=
  match gs with
  | [] => [(r, [kv])]
  | (r', kvs) :: rest => if r' = r then (r', kvs ++ [kv]) :: rest else (r', kvs) :: groupAdd rest r kv

/-- the loop at the top of `TransactionBackend.commit`: group the overlay by remaining TTL; an entry whose TTL
has already elapsed joins `_to_delete` -/
def commitPlan (now : Nat) : List (Nat × DEntry) → List Nat → List (Option Nat × List (Nat × Int)) →
    List Nat × List (Option Nat × List (Nat × Int))
  | [], del, gs => (del, gs)
  | (k, e) :: rest, del, gs =>
    match e.dl with
    | none => commitPlan now rest del (groupAdd gs none (k, e.val))
    | some d =>
      if d ≤ now then commitPlan now rest (addDel del k) gs
      else commitPlan now rest del (groupAdd gs (some (d - now)) (k, e.val))

def commitCmds (now : Nat) (t : TxB) : List BCmd :=
  let p := commitPlan now t.ov t.del []
  (if p.1 = [] then [] else [BCmd.deleteMany p.1]) ++ p.2.map fun g => BCmd.setMany g.2 g.1

def runCmds (cfg : Cfg) (b : Nat) : List BCmd → M Unit
  | [] => pure ()
  | c :: rest => do
    let _ ← backendCmd cfg b c
    runCmds cfg b rest

/-- `TransactionBackend.commit`: `delete_many(*_to_delete)` if any, then one `set_many` per TTL group -/
def baseCommit (cfg : Cfg) (t : TxB) : M Unit := do
  let w ← getW
  runCmds cfg t.bid (commitCmds w.now t)

/-- the order in which `asyncio.gather(*[... for key in locks])` creates (and the loop runs) the unlock tasks:
the iteration order of a Python set — `uprio` first, then whatever it does not mention -/
def unlockOrder (uprio : List (Nat × Nat)) (b : Nat) (ls : List Nat) : List Nat :=
  let pref := (uprio.filter fun p => p.1 = b ∧ p.2 ∈ ls).map (·.2)
  pref ++ ls.filter fun lk => lk ∉ pref

/-- `await asyncio.gather(*unlocks)` without `return_exceptions` on a backend that does not suspend: every
child task was scheduled before the first one ran, so ALL unlock commands run to completion in order; the
awaiting coroutine gets the FIRST exception. -/
def gatherUnlock (cfg : Cfg) (b : Nat) : List Nat → M Unit
  | [] => pure ()
  | lk :: rest => fun w =>
    match backendCmd cfg b (.unlock lk) w with
    | (r, w1) =>
      match gatherUnlock cfg b rest w1 with
      | (r2, w2) =>
        match r with
        | .err e => (.err e, w2)
        | .ok _ => (r2, w2)

/-- how many `unlock` commands have been issued so far -/
def unlocksSoFar (log : List Ev) : Nat := (log.filter fun ev => match ev.cmd with | .unlock _ => true | _ => false).length

/-- `_unlock_updates`: `locks = self._locks; self._locks = set(); if locks: await asyncio.gather(...)`.  `cfg.uprio` lists the
iteration orders of the `_locks` sets gather after gather (one transaction may run several: explicit `tx.commit()` /
`tx.rollback()` in the body, then `__aexit__`): this gather's order starts after the unlocks issued so far (any order is allowed:
what `uprio` does not mention comes last) -/
def unlockUpdates (cfg : Cfg) (t : TxB) : M Unit := fun w =>
  gatherUnlock cfg t.bid (unlockOrder ((cfg.uprio.drop (unlocksSoFar w.log)).take t.locks.length) t.bid t.locks) w

/-- `LockTransactionBackend.commit`: `try: await super().commit()  finally: await self._unlock_updates()`.
(`TransactionBackend.commit` of fast mode is the same with an always-empty lock set.) -/
def commitOne (cfg : Cfg) (t : TxB) : M Unit := tryFinally (baseCommit cfg t) (unlockUpdates cfg t)

/-- `LockTransactionBackend.rollback`: `try: _clear_local_storage()  finally: _unlock_updates()` -/
def rollbackOne (cfg : Cfg) (t : TxB) : M Unit := tryFinally (M.pure ()) (unlockUpdates cfg t)

/-! ### `Transaction.commit / rollback / _rollback` -/

/-- `_rollback(backends)`:
```
error = None; interrupt = None
for tx_backend in backends:
    try: await tx_backend.rollback()
    except Exception as exc: error = error or exc
    except BaseException as exc: interrupt = interrupt or exc
if interrupt: raise interrupt
return error
```
every backend is rolled back whatever fails; the first BaseException is re-raised at the end (`.err e`), otherwise the first
`Exception` is returned (`.ok (some e)`).
With `cfg.rbAll = false`: the loop as it was before 12f0cbb — `except Exception` only, a BaseException left the loop and
the backends after it were not rolled back. -/
def rollbackList (cfg : Cfg) : List TxB → FWorld → Res (Option Err) × FWorld
  | [], w => (.ok none, w)
  | t :: rest, w =>
    match rollbackOne cfg t w with
    | (.ok _, w1) => rollbackList cfg rest w1
    | (.err e, w1) =>
      if e.isBase then
        if cfg.rbAll then (.err e, (rollbackList cfg rest w1).2) else (.err e, w1)
      else
        match rollbackList cfg rest w1 with
        | (.ok _, w2) => (.ok (some e), w2)
        | (.err e', w2) => (.err e', w2)

/-- `Transaction.commit`: pop and commit backend by backend; `except BaseException:` (a failure of either kind)
`await self._rollback(backends)` — the remaining ones; what it returns is dropped — `raise` (the commit's exception);
an exception that leaves `_rollback` propagates instead -/
def commitLoop (cfg : Cfg) : List TxB → M Unit
  | [] => M.pure ()
  | t :: rest => fun w =>
    match commitOne cfg t w with
    | (.ok _, w1) => commitLoop cfg rest w1
    | (.err e, w1) =>
      match rollbackList cfg rest w1 with
      | (.ok _, w2) => (.err e, w2)
      | (.err e', w2) => (.err e', w2)

/-- `Transaction.rollback`: `error = await self._rollback(all); if error: raise error` -/
def txRollback (cfg : Cfg) (ts : List TxB) : M Unit := fun w =>
  match rollbackList cfg ts w with
  | (.ok (some e), w1) => (.err e, w1)
  | (.ok none, w1) => (.ok (), w1)
  | (.err e, w1) => (.err e, w1)

/-! ### the block -/

/-- what an explicit `tx.commit()` / `tx.rollback()` in the middle of a body leaves of the transaction's wrappers: every
`TransactionBackend` object stays in `Transaction._backends` (it keeps serving the block) with an empty buffer
(`_clear_local_storage()`) and an empty `_locks` set (`_unlock_updates`: `locks = self._locks; self._locks = set()` comes
BEFORE the unlock commands, so it is empty whether they fail or not).  (A commit that fails half-way does not clear the
buffer of the failing backend — but it raises, the exception leaves the body, and the rollback of `__aexit__` never looks
at a buffer; what it looks at, `_locks`, is empty.  With the OLD `_rollback` loop, `rbAll = false`, a backend the loop never
reached would keep its `_locks`: explicit commit / rollback are modelled for the loop of /repo only.) -/
def resetBacks (ts : List TxB) : List TxB := ts.map fun t => { t with ov := [], del := [], locks := [] }

/-- `await tx.commit()` in the body (`tx` = what `async with … as tx` gave: the running `Transaction`): `Transaction.commit`
over all wrapped backends — the buffered writes are applied, the locks released —, then the block goes on inside the same
transaction with empty buffers and no locks -/
def txCommitNow (cfg : Cfg) : M Unit := fun w =>
  match w.ctx with
  | none => (.ok (), w)
  | some tx =>
    match commitLoop cfg tx.backs w with
    | (r, w1) => (r, { w1 with ctx := w1.ctx.map fun t => { t with backs := resetBacks t.backs } })

/-- `await tx.rollback()` in the body: `Transaction.rollback` over all wrapped backends — buffers dropped, locks released —,
then the block goes on inside the same transaction -/
def txRollbackNow (cfg : Cfg) : M Unit := fun w =>
  match w.ctx with
  | none => (.ok (), w)
  | some tx =>
    match txRollback cfg tx.backs w with
    | (r, w1) => (r, { w1 with ctx := w1.ctx.map fun t => { t with backs := resetBacks t.backs } })

/-- the fields of shared context object `i` -/
def objOf (w : FWorld) (i : Nat) : CtxObj := (alLookup w.objs i).getD ⟨false, 0⟩

def putObj (w : FWorld) (i : Nat) (v : CtxObj) : FWorld := { w with objs := alPut w.objs i v }

/-- `close()` of block object `o` (`none`: an object used for this one block only — `async with cache.transaction(…):`
or the decorator form, whose `__call__` builds a new object per call): `self._tx = None;
_transaction.reset(self._return_token)` (outermost block: back to None) -/
def closeOn (o : Option Nat) : M Unit := modW fun w =>
  match o with
  | none => { w with ctx := none }
  | some i => { putObj w i { objOf w i with tx := false } with ctx := none }

/-- the tail of `__aexit__` of the block that started the transaction:
`try: commit() if not exc_tb else rollback()  finally: close()` -/
def aexitOn (cfg : Cfg) (o : Option Nat) (exc : Bool) : M Unit := fun w =>
  match w.ctx with
  | none => (.ok (), w)                         -- (`self._tx` of an object is only ever set together with the context variable)
  | some tx => tryFinally (if exc then txRollback cfg tx.backs else commitLoop cfg tx.backs) (closeOn o) w

/-- `close()` / the exit of a one-block object -/
def close : M Unit := closeOn none
def aexit (cfg : Cfg) (exc : Bool) : M Unit := aexitOn cfg none exc

/-- `__aenter__`: `if self.current_tx: self._inner += 1; return self.current_tx` — the block JOINS the running transaction
(result `true`) — else `start()`: `self._tx = tx = Transaction(…); self._return_token = _transaction.set(tx)` -/
def enterOn (o : Option Nat) (w : FWorld) : Bool × FWorld :=
  match w.ctx with
  | some _ =>
    (true, match o with
      | none => w
      | some i => putObj w i { objOf w i with inner := (objOf w i).inner + 1 })
  | none =>
    (false, match o with
      | none => { w with ctx := some ⟨[]⟩ }
      | some i => { putObj w i { objOf w i with tx := true } with ctx := some ⟨[]⟩ })

/-- `__aexit__`:
```
if self._inner: self._inner -= 1; return      # an inner block (of this or of another object's transaction)
if not self._tx: return
try: commit() if not exc_tb else rollback()
finally: close()
```
(`joined` stands for the `_inner` of a one-block object: 1 iff it joined) -/
def exitOn (cfg : Cfg) (o : Option Nat) (joined exc : Bool) : M Unit := fun w =>
  match o with
  | none => if joined then (.ok (), w) else aexitOn cfg none exc w
  | some i =>
    if (objOf w i).inner ≠ 0 then (.ok (), putObj w i { objOf w i with inner := (objOf w i).inner - 1 })
    else if (objOf w i).tx then aexitOn cfg (some i) exc w
    else (.ok (), w)

/-- `async with <object o>: inner` — `__aenter__`, the body, `__aexit__` with `exc_tb` set iff the body raised; an exception
of `__aexit__` replaces the body's -/
def blockOn (cfg : Cfg) (o : Option Nat) (inner : M Unit) : M Unit := fun w =>
  match inner (enterOn o w).2 with
  | (.ok _, w2) => exitOn cfg o (enterOn o w).1 false w2
  | (.err e, w2) =>
    match exitOn cfg o (enterOn o w).1 true w2 with
    | (.ok _, w3) => (.err e, w3)            -- `__aexit__` returned None: the body's exception propagates
    | (.err e', w3) => (.err e', w3)         -- commit / rollback raised: that exception replaces it

/-- what the body of the block may do (through the `Cache` facade) -/
inductive BodyCmd where
  | set (b k : Nat) (v : Int) (ttl : Option Nat)
  | incr (b k : Nat) (ttl : Option Nat)
  | get (b k : Nat)
  | delete (b k : Nat)
  | adv (dt : Nat)          -- time passes
  | raise                   -- the body raises its own exception
  | setMany (b : Nat) (kvs : List (Nat × Int)) (ttl : Option Nat)
  | delMany (b : Nat) (ks : List Nat)
  | expire (b k : Nat) (ttl : Nat)
  | setIf (b k : Nat) (v : Int) (ttl : Option Nat) (exist : Bool)
  | block (o : Option Nat) (body : List BodyCmd)   -- a nested `async with`: on shared object `o` (possibly the very object
                                                   --  of an enclosing block) or on an object of its own (`none`; also a call
                                                   --  of a function decorated with `@cache.transaction(…)`)
  | commit                  -- `await tx.commit()` in the middle of the body
  | rollback                -- `await tx.rollback()` in the middle of the body
  deriving Repr

def emit (r : Reply) : M Unit := modW fun w => { w with outs := w.outs ++ [r] }

mutual
def bodyStep (cfg : Cfg) : BodyCmd → M Unit
  | .set b k v ttl => do let r ← txSet cfg b k v ttl; emit r
  | .incr b k ttl => do let r ← txIncr cfg b k ttl; emit r
  | .get b k => do let r ← txGet cfg b k; emit r
  | .delete b k => do let r ← txDelete cfg b k; emit r
  | .adv dt => modW fun w => { w with now := w.now + dt }
  | .raise => throw .body
  | .setMany b kvs ttl => do let r ← txSetMany cfg b kvs ttl; emit r
  | .delMany b ks => do let r ← txDelMany cfg b ks; emit r
  | .expire b k ttl => do let r ← txExpire cfg b k ttl; emit r
  | .setIf b k v ttl ex => do let r ← txSetIf cfg b k v ttl ex; emit r
  | .block o body => blockOn cfg o (runBody cfg body)
  | .commit => txCommitNow cfg
  | .rollback => txRollbackNow cfg

def runBody (cfg : Cfg) : List BodyCmd → M Unit
  | [] => M.pure ()
  | c :: rest => M.bind (bodyStep cfg c) fun _ => runBody cfg rest
end

mutual
/-- does the command (at any depth) call `tx.commit()`? -/
def BodyCmd.hasCommit : BodyCmd → Bool
  | .commit => true
  | .block _ body => hasCommitL body
  | _ => false
def hasCommitL : List BodyCmd → Bool
  | [] => false
  | c :: rest => c.hasCommit || hasCommitL rest
end

mutual
/-- does the command (at any depth) call `tx.commit()` or `tx.rollback()`? -/
def BodyCmd.hasExplicit : BodyCmd → Bool
  | .commit => true
  | .rollback => true
  | .block _ body => hasExplicitL body
  | _ => false
def hasExplicitL : List BodyCmd → Bool
  | [] => false
  | c :: rest => c.hasExplicit || hasExplicitL rest
end

/-- the world the body of the outermost block starts in: `__aenter__` has put a fresh `Transaction` into the context variable -/
def enteredOn (o : Option Nat) (w : FWorld) : FWorld := (enterOn o w).2
def entered (w : FWorld) : FWorld := enteredOn none w

/-- `async with T: body` for block object `o`.  Entered inside another block it joins it: nothing happens on exit. -/
def runBlockOn (cfg : Cfg) (o : Option Nat) (body : List BodyCmd) : M Unit := blockOn cfg o (runBody cfg body)

/-- `async with cache.transaction(mode, timeout): body` / `@cache.transaction(mode, timeout)`: an object of its own -/
def runBlock (cfg : Cfg) (body : List BodyCmd) : M Unit := runBlockOn cfg none body

/-- a facade `cache.set(key, v)` issued by the task: routed to the overlay iff the task is inside a transaction -/
def facadeSet (cfg : Cfg) (b k : Nat) (v : Int) : M Reply := fun w =>
  match w.ctx with
  | none => backendCmd cfg b (.set k v) w
  | some _ => txSet cfg b k v none w

/-- live read of the real store (observer) -/
def dataView (w : FWorld) (b k : Nat) : Option Int := (memGet w.now w.data (b, k)).2

/-- the whole live entry of the real store: value AND deadline (observer: `get` + when the key lapses) -/
def entryView (w : FWorld) (b k : Nat) : Option DEntry :=
  match alLookup w.data (b, k) with
  | some e => if liveAt e.dl w.now then some e else none
  | none => none

def FWorld.init : FWorld := ⟨0, 0, [], [], [], [], none, []⟩

end CashewsVerif.TxFault
