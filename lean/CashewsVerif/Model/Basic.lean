/-
Shared vocabulary of the cashews models.  Mathlib-free (the drivers link against this).

Time is `Nat` ticks, 1 tick = 1/8 s (the harness only uses dyadic times, so every float
operation of the Python code is exact and equals this integer arithmetic).
-/
namespace CashewsVerif

/- `Key` and `Time` are *macros* for `Nat`, not abbreviations: `omega` does not look through
an `abbrev` in the type of a variable. -/
macro "Key" : term => `(Nat)
macro "Time" : term => `(Nat)

/-- Values stored in a cache, as far as the commands can tell them apart. -/
inductive Val where
  | int (i : Int)      -- a Python int (counters)
  | tok (n : Nat)      -- an opaque payload: a string that is not a number
  | nil                -- Python `None` stored as a value
  | keys (ks : List Nat)   -- a Python set of keys (tag member sets), kept sorted by the models that use it
  | nums (ns : List Nat)   -- a Python list of numbers (sliding-window log)
  deriving DecidableEq, Repr, Inhabited

/-- Python's `int(value)` on a stored value: `None` raises TypeError, a token ValueError. -/
def Val.toInt? : Val → Option Int
  | .int i => some i
  | _ => none

structure Entry where
  val : Val
  dl  : Option Time          -- absolute deadline; `none` = no TTL
  deriving DecidableEq, Repr

/-- an entry is live strictly before its deadline -/
def Entry.live (e : Entry) (now : Time) : Bool :=
  match e.dl with
  | none => true
  | some d => decide (now < d)

/-- `time.time() + expire if expire else None`: a TTL of `None` or `0` means "no deadline". -/
def deadlineOf (now : Time) (ttl : Option Nat) : Option Time :=
  match ttl with
  | none => none
  | some 0 => none
  | some (t + 1) => some (now + (t + 1))

/-- Python's `round(x / 8)` (half to even) for a non-negative number of ticks. -/
def roundTicks (d : Nat) : Int :=
  let q := d / 8
  let r := d % 8
  if r < 4 then q else if r > 4 then q + 1 else if q % 2 = 0 then q else q + 1

inductive Cond where
  | always | nx | xx
  deriving DecidableEq, Repr

/-- The regular commands of C01 plus passage of time and one sweep of the purge task. -/
inductive Op where
  | set (k : Key) (v : Val) (ttl : Option Nat) (c : Cond)
  | setMany (kvs : List (Key × Val)) (ttl : Option Nat)
  | get (k : Key)
  | getMany (ks : List Key)
  | exists_ (k : Key)
  | incr (k : Key) (by_ : Int) (ttl : Option Nat)
  | delete (k : Key)
  | deleteMany (ks : List Key)
  | expire (k : Key) (ttl : Option Nat)
  | getExpire (k : Key)
  | clear
  | adv (dt : Nat)
  | purge
  deriving Repr

inductive Out where
  | unit
  | bool (b : Bool)
  | val (v : Option Val)             -- `none` = the caller's default came back
  | vals (vs : List (Option Val))
  | int (i : Int)
  | err                              -- the command raised (incr on a non-number)
  deriving DecidableEq, Repr

end CashewsVerif
