/-
Second layer of the C12 model: how the tag registry derives tags from a key
(`cashews/formatter.py: template_to_re_pattern`, `cashews/wrapper/tags.py: TagsRegistry.get_key_tags`).

A template such as `"u:{user}:p:{page}"` is a list of literal pieces and fields.  Writers render it with
the call's argument values (`template.format(**values)`).  `register_tag(tag_tpl, key_tpl)` compiles
`key_tpl` into the regular expression in which every field is the optional group `(?P<name>.+)?` and the
literal pieces are escaped; `get_key_tags(key)` does `fullmatch`, takes the groups ("" for a group that
did not take part) and renders `tag_tpl` with them.

Python's backtracking `re` returns the *first* match in its search order; whatever it returns is *a*
match.  `Matches` below is that relation; the layer's theorem says when the match is unique, so that
the groups are exactly the writer's values whatever the search order.
-/
namespace CashewsVerif.TagTpl

inductive Seg where
  | lit (cs : List Char)
  | fld (name : Nat)
  deriving DecidableEq, Repr

abbrev Tpl := List Seg

/-- `template.format(**values)` -/
def render (val : Nat → List Char) : Tpl → List Char
  | [] => []
  | .lit cs :: r => cs ++ render val r
  | .fld f :: r => val f ++ render val r

/-- `key` matches the regular expression of the template with the groups bound as listed
(`(?P<f>.+)?`: any string, the empty one standing for "group did not take part") -/
inductive Matches : Tpl → List Char → List (Nat × List Char) → Prop where
  | nil : Matches [] [] []
  | lit {r key asg} (cs : List Char) : Matches r key asg → Matches (.lit cs :: r) (cs ++ key) asg
  | fld {r key asg} (f : Nat) (v : List Char) : Matches r key asg → Matches (.fld f :: r) (v ++ key) ((f, v) :: asg)

def fields : Tpl → List Nat
  | [] => []
  | .lit _ :: r => fields r
  | .fld f :: r => f :: fields r

/-- the binding the writer had in mind -/
def intended (val : Nat → List Char) (tpl : Tpl) : List (Nat × List Char) := (fields tpl).map fun f => (f, val f)

/-- `match.groupdict()` as a function (first binding of a name; "" if absent) -/
def lookup (asg : List (Nat × List Char)) (f : Nat) : List Char :=
  match asg.find? (·.1 = f) with
  | some p => p.2
  | none => []

/-- every literal character is a separator, every literal that follows a field is non-empty, no two
fields are adjacent -/
def WellSeparated (isSep : Char → Bool) : Tpl → Bool
  | [] => true
  | .lit cs :: r => cs.all isSep && WellSeparated isSep r
  | .fld _ :: [] => true
  | .fld _ :: .lit [] :: _ => false
  | .fld _ :: .lit (c :: cs) :: r => WellSeparated isSep (.lit (c :: cs) :: r)
  | .fld _ :: .fld _ :: _ => false

/-- no value of a field of the template contains a separator -/
def SepFreeVals (isSep : Char → Bool) (val : Nat → List Char) (tpl : Tpl) : Prop :=
  ∀ f ∈ fields tpl, ∀ c ∈ val f, isSep c = false

end CashewsVerif.TagTpl
