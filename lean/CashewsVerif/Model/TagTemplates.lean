/-
Second layer of the C12 model: how the tag registry derives tags from a key
(`cashews/formatter.py: template_to_re_pattern`, `cashews/wrapper/tags.py: TagsRegistry.get_key_tags`).

A template such as `"u:{user}:p:{page}"` is a list of literal pieces and fields.  Writers render it with
the call's argument values (`template.format(**values)`).  `register_tag(tag_tpl, key_tpl)` compiles
`key_tpl` into the regular expression in which every field is the optional group `(?P<name>.+)?` and the
literal pieces are escaped; `get_key_tags(key)` does `fullmatch`, takes the groups ("" for a group that
did not take part) and renders `tag_tpl` with them.

Python's backtracking `re` returns the *first* match in its search order; whatever it returns is *a*
match.  `Matches` below is that relation; the layer's theorem says when the match is unique, so that
the groups are exactly the writer's values whatever the search order.
-/
namespace CashewsVerif.TagTpl

inductive Seg where
  | lit (cs : List Char)
  | fld (name : Nat)
  deriving DecidableEq, Repr

abbrev Tpl := List Seg

/-- `template.format(**values)` -/
def render (val : Nat → List Char) : Tpl → List Char
  | [] => []
  | .lit cs :: r => cs ++ render val r
  | .fld f :: r => val f ++ render val r

/-- `key` matches the regular expression of the template with the groups bound as listed
(`(?P<f>.+)?`: any string, the empty one standing for "group did not take part") -/
inductive Matches : Tpl → List Char → List (Nat × List Char) → Prop where
  | nil : Matches [] [] []
  | lit {r key asg} (cs : List Char) : Matches r key asg → Matches (.lit cs :: r) (cs ++ key) asg
  | fld {r key asg} (f : Nat) (v : List Char) : Matches r key asg → Matches (.fld f :: r) (v ++ key) ((f, v) :: asg)

def fields : Tpl → List Nat
  | [] => []
  | .lit _ :: r => fields r
  | .fld f :: r => f :: fields r

/-- the binding the writer had in mind -/
def intended (val : Nat → List Char) (tpl : Tpl) : List (Nat × List Char) := (fields tpl).map fun f => (f, val f)

/-- `match.groupdict()` as a function (first binding of a name; "" if absent) -/
def lookup (asg : List (Nat × List Char)) (f : Nat) : List Char :=
  match asg.find? (·.1 = f) with
  | some p => p.2
  | none => []

/-- every literal character is a separator, every literal that follows a field is non-empty, no two
fields are adjacent -/
def WellSeparated (isSep : Char → Bool) : Tpl → Bool
  | [] => true
  | .lit cs :: r => cs.all isSep && WellSeparated isSep r
  | .fld _ :: [] => true
  | .fld _ :: .lit [] :: _ => false
  | .fld _ :: .lit (c :: cs) :: r => WellSeparated isSep (.lit (c :: cs) :: r)
  | .fld _ :: .fld _ :: _ => false

/-- no value of a field of the template contains a separator -/
def SepFreeVals (isSep : Char → Bool) (val : Nat → List Char) (tpl : Tpl) : Prop :=
  ∀ f ∈ fields tpl, ∀ c ∈ val f, isSep c = false

/-! ### a decorated call at the template level (`cashews/decorators/cache/simple.py: _wrap`)

```
_tags = [get_cache_key(func, tag, args, kwargs) for tag in tags]      # rendered BEFORE the call
_cache_key = get_cache_key(func, _key_template, args, kwargs)
cached = await backend.get(_cache_key, default=_empty) ...            # (a miss)
result = await func(*args, **kwargs)                                  # may change mutable arguments in place
await backend.set(_cache_key, result, expire=_ttl, tags=_tags)
```
`val f` is the rendering of argument `f` when the call is made; the decorated function may mutate its
(list / dict / object) arguments in place: `body val f` is the rendering of argument `f` when it returns. -/

/-- what a miss stores: the key, and the tags the entry is filed under -/
structure Filed where
  key : List Char
  tags : List (List Char)
  deriving DecidableEq, Repr

/-- the decorator: key and tags are rendered from the arguments as the caller passed them; what the body
does to them afterwards cannot matter -/
def decorMiss (keyTpl : Tpl) (tagTpls : List Tpl) (val : Nat → List Char)
    (body : (Nat → List Char) → (Nat → List Char)) : Filed :=
  let tags := tagTpls.map (render val)
  let key := render val keyTpl
  let _afterCall := body val
  { key := key, tags := tags }

/-- the variant that renders the tags only once they are needed, i.e. after the function has run - kept only to
show, in `Props/C12.lean`, that it breaks the property -/
def decorMissLate (keyTpl : Tpl) (tagTpls : List Tpl) (val : Nat → List Char)
    (body : (Nat → List Char) → (Nat → List Char)) : Filed :=
  let key := render val keyTpl
  let afterCall := body val
  { key := key, tags := tagTpls.map (render afterCall) }

/-! ### a re-write by a decorator (`early`, `soft`, `hit`: `cashews/decorators/cache/{early,soft,hit}.py`)

The strategies that write a key again while it is alive render key and tags like the simple decorator, at the top of
`_wrap`, from the arguments of the call that triggers the re-write, and hand exactly these to the function that stores
the result (`early`: `args_to_call = [backend, func, args, kwargs, _cache_key, _ttl, _early_ttl, condition, _tags]`, passed
to `_get_result_for_early(..., unlock=True)`; `hit`: `call_args = (func, args, kwargs, backend, _cache_key, ttl, condition,
_tags)` passed to `_get_and_save`; `soft`: `_tags`, `_cache_key` are locals of `_wrap`). -/

/-- the re-write of a live entry: filed under the key and the tags of the call that triggered it -/
def decorRefresh (keyTpl : Tpl) (tagTpls : List Tpl) (val : Nat → List Char)
    (body : (Nat → List Char) → (Nat → List Char)) : Filed :=
  let tags := tagTpls.map (render val)
  let key := render val keyTpl
  let _afterCall := body val
  { key := key, tags := tags }

/-- the variant that stores the recalculated result without tags, because "the key is already a member of its tag
sets" - kept only to show, in `Props/C12.lean`, that it breaks the property -/
def decorRefreshUntagged (keyTpl : Tpl) (_tagTpls : List Tpl) (val : Nat → List Char)
    (body : (Nat → List Char) → (Nat → List Char)) : Filed :=
  let key := render val keyTpl
  let _afterCall := body val
  { key := key, tags := [] }

end CashewsVerif.TagTpl
