import CashewsVerif.Model.Ttl
import CashewsVerif.Spec.Ttl
import CashewsVerif.Model.Mem
import CashewsVerif.Model.Decor.Breaker
/-
The conversion glue between what an application writes and what the models of C01 / C15 work with.

`cashews/wrapper/commands.py` hands every `expire=` / `timeout=` of `set`, `set_many`, `expire` through
`ttl_to_seconds` before the backend sees it (`incr(expire: float | None)` is not TTL-typed: it goes through as it is),
and `cashews/decorators/{rate,rate_slide,circuit_breaker}.py` do the same with `period` / `ttl` when the decorator
is built.  The models (`Model/Mem.lean`, `Model/Decor/*`) take ticks.  This file says, without looking at the parser,
what each spelling *denotes* (`Denotes`, over `Spec/Ttl.lean`'s `render` / `total` for the strings) and defines the
facade-level commands / decorator arguments with their lowering through `Model/Ttl.lean`'s `Plain.ticks`
(= `ttl_to_seconds`).  That lowering agrees with the denotation is `Lemmas/TtlFacade.lean` (over C02's parser lemmas).
Mathlib-free.
-/
namespace CashewsVerif.Ttl

/-- a `datetime.timedelta` as Python normalises it: `days`, `seconds` (0..86399), and the sub-second part in eighths
(`microseconds = 125000 * eighths`).  `seconds` alone is *not* the length of the delta. -/
structure TDelta where
  days : Nat
  seconds : Nat
  eighths : Nat
  deriving DecidableEq, Repr

/-- `timedelta.total_seconds()` in ticks: `(days * 86400 + seconds) * 10**6 + microseconds) / 10**6` -/
def TDelta.ticks (d : TDelta) : Nat := 8 * (86400 * d.days + d.seconds) + d.eighths

/-- **What a spelling means**: `Denotes p t` = the TTL written as `p` is a duration of `t` ticks (1 tick = 1/8 s).
Written from the documentation of the TTL type, not from `ttl_to_seconds`:
an int is seconds; a float is seconds; a timedelta is its total length, days included; a string of
`<number><unit>` segments is the sum of its segments (d/h/m/s = 86400/3600/60/1 s, `Spec/Ttl.lean`); a string of
digits is seconds. -/
inductive Denotes : Plain → Nat → Prop
  | int (n : Nat) : Denotes (.int n) (8 * n)
  | float (t : Nat) : Denotes (.float t) t
  | delta (d : TDelta) : Denotes (.delta d.ticks) d.ticks
  | segments (segs : List (Nat × U)) : Denotes (.str (render segs)) (8 * total segs)
  | digits (n : Nat) : Denotes (.str (digits n)) (8 * n)

/-- an optional TTL: not given ↦ not given -/
inductive DenotesOpt : Option Plain → Option Nat → Prop
  | absent : DenotesOpt none none
  | given {p t} : Denotes p t → DenotesOpt (some p) (some t)

/-- `ttl_to_seconds(expire)` for an optional TTL (`if ttl is None: return None`); outer `none` = ValueError -/
def lowerOpt : Option Plain → Option (Option Nat)
  | none => some none
  | some p => p.ticks.map some

end CashewsVerif.Ttl

namespace CashewsVerif
open Ttl

/-- a command as the application hands it to the `Cache` facade: TTLs as spelled -/
inductive FOp where
  | set (k : Key) (v : Val) (expire : Option Plain) (c : Cond)   -- `cache.set(key, value, expire=…, exist=…)`
  | setMany (kvs : List (Key × Val)) (expire : Option Plain)     -- `cache.set_many(pairs, expire=…)`
  | expire (k : Key) (timeout : Plain)                            -- `cache.expire(key, timeout)`
  | other (op : Op)                                               -- every command without a TTL-typed argument
                                                                  -- (`incr`'s `expire: float | None` included)

/-- `CommandWrapper.set / set_many / expire`: `expire=ttl_to_seconds(expire)`, then the backend command.
`none` = `ttl_to_seconds` raised (ValueError) before the backend was reached. -/
def FOp.lower : FOp → Option Op
  | .set k v e c => (lowerOpt e).map fun t => .set k v t c
  | .setMany kvs e => (lowerOpt e).map fun t => .setMany kvs t
  | .expire k e => e.ticks.map fun t => .expire k (some t)
  | .other op => some op

/-- `fop` is a way of writing the tick-level command `op` -/
inductive Spells : FOp → Op → Prop
  | set {e t} (k : Key) (v : Val) (c : Cond) : DenotesOpt e t → Spells (.set k v e c) (.set k v t c)
  | setMany {e t} (kvs : List (Key × Val)) : DenotesOpt e t → Spells (.setMany kvs e) (.setMany kvs t)
  | expire {e t} (k : Key) : Denotes e t → Spells (.expire k e) (.expire k (some t))
  | other (op : Op) : Spells (.other op) op

/-- `fops` is, command by command, a way of writing the tick-level history `ops` -/
inductive SpellsAll : List FOp → List Op → Prop
  | nil : SpellsAll [] []
  | cons {fop op fops ops} : Spells fop op → SpellsAll fops ops → SpellsAll (fop :: fops) (op :: ops)

/-- a whole history through the facade: lower every command, run the backend model; `none` = some TTL was refused -/
def facadeRun (cap : Nat) (fops : List FOp) : Option (List Out) :=
  (fops.mapM FOp.lower).map fun ops => ((Mem.init cap).run ops).2

namespace Decor

/-- `rate_limit(limit, period, ttl=None)` as written -/
structure Rate.Spelled where
  limit : Nat
  period : Plain
  ttl : Option Plain

/-- `period = ttl_to_seconds(period)`; `ttl = ttl_to_seconds(ttl) or period` (the `or` is `Params.effTtl`) -/
def Rate.Spelled.params (s : Rate.Spelled) : Option Rate.Params :=
  match s.period.ticks, lowerOpt s.ttl with
  | some p, some t => some ⟨s.limit, p, t⟩
  | _, _ => none

/-- `slice_rate_limit(limit, period)` as written -/
structure SlideRate.Spelled where
  limit : Nat
  period : Plain

def SlideRate.Spelled.params (s : SlideRate.Spelled) : Option SlideRate.Params :=
  s.period.ticks.map fun p => ⟨s.limit, p⟩

/-- `circuit_breaker(errors_rate, period, ttl, min_calls)` as written (`half_open_ttl=None`) -/
structure Breaker.Spelled where
  rate : Nat
  period : Plain
  ttl : Plain
  minCalls : Nat

/-- `ttl = ttl_to_seconds(ttl)`; `period = ttl_to_seconds(period)` -/
def Breaker.Spelled.params (s : Breaker.Spelled) : Option Breaker.Params :=
  match s.period.ticks, s.ttl.ticks with
  | some p, some t => some { rate := s.rate, period := p, ttl := t, minCalls := s.minCalls }
  | _, _ => none

/-- `rate_limit(limit, period, ttl)` where each duration may also be a callable of the call's arguments
(`Ttl.Spelling`: plain, or `callable f` with `f args result` what the callable returns for these arguments) -/
structure Rate.SpelledC where
  limit : Nat
  period : Ttl.Spelling
  ttl : Option Ttl.Spelling

/-- what one call made with arguments `args` works with:
`_ttl = ttl_to_seconds(ttl, *args, **kwargs, with_callable=True)`, `_period = ttl_to_seconds(period, ...)` -
each of the two resolved on its own, whether the other one is a callable or not -/
def Rate.SpelledC.paramsAt (s : Rate.SpelledC) (args : Nat) : Option Rate.Params :=
  match s.period.ticks args 0, s.ttl with
  | some p, none => some ⟨s.limit, p, none⟩
  | some p, some t => (t.ticks args 0).map fun tt => ⟨s.limit, p, some tt⟩
  | none, _ => none

/-- `slice_rate_limit(limit, period)` with a possibly callable period -/
structure SlideRate.SpelledC where
  limit : Nat
  period : Ttl.Spelling

def SlideRate.SpelledC.paramsAt (s : SlideRate.SpelledC) (args : Nat) : Option SlideRate.Params :=
  (s.period.ticks args 0).map fun p => ⟨s.limit, p⟩

end Decor

namespace Ttl
/-- a possibly callable spelling denotes `t` ticks for a call with arguments `args` -/
inductive DenotesAt (args : Nat) : Spelling → Nat → Prop
  | plain {p t} : Denotes p t → DenotesAt args (.plain p) t
  | callable {f t} : Denotes (f args 0) t → DenotesAt args (.callable f) t
end Ttl
end CashewsVerif
