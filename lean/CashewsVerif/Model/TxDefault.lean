import CashewsVerif.Model.Tx
/-
Reads with a CALLER-SUPPLIED default (`cache.get(key, default=d)`, `cache.get_many(*keys, default=d)`),
directly on the store and inside a transaction.  Mathlib-free (the driver links against this file).

The models answer a read with an `Option Val` per key: `none` = "the key is not there, the caller's
`default` came back" (`Out.val`, `Out.vals` in Model/Basic.lean).  That is how the code is written:

  cashews/backends/memory.py        `_get`:  `if key not in self.store: return default` /
                                             `if expire_at and expire_at <= time.time(): ... return default`
  cashews/backends/transaction.py   `get`:   `if self._key_is_delete(key): return default`
                                             `value = await self._local_cache.get(key, default=_empty)`   -- PRIVATE sentinel
                                             `if value is not _empty: return value`
                                             `return await self._backend.get(key, default=default)`
                                    `get_many`: `values = {key: default for key in keys}`, the buffer is asked with
                                             `default=_empty`, the backend with `default=default`

i.e. the default is only ever *returned*, never compared with: which key is present is decided with private
sentinels.  So what a caller who passes `d` receives is the model's answer with every `none` replaced by `d`
(`withDefault d`), whatever `d` is — also when `d` is (identical to) a value stored under the key or
written earlier in the same transaction.

What is observable.  With default `d` the caller cannot tell "the key holds `d`" from "the key is missing":
both come back as `d`.  `withDefault d` is exactly that coarser observation; per key of a `get_many` the
answers are told apart by position only.  A read whose default differs from every value in play (the
harness's private sentinel object, shown as `-`) observes the full `Option`.
-/
namespace CashewsVerif

/-- one key's answer as the caller sees it: the stored value if there is one, else the caller's default -/
def withDefault1 (d : Val) (r : Option Val) : Option Val := some (r.getD d)

/-- the answer of a read as a caller passing `default=d` sees it; other commands take no default -/
def Out.withDefault (d : Val) : Out → Out
  | .val r => .val (withDefault1 d r)
  | .vals rs => .vals (rs.map (withDefault1 d))
  | o => o

/-- a block of commands, each read with a default of its own (`none`: the command takes no default, or the read
is observed in full) -/
def withDefaults : List (Option Val) → List Out → List Out
  | some d :: ds, o :: os => o.withDefault d :: withDefaults ds os
  | none :: ds, o :: os => o :: withDefaults ds os
  | [], os => os
  | _, [] => []

/-- the commands that take a `default` -/
def Op.takesDefault : Op → Bool
  | .get _ | .getMany _ => true
  | _ => false

end CashewsVerif
