import CashewsVerif.Model.Tx
/-
Model of `cashews/wrapper/transaction.py` for one task and one backend: the context variable
`_transaction`, `TransactionContextDecorator.__aenter__/__aexit__` (as repaired by d68a651 / 8cbaa79 /
a8fb7e1: every block object acts on the transaction *it* opened, `try … finally: close()`), nested
blocks joining the outermost one, and the explicit `tx.rollback()` / `tx.commit()` calls on the
`Transaction` object.  Mathlib-free.

`Transaction.wrap` creates the `TransactionBackend` lazily at the first command; since a fresh one has
an empty overlay and no locks, creating it at `start()` is the same thing.  After an explicit
`rollback()`/`commit()` the same `TransactionBackend` object (emptied, locks released) keeps serving
the block.
-/
namespace CashewsVerif

/-- what a task does: open a block, leave it (normally or with an exception propagating), run a cache
command, or call `rollback()` / `commit()` on the `Transaction` it got from `async with` -/
inductive Ev where
  | enter (m : TxMode)
  | exit (exc : Bool)
  | cmd (op : Op)
  | rollback
  | commit
  deriving Repr

structure Ctx where
  st      : TxSt           -- `st.b` is the backend; the rest is meaningful only while `inTx`
  inTx    : Bool           -- `_transaction.get() is not None`
  frames  : List Bool      -- open `async with` blocks, innermost first; `true` = `_inner` (joined an outer transaction)
  nextId  : Nat            -- source of `uuid4()` lock ids

namespace Ctx

def init (b : Mem) (timeout : Nat) : Ctx :=
  { st := TxSt.begin_ b .fast 0 timeout, inTx := false, frames := [], nextId := 1 }

def step (c : Ctx) : Ev → Ctx × Out
  | .enter m =>
    if c.inTx then
      ({ c with frames := true :: c.frames }, .unit)      -- `if self.current_tx: self._inner = True; return self.current_tx`
    else                                                  -- `return self.start()`
      ({ c with st := TxSt.begin_ c.st.b m c.nextId c.st.timeout, inTx := true,
                frames := false :: c.frames, nextId := c.nextId + 1 }, .unit)
  | .exit exc =>
    match c.frames with
    | [] => (c, .err)                                     -- no open block: not a program
    | true :: fr => ({ c with frames := fr }, .unit)      -- `if not self._tx or self._inner: self._inner = False; return`
    | false :: fr =>                                      -- `if not exc_tb: commit() else: rollback()` … `finally: close()`
      ({ c with st := if exc then c.st.rollback else c.st.commit, inTx := false, frames := fr }, .unit)
  | .cmd op =>
    if c.inTx then                                        -- `_get_backend`: `if tx: return tx.wrap(backend)`
      let (st', o) := c.st.step op
      ({ c with st := st' }, o)
    else
      let (b', o) := c.st.b.step op
      ({ c with st := { c.st with b := b' } }, o)
  | .rollback =>
    if c.inTx then ({ c with st := c.st.rollback }, .unit) else (c, .err)
  | .commit =>
    if c.inTx then ({ c with st := c.st.commit }, .unit) else (c, .err)

def run (c : Ctx) : List Ev → Ctx × List Out
  | [] => (c, [])
  | e :: es =>
    let (c', o) := c.step e
    let (c'', os) := run c' es
    (c'', o :: os)

end Ctx
end CashewsVerif
