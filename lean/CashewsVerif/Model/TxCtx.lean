import CashewsVerif.Model.Tx
/-
Model of `cashews/wrapper/transaction.py` for one task and one backend: the context variable
`_transaction`, `TransactionContextDecorator.__aenter__/__aexit__` (as repaired by d68a651 / 8cbaa79 /
a8fb7e1: every block object acts on the transaction *it* opened, `try … finally: close()`), nested
blocks joining the outermost one, and the explicit `tx.rollback()` / `tx.commit()` calls on the
`Transaction` object.  Mathlib-free.

A block is opened on a *context object* (`TransactionContextDecorator`), which has state of its own:
`_tx` (the transaction this object started, if it is still running) and `_inner` (as repaired by 02b4f5f a
counter: how many open blocks of this object joined a transaction that was already running).  Two ways of
using such an object are modelled:

* `Ev.enter m` — `async with cache.transaction(m):` or the decorator form `@cache.transaction(m)` (whose
  `__call__` builds a new object per call): an object nobody else holds, entered exactly once.  Its two
  fields live in the frame (`Frame.fresh inner`: `_inner` is 1 or 0; `_tx` is set iff `inner = false`).
* `Ev.enterObj o m` — `async with T[o]:` for a *shared* object `T[o] = cache.transaction(m)` that the
  program may enter again, nested in itself or sequentially.  Its fields live in `Ctx.objs o`.

`Transaction.wrap` creates the `TransactionBackend` lazily at the first command; since a fresh one has
an empty overlay and no locks, creating it at `start()` is the same thing.  After an explicit
`rollback()`/`commit()` the same `TransactionBackend` object (emptied, locks released) keeps serving
the block.
-/
namespace CashewsVerif

/-- How control leaves an `async with` block, i.e. what `__aexit__(exc_type, exc_value, exc_tb)` is called with.
These are ALL the kinds there are: Python passes `(None, None, None)` when the body ran to its end and the
propagating exception (with its traceback) otherwise, and every exception is a `BaseException`:
* `ok`        — the body returned (or fell off its end);
* `error`     — an `Exception` subclass propagates (`ValueError`, `LockedError`, …);
* `base`      — a `BaseException` that is *not* an `Exception` propagates (`KeyboardInterrupt`, `SystemExit`,
                `GeneratorExit`, a user-defined `BaseException` subclass);
* `cancelled` — `asyncio.CancelledError` (a `BaseException` since 3.8) raised at the suspension point at which the
                task was parked when `task.cancel()` / `wait_for` / `timeout()` / a failing `TaskGroup` sibling hit it;
* `falsy`     — an exception object (of whatever class) whose TRUTH VALUE is False propagates: its class defines `__bool__`
                or `__len__` (an error-collection exception raised while empty); `exc_value` is falsy, `exc_tb` is not.
`__aexit__` decides with `if not exc_tb: commit() else: rollback()` — never with the class or the truth value of
`exc_value`: every kind but `ok` rolls back. -/
inductive Leave where
  | ok | error | base | cancelled | falsy
  deriving DecidableEq, Repr

/-- an exception (of whatever kind) is propagating: `exc_tb is not None` -/
def Leave.raises : Leave → Bool
  | .ok => false
  | _ => true

/-- what a task does: open a block (on a context object of its own or on the shared object `o`), leave
it (normally or with an exception of some kind propagating), run a cache command, or call `rollback()` /
`commit()` on the `Transaction` it got from `async with` — anywhere in the body, any number of times, with
further commands after it -/
inductive Ev where
  | enter (m : TxMode)
  | enterObj (o : Nat) (m : TxMode)
  | exit (how : Leave)
  | cmd (op : Op)
  | rollback
  | commit
  deriving Repr

/-- the mutable fields of a `TransactionContextDecorator` -/
structure Obj where
  tx    : Bool             -- `self._tx is not None`: this object started the running transaction
  inner : Nat              -- `self._inner`: open blocks of this object that joined a running transaction
  deriving DecidableEq, Repr

/-- an open `async with` block: which context object it was opened on -/
inductive Frame where
  | fresh (inner : Bool)   -- an object used for this block only; `inner`: its `_inner` is 1 (else 0), `_tx` is set iff `inner = false`
  | shared (o : Nat)       -- the shared object `o`; its fields are `Ctx.objs o`
  deriving DecidableEq, Repr

structure Ctx where
  st      : TxSt           -- `st.b` is the backend; the rest is meaningful only while `inTx`
  inTx    : Bool           -- `_transaction.get() is not None`
  frames  : List Frame     -- open `async with` blocks, innermost first
  nextId  : Nat            -- source of `uuid4()` lock ids
  objs    : Nat → Obj      -- the shared context objects

namespace Ctx

def init (b : Mem) (timeout : Nat) : Ctx :=
  { st := TxSt.begin_ b .fast 0 timeout, inTx := false, frames := [], nextId := 1,
    objs := fun _ => ⟨false, 0⟩ }               -- `self._inner = 0; self._tx = None`

/-- assign the fields of the shared object `o` -/
def setObj (f : Nat → Obj) (o : Nat) (v : Obj) : Nat → Obj := fun x => if x = o then v else f x

def step (c : Ctx) : Ev → Ctx × Out
  | .enter m =>
    if c.inTx then
      ({ c with frames := .fresh true :: c.frames }, .unit)   -- `if self.current_tx: self._inner += 1; return self.current_tx`
    else                                                      -- `return self.start()`
      ({ c with st := TxSt.begin_ c.st.b m c.nextId c.st.timeout, inTx := true,
                frames := .fresh false :: c.frames, nextId := c.nextId + 1 }, .unit)
  | .enterObj o m =>
    if c.inTx then                                            -- `if self.current_tx: self._inner += 1; return self.current_tx`
      ({ c with frames := .shared o :: c.frames,
                objs := setObj c.objs o { c.objs o with inner := (c.objs o).inner + 1 } }, .unit)
    else                                                      -- `start()`: `self._tx = tx; self._return_token = _transaction.set(tx)`
      ({ c with st := TxSt.begin_ c.st.b m c.nextId c.st.timeout, inTx := true,
                frames := .shared o :: c.frames, nextId := c.nextId + 1,
                objs := setObj c.objs o { c.objs o with tx := true } }, .unit)
  | .exit how =>
    match c.frames with
    | [] => (c, .err)                                         -- no open block: not a program
    | .fresh true :: fr => ({ c with frames := fr }, .unit)   -- `if self._inner: self._inner -= 1; return`
    | .fresh false :: fr =>                                   -- `if not exc_tb: commit() else: rollback()` … `finally: close()`
      ({ c with st := if how.raises then c.st.rollback else c.st.commit, inTx := false, frames := fr }, .unit)
    | .shared o :: fr =>
      if (c.objs o).inner ≠ 0 then                            -- `if self._inner: self._inner -= 1; return`
        ({ c with frames := fr, objs := setObj c.objs o { c.objs o with inner := (c.objs o).inner - 1 } }, .unit)
      else if !(c.objs o).tx then ({ c with frames := fr }, .unit)   -- `if not self._tx: return`
      else                                                    -- commit / rollback, `close()`: `self._tx = None; _transaction.reset(token)`
        ({ c with st := if how.raises then c.st.rollback else c.st.commit, inTx := false, frames := fr,
                  objs := setObj c.objs o { c.objs o with tx := false } }, .unit)
  | .cmd op =>
    if c.inTx then                                            -- `_get_backend`: `if tx: return tx.wrap(backend)`
      let (st', o) := c.st.step op
      ({ c with st := st' }, o)
    else
      let (b', o) := c.st.b.step op
      ({ c with st := { c.st with b := b' } }, o)
  | .rollback =>
    if c.inTx then ({ c with st := c.st.rollback }, .unit)
    else if c.frames.isEmpty then (c, .err)                   -- no `Transaction` object at hand: not a program
    else (c, .unit)                                           -- a `Transaction` that has already ended: nothing buffered, no locks
  | .commit =>
    if c.inTx then ({ c with st := c.st.commit }, .unit)
    else if c.frames.isEmpty then (c, .err)
    else (c, .unit)

def run (c : Ctx) : List Ev → Ctx × List Out
  | [] => (c, [])
  | e :: es =>
    let (c', o) := c.step e
    let (c'', os) := run c' es
    (c'', o :: os)

end Ctx

/-! ### The context objects of the open blocks, syntactically -/

/-- The context objects of the open blocks: the outermost one (`owner`: `none` = no block open,
`some none` = an object of its own, `some (some o)` = shared object `o`) and the blocks nested in it,
innermost first. -/
structure Nest where
  owner : Option (Option Nat)
  inner : List (Option Nat)
  deriving DecidableEq, Repr

namespace Nest

def empty : Nest := ⟨none, []⟩

def push (n : Nest) (x : Option Nat) : Nest :=
  match n.owner with
  | none => ⟨some x, []⟩
  | some _ => { n with inner := x :: n.inner }

def pop (n : Nest) : Nest :=
  match n.inner with
  | _ :: r => { n with inner := r }
  | [] => ⟨none, []⟩

/-- number of open blocks -/
def depth (n : Nest) : Nat :=
  match n.owner with
  | none => 0
  | some _ => n.inner.length + 1

end Nest

end CashewsVerif
