import CashewsVerif.Model.Basic
/-
Model of the part of a Redis server that cashews talks to (C19, C20).  Mathlib-free.

This is *our reading of the Redis documentation* for the ~25 commands that
`cashews/backends/redis/backend.py` emits (no server can be reached from the sandbox, so this
model cannot be validated against a real one; see DESIGN section 6 item 6).

* Time is `Nat` milliseconds.
* The keyspace is a map `key ↦ (value, deadline)`; a key is visible strictly before its
  deadline (expired keys are invisible to every command, which is what Redis guarantees
  whatever mixture of lazy and active expiry it uses).  `dom` lists the keys ever written
  since the last FLUSHDB, in first-write order: it is what SCAN iterates (cursor = index) and
  what DBSIZE counts.
* Byte strings are either the canonical decimal text of an integer (`num i`: what redis-py
  sends for a Python int and what INCRBY stores) or any other byte string (`blob hex`).  A
  non-canonical numeral such as `007` is outside the model (never generated).
* The three Lua scripts of backend.py are modelled as the composition of the primitives their
  text performs and are addressed by the SHA1 of that text (`Script.sha`); the harness
  recomputes the SHAs from backend.py on every run.
-/
namespace CashewsVerif.Redis

inductive Bytes where
  | num (i : Int)        -- canonical decimal text of `i`
  | blob (hex : String)  -- any other byte string, written in hex
  deriving DecidableEq, Repr, Inhabited

def Bytes.toInt? : Bytes → Option Int
  | .num i => some i
  | .blob _ => none

inductive RVal where
  | str (b : Bytes)
  | set (ms : List String)   -- members (hex text) in insertion order
  | zset (ss : List Int)     -- scores in 1/1000 (member = the text of its score)
  | bits (v : Nat)           -- a string used as a bit array: bit offset `p` of the string is `v.testBit p`
  deriving DecidableEq, Repr

structure REntry where
  val : RVal
  dl  : Option Nat           -- absolute deadline in ms
  deriving DecidableEq, Repr

def REntry.live (e : REntry) (now : Nat) : Bool :=
  match e.dl with
  | none => true
  | some d => decide (now < d)

/-- keyspace -/
structure KS where
  now : Nat
  m   : String → Option REntry
  dom : List String

namespace KS

def init : KS := { now := 0, m := fun _ => none, dom := [] }

/-- what every command sees of a key -/
def find (s : KS) (k : String) : Option REntry := (s.m k).filter fun e => e.live s.now

def present (s : KS) (k : String) : Bool := (s.find k).isSome

def put (s : KS) (k : String) (e : REntry) : KS :=
  { s with m := fun k' => if k' = k then some e else s.m k',
           dom := if k ∈ s.dom then s.dom else s.dom ++ [k] }

def del (s : KS) (k : String) : KS :=
  { s with m := fun k' => if k' = k then none else s.m k' }

def delMany (s : KS) (ks : List String) : KS := ks.foldl del s

def flush (s : KS) : KS := { s with m := fun _ => none, dom := [] }

/-- time passes; keys whose deadline is reached disappear -/
def adv (s : KS) (dt : Nat) : KS :=
  { s with now := s.now + dt,
           m := fun k => (s.m k).filter fun e => e.live (s.now + dt) }

/-- the deadline of a visible key -/
def dlOf (s : KS) (k : String) : Option Nat := (s.find k).bind (·.dl)

end KS

/-! ### glob patterns (only `*` is special in what cashews promises) -/

/-- `*` may swallow any prefix of the rest of the key before the rest of the pattern (`k`) takes over -/
def starMatch (k : List Char → Bool) : List Char → Bool
  | [] => k []
  | c :: s => k (c :: s) || starMatch k s

def globMatch : List Char → List Char → Bool
  | [], s => s.isEmpty
  | '*' :: p, s => starMatch (globMatch p) s
  | _ :: _, [] => false
  | a :: p, c :: s => a == c && globMatch p s

def glob (pat key : String) : Bool := globMatch pat.toList key.toList

/-! ### bit fields:  `u<n>` at bit offset `off` (big-endian inside the field) -/

def getField (v off n : Nat) : Nat :=
  (List.range n).foldl (fun acc j => 2 * acc + (if v.testBit (off + j) then 1 else 0)) 0

def setBit (v p : Nat) (b : Bool) : Nat :=
  if b then v ||| (1 <<< p) else if v.testBit p then v - (1 <<< p) else v

def setField (v off n x : Nat) : Nat :=
  (List.range n).foldl (fun acc j => setBit acc (off + j) (x.testBit (n - 1 - j))) v

inductive Ovf where
  | wrap | sat
  deriving DecidableEq, Repr

inductive BfOp where
  | get (n idx : Nat)                 -- GET u<n> #<idx>
  | incrby (n idx : Nat) (by_ : Int)  -- INCRBY u<n> #<idx> <by>
  | overflow (o : Ovf)                -- OVERFLOW WRAP|SAT
  deriving DecidableEq, Repr

/-- new value of an unsigned `n`-bit counter -/
def bfAdd (o : Ovf) (n : Nat) (old : Nat) (by_ : Int) : Nat :=
  let top : Int := (2 : Int) ^ n
  let raw : Int := (old : Int) + by_
  match o with
  | .sat => if raw < 0 then 0 else if raw ≥ top then (top - 1).toNat else raw.toNat
  | .wrap => (raw % top).toNat

/-- run the sub-commands of one BITFIELD left to right -/
def bfRun : List BfOp → Ovf → Nat → Bool → List Int → Nat × Bool × List Int
  | [], _, v, w, acc => (v, w, acc)
  | .get n i :: r, o, v, w, acc => bfRun r o v w (acc ++ [Int.ofNat (getField v (i * n) n)])
  | .incrby n i b :: r, o, v, _, acc =>
    let x := bfAdd o n (getField v (i * n) n) b
    bfRun r o (setField v (i * n) n x) true (acc ++ [Int.ofNat x])
  | .overflow o' :: r, _, v, w, acc => bfRun r o' v w acc

/-! ### sets and sorted sets -/

def addMembers (old ms : List String) : List String :=
  ms.foldl (fun acc x => if x ∈ acc then acc else acc ++ [x]) old

def remMembers (old ms : List String) : List String := old.filter (fun x => !(ms.contains x))

inductive ZBound where
  | incl (x : Int) | excl (x : Int)
  deriving DecidableEq, Repr

def ZBound.geLo (b : ZBound) (s : Int) : Bool :=   -- s is above the lower bound b
  match b with | .incl x => decide (x ≤ s) | .excl x => decide (x < s)
def ZBound.leHi (b : ZBound) (s : Int) : Bool :=   -- s is below the upper bound b
  match b with | .incl x => decide (s ≤ x) | .excl x => decide (s < x)
def inRange (lo hi : ZBound) (s : Int) : Bool := lo.geLo s && hi.leHi s

/-! ### commands and replies -/

inductive Script where
  | unlock | incrExpire | incrSlice
  deriving DecidableEq, Repr

/-- SHA1 of the script text as `backend.py` sends it (`text.replace("\n", " ")`) — the text the
model below mirrors.  Checked against `$VERIF_REPO/cashews/backends/redis/backend.py` by the harness. -/
def Script.sha : Script → String
  | .unlock => "b948f76fda6b97319d3426a2fb42b0d4f02c7146"
  | .incrExpire => "0f8a745c1b5efe281bd1299ea0d1b2994c6ae601"
  | .incrSlice => "53548387e7d55085744d3d5523e5df1bf0b86325"

inductive Cmd where
  | set (k : String) (v : Bytes) (px : Option Nat) (c : Cond)
  | get (k : String)
  | mget (ks : List String)
  | unlink (ks : List String)            -- UNLINK and DEL
  | exists_ (ks : List String)
  | pexpire (k : String) (ms : Int)
  | ttl (k : String)
  | pttl (k : String)
  | incrby (k : String) (by_ : Int)
  | scan (cursor : Nat) (pat : Option String) (count : Option Nat)
  | flushdb
  | dbsize
  | ping
  | sadd (k : String) (ms : List String)
  | srem (k : String) (ms : List String)
  | spop (k : String) (count : Nat)
  | bitfield (k : String) (ops : List BfOp)
  | zremrangebyscore (k : String) (lo hi : ZBound)
  | zcount (k : String) (lo hi : ZBound)
  | zadd (k : String) (score : Int)
  | scriptLoad (s : Option Script)       -- `none`: a text the model does not know
  | evalsha (sha : Option Script) (key : String) (args : List Bytes)   -- `none`: not a SHA the model knows (or Python `None`)
  deriving DecidableEq, Repr

inductive Reply where
  | nil
  | ok
  | pong
  | int (i : Int)
  | bulk (b : Bytes)
  | bulks (l : List (Option Bytes))
  | strs (l : List String)
  | scan (cursor : Nat) (keys : List String)
  | ints (l : List Int)
  | sha (s : Script)
  | err                                  -- any error reply (WRONGTYPE, not an integer, syntax, NOSCRIPT)
  deriving DecidableEq, Repr

structure Srv where
  ks : KS
  loaded : List Script

namespace Srv

def init : Srv := { ks := KS.init, loaded := [] }

/-- scores are decimal texts with at most three fractional digits; kept in 1/1000 -/
def decDigits? (cs : List Char) : Option Nat :=
  if cs.isEmpty then none
  else cs.foldl (fun acc c => acc.bind fun a => if c.isDigit then some (a * 10 + (c.toNat - 48)) else none) (some 0)

def parseDecimal? (cs : List Char) : Option Int :=
  let (neg, body) := match cs with
    | '-' :: r => (true, r)
    | r => (false, r)
  let ip := body.takeWhile (· ≠ '.')
  let rest := body.dropWhile (· ≠ '.')
  let frac := match rest with
    | [] => some []
    | _ :: f => if f.isEmpty || f.length > 3 then none else some f
  match decDigits? ip, frac with
  | some a, some f =>
    match (if f.isEmpty then some 0 else decDigits? (f ++ List.replicate (3 - f.length) '0')) with
    | some b => let x : Int := (a * 1000 + b : Nat); some (if neg then -x else x)
    | none => none
  | _, _ => none

def hexVal (c : Char) : Nat :=
  if c.isDigit then c.toNat - 48 else if 'a' ≤ c ∧ c ≤ 'f' then c.toNat - 87 else c.toNat - 55

def textOfHex : List Char → List Char
  | a :: b :: r => Char.ofNat (hexVal a * 16 + hexVal b) :: textOfHex r
  | _ => []

/-- the number a Lua script / ZADD reads from an argument -/
def scoreOf : Bytes → Option Int
  | .num i => some (i * 1000)
  | .blob h => parseDecimal? (textOfHex h.toList)

def visKeys (s : KS) (pat : Option String) (ks : List String) : List String :=
  ks.filter fun k => s.present k && (match pat with | none => true | some p => glob p k)

/-- every command except EVALSHA -/
def execPrim (s : Srv) : Cmd → Srv × Reply
  | .set k v px c =>
    match px with
    | some 0 => (s, .err)                                    -- "invalid expire time in 'set' command"
    | _ =>
      let p := s.ks.present k
      let go := match c with | .always => true | .nx => !p | .xx => p
      if go then ({ s with ks := s.ks.put k ⟨.str v, px.map (s.ks.now + ·)⟩ }, .ok) else (s, .nil)
  | .get k =>
    match s.ks.find k with
    | none => (s, .nil)
    | some ⟨.str b, _⟩ => (s, .bulk b)
    | some _ => (s, .err)                                    -- WRONGTYPE (bit arrays: not modelled as text)
  | .mget ks =>
    if ks.isEmpty then (s, .err) else
    (s, .bulks (ks.map fun k => match s.ks.find k with | some ⟨.str b, _⟩ => some b | _ => none))
  | .unlink ks =>
    if ks.isEmpty then (s, .err)                             -- wrong number of arguments
    else ({ s with ks := s.ks.delMany ks }, .int (ks.filter s.ks.present).length)
  | .exists_ ks => if ks.isEmpty then (s, .err) else (s, .int (ks.filter s.ks.present).length)
  | .pexpire k ms =>
    match s.ks.find k with
    | none => (s, .int 0)
    | some e =>
      if ms ≤ 0 then ({ s with ks := s.ks.del k }, .int 1)
      else ({ s with ks := s.ks.put k { e with dl := some (s.ks.now + ms.toNat) } }, .int 1)
  | .ttl k =>
    match s.ks.find k with
    | none => (s, .int (-2))
    | some e => match e.dl with
      | none => (s, .int (-1))
      | some d => (s, .int (((d - s.ks.now + 500) / 1000 : Nat)))
  | .pttl k =>
    match s.ks.find k with
    | none => (s, .int (-2))
    | some e => match e.dl with
      | none => (s, .int (-1))
      | some d => (s, .int ((d - s.ks.now : Nat)))
  | .incrby k by_ =>
    match s.ks.find k with
    | none => ({ s with ks := s.ks.put k ⟨.str (.num by_), none⟩ }, .int by_)
    | some ⟨.str (.num i), dl⟩ => ({ s with ks := s.ks.put k ⟨.str (.num (i + by_)), dl⟩ }, .int (i + by_))
    | some _ => (s, .err)                                    -- WRONGTYPE / "value is not an integer"
  | .scan cur pat count =>
    match count with
    | some 0 => (s, .err)
    | _ =>
      let n := count.getD 10
      let page := (s.ks.dom.drop cur).take n
      let next := if cur + n < s.ks.dom.length then cur + n else 0
      (s, .scan next (visKeys s.ks pat page))
  | .flushdb => ({ s with ks := s.ks.flush }, .ok)
  | .dbsize => (s, .int (s.ks.dom.filter s.ks.present).length)
  | .ping => (s, .pong)
  | .sadd k ms =>
    if ms.isEmpty then (s, .err) else
    match s.ks.find k with
    | none =>
      let new := addMembers [] ms
      ({ s with ks := s.ks.put k ⟨.set new, none⟩ }, .int new.length)
    | some ⟨.set old, dl⟩ =>
      let new := addMembers old ms
      ({ s with ks := s.ks.put k ⟨.set new, dl⟩ }, .int ((new.length - old.length : Nat)))
    | some _ => (s, .err)
  | .srem k ms =>
    if ms.isEmpty then (s, .err) else
    match s.ks.find k with
    | none => (s, .int 0)
    | some ⟨.set old, dl⟩ =>
      let new := remMembers old ms
      let n : Int := ((old.length - new.length : Nat))
      if new.isEmpty then ({ s with ks := s.ks.del k }, .int n)
      else ({ s with ks := s.ks.put k ⟨.set new, dl⟩ }, .int n)
    | some _ => (s, .err)
  | .spop k count =>
    match s.ks.find k with
    | none => (s, .strs [])
    | some ⟨.set old, dl⟩ =>
      let out := old.take count
      let rest := old.drop count
      if rest.isEmpty then ({ s with ks := s.ks.del k }, .strs out)
      else ({ s with ks := s.ks.put k ⟨.set rest, dl⟩ }, .strs out)
    | some _ => (s, .err)
  | .bitfield k ops =>
    let go (v : Nat) (dl : Option Nat) : Srv × Reply :=
      let (v', wrote, out) := bfRun ops .wrap v false []
      if wrote then ({ s with ks := s.ks.put k ⟨.bits v', dl⟩ }, .ints out) else (s, .ints out)
    match s.ks.find k with
    | none => go 0 none
    | some ⟨.bits v, dl⟩ => go v dl
    | some _ => (s, .err)                                    -- WRONGTYPE (text strings as bit arrays: not modelled)
  | .zremrangebyscore k lo hi =>
    match s.ks.find k with
    | none => (s, .int 0)
    | some ⟨.zset ss, dl⟩ =>
      let new := ss.filter (fun x => !(inRange lo hi x))
      let n : Int := ((ss.length - new.length : Nat))
      if new.isEmpty then ({ s with ks := s.ks.del k }, .int n)
      else ({ s with ks := s.ks.put k ⟨.zset new, dl⟩ }, .int n)
    | some _ => (s, .err)
  | .zcount k lo hi =>
    match s.ks.find k with
    | none => (s, .int 0)
    | some ⟨.zset ss, _⟩ => (s, .int (ss.filter (inRange lo hi)).length)
    | some _ => (s, .err)
  | .zadd k sc =>
    match s.ks.find k with
    | none => ({ s with ks := s.ks.put k ⟨.zset [sc], none⟩ }, .int 1)
    | some ⟨.zset ss, dl⟩ =>
      if sc ∈ ss then (s, .int 0) else ({ s with ks := s.ks.put k ⟨.zset (ss ++ [sc]), dl⟩ }, .int 1)
    | some _ => (s, .err)
  | .scriptLoad sc =>
    match sc with
    | none => (s, .err)
    | some x => ({ s with loaded := if x ∈ s.loaded then s.loaded else x :: s.loaded }, .sha x)
  | .evalsha _ _ _ => (s, .err)

/-- `_UNLOCK`:  if redis.call("GET", KEYS[1]) == ARGV[1] then return redis.call("DEL", KEYS[1]) else return 0 end -/
def runUnlock (s : Srv) (key : String) (args : List Bytes) : Srv × Reply :=
  match args with
  | [tok] =>
    match (s.execPrim (.get key)).2 with
    | .err => (s, .err)
    | r => if r = .bulk tok then s.execPrim (.unlink [key]) else (s, .int 0)
  | _ => (s, .err)

/-- `_INCR_EXPIRE`:  local c = redis.call("INCRBY", KEYS[1], ARGV[1]); if c == 1 then redis.call("PEXPIRE", KEYS[1], ARGV[2]) end; return c -/
def runIncrExpire (s : Srv) (key : String) (args : List Bytes) : Srv × Reply :=
  match args with
  | [.num by_, .num ms] =>
    let r := s.execPrim (.incrby key by_)
    match r.2 with
    | .int c => if c = 1 then ((r.1.execPrim (.pexpire key ms)).1, .int c) else (r.1, .int c)
    | _ => (s, .err)
  | _ => (s, .err)

/-- `_INCR_SLICE`:
redis.call("ZREMRANGEBYSCORE", KEYS[1], 0, "(" .. ARGV[1])
local n = redis.call("ZCOUNT", KEYS[1], ARGV[1], ARGV[2])
if n < tonumber(ARGV[3]) then n = n + 1; redis.call("ZADD", KEYS[1], ARGV[2], ARGV[2]);
   if tonumber(ARGV[4]) > 0 then redis.call("PEXPIRE", KEYS[1], ARGV[4]) end end
return n -/
def runIncrSlice (s : Srv) (key : String) (args : List Bytes) : Srv × Reply :=
  match args with
  | [a1, a2, .num maxv, .num ms] =>
    match scoreOf a1, scoreOf a2 with
    | some start, some stop =>
      let r1 := s.execPrim (.zremrangebyscore key (.incl 0) (.excl start))
      if r1.2 = .err then (s, .err) else
      let r2 := r1.1.execPrim (.zcount key (.incl start) (.incl stop))
      match r2.2 with
      | .int n =>
        if n < maxv then
          let s2 := (r1.1.execPrim (.zadd key stop)).1
          let s3 := if ms > 0 then (s2.execPrim (.pexpire key ms)).1 else s2
          (s3, .int (n + 1))
        else (r1.1, .int n)
      | _ => (s, .err)
    | _, _ => (s, .err)
  | _ => (s, .err)

def exec (s : Srv) : Cmd → Srv × Reply
  | .evalsha sha key args =>
    match sha with
    | none => (s, .err)                                      -- NOSCRIPT (or redis-py DataError for `None`)
    | some sc =>
      if sc ∈ s.loaded then
        match sc with
        | .unlock => s.runUnlock key args
        | .incrExpire => s.runIncrExpire key args
        | .incrSlice => s.runIncrSlice key args
      else (s, .err)
  | c => s.execPrim c

/-- MULTI … EXEC: the queued commands run one after the other; a failing one changes nothing -/
def execMulti (s : Srv) (cs : List Cmd) : Srv := cs.foldl (fun s c => (s.exec c).1) s

def adv (s : Srv) (dt : Nat) : Srv := { s with ks := s.ks.adv dt }

end Srv
end CashewsVerif.Redis
