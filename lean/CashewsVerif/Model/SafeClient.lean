import CashewsVerif.Model.RedisSrv
/-
Model of `cashews/backends/redis/client.py` on top of (our reading of) redis-py:
one *client call* = one `execute_command` (or one pipeline `execute`, or one `BitFieldOperation.execute`).
A call fails when the connection is down at that call (`cfg.down n`, n = index of the call in the
history) or when the server answers with an error reply (redis-py raises `ResponseError`, a `RedisError`).

  class Redis(_Redis):      execute_command: except (RedisError, gaierror, OSError, TimeoutError) -> raise CacheBackendInteractionError
  class SafeRedis(_Redis):  ... if command.lower() == "ping": raise CacheBackendInteractionError
                            if command.lower() in ["unlink", "del", "memory", "ttl"]: return 0
                            if command.lower() == "scan": return [0, []]
                            return None
  class SafePipeline(Pipeline): execute: except RedisError: log
-/
namespace CashewsVerif.Redis

structure Cfg where
  suppress : Bool
  down : Nat → Bool          -- is the connection down at the n-th client call of the history
  isEnc : String → Bool      -- "the serializer decodes this payload" (the serializer is run, not modelled: C09)

inductive Req where
  | one (c : Cmd)
  | multi (cs : List Cmd)    -- pipeline with transaction=True: MULTI … EXEC
  deriving DecidableEq, Repr

structure World where
  srv : Srv
  calls : Nat                -- client calls made so far
  cached : List Script       -- `self._sha`: scripts whose SHA the backend object remembers
  log : List Req             -- wire trace (attempts included)

def World.init : World := { srv := Srv.init, calls := 0, cached := [], log := [] }

inductive Res (α : Type) where
  | ok (a : α)
  | raise                    -- CacheBackendInteractionError
  | raiseOther               -- any other exception escaped the command
  deriving Repr

/-- the per-command suppress table of `SafeRedis.execute_command` -/
def fallback : Cmd → Reply
  | .unlink _ => .int 0
  | .ttl _ => .int 0
  | .scan _ _ _ => .scan 0 []
  | _ => .nil

def isPing : Cmd → Bool
  | .ping => true
  | _ => false

/-- what a failed call turns into -/
def failed (cfg : Cfg) (c : Cmd) : Res Reply :=
  if cfg.suppress && !isPing c then .ok (fallback c) else .raise

def clientCall (cfg : Cfg) (c : Cmd) (w : World) : World × Res Reply :=
  let w1 := { w with calls := w.calls + 1, log := w.log ++ [.one c] }
  if cfg.down w.calls then (w1, failed cfg c)
  else if (w.srv.exec c).2 = .err then (w1, failed cfg c)        -- error reply: redis-py raises ResponseError
  else ({ w1 with srv := (w.srv.exec c).1 }, .ok (w.srv.exec c).2)

/-- does some queued command answer with an error (then `Pipeline.execute(raise_on_error=True)` raises) -/
def multiErr (s : Srv) : List Cmd → Bool
  | [] => false
  | c :: cs => (s.exec c).2 = .err || multiErr (s.exec c).1 cs

/-- `async with self._pipeline as pipe: …; await pipe.execute()`.  An empty pipeline does no I/O.
Suppressed: `SafePipeline.execute(raise_on_error=False)` swallows connection errors and ignores error
replies.  Unsuppressed: the failure surfaces as CacheBackendInteractionError (repaired code, finding D29). -/
def pipeCall (cfg : Cfg) (cs : List Cmd) (w : World) : World × Res Unit :=
  if cs.isEmpty then (w, .ok ()) else
  let w1 := { w with calls := w.calls + 1, log := w.log ++ [.multi cs] }
  if cfg.down w.calls then (w1, if cfg.suppress then .ok () else .raise)
  else
    let w2 := { w1 with srv := w.srv.execMulti cs }
    if !cfg.suppress && multiErr w.srv cs then (w2, .raise) else (w2, .ok ())

end CashewsVerif.Redis
