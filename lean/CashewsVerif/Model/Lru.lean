import CashewsVerif.Model.Mem
/-
C11 — the `Mem` model of `cashews/backends/memory.py` run together with *ghost* bookkeeping that
only observes it (`Lru.step_mem` / `Lru.run_mem` in Lemmas/LruGhost.lean prove that erasing the ghost gives back
`Mem.step` / `Mem.run`, outputs included):

* `log`  — the **use log**, most recent use first.  A key is *used* exactly when the code touches its
  recency: a `_get` that finds a live entry (`self.store.move_to_end(key)`, memory.py:209 — reached by
  `get`, every key of `get_many`, `exists`, the read of `incr`, both reads of `expire`, and the existence
  test of a conditional `set`, also when that `set` then fails), and every `_set` (memory.py:195-196 —
  `set`, every pair of `set_many`, the write of `incr` and `expire`).  **Not** uses: a miss, `get_expire`
  (reads `self.store[key]` without `move_to_end`), `delete`, and the per-key reads of a purge sweep
  (the sweep is shown to be order-neutral instead, Props.C11.purge_preserves_order).
* `evs`  — one record `(victim, use log at that moment)` per `popitem(last=False)` (memory.py:197-198).
* `gone` — keys that left the store for a reason the property accepts since they were last used:
  deleted, cleared, or found expired and collected (by a read or by a purge sweep).  A `_set` of the key
  takes it off this list again.

Mathlib-free: the driver links against this file.
-/
namespace CashewsVerif
open Store

/-- `lastUse log k`: when `k` was last used, as the position of its latest use counted from the oldest
use (= 1) of the log; `0` = never used.  Larger = more recent.  This is the ghost use-clock reading:
the clock is `log.length`, and a use of `k` sets `lastUse k` to the new clock value. -/
def lastUse : List Key → Key → Nat
  | [], _ => 0
  | u :: l, k => if u = k then l.length + 1 else lastUse l k

/-- the uses made strictly after the latest use of `k` (all uses, if `k` was never used) -/
def usedSince (log : List Key) (k : Key) : List Key := log.takeWhile (· != k)

/-- the distinct keys other than `k` used more recently than `k` -/
def recentOthers (log : List Key) (k : Key) : List Key := (usedSince log k).eraseDups

/-- the key `popitem(last=False)` removes when `len(self.store) > self.size` -/
def victim? (cap : Nat) (st : Store) : Option Key :=
  if st.length > cap then st.head?.map (·.1) else none

structure Lru where
  mem  : Mem
  log  : List Key
  evs  : List (Key × List Key)
  gone : List Key

namespace Lru

def init (cap : Nat) : Lru := { mem := Mem.init cap, log := [], evs := [], gone := [] }

/-- `_get` + ghost: a hit is a use; an expired entry is collected (`gone`); a miss is nothing -/
def gGet (x : Lru) (k : Key) : Lru × Option Val :=
  match lookup x.mem.store k with
  | none => (x, none)
  | some e =>
    if e.live x.mem.now then ({ x with mem := (x.mem.rawGet k).1, log := k :: x.log }, some e.val)
    else ({ x with mem := (x.mem.rawGet k).1, gone := k :: x.gone }, none)

/-- `_set` + ghost: a use of `k`; records the eviction if `popitem` fires -/
def gSet (x : Lru) (k : Key) (v : Val) (ttl : Option Nat) : Lru :=
  { mem := x.mem.rawSet k v ttl
    log := k :: x.log
    evs := match victim? x.mem.cap (put x.mem.store k ⟨v, x.mem.newDeadline k ttl⟩) with
      | some kv => (kv, k :: x.log) :: x.evs
      | none => x.evs
    gone := x.gone.filter (· != k) }

/-- `_delete` + ghost: not a use; the key is `gone` if it was there -/
def gDelete (x : Lru) (k : Key) : Lru × Bool :=
  ({ x with mem := (x.mem.rawDelete k).1
            gone := if (lookup x.mem.store k).isSome then k :: x.gone else x.gone },
   (x.mem.rawDelete k).2)

def gClear (x : Lru) : Lru :=
  { x with mem := { x.mem with store := [] }, gone := keys x.mem.store ++ x.gone }

def gAdv (x : Lru) (dt : Nat) : Lru := { x with mem := { x.mem with now := x.mem.now + dt } }

/-- one purge sweep + ghost: no use is logged; the entries it collects are exactly the expired ones -/
def gPurge (x : Lru) : Lru :=
  { x with mem := x.mem.purge
           gone := keys (x.mem.store.filter (fun p => !p.2.live x.mem.now)) ++ x.gone }

def gGetMany (x : Lru) : List Key → Lru × List (Option Val)
  | [] => (x, [])
  | k :: ks =>
    let (x', v) := x.gGet k
    let (x'', vs) := gGetMany x' ks
    (x'', v :: vs)

/-- `Mem.step` with every `rawGet/rawSet/rawDelete` replaced by its ghost-carrying twin -/
def step (x : Lru) : Op → Lru × Out
  | .set k v ttl c =>
    match c with
    | .always => (x.gSet k v ttl, .bool true)
    | .nx =>
      let (x', r) := x.gGet k
      if r.isSome then (x', .bool false) else (x'.gSet k v ttl, .bool true)
    | .xx =>
      let (x', r) := x.gGet k
      if r.isSome then (x'.gSet k v ttl, .bool true) else (x', .bool false)
  | .setMany kvs ttl => (kvs.foldl (fun x kv => x.gSet kv.1 kv.2 ttl) x, .unit)
  | .get k => let (x', r) := x.gGet k; (x', .val r)
  | .getMany ks => let (x', r) := x.gGetMany ks; (x', .vals r)
  | .exists_ k => let (x', r) := x.gGet k; (x', .bool r.isSome)
  | .incr k by_ ttl =>
    let (x', r) := x.gGet k
    let cur : Option Int := match r with
      | none => some 0
      | some v => v.toInt?
    match cur with
    | none => (x', .err)
    | some c =>
      let n := c + by_
      (x'.gSet k (.int n) (if n = 1 then ttl else none), .int n)
  | .delete k => let (x', b) := x.gDelete k; (x', .bool b)
  | .deleteMany ks => (ks.foldl (fun x k => (x.gDelete k).1) x, .unit)
  | .expire k ttl =>
    let (x1, r1) := x.gGet k
    match r1 with
    | none => (x1, .unit)
    | some _ =>
      let (x2, r2) := x1.gGet k
      match r2 with
      | none => (x2, .unit)
      | some v => (x2.gSet k v ttl, .unit)
  | .getExpire k => (x, .int (x.mem.getExpire k))
  | .clear => (x.gClear, .unit)
  | .adv dt => (x.gAdv dt, .unit)
  | .purge => (x.gPurge, .unit)

def run (x : Lru) : List Op → Lru × List Out
  | [] => (x, [])
  | op :: ops =>
    let (x', o) := x.step op
    let (x'', os) := run x' ops
    (x'', o :: os)

end Lru
end CashewsVerif
