import CashewsVerif.Model.Mem
/-
C11 — the `Mem` model of `cashews/backends/memory.py` run together with *ghost* bookkeeping that
only observes it (`Lru.step_mem` / `Lru.run_mem` in Lemmas/LruGhost.lean prove that erasing the ghost gives back
`Mem.step` / `Mem.run`, outputs included):

* `log`  — the **use log**, most recent use first.  A key is *used* exactly when the code touches its
  recency: a `_get` that finds a live entry (`self.store.move_to_end(key)`, memory.py:209 — reached by
  `get`, every key of `get_many`, `exists`, the read of `incr`, both reads of `expire`, and the existence
  test of a conditional `set`, also when that `set` then fails), and every `_set` (memory.py:195-196 —
  `set`, every pair of `set_many`, the write of `incr` and `expire`).  **Not** uses: a miss, `get_expire`
  (reads `self.store[key]` without `move_to_end`), `delete`, and the per-key reads of a purge sweep
  (the sweep is shown to be order-neutral instead, Props.C11.purge_preserves_order).
* `evs`  — one record `(victim, use log at that moment)` per `popitem(last=False)` (memory.py:197-198).
* `gone` — keys that left the store for a reason the property accepts since they were last used:
  deleted, cleared, or found expired and collected (by a read or by a purge sweep).  A `_set` of the key
  takes it off this list again.

Mathlib-free: the driver links against this file.
-/
namespace CashewsVerif
open Store

/-- `lastUse log k`: when `k` was last used, as the position of its latest use counted from the oldest
use (= 1) of the log; `0` = never used.  Larger = more recent.  This is the ghost use-clock reading:
the clock is `log.length`, and a use of `k` sets `lastUse k` to the new clock value. -/
def lastUse : List Key → Key → Nat
  | [], _ => 0
  | u :: l, k => if u = k then l.length + 1 else lastUse l k

/-- the uses made strictly after the latest use of `k` (all uses, if `k` was never used) -/
def usedSince (log : List Key) (k : Key) : List Key := log.takeWhile (· != k)

/-- the distinct keys other than `k` used more recently than `k` -/
def recentOthers (log : List Key) (k : Key) : List Key := (usedSince log k).eraseDups

/-- the key `popitem(last=False)` removes when `len(self.store) > self.size` -/
def victim? (cap : Nat) (st : Store) : Option Key :=
  if st.length > cap then st.head?.map (·.1) else none

structure Lru where
  mem  : Mem
  log  : List Key
  evs  : List (Key × List Key)
  gone : List Key

namespace Lru

def init (cap : Nat) : Lru := { mem := Mem.init cap, log := [], evs := [], gone := [] }

/-- `_get` + ghost: a hit is a use; an expired entry is collected (`gone`); a miss is nothing -/
def gGet (x : Lru) (k : Key) : Lru × Option Val :=
  match lookup x.mem.store k with
  | none => (x, none)
  | some e =>
    if e.live x.mem.now then ({ x with mem := (x.mem.rawGet k).1, log := k :: x.log }, some e.val)
    else ({ x with mem := (x.mem.rawGet k).1, gone := k :: x.gone }, none)

/-- `_set` + ghost: a use of `k`; records the eviction if `popitem` fires -/
def gSet (x : Lru) (k : Key) (v : Val) (ttl : Option Nat) : Lru :=
  { mem := x.mem.rawSet k v ttl
    log := k :: x.log
    evs := match victim? x.mem.cap (put x.mem.store k ⟨v, x.mem.newDeadline k ttl⟩) with
      | some kv => (kv, k :: x.log) :: x.evs
      | none => x.evs
    gone := x.gone.filter (· != k) }

/-- `_delete` + ghost: not a use; the key is `gone` if it was there -/
def gDelete (x : Lru) (k : Key) : Lru × Bool :=
  ({ x with mem := (x.mem.rawDelete k).1
            gone := if (lookup x.mem.store k).isSome then k :: x.gone else x.gone },
   (x.mem.rawDelete k).2)

def gClear (x : Lru) : Lru :=
  { x with mem := { x.mem with store := [] }, gone := keys x.mem.store ++ x.gone }

def gAdv (x : Lru) (dt : Nat) : Lru := { x with mem := { x.mem with now := x.mem.now + dt } }

/-- one purge sweep + ghost: no use is logged; the entries it collects are exactly the expired ones -/
def gPurge (x : Lru) : Lru :=
  { x with mem := x.mem.purge
           gone := keys (x.mem.store.filter (fun p => !p.2.live x.mem.now)) ++ x.gone }

def gGetMany (x : Lru) : List Key → Lru × List (Option Val)
  | [] => (x, [])
  | k :: ks =>
    let (x', v) := x.gGet k
    let (x'', vs) := gGetMany x' ks
    (x'', v :: vs)

/-- `Mem.step` with every `rawGet/rawSet/rawDelete` replaced by its ghost-carrying twin -/
def step (x : Lru) : Op → Lru × Out
  | .set k v ttl c =>
    match c with
    | .always => (x.gSet k v ttl, .bool true)
    | .nx =>
      let (x', r) := x.gGet k
      if r.isSome then (x', .bool false) else (x'.gSet k v ttl, .bool true)
    | .xx =>
      let (x', r) := x.gGet k
      if r.isSome then (x'.gSet k v ttl, .bool true) else (x', .bool false)
  | .setMany kvs ttl => (kvs.foldl (fun x kv => x.gSet kv.1 kv.2 ttl) x, .unit)
  | .get k => let (x', r) := x.gGet k; (x', .val r)
  | .getMany ks => let (x', r) := x.gGetMany ks; (x', .vals r)
  | .exists_ k => let (x', r) := x.gGet k; (x', .bool r.isSome)
  | .incr k by_ ttl =>
    let (x', r) := x.gGet k
    let cur : Option Int := match r with
      | none => some 0
      | some v => v.toInt?
    match cur with
    | none => (x', .err)
    | some c =>
      let n := c + by_
      (x'.gSet k (.int n) (if n = 1 then ttl else none), .int n)
  | .delete k => let (x', b) := x.gDelete k; (x', .bool b)
  | .deleteMany ks => (ks.foldl (fun x k => (x.gDelete k).1) x, .unit)
  | .expire k ttl =>
    let (x1, r1) := x.gGet k
    match r1 with
    | none => (x1, .unit)
    | some _ =>
      let (x2, r2) := x1.gGet k
      match r2 with
      | none => (x2, .unit)
      | some v => (x2.gSet k v ttl, .unit)
  | .getExpire k => (x, .int (x.mem.getExpire k))
  | .clear => (x.gClear, .unit)
  | .adv dt => (x.gAdv dt, .unit)
  | .purge => (x.gPurge, .unit)

def run (x : Lru) : List Op → Lru × List Out
  | [] => (x, [])
  | op :: ops =>
    let (x', o) := x.step op
    let (x'', os) := run x' ops
    (x'', o :: os)

end Lru

/-! ## The larger alphabet: every command of `Memory` that is built from `_get`, `_set`, `_delete`

`Memory` has more commands than the regular ones of `Op`: `set_lock` (inherited: `set(exist=False)`; reached by
`lock()`, `@locked`, transactions), `is_locked`, `unlock`, `set_add`, `set_remove`, `set_pop`, `slice_incr`,
`incr_bits`, `get_bits`, `get_raw`, `get_match`, `delete_match`.  Each of them touches the store ONLY through the
three primitives `_get` (memory.py:205), `_set` (memory.py:188, the one place where the store is trimmed) and
`_delete` / `del self.store[key]`.  So:

* `Prog` — a command as an *adaptive program over the primitives*: what it does next may depend on what the reads
  and deletes answered.  The theorems of C11 hold for histories of ARBITRARY such programs
  (Lemmas/LruX.lean: every `Closed` predicate survives `exec`), not just for the commands listed here.
* `XOp` / `XOp.prog` — the commands of `Memory` written out as such programs, the Python next to each.
  **Creating writes** (capacity clause): every `.set` node - `set_lock`, `set_add`, `set_remove`, `set_pop`
  (they create the entry, possibly an empty set), `slice_incr`, `incr_bits`.  **Uses** (recency clause), mirrored
  from the code: every `.get` node that finds a live entry (`move_to_end`) - `is_locked`, the read of `unlock`
  (also when the token does not match), `get_bits`, every key `get_match` yields, the read that opens each of the
  writes above - and every `.set` node.  **Not uses**: `get_raw` (`self.store.get`), `get_expire`, `get_size`,
  `scan` and the deletes of `delete_match` / `unlock`.
  A command that writes the store some other way (`set_raw`: `self.store[key] = (None, value)`, no `move_to_end`,
  no trimming) is NOT a `Prog` and is outside every theorem.
-/

inductive Prog where
  | ret (o : Out)
  | get (k : Key) (cont : Option Val → Prog)                    -- `await self._get(k, default=...)`
  | set (k : Key) (v : Val) (ttl : Option Nat) (cont : Prog)    -- `self._set(k, v, ttl)`
  | del (k : Key) (cont : Bool → Prog)                          -- `await self._delete(k)` / `del self.store[k]`

inductive XOp where
  | reg (op : Op)                                   -- the regular commands, time, purge sweeps (`Lru.step`)
  | setLock (k : Key) (v : Val) (ttl : Option Nat)
  | isLocked (k : Key)
  | unlock (k : Key) (v : Val)
  | setAdd (k : Key) (ttl : Option Nat)             -- the members are opaque here (values are never compared)
  | setRemove (k : Key)
  | setPop (k : Key)
  | sliceIncr (k : Key) (ttl : Option Nat)
  | incrBits (k : Key)
  | getBits (k : Key)
  | getRaw (k : Key)
  | getMatch                                        -- `get_match("*")`
  | delMatch                                        -- `delete_match("*")`

def XOp.reg? : XOp → Option Op
  | .reg op => some op
  | _ => none

/-- the keys `scan` yields: entries whose deadline has not passed, in store order (it does not touch the store) -/
def Mem.scanKeys (s : Mem) : List Key := keys (s.store.filter (fun p => p.2.live s.now))

/-- the program of a command, in the state `s` in which it starts (only `set_add`, which looks at the stored
deadline, and the two `*_match` commands, which iterate a snapshot of the store, depend on it) -/
def XOp.prog (s : Mem) : XOp → Prog
  | .reg _ => .ret .unit
  -- `return await self.set(key, value, expire=expire, exist=False)`
  | .setLock k v ttl => .get k fun r => if r.isSome then .ret (.bool false) else .set k v ttl (.ret (.bool true))
  -- `return await self._key_exist(key)`
  | .isLocked k => .get k fun r => .ret (.bool r.isSome)
  -- `if await self._get(key, default=_missed) != value: return False` / `return await self._delete(key)`
  | .unlock k v => .get k fun r => if r = some v then .del k (fun b => .ret (.bool b)) else .ret (.bool false)
  -- `val = await self._get(key, default=set()); val.update(values)`
  -- `if key in self.store:` (it is iff the read found it live)
  -- `    if expire_at is None or not expire: del self.store[key]; expire = None`
  -- `    else: expire = max(expire, expire_at - time.time())`
  -- `self._set(key, val, expire=expire)`
  | .setAdd k ttl => .get k fun r =>
    match r with
    | none => .set k (.keys []) ttl (.ret .unit)
    | some v =>
      match (lookup s.store k).bind (·.dl), ttl with
      | some d, some (t + 1) => .set k v (some (max (t + 1) (d - s.now))) (.ret .unit)
      | _, _ => .del k fun _ => .set k v none (.ret .unit)
  -- `val = await self._get(key, default=set()); ...; self._set(key, val)`
  | .setRemove k => .get k fun r => .set k (r.getD (.keys [])) none (.ret .unit)
  | .setPop k => .get k fun r => .set k (r.getD (.keys [])) none (.ret .unit)
  -- `val_list = await self._get(key); ...; self._set(key, new_val, expire=expire)`
  | .sliceIncr k ttl => .get k fun r => .set k (r.getD (.nums [])) ttl (.ret .unit)
  -- `array = await self._get(key, default=Bitarray("0")); ...; self._set(key, array)`
  | .incrBits k => .get k fun r => .set k (r.getD .nil) none (.ret .unit)
  -- `array = await self._get(key, default=Bitarray("0"))`
  | .getBits k => .get k fun _ => .ret .unit
  -- `val = self.store.get(key)`
  | .getRaw _ => .ret .unit
  -- `async for key in self.scan(pattern): value = await self.get(key)`
  | .getMatch => s.scanKeys.foldr (fun k p => .get k fun _ => p) (.ret .unit)
  -- `async for key in self.scan(pattern): await self._delete(key)`
  | .delMatch => s.scanKeys.foldr (fun k p => .del k fun _ => p) (.ret .unit)

namespace Mem

def exec (s : Mem) : Prog → Mem × Out
  | .ret o => (s, o)
  | .get k c => exec (s.rawGet k).1 (c (s.rawGet k).2)
  | .set k v ttl c => exec (s.rawSet k v ttl) c
  | .del k c => exec (s.rawDelete k).1 (c (s.rawDelete k).2)

def xstep (s : Mem) (op : XOp) : Mem × Out :=
  match op.reg? with
  | some o => s.step o
  | none => s.exec (XOp.prog s op)

def xrun (s : Mem) : List XOp → Mem × List Out
  | [] => (s, [])
  | op :: ops =>
    let (s', o) := s.xstep op
    let (s'', os) := xrun s' ops
    (s'', o :: os)

end Mem

namespace Lru

/-- a program on the instrumented state: each primitive is its ghost-carrying twin -/
def exec (x : Lru) : Prog → Lru × Out
  | .ret o => (x, o)
  | .get k c => exec (x.gGet k).1 (c (x.gGet k).2)
  | .set k v ttl c => exec (x.gSet k v ttl) c
  | .del k c => exec (x.gDelete k).1 (c (x.gDelete k).2)

def xstep (x : Lru) (op : XOp) : Lru × Out :=
  match op.reg? with
  | some o => x.step o
  | none => x.exec (XOp.prog x.mem op)

def xrun (x : Lru) : List XOp → Lru × List Out
  | [] => (x, [])
  | op :: ops =>
    let (x', o) := x.xstep op
    let (x'', os) := xrun x' ops
    (x'', o :: os)

end Lru
end CashewsVerif
