/-
C05 — interleaving semantics of concurrent transactional tasks.  Mathlib-free (the driver links it).

Mirrors, at the granularity "one outermost backend command plus the task-local code up to the next one"
(exactly what harness/txsched.py's gate scheduler enforces on the real code):

* cashews/wrapper/transaction.py   `_transaction : ContextVar`, `TransactionContextDecorator.__aenter__/
  __aexit__` (a nested block joins the outer transaction; the decorator form opens a fresh context object
  per call — repaired D12 — so the *form* of a block has no effect on what it does), `Transaction.commit/rollback`;
* cashews/backends/transaction.py  `TransactionBackend.set (also with exist=)/exists/incr/get/delete/expire/commit/rollback`,
  `LockTransactionBackend._lock_updates/_unlock_updates` (and its `set/incr/delete/expire`: lock first).

Every way a block can end is modelled: the body runs to its end (commit), raises an exception object of any kind `Exc`
(`Cmd.raise e`: an `Exception` or a `BaseException` that is not an `Exception`, and - independently - an object whose truth
value `bool(exc)` is True, as for every built-in exception, or False: a class that defines `__bool__` / `__len__`, e.g. an
error collection raised while empty), gets `LockedError` out of `_lock_updates`, or the task
is CANCELLED (`Act.cancel`: `asyncio.CancelledError` raised at the suspension point of the body the task is parked at —
before a backend command, while waiting for a lock, in a sleep).  `__aexit__` decides with `if not exc_tb` - is an exception
propagating at all? -, never with the class or the truth value of the exception object: all of them but the first roll back
(no rule below looks into the `Exc` it carries to the caller).  Inside a body the program may call `tx.commit()` / `tx.rollback()` on the `Transaction` object
(`Cmd.commit` / `Cmd.rollback`): the buffered writes are flushed (resp. dropped), `_unlock_updates` releases every lock
(`self._locks = set()`), and the body goes on with an empty buffer and no locks: its later writes acquire their locks again.

Time is `Nat` in units u = 1/40 s: one harness tick (1/8 s) = 5u, the lock retry step (0.1 s) = 4u.
Values are integers (the overlay semantics for other values is C03/C04's business).  TTLs are not modelled:
`expire k` is what it does to *values* — a read-modify-write that buffers the store's current value of `k`
(under `k`'s lock in locked / serializable mode) so that the commit writes it back with the new TTL; the
`set_many` commands of one commit (one per TTL group) are one step, as the harness releases them together.
-/
namespace CashewsVerif.TxSched

inductive Mode where
  | fast | locked | serializable
  deriving DecidableEq, Repr

/-- how the block was written; carried so that a case names the Python form to run: `ctx` = `async with cache.transaction(m):`
on a context object of its own, `dec` = a call of THE function decorated with `@cache.transaction(m)` (one decorated function
shared by all tasks), `obj` = `async with T:` on THE context object `T = cache.transaction(m)` kept at module level and shared by
all tasks (entered by several tasks at once, and by one task nested in itself).  After the repair of D12
(`async with TransactionContextDecorator(self._mode, self._timeout)` per call) and of D51 (what a block has to remember -
which transaction it started, how many of its open blocks joined a running one - is kept per TRANSACTION, i.e. per task
context, not per object: `_started[tx]`, `_inner[tx]`) no state is shared between the tasks that use one object, hence no rule
below looks at the form. -/
inductive Form where
  | ctx | dec | obj
  deriving DecidableEq, Repr

/-- The exception object a body raises, by the two features of it that code deciding between commit and rollback could (wrongly)
look at: its class - `base = false`: an `Exception` subclass; `base = true`: a `BaseException` subclass that is not an `Exception`
(like `KeyboardInterrupt` / `SystemExit`) - and its truth value - `falsy = true`: `bool(exc)` is False, because its class defines
`__bool__` or `__len__` (an "error collection" exception raised while it is empty); every built-in exception is truthy.
The repaired `__aexit__` looks at neither (`if not exc_tb`). -/
structure Exc where
  base : Bool
  falsy : Bool
  deriving DecidableEq, Repr

/-- body commands; `nestIn/nestOut` open and close a nested transaction block (a nested `async with cache.transaction()` or a
call of a decorated function from inside a transaction).  `nestOut none`: the inner block's body ran to its end;
`nestOut (some e)`: the inner block is LEFT BY THE EXCEPTION `e`, which the enclosing body catches right outside the block
(`try: async with cache.transaction(): …; raise e` / `except: pass`) and goes on.  Either way `__aexit__` of an inner block
does nothing (`if self._inner: self._inner -= 1; return`): nested blocks are flat, the transaction is not marked in any way by
the failure of an inner block, and the outermost block commits everything buffered if ITS body finishes normally. -/
inductive Cmd where
  | set (k : Nat) (v : Int)
  | incr (k : Nat) (n : Int)
  | get (k : Nat)
  | delete (k : Nat)
  | expire (k : Nat)           -- `cache.expire(k, ttl)`: re-time the key (the TTL itself is not modelled)
  | setx (k : Nat) (v : Int) (e : Bool)   -- `cache.set(k, v, exist=e)`: only if present (`e`) / only if absent; result 1 / 0
  | sleep (d : Nat)            -- `await asyncio.sleep(d/8)`: a suspension that is not a backend command
  | raise (e : Exc)            -- the body raises the exception object `e` (any class, truthy or falsy)
  | nestIn (f : Form)
  | nestOut (caught : Option Exc)
  | commit                     -- `await tx.commit()` on the `Transaction` that `async with cache.transaction() as tx` returned
  | rollback                   -- `await tx.rollback()`
  deriving DecidableEq, Repr

/-- `cache.set_many({k1: v1, k2: v2, …})` inside a transaction, as body commands.
`LockTransactionBackend.set_many`: `for key in pairs: await self._lock_updates(key)` — the locks are taken key by key, in the
order of the mapping, each through `_get_lock_key` (so in serializable mode it is the ONE global lock) —, then
`TransactionBackend.set_many`: `_to_delete.difference_update(pairs.keys()); _local_cache.set_many(pairs)` buffers every pair in
that order, with no suspension point in between.  The buffer is task-local and nothing can happen between the last lock and the
buffering, so the command is the sequence `set k1 v1; set k2 v2; …` of single-key writes: the same `set_lock` attempts in the
same order, the same buffer afterwards, and an interruption in the middle (LockedError, cancellation) drops the buffer either way. -/
def Cmd.setMany (kvs : List (Nat × Int)) : List Cmd := kvs.map fun p => .set p.1 p.2

/-- `cache.delete_many(k1, k2, …)` inside a transaction: `for key in keys: await self._lock_updates(key)`, then
`_local_cache.delete_many(*keys); _to_delete.update(keys)` — the sequence `delete k1; delete k2; …` -/
def Cmd.deleteMany (ks : List Nat) : List Cmd := ks.map .delete

/-- what the caller of the block gets — all the ways a block can end -/
inductive Outcome where
  | returned (rs : List (Option Int))   -- the body's results (of its `incr`s and `get`s, in order)
  | raised (e : Exc)                    -- the body's own exception: that very object (its class, its truth value)
  | raisedLocked                        -- `LockedError` out of `_lock_updates`
  | cancelled                           -- `asyncio.CancelledError`: the task was cancelled while suspended inside the body
  deriving DecidableEq, Repr

/-- `_get_lock_key`: `some k` = ":tx_lock:<k>", `none` = ":serializable:lock" -/
abbrev LockKey := Option Nat

def lockKeyOf : Mode → Nat → LockKey
  | .serializable, _ => none
  | _, k => some k

/-! ### association lists (the overlay `_local_cache`) -/

abbrev AL := List (Nat × Int)

def AL.get : AL → Nat → Option Int
  | [], _ => none
  | (k', v) :: r, k => if k' = k then some v else AL.get r k

def AL.erase (l : AL) (k : Nat) : AL := l.filter (fun p => p.1 ≠ k)

def AL.put (l : AL) (k : Nat) (v : Int) : AL := AL.erase l k ++ [(k, v)]

/-! ### a store mutation, as the backend sees it (ghost log) -/

inductive Mut where
  | delMany (ks : List Nat)        -- `backend.delete_many(*_to_delete)` of a commit
  | setMany (kvs : AL)             -- `backend.set_many(overlay)` of a commit
  | directSet (k : Nat) (v : Int)  -- a command of a task outside any transaction
  | directDel (k : Nat)
  deriving DecidableEq, Repr

abbrev Store := Nat → Option Int

/-- the backend commands of a commit of the write-set (`ov`, `del`):
`if self._to_delete: delete_many(*_to_delete)`, then `set_many` (one TTL group here) if anything is buffered -/
def commitMutsOf (ov : AL) (del : List Nat) : List Mut :=
  (if del ≠ [] then [Mut.delMany del] else []) ++ (if ov ≠ [] then [Mut.setMany ov] else [])

def Mut.apply (s : Store) : Mut → Store
  | .delMany ks => fun k => if k ∈ ks then none else s k
  | .setMany kvs => fun k => match AL.get kvs k with | some v => some v | none => s k
  | .directSet k v => fun k' => if k' = k then some v else s k'
  | .directDel k => fun k' => if k' = k then none else s k'

/-- sum of the increments of key `k` in a list of increments `(key, amount)` -/
def isum (k : Nat) : List (Nat × Int) → Int
  | [] => 0
  | (k', n) :: r => (if k' = k then n else 0) + isum k r

/-! ### tasks -/

/-- where a task is parked (or asleep) between two steps -/
inductive PC where
  | start                                         -- parked before its first instruction
  | lockTry (k : Nat) (left : Nat)                -- parked before `set_lock` for the head command; `left` more attempts afterwards
  | lockSleep (k : Nat) (left : Nat) (wake : Nat) -- in `asyncio.sleep(0.1)` after a failed attempt
  | seedGet (k : Nat) (n : Int)                   -- parked before `backend.get(k, 0)` of `incr k n`
  | readGet (k : Nat)                             -- parked before `backend.get(k)` of `get k`
  | expGet (k : Nat)                              -- parked before `backend.get(k, _empty)` of `expire k`
  | existsGet (k : Nat) (v : Int) (e : Bool)      -- parked before `backend.exists(k)` of `set(k, v, exist=e)`
  | direct (c : Cmd)                              -- a task outside a transaction parked before the command itself
  | bodySleep (wake : Nat)
  | commitDel                                     -- parked before `delete_many`
  | commitSet                                     -- parked before `set_many`
  | unlocking (ls : List LockKey) (o : Outcome)   -- parked before `unlock` of the head of `ls`
  | finished (o : Outcome)
  | midDel                                        -- parked before `delete_many` of an explicit `tx.commit()`; the body goes on afterwards
  | midSet                                        -- parked before `set_many` of an explicit `tx.commit()`
  | midUnlock (ls : List LockKey)                 -- parked before `unlock` of the head of `ls`, in `_unlock_updates` of an explicit commit / rollback
  deriving DecidableEq, Repr

structure Task where
  isTx : Bool                 -- the program is one transaction block (else: commands outside any block)
  mode : Mode
  timeout : Nat               -- u
  form : Form
  prog : List Cmd
  pc : PC := .start
  ctx : Bool := false         -- `_transaction.get() is not None` in this task's context
  depth : Nat := 0            -- nested blocks currently open
  ov : AL := []               -- `_local_cache`
  del : List Nat := []        -- `_to_delete`
  locks : List LockKey := []  -- `_locks` (kept sorted: the harness releases the gathered unlocks in key order)
  results : List (Option Int) := []
  enterAt : Nat := 0
  reads : List (Option Int) := []   -- ghost: what its backend reads returned, in order
  cmuts : List Mut := []            -- ghost: the store mutations of its explicit `tx.commit()`s so far
  pend : List (Nat × Int) := []     -- ghost: the increments `(k, n)` it issued since its last commit / rollback (buffered, not in the store)
  cinc : List (Nat × Int) := []     -- ghost: its increments that a commit has made durable
  deriving Repr

/-- `wait = timeout; while wait > 0: wait -= 0.1 …` — number of `set_lock` attempts -/
def attempts (timeout : Nat) : Nat := (timeout + 3) / 4

def lockLe : LockKey → LockKey → Bool
  | none, _ => true
  | some _, none => false
  | some a, some b => decide (a ≤ b)

def insertLock (l : LockKey) : List LockKey → List LockKey
  | [] => [l]
  | x :: r => if lockLe l x then l :: x :: r else x :: insertLock l r

/-- `lock_key in self._locks` (fast mode takes no locks) -/
def holds (t : Task) (k : Nat) : Bool :=
  t.mode == .fast || t.locks.contains (lockKeyOf t.mode k)

/-- rollback + `_unlock_updates` after an exception in the body (`__aexit__` with `exc_tb`) -/
def abort (t : Task) (o : Outcome) : Task :=
  if t.locks = [] then { t with ov := [], del := [], pend := [], prog := [], pc := .finished o }
  else { t with ov := [], del := [], pend := [], prog := [], pc := .unlocking t.locks o, locks := [] }

/-- `_clear_local_storage()` then `_unlock_updates()` at the end of the commit that `__aexit__` runs -/
def afterCommit (t : Task) : Task :=
  if t.locks = [] then
    { t with ov := [], del := [], cinc := t.cinc ++ t.pend, pend := [], pc := .finished (.returned t.results) }
  else
    { t with ov := [], del := [], cinc := t.cinc ++ t.pend, pend := [],
             pc := .unlocking t.locks (.returned t.results), locks := [] }

/-- the body ended normally: `__aexit__` without exception = commit
(`if self._to_delete: delete_many`, then `set_many` per expire group — one group, no TTLs here) -/
def endOfProg (t : Task) : Task :=
  if t.ctx then
    if t.del ≠ [] then { t with prog := [], pc := .commitDel }
    else if t.ov ≠ [] then { t with prog := [], pc := .commitSet }
    else afterCommit { t with prog := [] }
  else { t with prog := [], pc := .finished (.returned t.results) }

/-- `TransactionBackend.set(key, value, exist=e)` once `self.exists(key)` is known to be `p`:
`if exist is not None and await self.exists(key) is not exist: return False` /
`_to_delete.discard(key); return await _local_cache.set(key, value)` (→ True) -/
def setxApply (t : Task) (k : Nat) (v : Int) (e p : Bool) : Task :=
  if p = e then { t with ov := t.ov.put k v, del := t.del.filter (· ≠ k), results := t.results ++ [some 1] }
  else { t with results := t.results ++ [some 0] }

/-- a command that needs no backend command (given the task's local state): `some` new local state.
`none`: the task must park (lock needed, backend read needed, direct command, sleep) or raises. -/
def localCmd (t : Task) : Cmd → Option Task
  | .set k v =>
    -- LockTransactionBackend.set: `_lock_updates(key)`; TransactionBackend.set (exist=None):
    -- `_to_delete.discard(key); _local_cache.set(key, value)`
    if t.ctx && holds t k then some { t with ov := t.ov.put k v, del := t.del.filter (· ≠ k) } else none
  | .incr k n =>
    -- `if not local.exists(key) and key not in _to_delete: current = backend.get(key, 0); local.set(key, current)`
    -- `_to_delete.discard(key); return local.incr(key, value)`
    if t.ctx && holds t k then
      match t.ov.get k with
      | some v => some { t with ov := t.ov.put k (v + n), results := t.results ++ [some (v + n)], pend := t.pend ++ [(k, n)] }
      | none =>
        if k ∈ t.del then
          some { t with ov := t.ov.put k n, del := t.del.filter (· ≠ k), results := t.results ++ [some n],
                        pend := t.pend ++ [(k, n)] }
        else none
    else none
  | .get k =>
    -- `if key in _to_delete: return default; value = local.get(key); if found: return value; return backend.get(key)`
    if t.ctx then
      if k ∈ t.del then some { t with results := t.results ++ [none] }
      else match t.ov.get k with
        | some v => some { t with results := t.results ++ [some v] }
        | none => none
    else none
  | .delete k =>
    -- `_lock_updates(key); local.delete(key); _to_delete.add(key)`
    if t.ctx && holds t k then some { t with ov := t.ov.erase k, del := k :: t.del.filter (· ≠ k) } else none
  | .expire k =>
    -- LockTransactionBackend.expire: `_lock_updates(key)` first, whatever follows;
    -- TransactionBackend.expire: `if key in _to_delete: return`,
    -- `if local.exists(key): return local.expire(key, timeout)` (same value, new TTL),
    -- else `value = backend.get(key, _empty)` …
    if t.ctx && holds t k then
      if k ∈ t.del then some t
      else match t.ov.get k with
        | some _ => some t
        | none => none
    else none
  | .setx k v e =>
    -- LockTransactionBackend.set: `_lock_updates(key)`; TransactionBackend.exists:
    -- `if local.exists(key): return True; if key in _to_delete: return False; return backend.exists(key)`
    if t.ctx && holds t k then
      match t.ov.get k with
      | some _ => some (setxApply t k v e true)
      | none => if k ∈ t.del then some (setxApply t k v e false) else none
    else none
  | .sleep _ => none
  | .raise _ => none
  | .nestIn _ => some { t with depth := t.depth + 1 }   -- `__aenter__` with a current transaction: `_inner = True`
  | .nestOut _ => some { t with depth := t.depth - 1 }  -- `__aexit__` of an inner block, with or without `exc_tb`: nothing
  | .commit =>
    -- `Transaction.commit()` → `LockTransactionBackend.commit()`: `try: super().commit() finally: _unlock_updates()`;
    -- with nothing buffered and no lock held no backend command is issued
    if t.ctx then
      if t.del = [] ∧ t.ov = [] ∧ t.locks = [] then some { t with cinc := t.cinc ++ t.pend, pend := [] } else none
    else some t                                         -- no `Transaction` object outside a block: not a program
  | .rollback =>
    -- `Transaction.rollback()` → `_clear_local_storage()`, then `_unlock_updates()`
    if t.ctx then
      if t.locks = [] then some { t with ov := [], del := [], pend := [] } else none
    else some t

/-- `expire` of a key the transaction has neither written nor deleted, after `backend.get(key, _empty)` returned
`cur`: `if value is _empty: return` / `local.set(key, value, expire=timeout)` — what the backend holds is buffered -/
def expBuffer (t : Task) (k : Nat) (cur : Option Int) : Task :=
  match cur with
  | some v => { t with ov := t.ov.put k v, reads := t.reads ++ [cur] }
  | none => { t with reads := t.reads ++ [cur] }

/-- park before `set_lock`, or give up at once when the timeout allows no attempt -/
def lockOrFail (t : Task) (k : Nat) (prog : List Cmd) : Task :=
  match attempts t.timeout with
  | 0 => abort t .raisedLocked
  | a + 1 => { t with prog := prog, pc := .lockTry k a }

/-- the command `c` cannot run locally: where does the task stop? -/
def park (now : Nat) (t : Task) (c : Cmd) (rest : List Cmd) : Task :=
  match c with
  | .sleep d => { t with prog := rest, pc := .bodySleep (now + 5 * d) }
  | .raise e => abort t (.raised e)                     -- `__aexit__(type(e), e, tb)`: `exc_tb` is set → rollback, whatever `e` is
  | .set k _ => if t.ctx then lockOrFail t k (c :: rest) else { t with prog := rest, pc := .direct c }
  | .delete k => if t.ctx then lockOrFail t k (c :: rest) else { t with prog := rest, pc := .direct c }
  | .incr k n =>
    if t.ctx then
      if holds t k then { t with prog := rest, pc := .seedGet k n } else lockOrFail t k (c :: rest)
    else { t with prog := rest, pc := .direct c }
  | .get k => if t.ctx then { t with prog := rest, pc := .readGet k } else { t with prog := rest, pc := .direct c }
  | .expire k =>
    if t.ctx then
      if holds t k then { t with prog := rest, pc := .expGet k } else lockOrFail t k (c :: rest)
    else { t with prog := rest, pc := .direct c }
  | .setx k v e =>
    if t.ctx then
      if holds t k then { t with prog := rest, pc := .existsGet k v e } else lockOrFail t k (c :: rest)
    else { t with prog := rest, pc := .direct c }
  | .nestIn _ => t
  | .nestOut _ => t
  | .commit =>
    -- `if self._to_delete: await backend.delete_many(...)`, `await backend.set_many(...)`, `finally: _unlock_updates()`
    if t.del ≠ [] then { t with prog := rest, pc := .midDel }
    else if t.ov ≠ [] then { t with prog := rest, pc := .midSet }
    else { t with prog := rest, cinc := t.cinc ++ t.pend, pend := [], pc := .midUnlock t.locks, locks := [] }
  | .rollback =>
    -- `_clear_local_storage()`; `locks = self._locks; self._locks = set(); gather(unlock …)`
    { t with prog := rest, ov := [], del := [], pend := [], pc := .midUnlock t.locks, locks := [] }

/-- run task-local code until the next backend command, sleep, or the end -/
def settle (now : Nat) : List Cmd → Task → Task
  | [], t => endOfProg t
  | c :: rest, t =>
    match localCmd t c with
    | some t' => settle now rest t'
    | none => park now t c rest

/-- an explicit `tx.commit()` has issued its backend commands: `_clear_local_storage()`, then `_unlock_updates()`
(`locks = self._locks; self._locks = set()`); without locks the body goes straight on -/
def afterMid (now : Nat) (t : Task) : Task :=
  if t.locks = [] then
    settle now t.prog { t with cmuts := t.cmuts ++ commitMutsOf t.ov t.del, ov := [], del := [],
                               cinc := t.cinc ++ t.pend, pend := [] }
  else
    { t with cmuts := t.cmuts ++ commitMutsOf t.ov t.del, ov := [], del := [], cinc := t.cinc ++ t.pend, pend := [],
             pc := .midUnlock t.locks, locks := [] }

/-- `task.cancel()` reaches the task: `asyncio.CancelledError` is raised at the await it is suspended at.  Inside the
body of its block (parked before a backend command of the body, before / between `set_lock` attempts, in a sleep) the
exception propagates out of the body, `__aexit__` sees `exc_tb` and rolls back: exactly `abort`.  A task outside any block
simply ends.  (A task that has not started, has finished, or is inside a commit / an unlock — `__aexit__` or an explicit
`tx.commit()` already running — is not cancelled here: cancelling a *commit* half way is not a question of this
property; the harness does not do it.) -/
def cancelTask (t : Task) : Task :=
  match t.pc with
  | .lockTry _ _ => abort t .cancelled
  | .lockSleep _ _ _ => abort t .cancelled
  | .seedGet _ _ => abort t .cancelled
  | .readGet _ => abort t .cancelled
  | .expGet _ => abort t .cancelled
  | .existsGet _ _ _ => abort t .cancelled
  | .bodySleep _ => abort t .cancelled
  | .direct _ => abort t .cancelled
  | _ => t

/-! ### the world -/

abbrev Locks := LockKey → Option (Nat × Nat)    -- owner task, lease deadline

structure World where
  now : Nat
  store : Store
  lock : Locks
  tasks : Nat → Task
  log : List (Nat × Mut) := []        -- ghost: every mutation of a data key, with the task whose step made it

/-- `Memory.set(exist=False)` on the lock key: succeeds iff absent or expired (`expire_at <= time.time()`) -/
def lockFree (lk : Locks) (l : LockKey) (now : Nat) : Bool :=
  match lk l with
  | none => true
  | some (_, d) => decide (d ≤ now)

/-- `Memory.unlock(key, token)`: delete only when the live entry carries the caller's token -/
def unlockOne (lk : Locks) (l : LockKey) (tid now : Nat) : Locks :=
  match lk l with
  | some (o, d) => if o = tid ∧ now < d then fun l' => if l' = l then none else lk l' else lk
  | none => lk

inductive Act where
  | run (tid : Nat)
  | adv (d : Nat)
  | cancel (tid : Nat)       -- somebody calls `task.cancel()` on task `tid`
  deriving DecidableEq, Repr

/-- what one step of one task does: new shared state, new task state, store mutations made -/
structure Eff where
  store : Store
  lock : Locks
  task : Task
  muts : List Mut := []

/-- a command of a task outside any transaction goes straight to the backend -/
def directStep (now : Nat) (store : Store) (lock : Locks) (t : Task) : Cmd → Eff
  | .set k v =>
    { store := (Mut.directSet k v).apply store, lock := lock, task := settle now t.prog t, muts := [.directSet k v] }
  | .incr k n =>
    -- Memory.incr: `value += int(self._get(key, 0))`
    let v := (store k).getD 0 + n
    let t1 := { t with results := t.results ++ [some v] }
    { store := (Mut.directSet k v).apply store, lock := lock, task := settle now t1.prog t1, muts := [.directSet k v] }
  | .get k =>
    let t1 := { t with results := t.results ++ [store k] }
    { store := store, lock := lock, task := settle now t1.prog t1 }
  | .delete k =>
    { store := (Mut.directDel k).apply store, lock := lock, task := settle now t.prog t, muts := [.directDel k] }
  | .setx k v e =>
    -- Memory.set(exist=e): `if exist is not None and (await self._key_exist(key)) is not exist: return False`
    let t1 := { t with results := t.results ++ [some (if (store k).isSome = e then 1 else 0)] }
    { store := if (store k).isSome = e then (Mut.directSet k v).apply store else store, lock := lock,
      task := settle now t1.prog t1, muts := if (store k).isSome = e then [.directSet k v] else [] }
  | .expire _ =>
    -- Memory.expire: `_set(key, value, timeout)` with the value it holds: no value changes
    { store := store, lock := lock, task := settle now t.prog t }
  | _ => { store := store, lock := lock, task := t }

/-- the task `tid` is released from its gate: it executes the backend command it was parked before and
runs on to its next gate -/
def taskStep (tid now : Nat) (store : Store) (lock : Locks) (t : Task) : Eff :=
  match t.pc with
  | .start =>
    -- tx: `__aenter__` → `start()`: `_transaction.set(Transaction(mode, timeout))`
    let t1 := if t.isTx then { t with ctx := true, enterAt := now } else t
    { store := store, lock := lock, task := settle now t1.prog t1 }
  | .lockTry k left =>
    let l := lockKeyOf t.mode k
    if lockFree lock l now then
      -- `set_lock(lock_key, self._lock_id, expire=self._timeout)` succeeded: `_locks.add(lock_key)`
      let t1 := { t with locks := insertLock l t.locks }
      { store := store, lock := fun l' => if l' = l then some (tid, now + t.timeout) else lock l',
        task := settle now t1.prog t1 }
    else
      -- failed: `await asyncio.sleep(step)`
      { store := store, lock := lock, task := { t with pc := .lockSleep k left (now + 4) } }
  | .lockSleep _ _ _ => { store := store, lock := lock, task := t }
  | .bodySleep _ => { store := store, lock := lock, task := t }
  | .seedGet k n =>
    -- `current = await self._backend.get(key, 0); local.set(key, current); return local.incr(key, value)`
    let cur := (store k).getD 0
    let t1 := { t with ov := t.ov.put k (cur + n), results := t.results ++ [some (cur + n)],
                       reads := t.reads ++ [store k], pend := t.pend ++ [(k, n)] }
    { store := store, lock := lock, task := settle now t1.prog t1 }
  | .readGet k =>
    let t1 := { t with results := t.results ++ [store k], reads := t.reads ++ [store k] }
    { store := store, lock := lock, task := settle now t1.prog t1 }
  | .expGet k =>
    -- `value = await self._backend.get(key, default=_empty); if value is _empty: return`
    -- `await self._local_cache.set(key, value, expire=timeout)`: the store's current value is buffered
    let t1 := expBuffer t k (store k)
    { store := store, lock := lock, task := settle now t1.prog t1 }
  | .existsGet k v e =>
    -- `await self._backend.exists(key)`, then the rest of `TransactionBackend.set`
    let t1 := setxApply { t with reads := t.reads ++ [store k] } k v e (store k).isSome
    { store := store, lock := lock, task := settle now t1.prog t1 }
  | .direct c => directStep now store lock t c
  | .commitDel =>
    -- `await self._backend.delete_many(*self._to_delete)`
    { store := (Mut.delMany t.del).apply store, lock := lock,
      task := if t.ov ≠ [] then { t with pc := .commitSet } else afterCommit t, muts := [.delMany t.del] }
  | .commitSet =>
    -- `await self._backend.set_many(kv, expire=None)`
    { store := (Mut.setMany t.ov).apply store, lock := lock, task := afterCommit t, muts := [.setMany t.ov] }
  | .unlocking ls o =>
    match ls with
    | [] => { store := store, lock := lock, task := { t with pc := .finished o } }
    | l :: rest =>
      { store := store, lock := unlockOne lock l tid now,
        task := { t with pc := if rest = [] then .finished o else .unlocking rest o } }
  | .finished _ => { store := store, lock := lock, task := t }
  | .midDel =>
    -- `await self._backend.delete_many(*self._to_delete)` of an explicit commit
    { store := (Mut.delMany t.del).apply store, lock := lock,
      task := if t.ov ≠ [] then { t with pc := .midSet } else afterMid now t, muts := [.delMany t.del] }
  | .midSet =>
    { store := (Mut.setMany t.ov).apply store, lock := lock, task := afterMid now t, muts := [.setMany t.ov] }
  | .midUnlock ls =>
    -- `await asyncio.gather(*[self._backend.unlock(key, self._lock_id) for key in locks])`, then the body goes on
    match ls with
    | [] => { store := store, lock := lock, task := settle now t.prog t }
    | l :: rest =>
      { store := store, lock := unlockOne lock l tid now,
        task := if rest = [] then settle now t.prog t else { t with pc := .midUnlock rest } }

def World.runTask (w : World) (tid : Nat) : World :=
  let e := taskStep tid w.now w.store w.lock (w.tasks tid)
  { now := w.now, store := e.store, lock := e.lock,
    tasks := fun i => if i = tid then e.task else w.tasks i,
    log := w.log ++ e.muts.map (fun m => (tid, m)) }

/-- a timer fires for a sleeping task at (or after) its wake-up instant -/
def wake (now : Nat) (t : Task) : Task :=
  match t.pc with
  | .bodySleep w => if w ≤ now then settle now t.prog t else t
  | .lockSleep k left w =>
    if w ≤ now then
      match left with
      | 0 => abort t .raisedLocked          -- `raise LockedError(...)`
      | n + 1 => { t with pc := .lockTry k n }
    else t
  | _ => t

def World.step (w : World) : Act → World
  | .run tid => w.runTask tid
  | .adv d => { w with now := w.now + d, tasks := fun i => wake (w.now + d) (w.tasks i) }
  | .cancel tid => { w with tasks := fun i => if i = tid then cancelTask (w.tasks i) else w.tasks i }

def World.run (w : World) (sched : List Act) : World := sched.foldl World.step w

/-- a finished plain task: what `tasks` holds beyond the real ones -/
def Task.inert : Task :=
  { isTx := false, mode := .fast, timeout := 0, form := .ctx, prog := [], pc := .finished (.returned []) }

def World.init (store : Store) (ts : List Task) : World :=
  { now := 0, store := store, lock := fun _ => none, tasks := fun i => ts.getD i Task.inert }

end CashewsVerif.TxSched
