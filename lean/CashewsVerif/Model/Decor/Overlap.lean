import CashewsVerif.Model.Decor.Soft
import CashewsVerif.Model.Decor.Fail
/-
OVERLAPPING calls of one failover / soft function for one key (C14: only the sentence about `hit` is restricted to
sequential histories).  A call is no longer atomic: it BEGINS (everything the decorator does before `await func(...)`),
other calls begin or finish, time passes, and later its function body FINISHES with a scripted outcome (everything the
decorator does afterwards, at that instant).  Executions get their ordinal when they begin.

failover (`Cache.failover`: never single-flight) and soft with `protected=False` (no thunder protection): every call that
gets as far as the function runs its own body.  After the repair of D39 neither decorator carries anything read before
the function into what it does after it, so a pending call is just its execution ordinal.
-/
namespace CashewsVerif.Decor.Overlap

inductive COp where
  | begin                          -- a call begins (for soft: reads the store, serves a young result or starts executing)
  | fin (i : Nat) (o : Outcome)    -- the function body of the i-th oldest pending call finishes with outcome `o`
  | adv (dt : Nat)
  deriving DecidableEq, Repr

inductive CAns where
  | began (id : Nat)     -- the call is now inside the function (execution ordinal `id`)
  | served (r : Res)     -- the call was answered at once, without executing
  | answered (r : Res)   -- the pending call whose body finished is answered
  | ok
  | noop                 -- no such pending call
  deriving DecidableEq, Repr

structure St where
  t : TtlMap
  next : Nat              -- executions begun so far
  pending : List Nat      -- execution ordinals of the calls that are inside the function, oldest first

def init : St := { t := TtlMap.init, next := 0, pending := [] }

/-- failover, from the moment the body with ordinal `id` has finished: fail.py `except exceptions: cached = backend.get …`
/ `else: if condition(…): backend.set(key, result, expire=ttl); return result` -/
def failFinish (c : Fail.Cfg) (t : TtlMap) (id : Nat) (o : Outcome) : TtlMap × Res :=
  match o with
  | .ok => (t.write kMain (pack2 t.now id) (some c.ttl), .fresh t.now id)
  | .listed =>
    match cached2 t with
    | some (stamp, id0) => (t, .stored stamp id0)
    | none => (t, .raised .listed)
  | .unlisted => (t, .raised .unlisted)
  | .rejected => (t, .fresh t.now id)
  | .storeFails _ l => (t, .storeErr l)

/-- soft (protected=False), from the moment the body with ordinal `id` has finished: soft.py `except exceptions:
cached = await backend.get(…)` (read AGAIN, now) / `else: … backend.set(key, [soft_expire_at, result], expire=ttl)` -/
def softFinish (c : Soft.Cfg) (t : TtlMap) (id : Nat) (o : Outcome) : TtlMap × Res :=
  match o with
  | .ok => (Soft.save c t id, .fresh t.now id)
  | .listed =>
    match cached3 t with
    | some (stamp, id0, _) => (t, .stored stamp id0)
    | none => (t, .raised .listed)
  | .unlisted => (t, .raised .unlisted)
  | .rejected => (t, .fresh t.now id)
  | .storeFails _ l => (t, .storeErr l)

def enter (s : St) : St × CAns :=
  ({ s with next := s.next + 1, pending := s.pending ++ [s.next] }, .began s.next)

def finishWith (fin : TtlMap → Nat → Outcome → TtlMap × Res) (s : St) (i : Nat) (o : Outcome) : St × CAns :=
  match s.pending[i]? with
  | none => (s, .noop)
  | some id => let r := fin s.t id o; ({ s with t := r.1, pending := s.pending.eraseIdx i }, .answered r.2)

/-- failover: `_wrap` goes straight into `await func(...)` -/
def failStep (c : Fail.Cfg) (s : St) : COp → St × CAns
  | .begin => enter s
  | .fin i o => finishWith (failFinish c) s i o
  | .adv dt => ({ s with t := advance s.t dt }, .ok)

/-- soft: `cached = await backend.get(…); if cached is not _empty and soft_expire_at > now: return result` else the function -/
def softStep (c : Soft.Cfg) (s : St) : COp → St × CAns
  | .begin =>
    match cached3 s.t with
    | some (stamp, id0, inner) => if s.t.now < inner then (s, .served (.stored stamp id0)) else enter s
    | none => enter s
  | .fin i o => finishWith (softFinish c) s i o
  | .adv dt => ({ s with t := advance s.t dt }, .ok)

end CashewsVerif.Decor.Overlap
