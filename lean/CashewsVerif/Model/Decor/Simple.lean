import CashewsVerif.Model.Decor.Outcome
/-
Model of `cashews/decorators/cache/simple.py` (`cache`) over the ideal TTL map.
The wrapped function is a script `Nat → Beh`: the n-th execution (counted over the whole
history) does `script n`.  Mathlib-free.
-/
namespace CashewsVerif.Decor.Simple
open CashewsVerif CashewsVerif.Decor

/-- ```
    cond_result = condition(result, args, kwargs, key=_cache_key)
    if isinstance(cond_result, bool) and cond_result and not isinstance(result, Exception):
        await backend.set(_cache_key, result, expire=_ttl, tags=_tags)
    elif isinstance(cond_result, Exception):
        await backend.set(_cache_key, RaiseException(result), expire=_ttl, tags=_tags)
    ```
    `true` = the outcome is stored (plain or wrapped, which `Res.enc` tells from the kind). -/
def accepts (c : Cond) (b : Beh) : Bool :=
  match c.eval b.kind b.dur, b.kind with
  | .bool true, .exc _ _ => false
  | .bool true, .eobj _ _ => false      -- `not isinstance(result, Exception)`: a returned exception object is not stored
  | .bool true, _ => true
  | .theExc, _ => true
  | _, _ => false

structure Cfg where
  cond : Cond
  /-- `ttl_to_seconds(ttl, *args, **kwargs, result=result, with_callable=True)` in ticks: a function of the call's
  key (its bound arguments) and the result -/
  ttl : Nat → Res → Nat

/-- one real execution of the wrapped function, as logged (ghost state) -/
structure Exec where
  key : Nat
  at_ : Nat            -- instant at which it returned / raised
  beh : Beh
  res : Res
  deriving DecidableEq, Repr

structure St where
  store : TtlMap
  execs : List Exec

def St.init : St := { store := TtlMap.init, execs := [] }

inductive Op where
  | call (k : Nat)     -- a call whose bound arguments render to key `k`
  | lost (k : Nat)     -- such a call under thunder protection (`protected=True`) whose caller is cancelled while the
                       -- function is running: the call itself is shielded (`asyncio.shield(task)`) and completes
  | cut (k : Nat)      -- such a call without thunder protection whose caller is cancelled as the function starts to
                       -- work: `CancelledError` (not an `Exception`) leaves `_wrap` at once, nothing is computed or stored
  | adv (dt : Nat)
  deriving DecidableEq, Repr

inductive Out where
  | unit
  | got (r : Res) (cached : Bool)    -- the caller got `r` (returned, or raised if `r` is `exc`); from the store?
  | lost (executed : Bool)           -- the caller was cancelled and got nothing; did the execution complete all the same?
  deriving DecidableEq, Repr

/-- `_wrap`:
```
    cached = await backend.get(_cache_key, default=_empty)
    if cached is not _empty:   return return_or_raise(cached)
    try: result = await func(*args, **kwargs)
    except Exception as exc: ...
    _ttl = ttl_to_seconds(ttl, *args, **kwargs, result=result, with_callable=True)
    (condition, set - see `accepts`);  raise / return
``` -/
def callStep (cfg : Cfg) (script : Nat → Beh) (s : St) (k : Nat) : St × Out :=
    match s.store.find k with
    | some e => (s, .got (Res.dec e.val) true)
    | none =>
      let n := s.execs.length
      let b := script n
      let r := b.kind.res n 0
      let t1 := advance s.store b.dur
      let t2 := if accepts cfg.cond b then t1.write k r.enc (some (cfg.ttl k r)) else t1
      ({ store := t2, execs := s.execs ++ [⟨k, t1.now, b, r⟩] }, .got r false)

/-- what a caller that is cancelled while the function runs gets to see: an answer from the store comes before anything
suspends (the caller has it), the outcome of an execution does not reach it -/
def Out.hide : Out → Out
  | .got _ false => .lost true
  | o => o

def step (cfg : Cfg) (script : Nat → Beh) (s : St) : Op → St × Out
  | .adv dt => ({ s with store := advance s.store dt }, .unit)
  | .call k => callStep cfg script s k
  | .lost k =>      -- `thunder_protection`: `task = create_task(func(...)); return await asyncio.shield(task)`
    ((callStep cfg script s k).1, (callStep cfg script s k).2.hide)
  | .cut k =>
    match s.store.find k with
    | some e => (s, .got (Res.dec e.val) true)
    | none => (s, .lost false)

def run (cfg : Cfg) (script : Nat → Beh) (s : St) : List Op → St × List Out
  | [] => (s, [])
  | op :: ops =>
    let (s', o) := step cfg script s op
    let (s'', os) := run cfg script s' ops
    (s'', o :: os)

end CashewsVerif.Decor.Simple
