import CashewsVerif.Model.Decor.SlideRate
/-
Model of `cashews/decorators/circuit_breaker.py` with `half_open_ttl=None` (the half-open branch
draws `random.randint`; it is kept out of play as the property does).
-/
namespace CashewsVerif.Decor.Breaker

/-- scripted behaviour of the wrapped function -/
inductive Outcome where
  | ok        -- returns
  | fail      -- raises an exception that is an instance of `exceptions`
  | other     -- raises an exception outside `exceptions` (passes through uncounted)
  deriving DecidableEq, Repr

structure Params where
  rate     : Nat    -- errors_rate, percent
  period   : Nat
  ttl      : Nat
  minCalls : Nat
  cap      : Nat := 9999     -- the literal `9999` passed as maxvalue
  deriving Repr

def kOpen : Nat := 0       -- `_cache_key + ":open"`
def kTotal : Nat := 1      -- `_cache_key + ":total"`
def kFails : Nat := 2      -- `_cache_key + ":fails"`
def kHalf : Nat := 3       -- `_cache_key + ":halfopen"` (never written when half_open_ttl is None)

/-- what one call did -/
inductive Res where
  | rejected                            -- `raise CircuitBreakerOpen()`
  | ran (oc : Outcome) (tripped : Bool) -- the function was executed; `tripped` = `set_lock(":open")` was issued
  deriving DecidableEq, Repr

structure BEv where
  ts    : Nat
  res   : Res
  total : Nat := 0        -- ghost: what `slice_incr(":total")` returned (0 when rejected)
  fails : Nat := 0        -- ghost: what `slice_incr(":fails")` returned (0 unless the call failed)
  openAfter : Bool        -- is `:open` live right after the call
  deriving DecidableEq, Repr

/-- `_get_requests_count(backend, key, period)`:
    `slice_incr(key, timestamp - period, timestamp, 9999, expire=period)` -/
def count (p : Params) (t : TtlMap) (k : Nat) (ts : Nat) : TtlMap × Nat :=
  sliceIncr t k p.period ts p.cap (some p.period)

/-- `total and not total < min_calls and fails * 100 / total >= errors_rate`.
    The float quotient is compared exactly in integers: see `Lemmas/C15Breaker.trip_rule_exact`. -/
def trips (p : Params) (total fails : Nat) : Bool :=
  total ≠ 0 && !(decide (total < p.minCalls)) && decide (p.rate * total ≤ fails * 100)

def isOpen (t : TtlMap) : Bool := (t.find kOpen).isSome

def call (p : Params) (t : TtlMap) (c : Nat × Outcome) : TtlMap × BEv :=
  let t0 := (t.step (.adv c.1)).1
  -- if await backend.is_locked(_cache_key + ":open"): raise CircuitBreakerOpen()
  if isOpen t0 then (t0, { ts := t0.now, res := .rejected, openAfter := true })
  else
    -- `await backend.exists(_cache_key + ":halfopen")` is False: the key is never written
    -- total = await _get_requests_count(backend, _cache_key + ":total", period)
    let (t1, total) := count p t0 kTotal t0.now
    match c.2 with
    | .fail =>
      -- except exceptions: fails = await _get_requests_count(backend, _cache_key + ":fails", period)
      let (t2, fails) := count p t1 kFails t1.now
      if trips p total fails then
        -- await backend.set_lock(_cache_key + ":open", value=1, expire=ttl)   (= set(..., exist=False))
        let t3 := (t2.step (.set kOpen (.int 1) (some p.ttl) .nx)).1
        (t3, { ts := t0.now, res := .ran .fail true, total := total, fails := fails, openAfter := isOpen t3 })
      else (t2, { ts := t0.now, res := .ran .fail false, total := total, fails := fails, openAfter := isOpen t2 })
    | oc => (t1, { ts := t0.now, res := .ran oc false, total := total, openAfter := isOpen t1 })

def run (p : Params) (t : TtlMap) : List (Nat × Outcome) → List BEv
  | [] => []
  | c :: rest =>
    let (t', e) := call p t c
    e :: run p t' rest

end CashewsVerif.Decor.Breaker
