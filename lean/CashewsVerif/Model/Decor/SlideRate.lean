import CashewsVerif.Model.Decor.Rate
/-
Model of `Memory.slice_incr` (cashews/backends/memory.py) over the ideal TTL map, and of
`cashews/decorators/rate_slide.py` (`slice_rate_limit`, the sliding-log limiter).
-/
namespace CashewsVerif.Decor

/-- `val_list = await self._get(key)`: the stored list, nothing if absent / lapsed / not a list -/
def logOf (t : TtlMap) (k : Nat) : List Nat :=
  match t.find k with
  | some ⟨.nums l, _⟩ => l
  | _ => []

/-- the window test `start <= val < end` with `start = end - period` (no truncated subtraction) -/
def inWindow (period end_ v : Nat) : Bool := decide (end_ ≤ v + period) && decide (v < end_)

/-- `Memory.slice_incr(key, start=end-period, end, maxvalue, expire)`:
    keep the entries inside the window, append `end` unless `maxvalue` entries are already
    inside, store the list with a fresh TTL, return the count. -/
def sliceIncr (t : TtlMap) (k : Nat) (period end_ maxv : Nat) (ttl : Option Nat) : TtlMap × Nat :=
  let kept := (logOf t k).filter (inWindow period end_)      -- `if start <= val < end: count += 1; new_val.append(val)`
  if kept.length < maxv then                                  -- `if count < maxvalue: count += 1; new_val.append(end)`
    (t.write k (.nums (kept ++ [end_])) ttl, kept.length + 1)
  else
    (t.write k (.nums kept) ttl, kept.length)                 -- `self._set(key, new_val, expire=expire)`; `return count`

namespace SlideRate

structure Params where
  limit  : Nat
  period : Nat
  deriving Repr

def key : Nat := 0

/-- `_get_requests_count`: `slice_incr(key, timestamp - period, timestamp, maxvalue=limit + 1, expire=period)` -/
def count (p : Params) (t : TtlMap) (ts : Nat) : TtlMap × Nat :=
  sliceIncr t key p.period ts (p.limit + 1) (some p.period)

/-- `if requests_count and requests_count > limit:` → `return action(...)` -/
def rejects (p : Params) (c : Nat) : Bool := c ≠ 0 && c > p.limit

def call (p : Params) (t : TtlMap) (dt : Nat) : TtlMap × Ev :=
  let t0 := (t.step (.adv dt)).1
  let (t1, c) := count p t0 t0.now          -- `timestamp = datetime.now(timezone.utc).timestamp()`
  (t1, ⟨t0.now, if rejects p c then .reject else .run⟩)

def run (p : Params) (t : TtlMap) : List Nat → List Ev
  | [] => []
  | dt :: rest =>
    let (t', e) := call p t dt
    e :: run p t' rest

end SlideRate
end CashewsVerif.Decor
