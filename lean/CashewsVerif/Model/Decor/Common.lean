import CashewsVerif.Spec.TtlMap
/-
Shared vocabulary of the C14 decorator models (early / soft / failover / hit).

The wrapped function is not code but a *script of outcomes*: every call operation carries the
outcome its execution would have (used iff the call really executes the function) and the DURATION `d`
of that execution (virtual ticks that pass while the function body runs inside the call: everything the
decorator does before `await func(...)` happens at the instant the call began, everything it does after it
— and the answer itself — `d` ticks later), and every completion of a background refresh carries the outcome
of that refresh (its duration is the time that passed between the call that created the task and the `done`).
A successful execution returns a fresh token `(stamp, id)`: `stamp` is the virtual instant at which it
completed (= the instant its result is stored), `id` the ordinal of the execution.  Served age can therefore
be read off the served value and is judged at the instant the value is handed out (`servedAt`).
A call is atomic: nothing else happens to its key while its function body runs (concurrent callers are C07).

All four models act on one cache key (one argument tuple of the decorated function; different
argument tuples use disjoint keys and do not interact) plus one auxiliary key:
  key 0 : `<prefix>:<func>:<args>`            the stored result
  key 1 : `<key>:lock` (early) / `<key>:counter` (hit)
The store is the ideal TTL map of C01 (`Spec/TtlMap.lean`).

The store step that follows a successful execution (`if condition(result, …): _ttl = ttl_to_seconds(ttl, …,
result=result); await backend.set(key, …, expire=_ttl)`) is scripted as well: with the facade's default
condition (`condition=None` -> `_store_all`), a plain ttl and a healthy backend every successful result is
stored (`ok`); a user `condition` may turn a result down (`rejected`: returned, not stored); and the store step
may itself raise after the function returned — the `condition` callable or a callable `ttl` raises on this
result (`Stage.pre`: before the backend is touched) or `backend.set` raises (`Stage.set`: a middleware / backend
/ serializer refusing the value) — with an exception that may or may not be one of the decorator's listed
`exceptions` (`storeFails stage listed`).  An exception of the wrapped function is never stored.
-/
namespace CashewsVerif.Decor

/-- where the store step of a successful execution raises -/
inductive Stage where
  | pre   -- `condition(result, …)` or a callable `ttl(…, result=result)` raises: the backend is not touched
  | set   -- `backend.set(key, result, expire=…)` raises
  deriving DecidableEq, Repr

/-- scripted outcome of one execution of the wrapped function (and of the store step after it) -/
inductive Outcome where
  | ok         -- returns a fresh token; the store step goes through
  | listed     -- raises an exception that is in the decorator's `exceptions`
  | unlisted   -- raises another exception
  | rejected   -- returns a fresh token which the storing `condition` turns down (returns False)
  | storeFails (st : Stage) (lis : Bool)
               -- returns a fresh token, then the store step raises (an exception that is / is not in `exceptions`)
  deriving DecidableEq, Repr

/-- the function itself returned (whatever happens to its result afterwards) -/
def Outcome.returns : Outcome → Bool
  | .ok | .rejected | .storeFails _ _ => true
  | .listed | .unlisted => false

/-- something raises while this outcome is played: the function, or the store step after it -/
def Outcome.raises : Outcome → Bool
  | .ok | .rejected => false
  | _ => true

/-- the execution gets as far as `backend.set` (which `hit` runs together with the deletion of its counter) -/
def Outcome.reachesSet : Outcome → Bool
  | .ok | .storeFails .set _ => true
  | _ => false

/-- what the caller got -/
inductive Res where
  | fresh (stamp id : Nat)     -- the result of the execution made inside this very call
  | stored (stamp id : Nat)    -- a result read from the store
  | raised (o : Outcome)       -- the exception of the execution made inside this call
  | storeErr (lis : Bool)      -- the exception raised by the store step after the successful execution made inside this call
  | joined (id : Nat)          -- (early) the call found nothing stored while the recalculation with execution ordinal `id` of
                               -- its key is in flight and waits for it: it is handed that recalculation's outcome when it
                               -- completes (`Early.joinedAnswer` at the `done` operation), nothing is executed for it
  | broken                     -- the decorator itself failed (malformed store content; unreachable)
  deriving DecidableEq, Repr

/-- what the caller of a foreground execution with this outcome is handed when the execution is the call's own
computation: its fresh result, the function's exception, or the exception of the store step -/
def Outcome.result (o : Outcome) (now id : Nat) : Res :=
  match o with
  | .ok | .rejected => .fresh now id
  | .storeFails _ l => .storeErr l
  | .listed => .raised .listed
  | .unlisted => .raised .unlisted

structure CallOut where
  res : Res
  exec : Bool       -- the function body ran (to completion) inside this call
  started : Bool    -- this call created a refresh task (`asyncio.create_task`); with `exec = false` it is still
                    -- in flight when the call returns and runs until a later `done`
  deriving DecidableEq, Repr

/-- operations of a history -/
inductive DOp where
  | call (o : Outcome) (d : Nat)   -- one call of the decorated function; IF the function body runs inside the call
                                   -- (in the foreground) it takes `d` ticks before it returns / raises `o`
  | adv (dt : Nat)                 -- virtual time passes
  | done (i : Nat) (o : Outcome)   -- the i-th oldest background refresh in flight completes
  deriving DecidableEq, Repr

/-- the instant at which a call that began at `start` hands out its answer: `d` ticks later iff the function body
ran inside the call (every model proves `(call …).1.t.now = servedAt …`: the clock after the call) -/
def servedAt (start d : Nat) (out : CallOut) : Nat := if out.exec then start + d else start

inductive DoneRes where
  | noop      -- no such refresh in flight
  | stored    -- it succeeded and its result was stored
  | skipped   -- it succeeded and the storing condition turned its result down
  | failed    -- it (or its store step) raised (nobody sees the exception)
  deriving DecidableEq, Repr

inductive Ans where
  | call (out : CallOut)
  | ok
  | done (r : DoneRes)
  deriving DecidableEq, Repr

def kMain : Nat := 0
def kAux : Nat := 1

/-- stored form of a result together with its inner (early / soft) deadline:
`[early_expire_at, result]` -/
def pack3 (stamp id inner : Nat) : Val := .nums [stamp, id, inner]
/-- stored form of a plain result (failover, hit) -/
def pack2 (stamp id : Nat) : Val := .nums [stamp, id]

def unpack3 : Val → Option (Nat × Nat × Nat)
  | .nums [s, i, e] => some (s, i, e)
  | _ => none

def unpack2 : Val → Option (Nat × Nat)
  | .nums [s, i] => some (s, i)
  | _ => none

/-- `backend.get(key, default=_empty)` decoded -/
def cached3 (t : TtlMap) : Option (Nat × Nat × Nat) := (t.find kMain).bind fun e => unpack3 e.val
def cached2 (t : TtlMap) : Option (Nat × Nat) := (t.find kMain).bind fun e => unpack2 e.val

def advance (t : TtlMap) (dt : Nat) : TtlMap := { t with now := t.now + dt }

/-! ### histories -/
section run
variable {σ ο α : Type}

/-- the trace of a history: for every operation the state *before* it, the operation and its answer -/
def trace (step : σ → ο → σ × α) : σ → List ο → List (σ × ο × α)
  | _, [] => []
  | s, o :: os => (s, o, (step s o).2) :: trace step (step s o).1 os

/-- the state after a history -/
def final (step : σ → ο → σ × α) : σ → List ο → σ
  | s, [] => s
  | s, o :: os => final step (step s o).1 os

/-- just the answers of a recorded history -/
def answers (tr : List (σ × ο × α)) : List α := tr.map (·.2.2)

end run
end CashewsVerif.Decor
