import CashewsVerif.Model.Decor.Common
/-
Model of `cashews/decorators/cache/hit.py` (`hit`, `_get_and_save`) as reached through
`Cache.hit(ttl, cache_hits, update_after=…, background=…)`.

Order in time: `_wrap` reads `cached` and bumps the counter when the call begins; `_get_and_save` runs the function (`d`
ticks when it runs inside the call) and deletes the counter / stores the result afterwards; a foreground refresh is
awaited and then the call returns the `cached` it read before (the sentence about hit bounds the number of serves, not
their age).

Mirrored, not judged: with `background=False` the exception of a failing refresh propagates out of
the call (`await task`) instead of the stored result being returned; the property's sentence about
`hit` bounds the number of serves and says when a refresh starts, it does not promise an answer.
-/
namespace CashewsVerif.Decor.Hit

structure Cfg where
  ttl : Nat
  hits : Nat      -- cache_hits
  upd : Nat       -- update_after (0 = never)
  bg : Bool       -- `background`
  deriving Repr

structure St where
  t : TtlMap
  nexec : Nat
  inflight : List Nat     -- execution ids of background refreshes in flight

def init : St := { t := TtlMap.init, nexec := 0, inflight := [] }

/-- `await asyncio.gather(backend.delete(key + ":counter"), backend.set(key, result, expire=ttl))` -/
def save (c : Cfg) (t : TtlMap) (id : Nat) : TtlMap :=
  (t.remove kAux).write kMain (pack2 t.now id) (some c.ttl)

/-- the store step of `_get_and_save` raises: `cond_result = store(result, …)` (or a callable ttl) before anything is
touched; or `backend.set` inside `asyncio.gather(backend.delete(key + ":counter"), backend.set(…))` — the deletion
of the counter is a task of its own and completes, the stored result stays what it was -/
def afterStoreFailure (t : TtlMap) : Stage → TtlMap
  | .pre => t
  | .set => t.remove kAux

/-- `return await _get_and_save(*call_args)` in the foreground, from the moment the function has finished (`t1`: the
store with the counter bumped, its clock at that moment) -/
def execute (c : Cfg) (s : St) (t1 : TtlMap) (o : Outcome) : St × CallOut :=
  let id := s.nexec
  match o with
  | .ok => ({ s with t := save c t1 id, nexec := id + 1 }, ⟨.fresh t1.now id, true, false⟩)
  | .rejected => ({ s with t := t1, nexec := id + 1 }, ⟨.fresh t1.now id, true, false⟩)
  | .storeFails st l => ({ s with t := afterStoreFailure t1 st, nexec := id + 1 }, ⟨.storeErr l, true, false⟩)
  | _ => ({ s with t := t1, nexec := id + 1 }, ⟨.raised o, true, false⟩)

/-- `_wrap` -/
def call (c : Cfg) (s : St) (o : Outcome) (d : Nat) : St × CallOut :=
  -- `cached, hits = await asyncio.gather(backend.get(key, default=_empty), backend.incr(key + ":counter", expire=ttl))`
  let cached := cached2 s.t
  match s.t.incr kAux 1 (some c.ttl) with
  | (t1, .int h) =>
    let id := s.nexec
    match cached with
    | some (stamp, id0) =>
      -- `if cached is not _empty and hits and hits <= cache_hits:`
      if h ≠ 0 ∧ h ≤ (c.hits : Int) then
        -- `if update_after and hits == update_after:`
        if c.upd ≠ 0 ∧ h = (c.upd : Int) then
          if c.bg then
            ({ t := t1, nexec := id + 1, inflight := s.inflight ++ [id] }, ⟨.stored stamp id0, false, true⟩)
          else
            -- `if not background: await task`  (the refresh takes `d` ticks; the exception of a failing refresh
            -- propagates); then `return return_or_raise(cached)`: what was read before the refresh
            let t2 := advance t1 d
            match o with
            | .ok => ({ s with t := save c t2 id, nexec := id + 1 }, ⟨.stored stamp id0, true, true⟩)
            | .rejected => ({ s with t := t2, nexec := id + 1 }, ⟨.stored stamp id0, true, true⟩)
            | .storeFails st l => ({ s with t := afterStoreFailure t2 st, nexec := id + 1 }, ⟨.storeErr l, true, true⟩)
            | _ => ({ s with t := t2, nexec := id + 1 }, ⟨.raised o, true, true⟩)
        else ({ s with t := t1 }, ⟨.stored stamp id0, false, false⟩)
      -- `return await _get_and_save(*call_args)`: the function takes `d` ticks
      else execute c s (advance t1 d) o
    | none => execute c s (advance t1 d) o
  | (t1, _) => ({ s with t := t1 }, ⟨.broken, false, false⟩)    -- `int(counter)` raised: unreachable

/-- a background `_get_and_save` completes -/
def done (c : Cfg) (s : St) (i : Nat) (o : Outcome) : St × DoneRes :=
  match s.inflight[i]? with
  | none => (s, .noop)
  | some id =>
    match o with
    | .ok => ({ s with t := save c s.t id, inflight := s.inflight.eraseIdx i }, .stored)
    | .rejected => ({ s with inflight := s.inflight.eraseIdx i }, .skipped)
    | .storeFails st _ => ({ s with t := afterStoreFailure s.t st, inflight := s.inflight.eraseIdx i }, .failed)
    | _ => ({ s with inflight := s.inflight.eraseIdx i }, .failed)

def step (c : Cfg) (s : St) : DOp → St × Ans
  | .call o d => let r := call c s o d; (r.1, .call r.2)
  | .adv dt => ({ s with t := advance s.t dt }, .ok)
  | .done i o => let r := done c s i o; (r.1, .done r.2)

/-! ### counting serves (functions of the recorded operations and their *answers* only — no ghost state in the model) -/

def isStored : Res → Bool
  | .stored _ _ => true
  | _ => false

/-- this recorded operation got as far as `backend.set` (and so deleted `<key>:counter`): a call that executed
the function, or a completed background refresh, whose scripted outcome reaches the set — the result was
stored, or the backend refused it -/
def reachedSet : DOp → Ans → Bool
  | .call o _, .call out => out.exec && o.reachesSet
  | .done _ o, .done r => r != .noop && o.reachesSet
  | _, _ => false

/-- serves since the last execution event: an answer that executed the function or created a refresh
task resets the count, an answer taken from the store adds one (a foreground refresh executes first
and answers afterwards, hence reset-then-count).  With `resetOnDone` a background refresh that
completes and gets as far as storing its result counts as an execution event too. -/
def runAfter (resetOnDone : Bool) (g : Nat) (op : DOp) : Ans → Nat
  | .call out => (if out.exec || out.started then 0 else g) + (if isStored out.res then 1 else 0)
  | .done r => if resetOnDone && reachedSet op (.done r) then 0 else g
  | _ => g

/-- calls since a store was last made or attempted (= what `<key>:counter` counts while a result lives);
without store-step failures: calls since a result was last stored -/
def callsAfter (k : Nat) (op : DOp) : Ans → Nat
  | .call out => if reachedSet op (.call out) then 0 else k + 1
  | .done r => if reachedSet op (.done r) then 0 else k
  | _ => k

/-- the two counts at the end of a recorded history: (serves since the last execution event,
calls since the last store) -/
def counts (resetOnDone : Bool) (tr : List (St × DOp × Ans)) : Nat × Nat :=
  tr.foldl (fun gk e => (runAfter resetOnDone gk.1 e.2.1 e.2.2, callsAfter gk.2 e.2.1 e.2.2)) (0, 0)

end CashewsVerif.Decor.Hit
