import CashewsVerif.Model.Decor.Common
/-
Model of `cashews/decorators/cache/fail.py` (`failover`) as reached through
`Cache.failover(ttl, exceptions=…, condition=…)` (the facade wraps it in `_wrap_with_condition`; with no nested
cache hit detected the condition is the user's, default "store everything").

The store step sits in the `else:` branch of the `try`, OUTSIDE `except exceptions`: whatever it raises — listed
or not — leaves the wrapper as it is, and the stored result is neither consulted nor changed.

Order in time: `_wrap` computes the key and goes straight into `await func(...)`; the store is touched only AFTER the
function has finished — the fallback `backend.get` inside the `except` handler, the `backend.set` in the `else:`
branch.  A call whose function body takes `d` ticks therefore does everything `d` ticks after it began
(`call = afterExec` on the advanced clock): the fallback is looked up — and its age judged — at the moment of the
failure, not when the call started.
-/
namespace CashewsVerif.Decor.Fail

structure Cfg where
  ttl : Nat
  deriving Repr

structure St where
  t : TtlMap
  nexec : Nat

def init : St := { t := TtlMap.init, nexec := 0 }

/-- the part of `_wrap` that follows `await func(...)`, at the instant the function finished:
`except exceptions: cached = backend.get(key) …;
else: if condition(result, …): _ttl = ttl_to_seconds(ttl, …, result=result); backend.set(key, result, expire=_ttl); return result` -/
def afterExec (c : Cfg) (s : St) (o : Outcome) : St × CallOut :=
  let id := s.nexec
  match o with
  | .ok => ({ t := s.t.write kMain (pack2 s.t.now id) (some c.ttl), nexec := id + 1 }, ⟨.fresh s.t.now id, true, false⟩)
  | .listed =>
    match cached2 s.t with
    | some (stamp, id0) => ({ s with nexec := id + 1 }, ⟨.stored stamp id0, true, false⟩)
    | none => ({ s with nexec := id + 1 }, ⟨.raised .listed, true, false⟩)
  | .unlisted => ({ s with nexec := id + 1 }, ⟨.raised .unlisted, true, false⟩)
  -- `condition(...)` is False: `return result`, nothing stored
  | .rejected => ({ s with nexec := id + 1 }, ⟨.fresh s.t.now id, true, false⟩)
  -- the condition / the callable ttl / `backend.set` raises in the `else:` branch: it propagates
  | .storeFails _ l => ({ s with nexec := id + 1 }, ⟨.storeErr l, true, false⟩)

/-- `_wrap`: `result = await func(*args, **kwargs)` comes first and takes `d` ticks; nothing is read before it -/
def call (c : Cfg) (s : St) (o : Outcome) (d : Nat) : St × CallOut :=
  afterExec c { s with t := advance s.t d } o

def step (c : Cfg) (s : St) : DOp → St × Ans
  | .call o d => let r := call c s o d; (r.1, .call r.2)
  | .adv dt => ({ s with t := advance s.t dt }, .ok)
  | .done _ _ => (s, .done .noop)

end CashewsVerif.Decor.Fail
