import CashewsVerif.Model.Decor.Common
/-
Model of `cashews/decorators/cache/fail.py` (`failover`) as reached through
`Cache.failover(ttl, exceptions=…, condition=…)` (the facade wraps it in `_wrap_with_condition`; with no nested
cache hit detected the condition is the user's, default "store everything").

The store step sits in the `else:` branch of the `try`, OUTSIDE `except exceptions`: whatever it raises — listed
or not — leaves the wrapper as it is, and the stored result is neither consulted nor changed.
-/
namespace CashewsVerif.Decor.Fail

structure Cfg where
  ttl : Nat
  deriving Repr

structure St where
  t : TtlMap
  nexec : Nat

def init : St := { t := TtlMap.init, nexec := 0 }

/-- `_wrap`: execute first; `except exceptions: cached = backend.get(key) …;
else: if condition(result, …): _ttl = ttl_to_seconds(ttl, …, result=result); backend.set(key, result, expire=_ttl); return result` -/
def call (c : Cfg) (s : St) (o : Outcome) : St × CallOut :=
  let id := s.nexec
  match o with
  | .ok => ({ t := s.t.write kMain (pack2 s.t.now id) (some c.ttl), nexec := id + 1 }, ⟨.fresh s.t.now id, true, false⟩)
  | .listed =>
    match cached2 s.t with
    | some (stamp, id0) => ({ s with nexec := id + 1 }, ⟨.stored stamp id0, true, false⟩)
    | none => ({ s with nexec := id + 1 }, ⟨.raised .listed, true, false⟩)
  | .unlisted => ({ s with nexec := id + 1 }, ⟨.raised .unlisted, true, false⟩)
  -- `condition(...)` is False: `return result`, nothing stored
  | .rejected => ({ s with nexec := id + 1 }, ⟨.fresh s.t.now id, true, false⟩)
  -- the condition / the callable ttl / `backend.set` raises in the `else:` branch: it propagates
  | .storeFails _ l => ({ s with nexec := id + 1 }, ⟨.storeErr l, true, false⟩)

def step (c : Cfg) (s : St) : DOp → St × Ans
  | .call o => let r := call c s o; (r.1, .call r.2)
  | .adv dt => ({ s with t := advance s.t dt }, .ok)
  | .done _ _ => (s, .done .noop)

end CashewsVerif.Decor.Fail
