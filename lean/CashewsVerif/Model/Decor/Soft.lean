import CashewsVerif.Model.Decor.Common
/-
Model of `cashews/decorators/cache/soft.py` as reached through
`Cache.soft(ttl, soft_ttl=…, exceptions=…, protected=False)`.

Always used with an explicit non-zero `soft_ttl` (`soft_ttl or ttl * 0.33` is a float product
outside this model).  Boundary mirrored from the code, not judged: at *exactly* `soft_ttl` the
result is recomputed (`soft_expire_at > now` is required for serving).

Order in time: `cached = await backend.get(key)` and the comparison of `soft_expire_at` with the clock happen when the
call begins; then `await func(...)` takes `d` ticks; the `except exceptions:` handler reads the store AGAIN
(`cached = await backend.get(_cache_key, default=_empty)`: "the call may have taken a while: what was read before it can
have expired meanwhile" — the repair of D39) and falls back to what it finds THEN; the `else:` branch stamps
`soft_expire_at` and stores after the function returned.
-/
namespace CashewsVerif.Decor.Soft

structure Cfg where
  ttl : Nat
  soft : Nat
  deriving Repr

structure St where
  t : TtlMap
  nexec : Nat

def init : St := { t := TtlMap.init, nexec := 0 }

/-- `soft_expire_at = now + soft_ttl; backend.set(key, [soft_expire_at, result], expire=ttl)` -/
def save (c : Cfg) (t : TtlMap) (id : Nat) : TtlMap :=
  t.write kMain (pack3 t.now id (t.now + c.soft)) (some c.ttl)

/-- the part of `_wrap` from the moment the function has finished (the state's clock is that moment):
`try: result = await func(…) except exceptions: cached = await backend.get(…); <serve cached or raise>
else: if condition(result, …): _ttl = ttl_to_seconds(ttl, …, result=result); …; backend.set(…); return result`
— the store step is outside `except exceptions`: what it raises propagates, the store is left alone -/
def execute (c : Cfg) (s : St) (o : Outcome) : St × CallOut :=
  let id := s.nexec
  match o with
  | .ok => ({ t := save c s.t id, nexec := id + 1 }, ⟨.fresh s.t.now id, true, false⟩)
  | .listed =>
    -- `cached = await backend.get(_cache_key, default=_empty)`   (again, now)
    match cached3 s.t with
    | some (stamp, id0, _) => ({ s with nexec := id + 1 }, ⟨.stored stamp id0, true, false⟩)
    | none => ({ s with nexec := id + 1 }, ⟨.raised .listed, true, false⟩)
  | .unlisted => ({ s with nexec := id + 1 }, ⟨.raised .unlisted, true, false⟩)
  | .rejected => ({ s with nexec := id + 1 }, ⟨.fresh s.t.now id, true, false⟩)
  | .storeFails _ l => ({ s with nexec := id + 1 }, ⟨.storeErr l, true, false⟩)

/-- `_wrap` -/
def call (c : Cfg) (s : St) (o : Outcome) (d : Nat) : St × CallOut :=
  -- `cached = await backend.get(_cache_key, default=_empty)`   (at the start of the call)
  match cached3 s.t with
  | some (stamp, id0, inner) =>
    -- `if soft_expire_at > datetime.now(timezone.utc): return result`
    if s.t.now < inner then (s, ⟨.stored stamp id0, false, false⟩)
    -- `result = await func(*args, **kwargs)` takes `d` ticks
    else execute c { s with t := advance s.t d } o
  | none => execute c { s with t := advance s.t d } o

def step (c : Cfg) (s : St) : DOp → St × Ans
  | .call o d => let r := call c s o d; (r.1, .call r.2)
  | .adv dt => ({ s with t := advance s.t dt }, .ok)
  | .done _ _ => (s, .done .noop)     -- soft has no background work

end CashewsVerif.Decor.Soft
