import CashewsVerif.Model.Decor.Common
/-
Model of `cashews/decorators/cache/soft.py` as reached through
`Cache.soft(ttl, soft_ttl=…, exceptions=…, protected=False)`.

Always used with an explicit non-zero `soft_ttl` (`soft_ttl or ttl * 0.33` is a float product
outside this model).  Boundary mirrored from the code, not judged: at *exactly* `soft_ttl` the
result is recomputed (`soft_expire_at > now` is required for serving).
-/
namespace CashewsVerif.Decor.Soft

structure Cfg where
  ttl : Nat
  soft : Nat
  deriving Repr

structure St where
  t : TtlMap
  nexec : Nat

def init : St := { t := TtlMap.init, nexec := 0 }

/-- `soft_expire_at = now + soft_ttl; backend.set(key, [soft_expire_at, result], expire=ttl)` -/
def save (c : Cfg) (t : TtlMap) (id : Nat) : TtlMap :=
  t.write kMain (pack3 t.now id (t.now + c.soft)) (some c.ttl)

/-- `try: result = await func(…) except exceptions: <serve cached or raise>
else: if condition(result, …): _ttl = ttl_to_seconds(ttl, …, result=result); …; backend.set(…); return result`
— the store step is outside `except exceptions`: what it raises propagates, the store is left alone -/
def execute (c : Cfg) (s : St) (o : Outcome) (cached : Option (Nat × Nat × Nat)) : St × CallOut :=
  let id := s.nexec
  match o with
  | .ok => ({ t := save c s.t id, nexec := id + 1 }, ⟨.fresh s.t.now id, true, false⟩)
  | .listed =>
    match cached with
    | some (stamp, id0, _) => ({ s with nexec := id + 1 }, ⟨.stored stamp id0, true, false⟩)
    | none => ({ s with nexec := id + 1 }, ⟨.raised .listed, true, false⟩)
  | .unlisted => ({ s with nexec := id + 1 }, ⟨.raised .unlisted, true, false⟩)
  | .rejected => ({ s with nexec := id + 1 }, ⟨.fresh s.t.now id, true, false⟩)
  | .storeFails _ l => ({ s with nexec := id + 1 }, ⟨.storeErr l, true, false⟩)

/-- `_wrap` -/
def call (c : Cfg) (s : St) (o : Outcome) : St × CallOut :=
  match cached3 s.t with
  | some (stamp, id0, inner) =>
    -- `if soft_expire_at > datetime.now(timezone.utc): return result`
    if s.t.now < inner then (s, ⟨.stored stamp id0, false, false⟩)
    else execute c s o (some (stamp, id0, inner))
  | none => execute c s o none

def step (c : Cfg) (s : St) : DOp → St × Ans
  | .call o => let r := call c s o; (r.1, .call r.2)
  | .adv dt => ({ s with t := advance s.t dt }, .ok)
  | .done _ _ => (s, .done .noop)     -- soft has no background work

end CashewsVerif.Decor.Soft
