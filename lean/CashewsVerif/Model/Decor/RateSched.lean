import CashewsVerif.Model.Decor.Breaker
/-
Interleaving semantics of concurrent calls of one decorated function (C15, "schedules").

One step of a task = it is released from where it is parked, executes the backend command it was
parked in front of, and runs on (task-local code only) to its next park: the next backend command,
the scripted suspension point of the body, or its end.  This is the granularity the gate scheduler
(`harness/sched.py`) enforces on the real code.  `tick` lets virtual time pass between two steps.
-/
namespace CashewsVerif.Decor.Sched
open CashewsVerif.Decor.Breaker (Outcome)

inductive Kind where
  | fixed (p : Rate.Params)
  | slide (p : SlideRate.Params)
  | breaker (p : Breaker.Params)
  deriving Repr

/-- where a task is parked -/
inductive Phase where
  | new                               -- created, not yet started
  | fxIncr                            -- rate.py: in front of `backend.incr`
  | fxExpire                          -- rate.py: in front of `backend.expire` (it drew `limit + 1`)
  | slCount (ts : Nat)                -- rate_slide.py: in front of `slice_incr`, timestamp already read
  | brOpen                            -- circuit_breaker.py: in front of `is_locked(":open")`
  | brHalf                            -- in front of `exists(":halfopen")`
  | brTotal (ts : Nat)                -- in front of `slice_incr(":total")`, timestamp already read
  | brFails (total ts : Nat)          -- in front of `slice_incr(":fails")`
  | brLock                            -- in front of `set_lock(":open")`
  | body (total : Nat)                -- inside the wrapped function, at its suspension point
  | done (ran : Bool) (opened : Bool) -- finished; `ran` = the function was executed
  deriving DecidableEq, Repr

/-- what a step did, as far as the harness can see it: the command and its result -/
inductive Lbl where
  | start
  | incr (r : Out)
  | expire
  | slice (key : Nat) (ts : Nat) (c : Nat)
  | isLocked (b : Bool)
  | exists_ (b : Bool)
  | setLock (b : Bool)
  | body
  | idle                              -- the task had already finished
  deriving DecidableEq, Repr

structure Task where
  phase : Phase
  oc    : Outcome
  deriving Repr

/-- one step of one task -/
def stepTask (k : Kind) (t : TtlMap) (tk : Task) : TtlMap × Phase × Lbl :=
  match k, tk.phase with
  | .fixed _, .new => (t, .fxIncr, .start)
  | .slide _, .new => (t, .slCount t.now, .start)          -- `timestamp = datetime.now(...)` is read before the command
  | .breaker _, .new => (t, .brOpen, .start)
  | .fixed p, .fxIncr =>
    match t.step (.incr Rate.key 1 (some p.period)) with
    | (t1, .int n) =>
      if Rate.rejects p n then
        if Rate.bans p n then (t1, .fxExpire, .incr (.int n)) else (t1, .done false false, .incr (.int n))
      else (t1, .body 0, .incr (.int n))
    | (t1, o) => (t1, .done false false, .incr o)
  | .fixed p, .fxExpire => ((t.step (.expire Rate.key (some p.effTtl))).1, .done false false, .expire)
  | .slide p, .slCount ts =>
    let (t1, c) := SlideRate.count p t ts
    (t1, if SlideRate.rejects p c then .done false false else .body 0, .slice SlideRate.key ts c)
  | .breaker _, .brOpen =>
    if Breaker.isOpen t then (t, .done false false, .isLocked true) else (t, .brHalf, .isLocked false)
  | .breaker _, .brHalf =>
    -- `await backend.exists(":halfopen") and random.randint(0, 1)`; then the timestamp of `:total` is read
    if (t.find Breaker.kHalf).isSome then (t, .done false false, .exists_ true) else (t, .brTotal t.now, .exists_ false)
  | .breaker p, .brTotal ts =>
    let (t1, total) := Breaker.count p t Breaker.kTotal ts
    (t1, .body total, .slice Breaker.kTotal ts total)
  | .breaker _, .body total =>
    match tk.oc with
    | .fail => (t, .brFails total t.now, .body)
    | _ => (t, .done true false, .body)
  | _, .body _ => (t, .done true false, .body)
  | .breaker p, .brFails total ts =>
    let (t1, fails) := Breaker.count p t Breaker.kFails ts
    (t1, if Breaker.trips p total fails then .brLock else .done true false, .slice Breaker.kFails ts fails)
  | .breaker p, .brLock =>
    match t.step (.set Breaker.kOpen (.int 1) (some p.ttl) .nx) with
    | (t1, .bool b) => (t1, .done true b, .setLock b)
    | (t1, _) => (t1, .done true false, .setLock false)
  | _, ph => (t, ph, .idle)

structure World where
  tm    : TtlMap
  tasks : List Task

inductive Act where
  | task (i : Nat)
  | tick (dt : Nat)
  deriving Repr

def setPhase : List Task → Nat → Phase → List Task
  | [], _, _ => []
  | tk :: r, 0, ph => { tk with phase := ph } :: r
  | tk :: r, i + 1, ph => tk :: setPhase r i ph

def step (k : Kind) (w : World) : Act → World × Lbl
  | .tick dt => ({ w with tm := (w.tm.step (.adv dt)).1 }, .idle)
  | .task i =>
    match w.tasks[i]? with
    | none => (w, .idle)
    | some tk =>
      let (t', ph, l) := stepTask k w.tm tk
      ({ tm := t', tasks := setPhase w.tasks i ph }, l)

def run (k : Kind) (w : World) : List Act → World × List Lbl
  | [] => (w, [])
  | a :: rest =>
    let (w', l) := step k w a
    let (w'', ls) := run k w' rest
    (w'', l :: ls)

def init (ocs : List Outcome) : World := { tm := TtlMap.init, tasks := ocs.map fun o => ⟨.new, o⟩ }

end CashewsVerif.Decor.Sched
