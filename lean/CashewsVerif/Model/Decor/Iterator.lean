import CashewsVerif.Model.Decor.Outcome
/-
Model of `cashews/decorators/cache/iterator.py` (`iterator`, after the repairs 881ce85,
8b4a058, 78c3934, 5b10c85) over the ideal TTL map.  The wrapped async generator is a script `Nat → IBeh`: the n-th run (counted over
the whole history) performs `script n`.  A consumer either drains the stream it is given, or stops early
(`Consumer`): a real run is therefore one of {completed, raised, abandoned after some items, cancelled
after some items} (`Ending`); only a run that ended by itself can ever write the marker.
An item (`Res`) is a VALUE: what the yielded object was at the moment it was yielded (`await backend.set(key:i, chunk)` runs
right after `yield chunk` and the backend keeps a copy / a serialised form) - a generator that keeps updating one object and
yields it again delivers, and has replayed, the sequence of its states.  Items may be anything, exception instances
(`Kind.eobj`) included: only what a run RAISED is stored as `RaiseException` and raised by a replay.
Mathlib-free.
-/
namespace CashewsVerif.Decor.Iter
open CashewsVerif CashewsVerif.Decor

/-- body of one run: steps `(kind, delay)` - after `delay` ticks of work the body yields an item
of that kind, or, for `Kind.exc c`, raises (which ends the run; later steps are never reached) -
and `findur` ticks of work before a normal end -/
structure IBeh where
  steps : List (Kind × Nat)
  findur : Nat
  deriving DecidableEq, Repr

/-- what the consumer of one call does with the stream -/
inductive Consumer where
  | drain              -- `async for` to the end (StopAsyncIteration or the exception)
  | take (j : Nat)     -- receives `j+1` items and then stops asking: `break` + `aclose()`, or the stream is simply
                       -- dropped and finalised by the event loop, or the consumer's task is cancelled between two
                       -- items; either way `GeneratorExit` is thrown into the decorator's frame at `yield chunk`
  | cancel (j : Nat)   -- the consumer's task is cancelled while the wrapped generator works on its step `j` (after `j`
                       -- items; step `steps.length` is the final stretch): `CancelledError` out of `await anext(...)`.
                       -- A replay has no such suspension point: on a hit this consumer drains.
  deriving DecidableEq, Repr

/-- how a real run ended -/
inductive Ending where
  | completed          -- the body returned (StopAsyncIteration)
  | raised             -- the body raised an `Exception` (selected by the condition or not)
  | abandoned          -- the consumer stopped asking (GeneratorExit at `yield chunk`)
  | cancelled          -- the consumer was cancelled while the body was working (CancelledError)
  deriving DecidableEq, Repr

/-- the run ended by itself: every item (and the final exception, if any) was delivered -/
def Ending.done : Ending → Bool
  | .completed => true
  | .raised => true
  | _ => false

/-- how run `steps` ends under consumer `cs`, from item index `i` on (specification; no store) -/
def ending (cs : Consumer) : List (Kind × Nat) → Nat → Ending
  | [], i => if cs = .cancel i then .cancelled else .completed
  | (.exc _ _, _) :: _, i => if cs = .cancel i then .cancelled else .raised
  | (_, _) :: rest, i =>
    if cs = .cancel i then .cancelled else if cs = .take i then .abandoned else ending cs rest (i + 1)

/-- what a consumer sees of a replay: `take j` reads `j+1` elements and closes the stream -/
def Consumer.view : Consumer → List Res → List Res
  | .take j, rs => rs.take (j + 1)
  | _, rs => rs

structure Cfg where
  cond : Cond
  /-- `ttl_to_seconds(ttl, *args, **kwargs, with_callable=True)` in ticks: a function of the call's key -/
  ttl : Nat → Nat

/-- `if _to_cache and condition(chunk, args, kwargs, key=_cache_key)` - plain truthiness -/
def itemOk (c : Cond) (k : Kind) : Bool :=
  match c.eval k 0 with
  | .bool b => b
  | .other t => t
  | .theExc => true

/-- `cond_res and isinstance(cond_res, Exception)` -/
def excOk (c : Cond) (cls p : Nat) : Bool :=
  match c.eval (.exc cls p) 0 with
  | .theExc => true
  | _ => false

/-- the miss path from `start = time.monotonic()` on; arguments: remaining steps, store,
`_to_cache`, `chunk_number`.  Returns the store and what the consumer received.
```
    while True:
        try: chunk = await anext(_async_iterator)
        except StopAsyncIteration: break
        except Exception as exc:
            cond_res = condition(exc, args, kwargs, key=_cache_key)
            executing_time = time.monotonic() - start
            if _to_cache and cond_res and isinstance(cond_res, Exception) and _ttl > executing_time:
                await backend.set(_cache_key + f":{chunk_number}", RaiseException(exc), expire=_ttl)
                await backend.set(_cache_key, chunk_number + 1, expire=_ttl - executing_time)
            raise exc
        yield chunk
        if _to_cache and condition(chunk, args, kwargs, key=_cache_key):
            await backend.set(_cache_key + f":{chunk_number}", chunk, expire=_ttl)
        else: _to_cache = False
        chunk_number += 1
    if _to_cache and chunk_number:
        executing_time = time.monotonic() - start
        if _ttl > executing_time: await backend.set(_cache_key, chunk_number, expire=_ttl - executing_time)
```
`GeneratorExit` (thrown at `yield chunk` when the consumer closes / drops the stream) and `CancelledError` (raised by
`await anext(...)` when the consumer's task is cancelled) are not `Exception`s: they leave the frame at once, past
every `backend.set` - chunks already written stay, the marker is not written. -/
def body (cond : Cond) (ttl k n start findur : Nat) (cs : Consumer) : List (Kind × Nat) → TtlMap → Bool → Nat → TtlMap × List Res
  | [], t, ok, i =>
    if cs = .cancel i then (t, [])          -- CancelledError propagates out of `await anext(...)`: nothing more is written
    else
    let t := advance t findur
    let spent := t.now - start
    (if ok && decide (i ≠ 0) && decide (spent < ttl) then t.write (ckey k 0) (.int i) (some (ttl - spent)) else t, [])
  | (.exc c p, d) :: _, t, ok, i =>
    if cs = .cancel i then (t, [])
    else
    let t := advance t d
    let spent := t.now - start
    let r := Res.exc c p n
    (if ok && excOk cond c p && decide (spent < ttl) then
        (t.write (ckey k (i + 1)) r.enc (some ttl)).write (ckey k 0) (.int (i + 1 : Nat)) (some (ttl - spent))
      else t, [r])
  | (kd, d) :: rest, t, ok, i =>
    if cs = .cancel i then (t, [])
    else
    let t := advance t d
    let r := kd.res n i
    if cs = .take i then (t, [r])           -- GeneratorExit at `yield chunk`: this chunk is not stored, no marker
    else
    let ok' := ok && itemOk cond kd
    let t := if ok' then t.write (ckey k (i + 1)) r.enc (some ttl) else t
    let (t', rs) := body cond ttl k n start findur cs rest t ok' (i + 1)
    (t', r :: rs)

/-- the marker holds the number of chunks; anything falsy (or absent) is a miss -/
def markerCount : Option Entry → Nat
  | some ⟨.int (.ofNat c), _⟩ => c
  | _ => 0

/-- the hit path: read `cnt - i` more chunks starting at chunk `i`
```
    while cached is True or chunk_number < cached:
        chunk = await backend.get(_cache_key + f":{chunk_number}", default=_empty)
        if chunk is _empty: return
        yield return_or_raise(chunk)
        chunk_number += 1
``` -/
def replay (t : TtlMap) (k : Nat) : (fuel : Nat) → (i : Nat) → List Res
  | 0, _ => []
  | fuel + 1, i =>
    match t.find (ckey k (i + 1)) with
    | none => []
    | some e =>
      let r := Res.dec e.val
      if r.isExc then [r] else r :: replay t k fuel (i + 1)

/-- one real run of the wrapped generator, as logged (ghost state) -/
structure Run where
  key : Nat
  start : Nat
  outs : List Res          -- everything the consumer received, a final exception included
  fin : Nat                -- instant at which the run ended
  cons : Consumer          -- what the consumer of that call did
  ending : Ending          -- how the run ended
  deriving DecidableEq, Repr

structure St where
  store : TtlMap
  runs : List Run

def St.init : St := { store := TtlMap.init, runs := [] }

inductive Op where
  | iter (k : Nat) (cs : Consumer)   -- a call whose bound arguments render to key `k`, read by consumer `cs`
  | adv (dt : Nat)
  deriving DecidableEq, Repr

inductive Out where
  | unit
  | got (rs : List Res) (cached : Bool)
  deriving DecidableEq, Repr

def step (cfg : Cfg) (script : Nat → IBeh) (s : St) : Op → St × Out
  | .adv dt => ({ s with store := advance s.store dt }, .unit)
  | .iter k cs =>
    let cnt := markerCount (s.store.find (ckey k 0))
    if cnt ≠ 0 then (s, .got (cs.view (replay s.store k cnt 0)) true)
    else
      let n := s.runs.length
      let b := script n
      let (t', rs) := body cfg.cond (cfg.ttl k) k n s.store.now b.findur cs b.steps s.store true 0
      ({ store := t', runs := s.runs ++ [⟨k, s.store.now, rs, t'.now, cs, ending cs b.steps 0⟩] }, .got rs false)

def run (cfg : Cfg) (script : Nat → IBeh) (s : St) : List Op → St × List Out
  | [] => (s, [])
  | op :: ops =>
    let (s', o) := step cfg script s op
    let (s'', os) := run cfg script s' ops
    (s'', o :: os)

end CashewsVerif.Decor.Iter
