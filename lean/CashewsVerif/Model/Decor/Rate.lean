import CashewsVerif.Spec.TtlMap
/-
Model of `cashews/decorators/rate.py` (`rate_limit`, the fixed-window limiter) over the ideal
TTL map (`Spec/TtlMap.lean`, which C01 proves the in-memory backend refines).

A call history is a list of waiting times: `dt` ticks (1 tick = 1/8 s) pass, then the decorated
function is called once.  Instants are therefore non-decreasing by construction; the outcome of
the wrapped function plays no role for a limiter (nothing is written after the body).
-/
namespace CashewsVerif.Decor

/-- what the decorator did with one call -/
inductive Dec where
  | run       -- `return await func(*args, **kwargs)`
  | reject    -- `return action(*args, **kwargs)` (default action raises `RateLimitError`)
  | fault     -- the backend command raised (counter key holds a non-number) — shown unreachable
  deriving DecidableEq, Repr

/-- one observed call: the virtual instant it was made at and what happened -/
structure Ev where
  ts  : Nat
  dec : Dec
  deriving DecidableEq, Repr

def Ev.ran (e : Ev) : Bool := e.dec = .run

namespace Rate

structure Params where
  limit  : Nat
  period : Nat           -- ticks
  ttl    : Option Nat    -- as passed by the caller; `none` = not given
  deriving Repr

/-- `ttl = ttl_to_seconds(ttl) or period` -/
def Params.effTtl (p : Params) : Nat :=
  match p.ttl with
  | none => p.period
  | some 0 => p.period
  | some (t + 1) => t + 1

/-- the one counter key of a limiter (`_cache_key`) -/
def key : Nat := 0

/-- the decision taken on the counter value `incr` returned:
    `if requests_count and requests_count > limit:` → reject, and
    `if ttl and requests_count == limit + 1: await backend.expire(key=_cache_key, timeout=_ttl)` -/
def rejects (p : Params) (n : Int) : Bool := n ≠ 0 && n > (p.limit : Int)
def bans (p : Params) (n : Int) : Bool := p.effTtl ≠ 0 && n = (p.limit : Int) + 1

/-- one call of the wrapped function, `dt` ticks after the previous one -/
def call (p : Params) (t : TtlMap) (dt : Nat) : TtlMap × Ev :=
  let t0 := (t.step (.adv dt)).1
  -- requests_count = await backend.incr(key=_cache_key, expire=_period)
  match t0.step (.incr key 1 (some p.period)) with
  | (t1, .int n) =>
    if rejects p n then
      let t2 := if bans p n then (t1.step (.expire key (some p.effTtl))).1 else t1
      (t2, ⟨t0.now, .reject⟩)
    else (t1, ⟨t0.now, .run⟩)
  | (t1, _) => (t1, ⟨t0.now, .fault⟩)

/-- a whole history: the trace of observed calls -/
def run (p : Params) (t : TtlMap) : List Nat → List Ev
  | [] => []
  | dt :: rest =>
    let (t', e) := call p t dt
    e :: run p t' rest

end Rate
end CashewsVerif.Decor
