import CashewsVerif.Spec.TtlMap
/-
Vocabulary shared by the models of the simple cache decorator and the iterator decorator (C02):
scripted behaviours of the wrapped function, results as the caller sees them, their encoding as
stored values, caching conditions.  Mathlib-free.
-/
namespace CashewsVerif.Decor

/-- what one execution (or one step of an async generator body) does -/
inductive Kind where
  | val                 -- returns / yields a fresh payload (stamped with the execution that made it)
  | none                -- returns / yields `None`
  | falsy (j : Nat)     -- returns / yields the j-th constant: a falsy one (0, '', [], False) or another odd value (a tuple,
                        -- bytes, 0.0, an object that merely looks like the library's `RaiseException` wrapper, …)
  | eobj (c p : Nat)    -- returns / yields an exception INSTANCE of class `c` with payload `p` as a VALUE (a row error in a
                        -- stream of results): nothing is raised.  (For the basic decorator a function returning an exception
                        -- object is outside the property's alphabet of behaviours - see `Simple.accepts`.)
  | exc (c p : Nat)     -- raises an exception of class `c` carrying payload `p` (stamped with the execution as well);
                        -- `p` is an opaque id of everything the instance carries beyond its class: the constructor
                        -- family and arguments it was built with, message, attributes, notes, `__cause__`
  deriving DecidableEq, Repr

/-- scripted behaviour of one execution: what it does and how long it takes (ticks) -/
structure Beh where
  kind : Kind
  dur : Nat
  deriving DecidableEq, Repr

/-- a result as the caller observes it: `val n i` is the payload made by execution `n` (item `i`
of run `n` for generators), `exc c p n` the exception instance of class `c` with payload `p` raised by
execution `n` (an answer that is "the same exception" has the same class, payload and stamp).  `junk`
stands for a stored value no decorator wrote (never reachable; keeps `dec` total). -/
inductive Res where
  | val (n i : Nat)
  | none
  | falsy (j : Nat)
  | exc (c p n : Nat)
  | eobj (c p n : Nat)  -- the exception instance of class `c`, payload `p` made by execution `n`, handed over as a value
  | junk
  deriving DecidableEq, Repr

def Kind.res (n i : Nat) : Kind → Res
  | .val => .val n i
  | .none => .none
  | .falsy j => .falsy j
  | .exc c p => .exc c p n
  | .eobj c p => .eobj c p n

def Res.isExc : Res → Bool
  | .exc _ _ _ => true
  | _ => false

/-- the stored form: a plain result is stored as itself, an exception as
`RaiseException(exc)` (`_exception.py`) - the wrapper holds the instance itself: class, payload and stamp;
tagged lists keep the forms apart. -/
def Res.enc : Res → Val
  | .val n i => .nums [0, n, i]
  | .none => .nil
  | .falsy j => .nums [2, j]
  | .exc c p n => .nums [1, c, p, n]      -- RaiseException(exc)
  | .eobj c p n => .nums [3, c, p, n]     -- the exception object itself, stored like any other value
  | .junk => .int 0

/-- `return_or_raise(stored)`: a `RaiseException` raises what it wraps (`raise result.exc`: that very instance,
not a reconstruction of it from its class and `args`), anything else is returned -/
def Res.dec : Val → Res
  | .nums [0, n, i] => .val n i
  | .nil => .none
  | .nums [2, j] => .falsy j
  | .nums [1, c, p, n] => .exc c p n
  | .nums [3, c, p, n] => .eobj c p n     -- … and returned / yielded like any other value: only a `RaiseException` raises
  | _ => .junk

theorem Res.dec_enc (r : Res) : Res.dec r.enc = r := by
  cases r <;> rfl

/-- what a condition callable returned, as far as the decorators look at it -/
inductive CondRes where
  | bool (b : Bool)         -- a real `bool`
  | other (truthy : Bool)   -- something that is not a bool and not an exception (1, "yes", 0, None, …)
  | theExc                  -- the exception instance it was handed (`_exceptions(...)._cond`)
  deriving DecidableEq, Repr

/-- caching conditions (`cache_condition.py`, `wrapper/time_condition.py`) -/
inductive Cond where
  | all                                  -- None / "all" / any        → `_store_all`
  | notNone                              -- NOT_NONE / "skip_none"    → `_not_none_store_condition`
  | withExc (sel : List Nat)             -- `with_exceptions(*sel)`   ([] = every Exception)
  | onlyExc (sel : List Nat)             -- `only_exceptions(*sel)`
  | fn (f : Kind → CondRes)              -- any other callable, as a table over result kinds
  | slower (limit : Nat)                 -- `time_condition=limit`: `_spent.get() > limit`
  | slowerAnd (limit : Nat) (c : Cond)   -- `time_condition=limit` together with `condition=c`: both have to accept

def selected (sel : List Nat) (c : Nat) : Bool := sel.isEmpty || sel.contains c

/-- `condition(result, args, kwargs, key=...)`; the library's own conditions look at the class of an exception
only (`isinstance(result, exceptions)`), never at its payload; a user callable (`fn`) may look at anything -/
def Cond.eval : Cond → Kind → (dur : Nat) → CondRes
  | .all, _, _ => .bool true
  | .notNone, k, _ => .bool (k ≠ .none)                -- `result is not None` (an exception is not None)
  | .withExc sel, .exc c _, _ => if selected sel c then .theExc else .bool true
  | .withExc sel, .eobj c _, _ => if selected sel c then .theExc else .bool true   -- `isinstance(result, exceptions)` holds
  | .withExc _, _, _ => .bool true                                                  -- for a yielded instance as well
  | .onlyExc sel, .exc c _, _ => if selected sel c then .theExc else .bool false
  | .onlyExc sel, .eobj c _, _ => if selected sel c then .theExc else .bool false
  | .onlyExc _, _, _ => .bool false
  | .fn f, k, _ => match f k, k with
      | .theExc, .exc _ _ => .theExc
      | .theExc, .eobj _ _ => .theExc
      | .theExc, _ => .other true                      -- "the exception it was handed" needs an exception
      | r, _ => r
  | .slower limit, _, dur => .bool (decide (limit < dur))
  | .slowerAnd limit c, k, dur => if limit < dur then c.eval k dur else .bool false

/-- injective code of (call key, slot): slot 0 is the key itself, slot `i+1` is `key:i` -/
def ckey (k j : Nat) : Nat := if k < j then j * j + k else k * k + k + j

def advance (t : TtlMap) (dt : Nat) : TtlMap := { t with now := t.now + dt }

end CashewsVerif.Decor
