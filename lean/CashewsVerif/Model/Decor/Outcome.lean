import CashewsVerif.Spec.TtlMap
/-
Vocabulary shared by the models of the simple cache decorator and the iterator decorator (C02):
scripted behaviours of the wrapped function, results as the caller sees them, their encoding as
stored values, caching conditions.  Mathlib-free.
-/
namespace CashewsVerif.Decor

/-- what one execution (or one step of an async generator body) does -/
inductive Kind where
  | val                 -- returns / yields a fresh payload (stamped with the execution that made it)
  | none                -- returns / yields `None`
  | falsy (j : Nat)     -- returns / yields the j-th falsy constant (0, '', [], False, …)
  | exc (c : Nat)       -- raises an exception of class `c` (stamped with the execution as well)
  deriving DecidableEq, Repr

/-- scripted behaviour of one execution: what it does and how long it takes (ticks) -/
structure Beh where
  kind : Kind
  dur : Nat
  deriving DecidableEq, Repr

/-- a result as the caller observes it: `val n i` is the payload made by execution `n` (item `i`
of run `n` for generators), `exc c n` the exception instance raised by execution `n`.  `junk`
stands for a stored value no decorator wrote (never reachable; keeps `dec` total). -/
inductive Res where
  | val (n i : Nat)
  | none
  | falsy (j : Nat)
  | exc (c n : Nat)
  | junk
  deriving DecidableEq, Repr

def Kind.res (n i : Nat) : Kind → Res
  | .val => .val n i
  | .none => .none
  | .falsy j => .falsy j
  | .exc c => .exc c n

def Res.isExc : Res → Bool
  | .exc _ _ => true
  | _ => false

/-- the stored form: a plain result is stored as itself, an exception as
`RaiseException(exc)` (`_exception.py`); tagged lists keep the forms apart. -/
def Res.enc : Res → Val
  | .val n i => .nums [0, n, i]
  | .none => .nil
  | .falsy j => .nums [2, j]
  | .exc c n => .nums [1, c, n]           -- RaiseException(exc)
  | .junk => .int 0

/-- `return_or_raise(stored)`: a `RaiseException` raises what it wraps, anything else is returned -/
def Res.dec : Val → Res
  | .nums [0, n, i] => .val n i
  | .nil => .none
  | .nums [2, j] => .falsy j
  | .nums [1, c, n] => .exc c n
  | _ => .junk

theorem Res.dec_enc (r : Res) : Res.dec r.enc = r := by
  cases r <;> rfl

/-- what a condition callable returned, as far as the decorators look at it -/
inductive CondRes where
  | bool (b : Bool)         -- a real `bool`
  | other (truthy : Bool)   -- something that is not a bool and not an exception (1, "yes", 0, None, …)
  | theExc                  -- the exception instance it was handed (`_exceptions(...)._cond`)
  deriving DecidableEq, Repr

/-- caching conditions (`cache_condition.py`, `wrapper/time_condition.py`) -/
inductive Cond where
  | all                                  -- None / "all" / any        → `_store_all`
  | notNone                              -- NOT_NONE / "skip_none"    → `_not_none_store_condition`
  | withExc (sel : List Nat)             -- `with_exceptions(*sel)`   ([] = every Exception)
  | onlyExc (sel : List Nat)             -- `only_exceptions(*sel)`
  | fn (f : Kind → CondRes)              -- any other callable, as a table over result kinds
  | slower (limit : Nat)                 -- `time_condition=limit`: `_spent.get() > limit`

def selected (sel : List Nat) (c : Nat) : Bool := sel.isEmpty || sel.contains c

/-- `condition(result, args, kwargs, key=...)` -/
def Cond.eval : Cond → Kind → (dur : Nat) → CondRes
  | .all, _, _ => .bool true
  | .notNone, k, _ => .bool (k ≠ .none)                -- `result is not None` (an exception is not None)
  | .withExc sel, .exc c, _ => if selected sel c then .theExc else .bool true
  | .withExc _, _, _ => .bool true
  | .onlyExc sel, .exc c, _ => if selected sel c then .theExc else .bool false
  | .onlyExc _, _, _ => .bool false
  | .fn f, k, _ => match f k, k with
      | .theExc, .exc _ => .theExc
      | .theExc, _ => .other true                      -- "the exception it was handed" needs an exception
      | r, _ => r
  | .slower limit, _, dur => .bool (decide (limit < dur))

/-- injective code of (call key, slot): slot 0 is the key itself, slot `i+1` is `key:i` -/
def ckey (k j : Nat) : Nat := if k < j then j * j + k else k * k + k + j

def advance (t : TtlMap) (dt : Nat) : TtlMap := { t with now := t.now + dt }

end CashewsVerif.Decor
