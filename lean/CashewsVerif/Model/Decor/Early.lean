import CashewsVerif.Model.Decor.Common
/-
Model of `cashews/decorators/cache/early.py` (`early`, `_get_result_for_early`) as reached through
`Cache.early(ttl, early_ttl=…, background=…, protected=False)`.

The store step of `_get_result_for_early` (`cond_result = condition(result, …)`, `backend.set(…)`) is inside the
`try … finally` that releases the lock: when it raises after a successful execution nothing is stored, the lock
is released, and the exception leaves `_get_result_for_early` — to the caller when there was nothing stored or the
refresh runs in the foreground (`await task`, like D19), to nobody when the refresh runs in the background.
A callable `ttl` is evaluated by `_wrap` before anything else and without the result, so it is not part of the
store step here.

Order in time: `_wrap` reads `cached`, compares `early_expire_at` with the clock and takes the lock when the call begins;
`_get_result_for_early` runs the function (`d` ticks when it runs inside the call) and only then stamps
`early_expire_at = now + early_ttl` and stores with `expire=ttl` — the inner deadline and the hard TTL both count from
the instant the function FINISHED.  A foreground refresh (`background=False`) is awaited and its own outcome is the
call's (`return await task`: "the caller waited for the refresh: give it the fresh result, the old one may be past its
ttl by now" — the repair of D40; a refresh that raises still propagates = D19).

One recalculation of a key at a time (the repair of D44): the decorator keeps `recalculations: dict[cache key -> Task]` of
the refresh tasks it created that are still running.  While one is in flight (`inflight ≠ []`; with `background=False` the
refresh is awaited inside the call and never in flight between operations) a call that still finds a stored result is
answered with it and starts nothing — it does not even try the lock key, which lives `early_ttl` only and is outlived by a
slow recalculation — and a call that finds NOTHING stored (the result reached its ttl meanwhile) does not execute the
function a second time: it waits for the running recalculation (`return await asyncio.shield(recalculation)`) and is handed
its result / its exception when it completes (`Res.joined`, `joinedAnswer`).  Hence at most one recalculation of the key is
ever in flight, unconditionally.

Always used with an explicit `early_ttl` (the default `ttl * 0.33` is a float product outside this
model).  Boundary mirrored from the code, not judged: at *exactly* `early_ttl` the stored result is
still served without a refresh (`early_expire_at >= now`).
-/
namespace CashewsVerif.Decor.Early

structure Cfg where
  ttl : Nat       -- hard TTL, ticks
  early : Nat     -- early_ttl, ticks
  bg : Bool       -- `background`
  deriving Repr

structure St where
  t : TtlMap
  nexec : Nat                   -- executions started so far (next execution id)
  inflight : List (Nat × Nat)   -- background refreshes in flight: (execution id, instant it was started)

def init : St := { t := TtlMap.init, nexec := 0, inflight := [] }

/-- `early_expire_at = now + early_ttl; backend.set(key, [early_expire_at, result], expire=ttl)` -/
def save (c : Cfg) (t : TtlMap) (id : Nat) : TtlMap :=
  t.write kMain (pack3 t.now id (t.now + c.early)) (some c.ttl)

/-- `_get_result_for_early` run inside the call, from the moment the function has finished (`t2`: the store at that
moment): `cond_result = condition(result, …); early_expire_at = now + early_ttl; backend.set(…)` on success, `raise _exc`
on failure, and — for a refresh (`unlock=True`) — `finally: asyncio.create_task(backend.delete(key + ":lock"))`.
The caller is handed what `_get_result_for_early` returns / raises (`Outcome.result`). -/
def produce (c : Cfg) (s : St) (t2 : TtlMap) (o : Outcome) (refresh : Bool) : St × CallOut :=
  let id := s.nexec
  let fin := fun (t : TtlMap) => if refresh then t.remove kAux else t
  match o with
  | .ok => ({ s with t := fin (save c t2 id), nexec := id + 1 }, ⟨.fresh t2.now id, true, refresh⟩)
  | .rejected => ({ s with t := fin t2, nexec := id + 1 }, ⟨.fresh t2.now id, true, refresh⟩)   -- `cond_result` False: nothing stored
  | .storeFails _ l => ({ s with t := fin t2, nexec := id + 1 }, ⟨.storeErr l, true, refresh⟩)  -- `condition(…)` / `backend.set` raises
  | _ => ({ s with t := fin t2, nexec := id + 1 }, ⟨.raised o, true, refresh⟩)                  -- `raise _exc`; nothing stored

/-- `_wrap` -/
def call (c : Cfg) (s : St) (o : Outcome) (d : Nat) : St × CallOut :=
  -- `cached = await backend.get(_cache_key, default=_empty)`   (at the start of the call)
  match cached3 s.t with
  | none =>
    match s.inflight with
    -- `recalculation = recalculations.get(_cache_key); if recalculation is not None: return await asyncio.shield(recalculation)`
    | (rid, _) :: _ => (s, ⟨.joined rid, false, false⟩)
    -- `return await _get_result_for_early(*args_to_call)`   (unlock=False); `result = await func(*args, **kwargs)` takes
    -- `d` ticks, the deadline is stamped and the result stored afterwards
    | [] => produce c s (advance s.t d) o false
  | some (stamp, id0, inner) =>
    -- `if early_expire_at >= datetime.now(timezone.utc): return return_or_raise(result)`
    if s.t.now ≤ inner then (s, ⟨.stored stamp id0, false, false⟩)
    -- `if _cache_key in recalculations: return return_or_raise(result)`
    else if s.inflight ≠ [] then (s, ⟨.stored stamp id0, false, false⟩)
    -- `if not await backend.set(lock_key, "1", expire=_early_ttl, exist=False): return …(result)`
    else if (s.t.find kAux).isSome then (s, ⟨.stored stamp id0, false, false⟩)
    else
      let t1 := s.t.write kAux (.tok 1) (some c.early)
      -- `task = asyncio.create_task(_get_result_for_early(*args_to_call, unlock=True)); recalculations[_cache_key] = task`
      if c.bg then
        ({ t := t1, nexec := s.nexec + 1, inflight := s.inflight ++ [(s.nexec, s.t.now)] },
         ⟨.stored stamp id0, false, true⟩)
      else
        -- `if not background: return await task` – the refresh takes `d` ticks; its result is the call's answer, its
        -- exception propagates out of `await task` (D19); its `finally` deletes the lock either way
        produce c s (advance t1 d) o true

/-- a background `_get_result_for_early(..., unlock=True)` completes: store on success, then
`finally: asyncio.create_task(backend.delete(key + ":lock"))` — whoever holds the lock now -/
def done (c : Cfg) (s : St) (i : Nat) (o : Outcome) : St × DoneRes :=
  match s.inflight[i]? with
  | none => (s, .noop)
  | some (id, _) =>
    match o with
    | .ok => ({ s with t := (save c s.t id).remove kAux, inflight := s.inflight.eraseIdx i }, .stored)
    | .rejected => ({ s with t := s.t.remove kAux, inflight := s.inflight.eraseIdx i }, .skipped)
    | _ => ({ s with t := s.t.remove kAux, inflight := s.inflight.eraseIdx i }, .failed)

/-- what the callers that joined the i-th recalculation in flight (`Res.joined`) are handed when it completes:
`return await asyncio.shield(recalculation)` = what `_get_result_for_early` returns / raises — its fresh result stamped with
the instant it completed (stored, or turned down by the condition), its exception, or the exception of its store step -/
def joinedAnswer (s : St) (i : Nat) (o : Outcome) : Option Res :=
  (s.inflight[i]?).map fun p => o.result s.t.now p.1

def step (c : Cfg) (s : St) : DOp → St × Ans
  | .call o d => let r := call c s o d; (r.1, .call r.2)
  | .adv dt => ({ s with t := advance s.t dt }, .ok)
  | .done i o => let r := done c s i o; (r.1, .done r.2)

end CashewsVerif.Decor.Early
