/-
C18 — index derivation.  Executable model of `get_indexes` (`cashews/utils/split_hash.py`).
The hash functions (`zlib.crc32`, and the xxhash family when that package is installed) are NOT
interpreted: the model is parametric in `hash : Nat → List UInt8 → Nat` (algorithm number ↦
function on byte strings) and in the number `nalg = len(algorithms)` (≥ 1: crc32 is always there).

The inner `while value in indexes` loop has no termination argument for an arbitrary hash, so
the model takes `fuel` (probes allowed per bucket) and answers `none` when it runs out.
Mathlib-free.
-/
namespace CashewsVerif.Indexes

/-- `f"{key}_{i}".encode()` — `key` is the UTF-8 encoding of the Python `str` -/
def probeBytes (key : List UInt8) (i : Nat) : List UInt8 :=
  key ++ [0x5f] ++ (Nat.toDigits 10 i).map (fun c => c.toNat.toUInt8)

/-- the inner loop for one bucket, starting at counter `i`:
```
value = algorithms[ii](f"{key}_{i}".encode()) % max_index
while value in indexes:
    i += 1
    value = algorithms[ii](f"{key}_{i}".encode()) % max_index
```
answers the accepted value and the counter at which it was found -/
def probe (h : List UInt8 → Nat) (key : List UInt8) (m : Nat) (seen : List Nat) :
    Nat → Nat → Option (Nat × Nat)
  | 0, _ => none
  | fuel + 1, i =>
    let value := h (probeBytes key i) % m
    if value ∈ seen then probe h key m seen fuel (i + 1) else some (value, i)

/-- the outer loop `for i in range(number_of_buckets): ii = i % len(algorithms); …; indexes.add(value)`
with `n` buckets still to do, the next bucket being number `b`.  (The `i += 1` of the inner loop
does not leak: the `for` statement rebinds `i`.)  `seen` is the set built so far, in insertion
order. -/
def loop (hash : Nat → List UInt8 → Nat) (nalg : Nat) (key : List UInt8) (m fuel : Nat) :
    Nat → Nat → List Nat → Option (List Nat)
  | 0, _, seen => some seen
  | n + 1, b, seen =>
    match probe (hash (b % nalg)) key m seen fuel b with
    | none => none
    | some (v, _) => loop hash nalg key m fuel n (b + 1) (seen ++ [v])

/-- `get_indexes(key, number_of_buckets = k, max_index = m)` after its `assert max_index >=
number_of_buckets` (the driver answers `assert` when `m < k`).  The Python function returns a
`set`; the model returns its elements in insertion order. -/
def getIndexes (hash : Nat → List UInt8 → Nat) (nalg : Nat) (key : List UInt8) (k m fuel : Nat) :
    Option (List Nat) :=
  loop hash nalg key m fuel k 0 []

/-- number of *re*-probes (`i += 1` executions) bucket `b` needed, given the final result `S`
(measurement aid for the driver; not used by the theorems) -/
def reprobes (hash : Nat → List UInt8 → Nat) (nalg : Nat) (key : List UInt8) (m fuel : Nat)
    (S : List Nat) (b : Nat) : Nat :=
  match probe (hash (b % nalg)) key m (S.take b) fuel b with
  | none => fuel
  | some (_, i) => i - b

end CashewsVerif.Indexes
