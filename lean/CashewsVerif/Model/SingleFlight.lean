/-
C07 — single-flight (`thunder_protection`, cashews/decorators/locked.py) as a labelled transition system.
Mathlib-free (the driver links against this file).

Python being mirrored (after repair d53e4c1, shielded await):

    def thunder_protection(key=None):
        tasks: dict[str, asyncio.Task] = {}                       -- `table`
        def _decor(func):
            def done_callback(_key, _):  del tasks[_key]           -- part of `finish`
            async def _wrapper(*args, **kwargs):
                _key = get_cache_key(func, _key_template, args, kwargs)
                if _key in tasks:                                   -- `call`, join branch
                    return await asyncio.shield(tasks[_key])
                task = asyncio.create_task(func(*args, **kwargs))   -- `call`, create branch
                tasks[_key] = task
                task.add_done_callback(partial(done_callback, _key))
                return await asyncio.shield(task)

One *execution* is one asyncio task created by `_wrapper`; it is named after the caller that created it
(caller ids are used once, so execution ids are unique).  What the task runs is either the bare wrapped
function (`thunder_protection` used directly) or - through `Cache.cache/early/soft(protected=True)`,
cashews/wrapper/decorators.py `_wrap` - the cache decorator around it: look the key up, on a hit return the
stored value without running the body (`hit := true`, no suspension point), otherwise run the body and store
a returned value.  `caching` selects between the two.

Time.  The state carries a clock `now` (ticks) that only the `tick d` action moves, and the decorator's `ttl`.
The clock is read in exactly one place: a value stored by the cache decorator at instant `t` is a hit for a
later call while `now < t + ttl` (cashews/backends/memory.py `_get`: `if expire_at and expire_at <= time.time():
... return default`).  Single-flight itself - `tasks`, the join branch, the done-callback - never reads the
clock: `tick` leaves the table, the executions and every caller as they are, so an execution is joined while
it is in flight HOWEVER LONG it has been running, in particular longer than `ttl` (Props/C07.lean
`time_step_is_stutter`, `old_execution_is_still_joined`).

Asyncio facts assumed (trusted base, DESIGN §3): (A1) a task runs without preemption up to its next
suspension point, so `call` (everything `_wrapper` does before its `await`) is one atomic step; (A2) a caller
that awaits `asyncio.shield(task)` and is cancelled gets `CancelledError` alone - `task` is not cancelled;
(A3) a task whose coroutine ends with `CancelledError` (raised by the body itself: an inner future / child task
it awaited was cancelled underneath it) is a *done* task like any other - its done-callbacks run, and every
`await asyncio.shield(task)` raises `CancelledError` in the waiter (the shield's outer future is cancelled
when the inner one is).  That is the third outcome `Outcome.cancelled`; it is not the `cancel` action, which
is the cancellation of a *caller*.

The key.  `key` in `call c key n o` is the *rendered cache key* `get_cache_key(func, _key_template, args,
kwargs)` - the string under which the cache decorator stores the result - not the argument list: the facade
hands the decorator's `key=` template to `thunder_protection(key=decor_kwargs.get("key"))`, so arguments the
template leaves out (`@cache(ttl, key="user:{user_id}") async def get_user(session, user_id)`) do not
distinguish calls.  `Args` / `cacheKey` / `Act.callWith` below say so; rendering itself is C08.
`early` (cashews/decorators/cache/early.py, with the D44 repair).  A stored result carries two deadlines: the early
one (`early_expire_at = stored_at + early_ttl`, checked by the decorator: fresh while `now <= early`) and the hard
one (`expire = ttl`, the backend drops the value: present while `now < stored_at + ttl`).  An execution that finds a
*stale* value (early deadline passed, value still stored) returns it and starts a RECALCULATION: a separate task that
calls the wrapped function again and stores the new result - outside `thunder_protection`'s table, because the
execution that started it is over at once (`background=True`; with `background=False` it awaits the recalculation and
delivers its outcome).  Two guards keep recalculations of one key from piling up:

    lock_key = _cache_key + ":lock"; backend.set(lock_key, "1", expire=_early_ttl, exist=False)   -- `lock`
    recalculations: dict[str, asyncio.Task] = {}                                                  -- `rtable` (D44)
        if cached is _empty:
            recalculation = recalculations.get(_cache_key)
            if recalculation is not None: return await asyncio.shield(recalculation)     -- cold miss: join it
            return await _get_result_for_early(...)                                      -- cold miss: run the body
        ...
        if early_expire_at >= now: return result                                         -- fresh
        if _cache_key in recalculations: return result                                   -- stale, one is running
        if not await backend.set(lock_key, ...exist=False): return result                -- stale, lock held
        task = asyncio.create_task(_get_result_for_early(..., unlock=True))              -- stale: start one
        recalculations[_cache_key] = task; task.add_done_callback(lambda _: recalculations.pop(_cache_key, None))
        if not background: return await task
        return result

The lock key lives `early_ttl` only and the stored value `ttl` only; a recalculation can outlive both (`tick`).
Without the table (`guarded := false`, the code before D44) a stale hit after the lock expired starts a second
recalculation and a cold miss after the value expired runs the body in the execution - bodies of one key overlap
(Props/C07.lean `recalculation_table_is_necessary`).  With it (`guarded := true`) at most one body per key runs at
any time, counting executions and recalculations together (`body_running_count_le_one`).
-/
namespace CashewsVerif.SingleFlight

/-- function update -/
def upd {β : Type} (f : Nat → β) (a : Nat) (b : β) : Nat → β := fun x => if x = a then b else f x

/-- what an execution delivers: a returned value, a raised exception, or - the execution itself ended
cancelled (A3) - `CancelledError`.  An exception is the *object* the body raised: its class (`cls`) and an
opaque `payload` standing for everything else a caller can see of it (constructor arguments, message,
attributes, `__cause__`, notes).  The model never looks inside or rebuilds it: `await asyncio.shield(task)`
re-raises `task.exception()` itself, so whatever is delivered is delivered with class and payload unchanged. -/
inductive Outcome where
  | ret (v : Nat)
  | retNoStore (v : Nat)   -- returns `v`, a value the cache decorator delivers but does not store: `cache` / `early` keep no
                           -- returned value that is an `Exception` INSTANCE (`not isinstance(result, Exception)`).  For
                           -- single-flight it is a returned value like any other: every waiter receives it as a VALUE
  | exc (cls : Nat) (payload : Nat)
  | cancelled
  deriving DecidableEq, Repr

structure Exec where
  key : Nat
  remaining : Nat          -- scripted suspension points the body still has to pass
  outcome : Outcome        -- scripted: what the body returns / raises / that it ends cancelled (for a hit: the stored value;
                           -- for an execution that awaits a recalculation: that recalculation's scripted outcome)
  finished : Bool
  hit : Bool               -- this execution runs no body of its own (a stored value is served / a recalculation is awaited)
  waitsOn : Option Nat     -- the recalculation this execution awaits (`await asyncio.shield(recalculation)`, `await task`)
  deriving DecidableEq, Repr

inductive CSt where
  | waiting                -- suspended in `await asyncio.shield(task)`
  | got (o : Outcome)      -- the await delivered the execution's result / exception / CancelledError (A3)
  | cancelled              -- the caller's own task was cancelled
  deriving DecidableEq, Repr

structure Caller where
  exec : Option Nat        -- the execution joined or created; `none`: cancelled before making the call
  st : CSt
  deriving DecidableEq, Repr

/-- what the decorated function is and how it is configured -/
structure Cfg where
  caching : Bool               -- executions run a cache decorator (Cache facade) / the bare function
  ttl : Nat                    -- the decorator's ttl, in ticks
  early : Bool := false        -- the decorator is `early`: stored values have an early deadline, stale hits recalculate
  earlyTtl : Nat := 0          -- `early_ttl` in ticks: early deadline of a stored value, lifetime of the lock key
  background : Bool := true    -- `early(background=...)`: false - the execution that starts a recalculation awaits it
  guarded : Bool := true       -- the per-key `recalculations` table of D44 is there (false: the code before the repair)
  recalcSkip : Nat := 0        -- suspension points of a script that a recalculation does not have (gated backends: the lookup)
  deriving DecidableEq, Repr

/-- bare `thunder_protection` (`b = false`) or a plain cache decorator with ttl `T` underneath (`b = true`) -/
def Cfg.plain (b : Bool) (T : Nat) : Cfg := { caching := b, ttl := T }

structure SfSt where
  caching : Bool                     -- executions run a cache decorator (Cache facade) / the bare function
  ttl : Nat                          -- the decorator's ttl, in ticks: how long a stored result stays a hit
  now : Nat                          -- the clock, in ticks; moved by `tick` only
  table : Nat → Option Nat           -- `tasks`: key ↦ execution in flight
  execs : Nat → Option Exec
  callers : Nat → Option Caller
  cached : Nat → Option (Nat × Nat × Nat)  -- the cache: key ↦ (stored result, early deadline, instant it expires)
  created : List Nat                 -- ids of the executions created so far, in order
  early : Bool
  earlyTtl : Nat
  background : Bool
  guarded : Bool
  recalcSkip : Nat
  recalcs : Nat → Option Exec        -- recalculations (`_get_result_for_early(..., unlock=True)` tasks), named after the caller
                                     -- whose execution started them
  rtable : Nat → Option Nat          -- `recalculations`: key ↦ recalculation running
  lock : Nat → Option Nat            -- the lock keys: key ↦ instant the lock key expires
  rcreated : List Nat                -- ids of the recalculations started so far, in order

def init (cfg : Cfg) : SfSt :=
  { caching := cfg.caching, ttl := cfg.ttl, now := 0, table := fun _ => none, execs := fun _ => none,
    callers := fun _ => none, cached := fun _ => none, created := [],
    early := cfg.early, earlyTtl := cfg.earlyTtl, background := cfg.background, guarded := cfg.guarded,
    recalcSkip := cfg.recalcSkip, recalcs := fun _ => none, rtable := fun _ => none, lock := fun _ => none,
    rcreated := [] }

inductive Act where
  | call (c key n : Nat) (o : Outcome)   -- caller `c` calls with `key`; if it starts an execution, that one has script (n, o)
  | bodyStep (e : Nat)                   -- the body of `e` passes one suspension point
  | finish (e : Nat)                     -- the body of `e` returns / raises / ends cancelled; done-callbacks run
  | cancel (c : Nat)                     -- `c`'s task is cancelled
  | tick (d : Nat)                       -- `d` ticks of time pass (bodies stay suspended where they are)
  | rstep (r : Nat)                      -- the body run by recalculation `r` passes one suspension point
  | rfinish (r : Nat)                    -- recalculation `r` ends: stores a returned value, unlocks, leaves `recalculations`
  deriving DecidableEq, Repr

/-- The arguments of one call of the decorated function, as far as single-flight can see them: the part the
key template mentions (already rendered: a number stands for the key string) and everything else (a
per-request session object, a flag the template leaves out, ...). -/
structure Args where
  keyed : Nat
  ignored : Nat
  deriving DecidableEq, Repr

/-- `_key = get_cache_key(func, _key_template, args, kwargs)`: depends on the keyed part only -/
def cacheKey (a : Args) : Nat := a.keyed

/-- a call with full arguments is a call with their cache key -/
def Act.callWith (c : Nat) (a : Args) (n : Nat) (o : Outcome) : Act := .call c (cacheKey a) n o

/-- what `backend.get(key)` means to the decorator -/
inductive Look where
  | off                    -- no cache decorator: the executions run the bare function
  | cold                   -- nothing stored, or expired (Memory: gone as soon as `expire_at <= time.time()`)
  | fresh (v : Nat)        -- stored and to be served as it is
  | stale (v : Nat)        -- `early` only: stored, but `early_expire_at < now`
  deriving DecidableEq, Repr

def look (s : SfSt) (key : Nat) : Look :=
  if s.caching then
    match s.cached key with
    | some (v, soft, hard) =>
      if s.now < hard then (if s.early = true ∧ soft < s.now then .stale v else .fresh v) else .cold
    | none => .cold
  else .off

/-- `backend.set(lock_key, "1", expire=_early_ttl, exist=False)` would fail: the lock key is there and has not expired -/
def lockHeld (s : SfSt) (key : Nat) : Bool :=
  match s.lock key with
  | some d => decide (s.now < d)
  | none => false

/-- `recalculations.get(_cache_key)` - nothing when the table does not exist (the code before D44) -/
def running (s : SfSt) (key : Nat) : Option Nat := if s.guarded then s.rtable key else none

/-- does a call that starts an execution for `key` (nothing in flight in `tasks`) start a recalculation?  A stale
value, no recalculation of the key running (as far as the table tells), lock key free. -/
def spawns (s : SfSt) (key : Nat) : Bool :=
  match look s key with
  | .stale _ => (running s key).isNone && !lockHeld s key
  | _ => false

/-- an execution that serves the stored value -/
def hitExec (key v : Nat) : Exec :=
  { key := key, remaining := 0, outcome := .ret v, finished := false, hit := true, waitsOn := none }

/-- the execution a creating call by caller `c` starts -/
def newExec (s : SfSt) (c key n : Nat) (o : Outcome) : Exec :=
  match look s key with
  | .off => { key := key, remaining := n, outcome := o, finished := false, hit := false, waitsOn := none }
  | .fresh v => hitExec key v
  | .stale v =>
    if spawns s key = true ∧ s.background = false then
      -- `if not background: return await task` - the recalculation it starts is named after `c` as well
      { key := key, remaining := 0, outcome := o, finished := false, hit := true, waitsOn := some c }
    else hitExec key v
  | .cold =>
    match running s key with
    | some r =>   -- `return await asyncio.shield(recalculation)`
      { key := key, remaining := 0,
        outcome := (match s.recalcs r with | some y => y.outcome | none => o),
        finished := false, hit := true, waitsOn := some r }
    | none => { key := key, remaining := n, outcome := o, finished := false, hit := false, waitsOn := none }

/-- the recalculation a stale hit starts: the wrapped function is called again with the same arguments -/
def newRecalc (s : SfSt) (key n : Nat) (o : Outcome) : Exec :=
  { key := key, remaining := n - s.recalcSkip, outcome := o, finished := false, hit := false, waitsOn := none }

/-- shield fan-out: every caller still waiting on `e` receives `o` -/
def deliver (callers : Nat → Option Caller) (e : Nat) (o : Outcome) : Nat → Option Caller := fun c =>
  match callers c with
  | some ⟨some e', .waiting⟩ => if e' = e then some ⟨some e', .got o⟩ else some ⟨some e', .waiting⟩
  | r => r

/-- `_wrapper` up to its `await` (atomic by A1); when it starts an execution of `early` that finds a stale value,
also everything that execution does up to its first suspension: lock key, `create_task`, `recalculations[key] = task` -/
def stepCall (s : SfSt) (c key n : Nat) (o : Outcome) : SfSt :=
  match s.callers c with
  | some _ => s                                   -- caller ids are used once
  | none =>
    match s.table key with
    | some e =>                                   -- `if _key in tasks: return await asyncio.shield(tasks[_key])`
      { s with callers := upd s.callers c (some ⟨some e, .waiting⟩) }
    | none =>                                     -- create_task; tasks[_key] = task; await asyncio.shield(task)
      { s with table := upd s.table key (some c),
               execs := upd s.execs c (some (newExec s c key n o)),
               callers := upd s.callers c (some ⟨some c, .waiting⟩),
               created := s.created ++ [c],
               recalcs := if spawns s key = true then upd s.recalcs c (some (newRecalc s key n o)) else s.recalcs,
               rtable := if spawns s key = true then upd s.rtable key (some c) else s.rtable,
               lock := if spawns s key = true then upd s.lock key (some (s.now + s.earlyTtl)) else s.lock,
               rcreated := if spawns s key = true then s.rcreated ++ [c] else s.rcreated }

def stepBody (s : SfSt) (e : Nat) : SfSt :=
  match s.execs e with
  | none => s
  | some x =>
    if x.finished = true ∨ x.remaining = 0 then s
    else { s with execs := upd s.execs e (some { x with remaining := x.remaining - 1 }) }

/-- the execution awaits a recalculation that has not ended yet -/
def blocked (s : SfSt) (x : Exec) : Bool :=
  match x.waitsOn with
  | some r => (match s.recalcs r with | some y => !y.finished | none => false)
  | none => false

/-- the task completes: done-callbacks run (`del tasks[_key]`, then the shields wake the waiters) -/
def stepFinish (s : SfSt) (e : Nat) : SfSt :=
  match s.execs e with
  | none => s
  | some x =>
    if x.finished = true ∨ x.remaining ≠ 0 ∨ blocked s x = true then s
    else
      { s with execs := upd s.execs e (some { x with finished := true }),
               table := upd s.table x.key none,            -- done_callback: `del tasks[_key]`
               callers := deliver s.callers e x.outcome,
               cached :=                                    -- cache decorator: `backend.set(key, result)` for a returned value
                 match x.outcome with
                 | .ret v => if s.caching = true ∧ x.hit = false then
                     upd s.cached x.key (some (v, s.now + s.earlyTtl, s.now + s.ttl)) else s.cached
                 | .retNoStore _ => s.cached
                 | .exc _ _ => s.cached
                 | .cancelled => s.cached }

def stepCancel (s : SfSt) (c : Nat) : SfSt :=
  match s.callers c with
  | none => { s with callers := upd s.callers c (some ⟨none, .cancelled⟩) }     -- cancelled before it calls
  | some ⟨e, .waiting⟩ => { s with callers := upd s.callers c (some ⟨e, .cancelled⟩) }   -- shield (A2): only the waiter
  | some _ => s                                                               -- already done: no effect

def stepRBody (s : SfSt) (r : Nat) : SfSt :=
  match s.recalcs r with
  | none => s
  | some y =>
    if y.finished = true ∨ y.remaining = 0 then s
    else { s with recalcs := upd s.recalcs r (some { y with remaining := y.remaining - 1 }) }

/-- `_get_result_for_early(..., unlock=True)` ends: a returned value is stored with fresh deadlines, the lock key is
deleted (`finally: asyncio.create_task(backend.delete(key + ":lock"))`), the done-callback pops `recalculations` -/
def stepRFinish (s : SfSt) (r : Nat) : SfSt :=
  match s.recalcs r with
  | none => s
  | some y =>
    if y.finished = true ∨ y.remaining ≠ 0 then s
    else
      { s with recalcs := upd s.recalcs r (some { y with finished := true }),
               rtable := upd s.rtable y.key none,
               lock := upd s.lock y.key none,
               cached :=
                 match y.outcome with
                 | .ret v => upd s.cached y.key (some (v, s.now + s.earlyTtl, s.now + s.ttl))
                 | .retNoStore _ => s.cached
                 | .exc _ _ => s.cached
                 | .cancelled => s.cached }

def step (s : SfSt) : Act → SfSt
  | .call c key n o => stepCall s c key n o
  | .bodyStep e => stepBody s e
  | .finish e => stepFinish s e
  | .cancel c => stepCancel s c
  | .tick d => { s with now := s.now + d }       -- nothing else: single-flight does not read the clock
  | .rstep r => stepRBody s r
  | .rfinish r => stepRFinish s r

def run (s : SfSt) (tr : List Act) : SfSt := tr.foldl step s

/-- `e` is an execution for `key` that has not finished -/
def InFlight (s : SfSt) (e key : Nat) : Prop :=
  ∃ x, s.execs e = some x ∧ x.key = key ∧ x.finished = false

/-- `r` is a recalculation of `key` that has not ended -/
def Recalculating (s : SfSt) (r key : Nat) : Prop :=
  ∃ y, s.recalcs r = some y ∧ y.key = key ∧ y.finished = false

def inFlightB (s : SfSt) (key e : Nat) : Bool :=
  match s.execs e with
  | some x => x.key == key && !x.finished
  | none => false

/-- the observable counter: how many executions for `key` are in flight -/
def inFlightCount (s : SfSt) (key : Nat) : Nat := (s.created.filter (inFlightB s key)).length

def bodyRunningB (s : SfSt) (key e : Nat) : Bool :=
  match s.execs e with
  | some x => x.key == key && !x.finished && !x.hit
  | none => false

def recalcRunningB (s : SfSt) (key r : Nat) : Bool :=
  match s.recalcs r with
  | some y => y.key == key && !y.finished
  | none => false

/-- how many wrapped bodies are running for `key`: in executions (hits and executions that await a recalculation
run none) and in recalculations -/
def bodyRunningCount (s : SfSt) (key : Nat) : Nat :=
  (s.created.filter (bodyRunningB s key)).length + (s.rcreated.filter (recalcRunningB s key)).length

/-- bodies started so far for `key` -/
def bodyStarts (s : SfSt) (key : Nat) : Nat :=
  (s.created.filter fun e => match s.execs e with
    | some x => x.key == key && !x.hit
    | none => false).length +
  (s.rcreated.filter fun r => match s.recalcs r with
    | some y => y.key == key
    | none => false).length

/-! ### scheduler granularity (what the harness can drive and the driver replays)

Between two quiescent points of the event loop the harness releases a *burst* of parked tasks (callers at
their start, bodies at a scripted suspension point); they run in release order, each up to its next
suspension, and then every body that has no suspension point left runs to completion.  A burst is therefore
a list of `call` / `bodyStep` / `rstep` / `cancel` actions followed by `rfinish` for every recalculation and then
`finish` for every execution that can finish (an execution awaiting a recalculation ends right after it).
A time step of the schedule is a burst of its own, `[tick d]`: the clock moves between two quiescent points
while every body stays suspended where it is (`settle` after it finishes nothing new).

The harness names a parked body after the caller whose script it runs - `x<c>` - whether it runs inside that
caller's execution or inside the recalculation that execution started: `Act.ofGate` resolves the name. -/

def settle (s : SfSt) : SfSt :=
  run (run s (s.rcreated.map Act.rfinish)) (s.created.map Act.finish)

def macroStep (s : SfSt) (items : List Act) : SfSt := settle (run s items)

/-- the action behind the harness' "the body of script `c` passes a suspension point" -/
def Act.ofGate (s : SfSt) (c : Nat) : Act :=
  match s.recalcs c with
  | some y => if y.finished then .bodyStep c else .rstep c
  | none => .bodyStep c

/-- would the action do anything here?  (the driver reports it so that the harness notices when the real
run takes a step the model considers impossible) -/
def enabled (s : SfSt) : Act → Bool
  | .call c _ _ _ => (s.callers c).isNone
  | .bodyStep e => match s.execs e with
    | some x => !x.finished && x.remaining != 0
    | none => false
  | .finish e => match s.execs e with
    | some x => !x.finished && x.remaining == 0 && !blocked s x
    | none => false
  | .cancel c => match s.callers c with
    | none => true
    | some ⟨_, .waiting⟩ => true
    | some _ => false
  | .tick _ => true
  | .rstep r => match s.recalcs r with
    | some y => !y.finished && y.remaining != 0
    | none => false
  | .rfinish r => match s.recalcs r with
    | some y => !y.finished && y.remaining == 0
    | none => false

end CashewsVerif.SingleFlight
