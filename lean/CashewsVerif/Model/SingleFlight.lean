/-
C07 — single-flight (`thunder_protection`, cashews/decorators/locked.py) as a labelled transition system.
Mathlib-free (the driver links against this file).

Python being mirrored (after repair d53e4c1, shielded await):

    def thunder_protection(key=None):
        tasks: dict[str, asyncio.Task] = {}                       -- `table`
        def _decor(func):
            def done_callback(_key, _):  del tasks[_key]           -- part of `finish`
            async def _wrapper(*args, **kwargs):
                _key = get_cache_key(func, _key_template, args, kwargs)
                if _key in tasks:                                   -- `call`, join branch
                    return await asyncio.shield(tasks[_key])
                task = asyncio.create_task(func(*args, **kwargs))   -- `call`, create branch
                tasks[_key] = task
                task.add_done_callback(partial(done_callback, _key))
                return await asyncio.shield(task)

One *execution* is one asyncio task created by `_wrapper`; it is named after the caller that created it
(caller ids are used once, so execution ids are unique).  What the task runs is either the bare wrapped
function (`thunder_protection` used directly) or - through `Cache.cache/early/soft(protected=True)`,
cashews/wrapper/decorators.py `_wrap` - the cache decorator around it: look the key up, on a hit return the
stored value without running the body (`hit := true`, no suspension point), otherwise run the body and store
a returned value.  `caching` selects between the two.

Time.  The state carries a clock `now` (ticks) that only the `tick d` action moves, and the decorator's `ttl`.
The clock is read in exactly one place: a value stored by the cache decorator at instant `t` is a hit for a
later call while `now < t + ttl` (cashews/backends/memory.py `_get`: `if expire_at and expire_at <= time.time():
... return default`).  Single-flight itself - `tasks`, the join branch, the done-callback - never reads the
clock: `tick` leaves the table, the executions and every caller as they are, so an execution is joined while
it is in flight HOWEVER LONG it has been running, in particular longer than `ttl` (Props/C07.lean
`time_step_is_stutter`, `old_execution_is_still_joined`).

Asyncio facts assumed (trusted base, DESIGN §3): (A1) a task runs without preemption up to its next
suspension point, so `call` (everything `_wrapper` does before its `await`) is one atomic step; (A2) a caller
that awaits `asyncio.shield(task)` and is cancelled gets `CancelledError` alone - `task` is not cancelled;
(A3) a task whose coroutine ends with `CancelledError` (raised by the body itself: an inner future / child task
it awaited was cancelled underneath it) is a *done* task like any other - its done-callbacks run, and every
`await asyncio.shield(task)` raises `CancelledError` in the waiter (the shield's outer future is cancelled
when the inner one is).  That is the third outcome `Outcome.cancelled`; it is not the `cancel` action, which
is the cancellation of a *caller*.

The key.  `key` in `call c key n o` is the *rendered cache key* `get_cache_key(func, _key_template, args,
kwargs)` - the string under which the cache decorator stores the result - not the argument list: the facade
hands the decorator's `key=` template to `thunder_protection(key=decor_kwargs.get("key"))`, so arguments the
template leaves out (`@cache(ttl, key="user:{user_id}") async def get_user(session, user_id)`) do not
distinguish calls.  `Args` / `cacheKey` / `Act.callWith` below say so; rendering itself is C08.
-/
namespace CashewsVerif.SingleFlight

/-- function update -/
def upd {β : Type} (f : Nat → β) (a : Nat) (b : β) : Nat → β := fun x => if x = a then b else f x

/-- what an execution delivers: a returned value, a raised exception, or - the execution itself ended
cancelled (A3) - `CancelledError`.  An exception is the *object* the body raised: its class (`cls`) and an
opaque `payload` standing for everything else a caller can see of it (constructor arguments, message,
attributes, `__cause__`, notes).  The model never looks inside or rebuilds it: `await asyncio.shield(task)`
re-raises `task.exception()` itself, so whatever is delivered is delivered with class and payload unchanged. -/
inductive Outcome where
  | ret (v : Nat)
  | exc (cls : Nat) (payload : Nat)
  | cancelled
  deriving DecidableEq, Repr

structure Exec where
  key : Nat
  remaining : Nat          -- scripted suspension points the body still has to pass
  outcome : Outcome        -- scripted: what the body returns / raises / that it ends cancelled (for a hit: the stored value)
  finished : Bool
  hit : Bool               -- the cache decorator found the value: the wrapped body is not run
  deriving DecidableEq, Repr

inductive CSt where
  | waiting                -- suspended in `await asyncio.shield(task)`
  | got (o : Outcome)      -- the await delivered the execution's result / exception / CancelledError (A3)
  | cancelled              -- the caller's own task was cancelled
  deriving DecidableEq, Repr

structure Caller where
  exec : Option Nat        -- the execution joined or created; `none`: cancelled before making the call
  st : CSt
  deriving DecidableEq, Repr

structure SfSt where
  caching : Bool                     -- executions run a cache decorator (Cache facade) / the bare function
  ttl : Nat                          -- the decorator's ttl, in ticks: how long a stored result stays a hit
  now : Nat                          -- the clock, in ticks; moved by `tick` only
  table : Nat → Option Nat           -- `tasks`: key ↦ execution in flight
  execs : Nat → Option Exec
  callers : Nat → Option Caller
  cached : Nat → Option (Nat × Nat)  -- the cache, as far as it matters here: key ↦ (stored result, instant it expires)
  created : List Nat                 -- ids of the executions created so far, in order

def init (caching : Bool) (ttl : Nat) : SfSt :=
  { caching := caching, ttl := ttl, now := 0, table := fun _ => none, execs := fun _ => none, callers := fun _ => none,
    cached := fun _ => none, created := [] }

inductive Act where
  | call (c key n : Nat) (o : Outcome)   -- caller `c` calls with `key`; if it starts an execution, that one has script (n, o)
  | bodyStep (e : Nat)                   -- the body of `e` passes one suspension point
  | finish (e : Nat)                     -- the body of `e` returns / raises / ends cancelled; done-callbacks run
  | cancel (c : Nat)                     -- `c`'s task is cancelled
  | tick (d : Nat)                       -- `d` ticks of time pass (bodies stay suspended where they are)
  deriving DecidableEq, Repr

/-- The arguments of one call of the decorated function, as far as single-flight can see them: the part the
key template mentions (already rendered: a number stands for the key string) and everything else (a
per-request session object, a flag the template leaves out, ...). -/
structure Args where
  keyed : Nat
  ignored : Nat
  deriving DecidableEq, Repr

/-- `_key = get_cache_key(func, _key_template, args, kwargs)`: depends on the keyed part only -/
def cacheKey (a : Args) : Nat := a.keyed

/-- a call with full arguments is a call with their cache key -/
def Act.callWith (c : Nat) (a : Args) (n : Nat) (o : Outcome) : Act := .call c (cacheKey a) n o

/-- `backend.get(key)` by the cache decorator: the stored value, unless it has expired (Memory: gone as soon as
`expire_at <= time.time()`); nothing when the executions run the bare function -/
def lookupCached (s : SfSt) (key : Nat) : Option Nat :=
  if s.caching then
    match s.cached key with
    | some (v, exp) => if s.now < exp then some v else none
    | none => none
  else none

/-- the execution a creating call starts: a hit of the cache decorator, or the scripted body -/
def newExec (s : SfSt) (key n : Nat) (o : Outcome) : Exec :=
  match lookupCached s key with
  | some v => { key := key, remaining := 0, outcome := .ret v, finished := false, hit := true }
  | none => { key := key, remaining := n, outcome := o, finished := false, hit := false }

/-- shield fan-out: every caller still waiting on `e` receives `o` -/
def deliver (callers : Nat → Option Caller) (e : Nat) (o : Outcome) : Nat → Option Caller := fun c =>
  match callers c with
  | some ⟨some e', .waiting⟩ => if e' = e then some ⟨some e', .got o⟩ else some ⟨some e', .waiting⟩
  | r => r

/-- `_wrapper` up to its `await` (atomic by A1) -/
def stepCall (s : SfSt) (c key n : Nat) (o : Outcome) : SfSt :=
  match s.callers c with
  | some _ => s                                   -- caller ids are used once
  | none =>
    match s.table key with
    | some e =>                                   -- `if _key in tasks: return await asyncio.shield(tasks[_key])`
      { s with callers := upd s.callers c (some ⟨some e, .waiting⟩) }
    | none =>                                     -- create_task; tasks[_key] = task; await asyncio.shield(task)
      { s with table := upd s.table key (some c),
               execs := upd s.execs c (some (newExec s key n o)),
               callers := upd s.callers c (some ⟨some c, .waiting⟩),
               created := s.created ++ [c] }

def stepBody (s : SfSt) (e : Nat) : SfSt :=
  match s.execs e with
  | none => s
  | some x =>
    if x.finished = true ∨ x.remaining = 0 then s
    else { s with execs := upd s.execs e (some { x with remaining := x.remaining - 1 }) }

/-- the task completes: done-callbacks run (`del tasks[_key]`, then the shields wake the waiters) -/
def stepFinish (s : SfSt) (e : Nat) : SfSt :=
  match s.execs e with
  | none => s
  | some x =>
    if x.finished = true ∨ x.remaining ≠ 0 then s
    else
      { s with execs := upd s.execs e (some { x with finished := true }),
               table := upd s.table x.key none,            -- done_callback: `del tasks[_key]`
               callers := deliver s.callers e x.outcome,
               cached :=                                    -- cache decorator: `backend.set(key, result)` for a returned value
                 match x.outcome with
                 | .ret v => if s.caching = true ∧ x.hit = false then upd s.cached x.key (some (v, s.now + s.ttl)) else s.cached
                 | .exc _ _ => s.cached
                 | .cancelled => s.cached }

def stepCancel (s : SfSt) (c : Nat) : SfSt :=
  match s.callers c with
  | none => { s with callers := upd s.callers c (some ⟨none, .cancelled⟩) }     -- cancelled before it calls
  | some ⟨e, .waiting⟩ => { s with callers := upd s.callers c (some ⟨e, .cancelled⟩) }   -- shield (A2): only the waiter
  | some _ => s                                                               -- already done: no effect

def step (s : SfSt) : Act → SfSt
  | .call c key n o => stepCall s c key n o
  | .bodyStep e => stepBody s e
  | .finish e => stepFinish s e
  | .cancel c => stepCancel s c
  | .tick d => { s with now := s.now + d }       -- nothing else: single-flight does not read the clock

def run (s : SfSt) (tr : List Act) : SfSt := tr.foldl step s

/-- `e` is an execution for `key` that has not finished -/
def InFlight (s : SfSt) (e key : Nat) : Prop :=
  ∃ x, s.execs e = some x ∧ x.key = key ∧ x.finished = false

def inFlightB (s : SfSt) (key e : Nat) : Bool :=
  match s.execs e with
  | some x => x.key == key && !x.finished
  | none => false

/-- the observable counter: how many executions for `key` are in flight -/
def inFlightCount (s : SfSt) (key : Nat) : Nat := (s.created.filter (inFlightB s key)).length

def bodyRunningB (s : SfSt) (key e : Nat) : Bool :=
  match s.execs e with
  | some x => x.key == key && !x.finished && !x.hit
  | none => false

/-- how many wrapped bodies are running for `key` (hits run no body) -/
def bodyRunningCount (s : SfSt) (key : Nat) : Nat := (s.created.filter (bodyRunningB s key)).length

/-- bodies started so far for `key` -/
def bodyStarts (s : SfSt) (key : Nat) : Nat :=
  (s.created.filter fun e => match s.execs e with
    | some x => x.key == key && !x.hit
    | none => false).length

/-! ### scheduler granularity (what the harness can drive and the driver replays)

Between two quiescent points of the event loop the harness releases a *burst* of parked tasks (callers at
their start, bodies at a scripted suspension point); they run in release order, each up to its next
suspension, and then every body that has no suspension point left runs to completion.  A burst is therefore
a list of `call` / `bodyStep` / `cancel` actions followed by `finish` for every execution that can finish.
A time step of the schedule is a burst of its own, `[tick d]`: the clock moves between two quiescent points
while every body stays suspended where it is (`settle` after it finishes nothing new). -/

def settle (s : SfSt) : SfSt := run s (s.created.map Act.finish)

def macroStep (s : SfSt) (items : List Act) : SfSt := settle (run s items)

/-- would the action do anything here?  (the driver reports it so that the harness notices when the real
run takes a step the model considers impossible) -/
def enabled (s : SfSt) : Act → Bool
  | .call c _ _ _ => (s.callers c).isNone
  | .bodyStep e => match s.execs e with
    | some x => !x.finished && x.remaining != 0
    | none => false
  | .finish e => match s.execs e with
    | some x => !x.finished && x.remaining == 0
    | none => false
  | .cancel c => match s.callers c with
    | none => true
    | some ⟨_, .waiting⟩ => true
    | some _ => false
  | .tick _ => true

end CashewsVerif.SingleFlight
