/-
C18 — bit fields.  Executable model of `cashews/utils/_bitarray.py` (the pure-python `Bitarray`,
the class that runs when the `bitarray` package is absent) and of `Memory.get_bits / incr_bits`
(`cashews/backends/memory.py`).  Mathlib-free (the driver links against this file).

The Python object holds one arbitrary-precision non-negative integer `_value`; the model is a
`Nat`.  Every method is written as the same bit-by-bit loop as the Python code.
-/
namespace CashewsVerif.Bits

/-- `self._value |= 1 << index` -/
def setBit1 (a p : Nat) : Nat := a ||| (1 <<< p)

/-- `self._value &= ~(1 << index)`.  On a non-negative Python integer this clears bit `index`;
`Nat` has no complement, so the same effect is written `a xor (a and (1 << index))`. -/
def setBit0 (a p : Nat) : Nat := a ^^^ (a &&& (1 <<< p))

/-- `Bitarray.get`:
```
value = 0
for bit_index, i in enumerate(range(index * size, (index + 1) * size)):
    value |= ((self._value >> i) & 1) << bit_index
return value
``` -/
def get (a i w : Nat) : Nat :=
  (List.range w).foldl (fun value b => value ||| (((a >>> (i * w + b)) &&& 1) <<< b)) 0

/-- `Bitarray.set`:
```
for i in range(0, size):
    if (value >> i) & 1: self._set_bit_1(index * size + i)
    else:                self._set_bit_0(index * size + i)
``` -/
def set (a i v w : Nat) : Nat :=
  (List.range w).foldl
    (fun acc b => if (v >>> b) &&& 1 = 1 then setBit1 acc (i * w + b) else setBit0 acc (i * w + b)) a

/-- `by = min(by, 2**size - 1) if by > 0 else max(by, -(2**size) - 1)` -/
def clampBy (w : Nat) (by_ : Int) : Int :=
  if by_ > 0 then min by_ ((2 : Int) ^ w - 1) else max by_ (-((2 : Int) ^ w) - 1)

/-- `min(max(0, value), 2**size - 1)` -/
def clamp (w : Nat) (x : Int) : Int := min (max 0 x) ((2 : Int) ^ w - 1)

/-- `Bitarray.incr`:
```
by = min(by, 2**size - 1) if by > 0 else max(by, -(2**size) - 1)
value = self.get(index, size)
value += by
value = min(max(0, value), 2**size - 1)
self.set(index, value, size)
``` -/
def incr (a i w : Nat) (by_ : Int) : Nat :=
  let value : Int := (get a i w : Nat) + clampBy w by_
  set a i (clamp w value).toNat w

/-- `Memory.get_bits`: `tuple(array.get(index, size) for index in indexes)`; a missing key reads
as `Bitarray("0")`, i.e. `a = 0`. -/
def getBits (a : Nat) (idxs : List Nat) (w : Nat) : List Nat := idxs.map (get a · w)

/-- `Memory.incr_bits`:
```
for index in indexes:
    array.incr(index, size, by)
    result.append(array.get(index, size))
```
returns the new array and the reported values. -/
def incrBits (a : Nat) (idxs : List Nat) (w : Nat) (by_ : Int) : Nat × List Nat :=
  idxs.foldl (fun (s : Nat × List Nat) i =>
    let a' := incr s.1 i w by_
    (a', s.2 ++ [get a' i w])) (a, [])

/-- the two bit-field commands of the backend, at one fixed width (command vocabulary shared with
the ideal object `Spec/Counters.lean`) -/
inductive Op where
  | getBits (idxs : List Nat)
  | incrBits (idxs : List Nat) (by_ : Int)
  deriving Repr

def step (w : Nat) (a : Nat) : Op → Nat × List Nat
  | .getBits idxs => (a, getBits a idxs w)
  | .incrBits idxs by_ => incrBits a idxs w by_

/-- all answers of a history of commands on one key, in order -/
def run (w : Nat) (a : Nat) : List Op → List (List Nat)
  | [] => []
  | op :: rest => let r := step w a op; r.2 :: run w r.1 rest

end CashewsVerif.Bits
