/-
C18 — bit fields.  Executable model of `cashews/utils/_bitarray.py` (the pure-python `Bitarray`,
the class that runs when the `bitarray` package is absent) and of `Memory.get_bits / incr_bits`
(`cashews/backends/memory.py`).  Mathlib-free (the driver links against this file).

The Python object holds one arbitrary-precision non-negative integer `_value`; the model is a
`Nat`.  Every method is written as the same bit-by-bit loop as the Python code.
-/
namespace CashewsVerif.Bits

/-- `self._value |= 1 << index` -/
def setBit1 (a p : Nat) : Nat := a ||| (1 <<< p)

/-- `self._value &= ~(1 << index)`.  On a non-negative Python integer this clears bit `index`;
`Nat` has no complement, so the same effect is written `a xor (a and (1 << index))`. -/
def setBit0 (a p : Nat) : Nat := a ^^^ (a &&& (1 <<< p))

/-- `Bitarray.get`:
```
value = 0
for bit_index, i in enumerate(range(index * size, (index + 1) * size)):
    value |= ((self._value >> i) & 1) << bit_index
return value
``` -/
def get (a i w : Nat) : Nat :=
  (List.range w).foldl (fun value b => value ||| (((a >>> (i * w + b)) &&& 1) <<< b)) 0

/-- `Bitarray.set`:
```
for i in range(0, size):
    if (value >> i) & 1: self._set_bit_1(index * size + i)
    else:                self._set_bit_0(index * size + i)
``` -/
def set (a i v w : Nat) : Nat :=
  (List.range w).foldl
    (fun acc b => if (v >>> b) &&& 1 = 1 then setBit1 acc (i * w + b) else setBit0 acc (i * w + b)) a

/-- `by = min(by, 2**size - 1) if by > 0 else max(by, -(2**size) - 1)` -/
def clampBy (w : Nat) (by_ : Int) : Int :=
  if by_ > 0 then min by_ ((2 : Int) ^ w - 1) else max by_ (-((2 : Int) ^ w) - 1)

/-- `min(max(0, value), 2**size - 1)` -/
def clamp (w : Nat) (x : Int) : Int := min (max 0 x) ((2 : Int) ^ w - 1)

/-- `Bitarray.incr`:
```
by = min(by, 2**size - 1) if by > 0 else max(by, -(2**size) - 1)
value = self.get(index, size)
value += by
value = min(max(0, value), 2**size - 1)
self.set(index, value, size)
``` -/
def incr (a i w : Nat) (by_ : Int) : Nat :=
  let value : Int := (get a i w : Nat) + clampBy w by_
  set a i (clamp w value).toNat w

/-- `Memory.get_bits`: `tuple(array.get(index, size) for index in indexes)`; a missing key reads
as `Bitarray("0")`, i.e. `a = 0`. -/
def getBits (a : Nat) (idxs : List Nat) (w : Nat) : List Nat := idxs.map (get a · w)

/-- `Memory.incr_bits`:
```
for index in indexes:
    array.incr(index, size, by)
    result.append(array.get(index, size))
```
returns the new array and the reported values. -/
def incrBits (a : Nat) (idxs : List Nat) (w : Nat) (by_ : Int) : Nat × List Nat :=
  idxs.foldl (fun (s : Nat × List Nat) i =>
    let a' := incr s.1 i w by_
    (a', s.2 ++ [get a' i w])) (a, [])

/-- the two bit-field commands of the backend, at one fixed width (command vocabulary shared with
the ideal object `Spec/Counters.lean`) -/
inductive Op where
  | getBits (idxs : List Nat)
  | incrBits (idxs : List Nat) (by_ : Int)
  deriving Repr

def step (w : Nat) (a : Nat) : Op → Nat × List Nat
  | .getBits idxs => (a, getBits a idxs w)
  | .incrBits idxs by_ => incrBits a idxs w by_

/-- all answers of a history of commands on one key, in order -/
def run (w : Nat) (a : Nat) : List Op → List (List Nat)
  | [] => []
  | op :: rest => let r := step w a op; r.2 :: run w r.1 rest

/-! ## a bit-field key with a lifetime

One key of `Memory.store` under the (virtual) clock: bit-field keys live in the same TTL store as
every other key — `expire(key, t)` gives a filter a deadline, and an entry whose deadline has
passed stays *physically* in `store` until something reads it (`_get` deletes it then) or the
purge task sweeps it.  Time is in ticks (`Nat`), as everywhere in the models. -/

/-- `store[key] = (expire_at, array)` -/
structure Slot where
  a  : Nat
  dl : Option Nat          -- absolute deadline; `none` = no TTL
  deriving Repr, DecidableEq

/-- `expire_at and expire_at <= time.time()` -/
def Slot.expired (s : Slot) (now : Nat) : Bool :=
  match s.dl with
  | none => false
  | some d => decide (d ≤ now)

structure TState where
  now  : Nat
  slot : Option Slot       -- `none` = `key not in self.store`
  deriving Repr, DecidableEq

/-- what the key holds *logically*: an entry at or after its deadline is not there -/
def TState.view (t : TState) : Option Slot :=
  match t.slot with
  | none => none
  | some s => if s.expired t.now then none else some s

/-- `Memory._get(key, default)`:
```
if key not in self.store: return default
expire_at, value = self.store[key]
if expire_at and expire_at <= time.time():
    await self._delete(key); return default
return value
```
answers the store afterwards and the entry found (`none` = the default came back) -/
def tget (t : TState) : TState × Option Slot :=
  match t.slot with
  | none => (t, none)
  | some s => if s.expired t.now then ({ t with slot := none }, none) else (t, some s)

/-- `Memory._set(key, value, expire)`:
```
expire = time.time() + expire if expire else None
if expire is None and key in self.store:
    expire, _ = self.store[key]
    if expire is not None and expire <= time.time(): expire = None
self.store[key] = (expire, copy(value))
```
(`ttl = 0` stands for both `None` and `0`) -/
def tset (t : TState) (a : Nat) (ttl : Nat) : TState :=
  let dl : Option Nat :=
    if ttl ≠ 0 then some (t.now + ttl)
    else match t.slot with
      | none => none
      | some s => if s.expired t.now then none else s.dl
  { t with slot := some ⟨a, dl⟩ }

/-- the commands that can reach a bit-field key, plus passage of time -/
inductive TOp where
  | getBits (idxs : List Nat)
  | incrBits (idxs : List Nat) (by_ : Int)
  | expire (ttl : Nat)       -- `expire(key, ttl)`
  | delete                   -- `delete(key)`
  | touch                    -- `exists(key)`; also what one sweep of the purge task does to the key
  | adv (dt : Nat)           -- `dt` ticks pass, nothing touches the key
  deriving Repr

def b2l (b : Bool) : List Nat := if b then [1] else [0]

/-- one command on the key, at width `w`; the answer is a list of numbers (`expire`/`adv`: empty,
`delete`/`touch`: `[1]` for True, `[0]` for False)
```
get_bits:  array = await self._get(key, default=Bitarray("0")); return tuple(array.get(i, size) …)
incr_bits: array = await self._get(key, default=Bitarray("0")); …incr…; self._set(key, array)
expire:    if not await self._key_exist(key): return
           value = await self._get(key, default=_missed); …; self._set(key, value, timeout)
_delete:   if key in self.store: expire_at, _ = self.store.pop(key); return not (expire_at and expire_at <= time.time())
           return False
``` -/
def tstep (w : Nat) (t : TState) : TOp → TState × List Nat
  | .getBits idxs =>
    let r := tget t
    (r.1, getBits ((r.2.map (·.a)).getD 0) idxs w)
  | .incrBits idxs by_ =>
    let r := tget t
    let x := incrBits ((r.2.map (·.a)).getD 0) idxs w by_
    (tset r.1 x.1 0, x.2)
  | .expire ttl =>
    let r := tget t
    match r.2 with
    | none => (r.1, [])
    | some s => (tset r.1 s.a ttl, [])
  | .delete =>
    match t.slot with
    | none => (t, b2l false)
    | some s => ({ t with slot := none }, b2l (!s.expired t.now))
  | .touch =>
    let r := tget t
    (r.1, b2l r.2.isSome)
  | .adv dt => ({ t with now := t.now + dt }, [])

def trun (w : Nat) (t : TState) : List TOp → List (List Nat)
  | [] => []
  | op :: rest => let r := tstep w t op; r.2 :: trun w r.1 rest

/-- the state after a history -/
def tstate (w : Nat) (t : TState) : List TOp → TState
  | [] => t
  | op :: rest => tstate w (tstep w t op).1 rest

/-! ## several bit-field keys, and bit-field VALUES moved between keys by the value commands

`Memory.get(key)` answers the stored `Bitarray` and `set` / `set_many` (also a transaction's write
buffer and its commit) store what they are given through `_set`, i.e. `copy(value)`:
`set(dst, await get(src))` makes `dst` hold a COPY of `src`'s array.  In this model an array is a
number, so a copy is the same number and the two keys cannot alias by construction — which is the
claim: after such a copy the two keys evolve independently. -/

/-- the store: every key's slot under one clock (each key carries the clock; `adv` moves them all) -/
abbrev MState := Nat → TState

def MState.set (m : MState) (k : Nat) (t : TState) : MState := fun k' => if k' = k then t else m k'

inductive MOp where
  | on (k : Nat) (op : TOp)                 -- a bit-field / key command on one key (`op` is not `adv`)
  | adv (dt : Nat)                          -- time passes for every key
  | copy (src dst : Nat) (ttl : Nat)        -- `v = await get(src); if v is not None: await set(dst, v, expire=ttl)`
  deriving Repr

/-- one command; `copy` answers `[1]` when there was something to copy
```
get:  return await self._get(key, default=default)          # the stored Bitarray, or None (run-out entries are purged)
set:  self._set(key, value, expire)                          # store[key] = (deadline, copy(value))
``` -/
def mstep (w : Nat) (m : MState) : MOp → MState × List Nat
  | .on k op => let r := tstep w (m k) op; (m.set k r.1, r.2)
  | .adv dt => (fun k => (tstep w (m k) (.adv dt)).1, [])
  | .copy src dst ttl =>
    let r := tget (m src)
    let m' := m.set src r.1
    match r.2 with
    | none => (m', b2l false)
    | some s => (m'.set dst (tset (m' dst) s.a ttl), b2l true)

def mrun (w : Nat) (m : MState) : List MOp → List (List Nat)
  | [] => []
  | op :: rest => let r := mstep w m op; r.2 :: mrun w r.1 rest

end CashewsVerif.Bits
