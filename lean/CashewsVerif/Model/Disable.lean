import CashewsVerif.Model.Route
/-
C17 — the enabled/disabled state of a backend (`ControlMixin`, cashews/backends/interface.py),
the disable middleware (cashews/wrapper/disable_control.py, after fix b80a99e), the delegation of
the transaction wrapper (cashews/backends/transaction.py, after fix 9290b53), the public commands
of cashews/wrapper/commands.py as "which backend command is issued and how is the answer built",
and the decorator bypass of cashews/wrapper/decorators.py.   Mathlib-free.

Contexts (PEP 567) are numbers.  `asyncio.create_task` runs the child in a *copy* of the parent's
context (assumption A3 of DESIGN §3): `fork`.
-/
namespace CashewsVerif.Disable
open CashewsVerif.Route

/-- `cashews.commands.Command` (the alias `EXIST` is the same member as `EXISTS`) -/
inductive Cmd where
  | get | getMany | getRaw | getMatch | set | setRaw | setMany | delete | deleteMany | deleteMatch
  | exists_ | scan | incr | expire | getExpire | clear
  | setLock | unlock | isLocked | getBits | incrBits | sliceIncr
  | setAdd | setRemove | setPop | ping | getSize | getKeysCount
  deriving DecidableEq, Repr

/-- `ALL = set(Command)` -/
def Cmd.all : List Cmd :=
  [.get, .getMany, .getRaw, .getMatch, .set, .setRaw, .setMany, .delete, .deleteMany, .deleteMatch,
   .exists_, .scan, .incr, .expire, .getExpire, .clear,
   .setLock, .unlock, .isLocked, .getBits, .incrBits, .sliceIncr,
   .setAdd, .setRemove, .setPop, .ping, .getSize, .getKeysCount]

/-- `Command.<X>.value` -/
def Cmd.name : Cmd → String
  | .get => "get" | .getMany => "get_many" | .getRaw => "get_raw" | .getMatch => "get_match"
  | .set => "set" | .setRaw => "set_raw" | .setMany => "set_many" | .delete => "delete"
  | .deleteMany => "delete_many" | .deleteMatch => "delete_match" | .exists_ => "exists"
  | .scan => "scan" | .incr => "incr" | .expire => "expire" | .getExpire => "get_expire"
  | .clear => "clear" | .setLock => "set_lock" | .unlock => "unlock" | .isLocked => "is_locked"
  | .getBits => "get_bits" | .incrBits => "incr_bits" | .sliceIncr => "slice_incr"
  | .setAdd => "set_add" | .setRemove => "set_remove" | .setPop => "set_pop" | .ping => "ping"
  | .getSize => "get_size" | .getKeysCount => "get_keys_count"

/-- The control state of all backends as seen from all contexts.
`var c b` is a Python `set[Command]` represented by a list (only membership is ever asked). -/
structure World where
  /-- backend ↦ `enable_by_default`.  A class attribute of `ControlMixin` that is `True` and never
  assigned anywhere in cashews; it is a parameter here (per backend object, since an instance
  attribute can shadow it) because the locality of the control state depends on it:
  see `disable_is_context_local` and `default_disabled_state_leaks` in `Props/C17.lean`. -/
  enableByDefault : Nat → Bool
  /-- backend ↦ `self._control_set`: a plain attribute, hence shared by all contexts -/
  controlSet : Nat → Bool
  /-- context ↦ backend ↦ value of the ContextVar `self.__disable` in that context
  (`ContextVar(..., default=set())`: never set = empty) -/
  var : Nat → Nat → List Cmd

def World.init (enableByDefault : Bool := true) : World :=
  ⟨fun _ => enableByDefault, fun _ => false, fun _ _ => []⟩

/-- ```
def is_disable(self, *cmds):
    if not self._control_set: return not self.enable_by_default
    _disable = self._disable
    if not cmds and _disable: return True
    for cmd in cmds:
        if cmd in _disable: return True
    return False
``` -/
def isDisable (w : World) (c b : Nat) (cmds : List Cmd) : Bool :=
  if w.controlSet b then
    let d := w.var c b
    if cmds.isEmpty && !d.isEmpty then true else cmds.any fun x => d.contains x
  else !w.enableByDefault b

/-- ```
def is_full_disable(self):
    if not self._control_set: return not self.enable_by_default
    return self._disable == ALL
```
(`_disable` only ever holds members of `Command`, so `== ALL` is `ALL ⊆ _disable`.) -/
def isFullDisable (w : World) (c b : Nat) : Bool :=
  if w.controlSet b then Cmd.all.all fun x => (w.var c b).contains x
  else !w.enableByDefault b

/-- `_set_disable(value)`: `self.__disable.set(value)` changes the variable in the *current*
context only; `self._control_set = True` is seen everywhere -/
def setVar (w : World) (c b : Nat) (s : List Cmd) : World :=
  { w with
    controlSet := fun b' => if b' = b then true else w.controlSet b'
    var := fun c' b' => if c' = c ∧ b' = b then s else w.var c' b' }

/-- `ControlMixin.disable(*cmds)`: no commands = `ALL.copy()`, otherwise `_disable.copy().update(cmds)` -/
def disableB (w : World) (c b : Nat) (cmds : List Cmd) : World :=
  setVar w c b (if cmds.isEmpty then Cmd.all else w.var c b ++ cmds)

/-- `ControlMixin.enable(*cmds)`: no commands = `set()`, otherwise `_disable.copy() - set(cmds)` -/
def enableB (w : World) (c b : Nat) (cmds : List Cmd) : World :=
  setVar w c b (if cmds.isEmpty then [] else (w.var c b).filter fun x => !cmds.contains x)

/-- `asyncio.create_task` / `contextvars.copy_context()`: the child starts with the parent's values -/
def fork (w : World) (parent child : Nat) : World :=
  { w with var := fun c' => if c' = child then w.var parent else w.var c' }

/-! ### `ControlWrapper` (the public `cache.disable / enable / disabling / is_disable / is_full_disable`) -/

inductive CtlOp where
  /-- `cache.disable(*cmds, prefix=p)` run in context `c` (also the entry of `disabling`) -/
  | disable (c : Nat) (cmds : List Cmd) (p : List Nat)
  /-- `cache.enable(*cmds, prefix=p)` -/
  | enable (c : Nat) (cmds : List Cmd) (p : List Nat)
  /-- the exit of `with cache.disabling(*cmds, prefix=p)`: `enable` with `NotConfiguredError` suppressed -/
  | exitDisabling (c : Nat) (cmds : List Cmd) (p : List Nat)
  /-- a task is created by a task running in context `parent`; it runs in the fresh context `child` -/
  | fork (parent child : Nat)
  deriving Repr

/-- the context whose view an operation may change -/
def CtlOp.target : CtlOp → Nat
  | .disable c _ _ => c
  | .enable c _ _ => c
  | .exitDisabling c _ _ => c
  | .fork _ child => child

/-- one control operation; the flag says whether `NotConfiguredError` escaped.  The backend is found
by routing the `prefix` argument like a key (`self._get_backend(prefix)`); inside a transaction that
yields the transaction wrapper, which hands `disable/enable` on to the wrapped backend (9290b53), so
the same state is changed either way. -/
def ctlStep (t : Table) (w : World) : CtlOp → World × Bool
  | .disable c cmds p =>
    match t.getBackend p with
    | none => (w, false)                      -- `with suppress(NotConfiguredError)`
    | some b => (disableB w c b cmds, false)
  | .enable c cmds p =>
    match t.getBackend p with
    | none => (w, true)
    | some b => (enableB w c b cmds, false)
  | .exitDisabling c cmds p =>
    match t.getBackend p with
    | none => (w, false)
    | some b => (enableB w c b cmds, false)
  | .fork parent child => (fork w parent child, false)

def ctlRun (t : Table) (w : World) (ops : List CtlOp) : World :=
  ops.foldl (fun w op => (ctlStep t w op).1) w

/-- `cache.is_disable(*cmds, prefix=p)`; `none` = `NotConfiguredError` -/
def facadeIsDisable (t : Table) (w : World) (c : Nat) (cmds : List Cmd) (p : List Nat) : Option Bool :=
  (t.getBackend p).map fun b => isDisable w c b cmds

/-- `cache.is_full_disable`: `all(backend.is_full_disable for backend in self._backends.values())` -/
def facadeFullDisable (t : Table) (w : World) (c : Nat) : Bool :=
  t.backends.all fun b => isFullDisable w c b

/-! ### The object the disable middleware asks -/

/-- what `_get_backend` returns: the registered backend, or (inside `cache.transaction()`) the
`TransactionBackend` wrapping it -/
inductive Target where
  | raw (b : Nat)
  | tx (b : Nat)
  deriving DecidableEq, Repr

/-- the backend whose control state answers `target.is_disable(cmd)`: after 9290b53 the transaction
wrapper delegates `is_disable / is_full_disable / disable / enable` to the backend it wraps -/
def Target.ctl : Target → Nat
  | .raw b => b
  | .tx b => b

def Target.backend : Target → Nat
  | .raw b => b
  | .tx b => b

def targetOf (inTx : Bool) (b : Nat) : Target := if inTx then .tx b else .raw b

/-! ### Commands through the facade: issued backend calls and the shape of the answer -/

/-- a command handed to a backend object (the registered one, or its transaction wrapper) -/
structure Call where
  target : Target
  cmd : Cmd
  keys : List (List Nat)
  deriving DecidableEq, Repr

/-- one position of a `get_many` answer -/
inductive Slot where
  | dflt                       -- the caller's `default`
  | resp (call pos : Nat)      -- position `pos` of what call number `call` of the log answered
  | missing                    -- `dict.get` found nothing (never happens; see `Props/C17.lean`)
  deriving DecidableEq, Repr

/-- the answer of a facade command as a function of the answers of the issued backend calls -/
inductive Res where
  | dflt                       -- the caller's `default`
  | none_                      -- `None`
  | emptyStream                -- an async iterator that yields nothing
  | resp (call : Nat)          -- whatever call number `call` answered
  | stream (call : Nat)        -- the items of the async iterator call number `call` returned
  | many (slots : List Slot)   -- a tuple, one slot per requested key
  | sum (calls : List Nat)     -- the sum of the answers of these calls (`get_keys_count`)
  deriving DecidableEq, Repr

/-- ```
if backend.is_disable(cmd):
    if cmd == Command.GET: return kwargs.get("default", None)
    if cmd == Command.GET_MANY: return tuple(kwargs.get("default", None) for _ in args)
    if cmd in (Command.SCAN, Command.GET_MATCH): return _empty_iterator()
    return None
``` -/
def defaultShape (cmd : Cmd) (nargs : Nat) : Res :=
  match cmd with
  | .get => .dflt
  | .getMany => .many (List.replicate nargs .dflt)
  | .scan => .emptyStream
  | .getMatch => .emptyStream
  | _ => .none_

/-- what an enabled command hands back: the backend's answer -/
def passShape (cmd : Cmd) (call : Nat) (nargs : Nat) : Res :=
  match cmd with
  | .getMany => .many ((List.range nargs).map fun j => .resp call j)
  | .scan => .stream call
  | .getMatch => .stream call
  | _ => .resp call

/-- `_is_disable_middleware` around one backend command; `n` = number of calls issued so far -/
def middleware (w : World) (c : Nat) (tg : Target) (cmd : Cmd) (keys : List (List Nat)) (n : Nat) :
    Res × List Call :=
  if isDisable w c tg.ctl [cmd] then (defaultShape cmd keys.length, [])
  else (passShape cmd n keys.length, [⟨tg, cmd, keys⟩])

/-- the public commands of `CommandWrapper` -/
inductive FCmd where
  /-- a command routed by one string: every single-key command, the pattern commands (routed by the
  pattern itself) and `ping` (routed by the decoded message) -/
  | keyed (cmd : Cmd) (key : List Nat)
  | getMany (keys : List (List Nat))
  | setMany (keys : List (List Nat))       -- the keys of `pairs`, in the mapping's order
  | deleteMany (keys : List (List Nat))
  | clear
  | keysCount
  deriving DecidableEq, Repr

def FCmd.keys : FCmd → List (List Nat)
  | .keyed _ k => [k]
  | .getMany ks => ks
  | .setMany ks => ks
  | .deleteMany ks => ks
  | .clear => []
  | .keysCount => []

/-- the loop `for _keys in backends.values(): await self._with_middlewares(cmd, _keys[0])(*_keys)`:
the backend commands it issues and, per group, the slots it answered; `n` = number of backend
commands issued before (the index the next one gets in the log) -/
def groupCalls (w : World) (c : Nat) (inTx : Bool) (cmd : Cmd) :
    List (Nat × List (List Nat)) → Nat → List Call × List (List Slot)
  | [], _ => ([], [])
  | (b, ks) :: r, n =>
    let tg := targetOf inTx b
    if isDisable w c tg.ctl [cmd] then
      let (cs, ss) := groupCalls w c inTx cmd r n
      (cs, List.replicate ks.length .dflt :: ss)
    else
      let (cs, ss) := groupCalls w c inTx cmd r (n + 1)
      (⟨tg, cmd, ks⟩ :: cs, ((List.range ks.length).map fun j => .resp n j) :: ss)

/-- `for backend in self._backends.values(): await self._with_middlewares_for_backend(cmd, backend, default_middlewares)()`
— always the registered backends, also inside a transaction -/
def allBackendsCalls (w : World) (c : Nat) (cmd : Cmd) : List Nat → List Call
  | [] => []
  | b :: r =>
    if isDisable w c b [cmd] then allBackendsCalls w c cmd r
    else ⟨.raw b, cmd, []⟩ :: allBackendsCalls w c cmd r

/-- a `dict.get` miss would be Python's `None` -/
def Slot.ofOption : Option Slot → Slot
  | some s => s
  | none => .missing

/-- One public command run in context `c` (inside a transaction iff `inTx`): the answer shape and
the backend commands issued, in order.  `none` = `NotConfiguredError` (no backend for a key). -/
def exec (t : Table) (w : World) (c : Nat) (inTx : Bool) : FCmd → Option (Res × List Call)
  | .keyed cmd key =>
    (t.getBackend key).map fun b => middleware w c (targetOf inTx b) cmd [key] 0
  | .getMany keys =>
    (groupKeys t.getBackend keys).map fun groups =>
      let cs := groupCalls w c inTx .getMany groups 0
      (.many ((getManyResult groups (fun i => cs.2.getD i []) keys).map Slot.ofOption), cs.1)
  | .setMany keys =>
    (groupKeys t.getBackend keys).map fun groups =>
      (.none_, (groupCalls w c inTx .setMany groups 0).1)
  | .deleteMany keys =>
    (groupKeys t.getBackend keys).map fun groups =>
      (.none_, (groupCalls w c inTx .deleteMany groups 0).1)
  | .clear => some (.none_, allBackendsCalls w c .clear t.backends)
  | .keysCount =>
    let calls := allBackendsCalls w c .getKeysCount t.backends
    -- `result += count or 0` (3a61caf): a disabled backend contributes nothing
    some (.sum (List.range calls.length), calls)

/-! ### Decorated functions -/

/-- the state of one function decorated with `@cache(ttl)`: what an earlier execution stored
(the number of the execution), how often the body ran, and the backend commands issued -/
structure DecSt where
  cached : Option Nat
  execs : Nat
  calls : List Call
  deriving Repr

def DecSt.init : DecSt := ⟨none, 0, []⟩

/-- ```
async def _call(*args, **kwargs):
    self._check_setup()
    if self.is_full_disable: return await func(*args, **kwargs)
    return await decorator(*args, **kwargs)   # get(key, default=_empty); miss -> body; set(key, result)
```
`none` = `NotConfiguredError`.  The stored value is visible to later calls only if `set` was really
issued; a disabled `get` answers the `_empty` default, i.e. a miss. -/
def decoratedCall (t : Table) (w : World) (c : Nat) (key : List Nat) (st : DecSt) : Option DecSt :=
  if t.regs.isEmpty then none
  else if facadeFullDisable t w c then some { st with execs := st.execs + 1 }
  else
    match t.getBackend key with
    | none => none
    | some b =>
      let getOn := !isDisable w c b [.get]
      let calls1 := if getOn then st.calls ++ [⟨.raw b, .get, [key]⟩] else st.calls
      if getOn && st.cached.isSome then some { st with calls := calls1 }
      else
        let setOn := !isDisable w c b [.set]
        some { cached := if setOn then some st.execs else st.cached
               execs := st.execs + 1
               calls := if setOn then calls1 ++ [⟨.raw b, .set, [key]⟩] else calls1 }

/-- `n` consecutive calls -/
def decoratedCalls (t : Table) (w : World) (c : Nat) (key : List Nat) : Nat → DecSt → Option DecSt
  | 0, st => some st
  | n + 1, st => (decoratedCall t w c key st).bind (decoratedCalls t w c key n)

/-! ### Overlapping calls of a decorated function

`DecoratorsWrapper._wrap` (cashews/wrapper/decorators.py) for `@cache(ttl, key=..., protected=p)`:
```
thunder_protection = decorators.thunder_protection(key=...) if protected else (lambda f: f)
async def _call(*args, **kwargs):
    self._check_setup()
    if self.is_full_disable: return await func(*args, **kwargs)      # OUTSIDE thunder_protection
    return await thunder_protection(decorator)(*args, **kwargs)
```
and `thunder_protection` (cashews/decorators/locked.py):
```
_key = get_cache_key(func, _key_template, args, kwargs)
if _key in tasks: return await asyncio.shield(tasks[_key])         # join the call in flight
task = asyncio.create_task(func(*args, **kwargs)); tasks[_key] = task   # removed again when done
return await asyncio.shield(task)
```
Several calls are in flight at once; an execution of the body is suspended until the environment
lets it finish (`CEv.finish`).  Executions are numbered in the order they start; the outcome of a
call is the number of the execution whose result it is handed.  Control operations may happen in
between; a call sees the control state of its context at the moment it starts (the task that runs
it holds a copy of that context, A3; sets of disabled commands are replaced, never mutated). -/

/-- what a call in flight is doing -/
inductive Role where
  /-- `if self.is_full_disable: return await func(...)`: runs execution `e` of the body; it is not
  registered anywhere and no backend is involved -/
  | bypass (e : Nat)
  /-- inside the cache decorator after a miss: runs execution `e`.  `joinable`: it is the task that
  `thunder_protection` holds under the key.  `setTo`: the backend that is handed `set(key, result)`
  when the body returns (`none`: SET is disabled for it) -/
  | own (e : Nat) (joinable : Bool) (setTo : Option Nat)
  /-- `if _key in tasks: return await asyncio.shield(tasks[_key])`: waits for the call `leader` -/
  | joined (leader : Nat)
  deriving DecidableEq, Repr

/-- the execution a call in flight is running itself -/
def Role.exec? : Role → Option Nat
  | .bypass e => some e
  | .own e _ _ => some e
  | .joined _ => none

structure Flight where
  call : Nat
  key : List Nat
  role : Role
  deriving DecidableEq, Repr

/-- a function decorated with `@cache(ttl, key=<template>, protected=p)` with calls in flight -/
structure CSt where
  /-- cache key ↦ the execution whose result an earlier call stored (most recent first) -/
  cached : List (List Nat × Nat)
  /-- how many executions of the body have started -/
  execs : Nat
  flights : List Flight
  /-- finished calls: call ↦ the execution whose outcome the caller was handed -/
  results : List (Nat × Nat)
  /-- backend commands issued by the facade -/
  calls : List Call
  /-- calls that ended in `NotConfiguredError` -/
  nc : List Nat
  deriving Repr

def CSt.init : CSt := ⟨[], 0, [], [], [], []⟩

def lookupKey (k : List Nat) : List (List Nat × Nat) → Option Nat
  | [] => none
  | (k', e) :: r => if k' = k then some e else lookupKey k r

/-- the call in flight that `thunder_protection` holds under `key` -/
def findLeader (key : List Nat) : List Flight → Option Flight
  | [] => none
  | f :: r =>
    match f.role with
    | .own _ true _ => if f.key = key then some f else findLeader key r
    | _ => findLeader key r

/-- the cache decorator proper, `b` = backend of the key:
`cached = await backend.get(key, default=_empty)`; hit → return it; miss → run the body, then
`await backend.set(key, result, expire=ttl)` (each through the disable middleware) -/
def cstartOn (prot : Bool) (s : CSt) (call : Nat) (key : List Nat) (b : Nat) (getOn setOn : Bool) : CSt :=
  match (if getOn then lookupKey key s.cached else none) with
  | some e =>
    { s with calls := if getOn then s.calls ++ [⟨.raw b, .get, [key]⟩] else s.calls
             results := s.results ++ [(call, e)] }
  | none =>
    { s with calls := if getOn then s.calls ++ [⟨.raw b, .get, [key]⟩] else s.calls
             execs := s.execs + 1
             flights := s.flights ++ [⟨call, key, .own s.execs prot (if setOn then some b else none)⟩] }

/-- a call `call` of the decorated function starts in context `ctx`; `key` is its cache key -/
def cstart (t : Table) (prot : Bool) (w : World) (s : CSt) (call ctx : Nat) (key : List Nat) : CSt :=
  if t.regs.isEmpty then { s with nc := s.nc ++ [call] }                    -- `_check_setup()`
  else if facadeFullDisable t w ctx then
    { s with execs := s.execs + 1, flights := s.flights ++ [⟨call, key, .bypass s.execs⟩] }
  else
    match (if prot then findLeader key s.flights else none) with
    | some l => { s with flights := s.flights ++ [⟨call, key, .joined l.call⟩] }
    | none =>
      match t.getBackend key with
      | none => { s with nc := s.nc ++ [call] }
      | some b => cstartOn prot s call key b (!isDisable w ctx b [.get]) (!isDisable w ctx b [.set])

/-- the first flight of call `call`, and the others -/
def takeFlight (call : Nat) : List Flight → Option (Flight × List Flight)
  | [] => none
  | f :: r =>
    if f.call = call then some (f, r)
    else match takeFlight call r with
      | none => none
      | some (g, r') => some (g, f :: r')

/-- the body executed by call `call` returns (a call that runs no body of its own: nothing happens) -/
def cfinish (s : CSt) (call : Nat) : CSt :=
  match takeFlight call s.flights with
  | none => s
  | some (f, rest) =>
    match f.role with
    | .joined _ => s
    | .bypass e => { s with flights := rest, results := s.results ++ [(call, e)] }
    | .own e _ setTo =>
      { s with
        flights := rest.filter fun g => g.role ≠ .joined call
        cached := match setTo with
          | some _ => (f.key, e) :: s.cached
          | none => s.cached
        calls := match setTo with
          | some b => s.calls ++ [⟨.raw b, .set, [f.key]⟩]
          | none => s.calls
        results := s.results ++ [(call, e)] ++
          (rest.filter fun g => g.role = .joined call).map fun g => (g.call, e) }

inductive CEv where
  /-- `asyncio.create_task(f(arg))` by a task running in context `ctx`; `key` = cache key of `arg` -/
  | start (call ctx : Nat) (key : List Nat)
  /-- the body that call `call` is executing returns -/
  | finish (call : Nat)
  /-- a control operation in between -/
  | ctl (op : CtlOp)
  deriving Repr

structure CRun where
  w : World
  s : CSt

def cstep (t : Table) (prot : Bool) (r : CRun) : CEv → CRun
  | .start call ctx key => { r with s := cstart t prot r.w r.s call ctx key }
  | .finish call => { r with s := cfinish r.s call }
  | .ctl op => { r with w := (ctlStep t r.w op).1 }

def crun (t : Table) (prot : Bool) (r : CRun) (evs : List CEv) : CRun :=
  evs.foldl (cstep t prot) r

/-- let every body still running return, oldest call first -/
def cdrainN : Nat → CSt → CSt
  | 0, s => s
  | n + 1, s =>
    match s.flights with
    | [] => s
    | f :: _ => cdrainN n (cfinish s f.call)

def cdrain (s : CSt) : CSt := cdrainN s.flights.length s

/-- the calls started by an event list, in order -/
def CEv.starts : List CEv → List Nat
  | [] => []
  | .start call _ _ :: r => call :: CEv.starts r
  | _ :: r => CEv.starts r

/-- every call of the event list starts in a context that sees the cache fully disabled at that moment -/
def AllStartsFull (t : Table) : World → List CEv → Prop
  | _, [] => True
  | w, .start _ ctx _ :: r => facadeFullDisable t w ctx = true ∧ AllStartsFull t w r
  | w, .finish _ :: r => AllStartsFull t w r
  | w, .ctl op :: r => AllStartsFull t (ctlStep t w op).1 r

/-! ### The default middleware stack

Every backend command of the facade runs through `self._default_middlewares`
(cashews/wrapper/wrapper.py `_with_middlewares_for_backend`):
```
call = getattr(backend, cmd.value)
for middleware in middlewares:                       # [*default_middlewares, *setup(middlewares=...)]
    call = partial(middleware, call, cmd, backend)
```
so the LAST middleware of the list is the OUTERMOST wrapper.  A disabled command must not reach the
backend in any form — not as the command, not as the `delete` that `invalidate_further()` turns a
read into, not as the `init()` of the auto-init middleware — hence the position of the disable
check in that list matters.  (Middlewares handed to `setup(middlewares=...)` wrap the default stack
from outside; they are the user's code and are not modelled.) -/

/-- the middlewares every `Cache()` installs itself -/
inductive Mw where
  /-- `create_auto_init()` (cashews/wrapper/auto_init.py):
  `if not backend.is_init: await backend.init()` and then the inner call -/
  | autoInit
  /-- `validation._invalidate_middleware`: inside `invalidate_further()` a retrieve command is
  replaced by the deletion of what it would have read -/
  | invalidate
  /-- `CallbackWrapper.callbacks`: calls the inner chain, then the user's callbacks (no backend call) -/
  | callbacks
  /-- `_is_disable_middleware` -/
  | disable
  deriving DecidableEq, Repr

/-- `self._default_middlewares` of a `Cache()`: `Wrapper.__init__` creates
`[create_auto_init(), validation._invalidate_middleware]`, `CallbackWrapper.__init__` appends
`self.callbacks` and `ControlWrapper.__init__` — which continues after it (MRO of `Cache`) — appends
`_is_disable_middleware`. -/
def defaultMws : List Mw := [.autoInit, .invalidate, .callbacks, .disable]

/-- the chain `for middleware in mws: call = partial(middleware, call, ...)` builds, OUTERMOST first -/
def chainOf (mws : List Mw) : List Mw := mws.reverse

/-- anything a backend object (registered backend or transaction wrapper) is asked to do -/
inductive BCall where
  /-- one of its command methods -/
  | cmd (call : Call)
  /-- `await backend.init()` -/
  | init (target : Target)
  deriving DecidableEq, Repr

def BCall.backend : BCall → Nat
  | .cmd cl => cl.target.backend
  | .init tg => tg.backend

def BCall.keys : BCall → List (List Nat)
  | .cmd cl => cl.keys
  | .init _ => []

/-- ```
if _INVALIDATE_FURTHER.get() and cmd in RETRIEVE_CMDS:          # {GET, INCR, GET_MANY, GET_MATCH}
    if "key" in kwargs:
        if not backend.is_disable(Command.DELETE): await backend.delete(kwargs["key"])
        return kwargs.get("default")
    if cmd == GET_MATCH:
        if not backend.is_disable(Command.DELETE_MATCH): await backend.delete_match(kwargs["pattern"])
        return _aiter()
    if cmd == GET_MANY:
        if not backend.is_disable(Command.DELETE_MANY): await backend.delete_many(*args)
        return ()
```
(fix D46: the deletion is handed to the backend directly, so the middleware asks the control state of the
DELETING command itself; the read is answered as a miss either way).
The command issued instead and the answer (`get` and `incr` are called with `key=`; `incr` has no
`default`, hence `None`) -/
def invalidateOf : Cmd → Option (Cmd × Res)
  | .get => some (.delete, .dflt)
  | .incr => some (.delete, .none_)
  | .getMatch => some (.deleteMatch, .emptyStream)
  | .getMany => some (.deleteMany, .many [])
  | _ => none

/-- One backend command through a chain of middlewares (outermost first) in context `c`.
`inv`: the context is inside `invalidate_further()`; `ini`: the backends whose `init()` has run;
`n`: number of backend calls issued so far by the facade command (the index the next one gets).
Answer shape, the calls issued in order, and the initialised backends afterwards. -/
def runChain (w : World) (c : Nat) (inv : Bool) (tg : Target) (cmd : Cmd) (keys : List (List Nat)) :
    List Mw → List Nat → Nat → Res × List BCall × List Nat
  | [], ini, n => (passShape cmd n keys.length, [.cmd ⟨tg, cmd, keys⟩], ini)
  | .disable :: rest, ini, n =>
    if isDisable w c tg.ctl [cmd] then (defaultShape cmd keys.length, [], ini)
    else runChain w c inv tg cmd keys rest ini n
  | .autoInit :: rest, ini, n =>
    if ini.contains tg.backend then runChain w c inv tg cmd keys rest ini n
    else
      let r := runChain w c inv tg cmd keys rest (tg.backend :: ini) (n + 1)
      (r.1, .init tg :: r.2.1, r.2.2)
  | .invalidate :: rest, ini, n =>
    match (if inv then invalidateOf cmd else none) with
    | some (del, res) => (res, if isDisable w c tg.ctl [del] then [] else [.cmd ⟨tg, del, keys⟩], ini)
    | none => runChain w c inv tg cmd keys rest ini n
  | .callbacks :: rest, ini, n => runChain w c inv tg cmd keys rest ini n

/-- `self._with_middlewares(cmd, key)(...)` / `_with_middlewares_for_backend(cmd, backend, default_middlewares)(...)`.
(`scan` and `get_match` build their chain by hand in commands.py, in the same order since fix
1c8be30 — finding D22f: they used to wrap `reversed(default_middlewares)`, the disable check innermost.) -/
def stackCall (w : World) (c : Nat) (inv : Bool) (tg : Target) (cmd : Cmd) (keys : List (List Nat))
    (ini : List Nat) (n : Nat) : Res × List BCall × List Nat :=
  runChain w c inv tg cmd keys (chainOf defaultMws) ini n

def slotsOf : Res → List Slot
  | .many s => s
  | _ => []

/-- the loop over the per-backend groups of a multi-key command, through the middleware stack -/
def groupCallsS (w : World) (c : Nat) (inTx inv : Bool) (cmd : Cmd) :
    List (Nat × List (List Nat)) → List Nat → Nat → List BCall × List (List Slot) × List Nat
  | [], ini, _ => ([], [], ini)
  | (b, ks) :: r, ini, n =>
    let x := stackCall w c inv (targetOf inTx b) cmd ks ini n
    let y := groupCallsS w c inTx inv cmd r x.2.2 (n + x.2.1.length)
    (x.2.1 ++ y.1, slotsOf x.1 :: y.2.1, y.2.2)

/-- the loop over all registered backends (`clear`, `get_keys_count`): calls, the indices of the
calls whose answers are summed, initialised backends -/
def allBackendsS (w : World) (c : Nat) (inv : Bool) (cmd : Cmd) :
    List Nat → List Nat → Nat → List BCall × List Nat × List Nat
  | [], ini, _ => ([], [], ini)
  | b :: r, ini, n =>
    let x := stackCall w c inv (.raw b) cmd [] ini n
    let y := allBackendsS w c inv cmd r x.2.2 (n + x.2.1.length)
    (x.2.1 ++ y.1, (match x.1 with | .resp i => [i] | _ => []) ++ y.2.1, y.2.2)

/-- the `Command` member a public command is (disabled) under -/
def FCmd.cmd : FCmd → Cmd
  | .keyed cmd _ => cmd
  | .getMany _ => .getMany
  | .setMany _ => .setMany
  | .deleteMany _ => .deleteMany
  | .clear => .clear
  | .keysCount => .getKeysCount

/-- One public command in context `c` in the full environment: `inv` = the context is inside
`invalidate_further()`, `ini` = backends already initialised.  `exec` above is the special case
`inv = false`, every backend initialised (`execS_plain` in `Lemmas/DisableStack.lean`). -/
def execS (t : Table) (w : World) (c : Nat) (inTx inv : Bool) (ini : List Nat) :
    FCmd → Option (Res × List BCall × List Nat)
  | .keyed cmd key =>
    (t.getBackend key).map fun b => stackCall w c inv (targetOf inTx b) cmd [key] ini 0
  | .getMany keys =>
    (groupKeys t.getBackend keys).map fun groups =>
      let r := groupCallsS w c inTx inv .getMany groups ini 0
      (.many ((getManyResult groups (fun i => r.2.1.getD i []) keys).map Slot.ofOption), r.1, r.2.2)
  | .setMany keys =>
    (groupKeys t.getBackend keys).map fun groups =>
      let r := groupCallsS w c inTx inv .setMany groups ini 0
      (.none_, r.1, r.2.2)
  | .deleteMany keys =>
    (groupKeys t.getBackend keys).map fun groups =>
      let r := groupCallsS w c inTx inv .deleteMany groups ini 0
      (.none_, r.1, r.2.2)
  | .clear =>
    let r := allBackendsS w c inv .clear t.backends ini 0
    some (.none_, r.1, r.2.2)
  | .keysCount =>
    let r := allBackendsS w c inv .getKeysCount t.backends ini 0
    some (.sum r.2.1, r.1, r.2.2)

/-! ### Histories: registration, control and commands interleaved

The routing table is a component of the state: `setup()` may be called at any time, for a new
prefix or for one that is registered already (the backend is replaced), enabled or disabled. -/

structure Sys where
  /-- `self._backends` / `self._sorted_prefixes` -/
  t : Table
  w : World
  /-- backends whose `init()` has run (`backend.is_init`) -/
  inited : List Nat
  /-- context ↦ value of the ContextVar `_INVALIDATE_FURTHER` -/
  inv : Nat → Bool

def Sys.fresh : Sys := ⟨Table.empty, World.init true, [], fun _ => false⟩

inductive HOp where
  /-- `cache.setup(url, prefix=p, disable=d)` run in context `c`; `b` names the backend object it creates:
  ```
  backend = backend_class(**params)
  if disable: backend.disable()            # the context variable of the CURRENT context
  self._add_backend(backend, middlewares, prefix)
  ``` -/
  | setup (c : Nat) (p : List Nat) (b : Nat) (disabled : Bool)
  /-- `await backend.init()` (what `cache.init()` does for every registered backend) -/
  | initB (b : Nat)
  | ctl (op : CtlOp)
  /-- `with invalidate_further():` entered / left in context `c` (`set(True)` / `set(False)`) -/
  | invEnter (c : Nat)
  | invExit (c : Nat)
  | cmd (c : Nat) (inTx : Bool) (f : FCmd)
  deriving Repr

inductive HOut where
  | done
  | ctl (notConfigured : Bool)
  /-- `none` = `NotConfiguredError` -/
  | cmd (r : Option (Res × List BCall))
  deriving DecidableEq, Repr

def hstep (s : Sys) : HOp → Sys × HOut
  | .setup c p b d =>
    ({ s with t := s.t.add p b, w := if d then disableB s.w c b [] else s.w }, .done)
  | .initB b => ({ s with inited := b :: s.inited }, .done)
  | .ctl op =>
    let r := ctlStep s.t s.w op
    ({ s with
       w := r.1
       inv := match op with
         | .fork p ch => fun x => if x = ch then s.inv p else s.inv x      -- the child copies the context
         | _ => s.inv }, .ctl r.2)
  | .invEnter c => ({ s with inv := fun x => if x = c then true else s.inv x }, .done)
  | .invExit c => ({ s with inv := fun x => if x = c then false else s.inv x }, .done)
  | .cmd c inTx f =>
    match execS s.t s.w c inTx (s.inv c) s.inited f with
    | none => (s, .cmd none)
    | some r => ({ s with inited := r.2.2 }, .cmd (some (r.1, r.2.1)))

def hrun (s : Sys) (ops : List HOp) : Sys := ops.foldl (fun s op => (hstep s op).1) s

/-- the registrations a history makes, in order -/
def HOp.setups : List HOp → List (List Nat × Nat)
  | [] => []
  | .setup _ p b _ :: r => (p, b) :: HOp.setups r
  | _ :: r => HOp.setups r

/-- the context whose view of the control state an operation may change (`none`: nobody's) -/
def HOp.target : HOp → Option Nat
  | .setup c _ _ d => if d then some c else none
  | .ctl op => some op.target
  | _ => none

end CashewsVerif.Disable
