import CashewsVerif.Model.Mem
import CashewsVerif.Spec.TtlMap
/-
C06 — the lock protocol of `cashews/backends/interface.py` (`_BackendInterface.lock`, used by
`Cache.lock` and `@cache.locked` / `cashews/decorators/locked.py`) as a labelled transition
system over an abstract lock backend.

    @asynccontextmanager
    async def lock(self, key, expire, wait=True, check_interval=0):
        identifier = str(uuid.uuid4())                                  -- `enter`   (fresh token)
        while True:
            lock = await self.set_lock(key, identifier, expire=expire)  -- `attempt`
            if not lock:
                ... ping probe ...
                if wait:
                    await asyncio.sleep(check_interval)                 -- (other actions / `tick` / `giveUp` on cancel)
                    continue
                raise LockedError(...)                                  -- task becomes `failed`
            try:
                yield                                                   -- task is `inside`
            finally:
                await self.unlock(key, identifier)                      -- `leave normal|exc|cancel`
            return

One step = one backend command plus the task-local code up to the next one (asyncio: no
preemption between suspension points).  The backend is a parameter (`LockOps`): the protocol
only needs `set_lock` (write-if-absent-or-expired with a lease) and `unlock`
(delete-iff-owner), each atomic.  Two instances are given: the in-memory model `Mem`
(`Memory.set(exist=False)` + `Memory.unlock`) and the ideal `TtlMap` (which also is what
Redis' `SET NX PX` and the owner-checked `_UNLOCK` script implement).

Mathlib-free: the driver links against this file.
-/
namespace CashewsVerif.Lock

/-- `now < deadline`, no deadline = never expires (`expire` falsy) -/
def liveAt (dl : Option Nat) (now : Nat) : Bool :=
  match dl with
  | none => true
  | some d => decide (now < d)

/-- What the protocol uses of a backend.  Tokens are stored values (`Val`). -/
structure LockOps (σ : Type) where
  /-- the backend's clock -/
  now      : σ → Nat
  /-- abstraction function: the *live* lock on a key (owner token, deadline) -/
  owner    : σ → Key → Option (Val × Option Nat)
  /-- `set_lock(key, value, expire)` = `set(key, value, expire=expire, exist=False)` -/
  setLock  : σ → Key → Val → Option Nat → σ × Bool
  /-- `unlock(key, value)` -/
  unlock   : σ → Key → Val → σ × Bool
  /-- `is_locked(key)` -/
  isLocked : σ → Key → σ × Bool
  /-- passage of time -/
  tick     : σ → Nat → σ
  /-- one sweep of the backend's own expiry task (in-memory purge); invisible through `owner` -/
  purge    : σ → σ

/-! ### instance 1: the in-memory backend model (`cashews/backends/memory.py`) -/

def memOwner (s : Mem) (k : Key) : Option (Val × Option Nat) :=
  match Store.lookup s.store k with
  | none => none
  | some e => if e.live s.now then some (e.val, e.dl) else none

/-- `Memory.unlock`:
    `if await self._get(key, default=_missed) != value: return False`
    `return await self._delete(key)` -/
def memUnlock (s : Mem) (k : Key) (v : Val) : Mem × Bool :=
  let (s', r) := s.rawGet k
  if r = some v then s'.rawDelete k else (s', false)

/-- `set_lock` = `Memory.set(key, value, expire=expire, exist=False)`:
    `if exist is not None and (await self._key_exist(key)) is not exist: return False`
    `self._set(key, value, expire); return True`
(this is literally `Mem.step (.set k v ttl .nx)` of the C01 model, see `memSetLock_eq_step`) -/
def memSetLock (s : Mem) (k : Key) (v : Val) (ttl : Option Nat) : Mem × Bool :=
  let (s', r) := s.rawGet k
  if r.isSome then (s', false) else (s'.rawSet k v ttl, true)

/-- `Memory.is_locked(key)` with `wait=None`: `return await self._key_exist(key)` -/
def memIsLocked (s : Mem) (k : Key) : Mem × Bool :=
  let (s', r) := s.rawGet k
  (s', r.isSome)

def memOps : LockOps Mem where
  now := (·.now)
  owner := memOwner
  setLock := memSetLock
  unlock := memUnlock
  isLocked := memIsLocked
  tick := fun s dt => { s with now := s.now + dt }
  purge := Mem.purge

/-! ### instance 2: the ideal TTL map (C01's spec; also the reading of Redis
`SET key value NX PX ms` and of the `_UNLOCK` script
`if redis.call("GET", KEYS[1]) == ARGV[1] then return redis.call("DEL", KEYS[1]) else return 0 end`) -/

def ttlOwner (t : TtlMap) (k : Key) : Option (Val × Option Nat) :=
  (t.find k).map fun e => (e.val, e.dl)

def ttlSetLock (t : TtlMap) (k : Key) (v : Val) (ttl : Option Nat) : TtlMap × Bool :=
  if (t.find k).isSome then (t, false) else (t.write k v ttl, true)

def ttlUnlock (t : TtlMap) (k : Key) (v : Val) : TtlMap × Bool :=
  if (t.find k).map (·.val) = some v then (t.remove k, true) else (t, false)

def ttlOps : LockOps TtlMap where
  now := (·.now)
  owner := ttlOwner
  setLock := ttlSetLock
  unlock := ttlUnlock
  isLocked := fun t k => (t, (t.find k).isSome)
  tick := fun t dt => { t with now := t.now + dt }
  purge := id

/-! ### the protocol -/

inductive How where
  | normal | exc | cancel
  deriving DecidableEq, Repr

/-- program counter of one activation of `lock()` (called a task; a real task that enters several
sections, possibly nested, is several activations) -/
inductive TState where
  | idle
  | trying (key : Nat) (ttl : Option Nat) (wait : Bool) (tok : Nat)
  | inside (key : Nat) (tok : Nat) (dl : Option Nat)
  | failed          -- `LockedError` (wait=False), or cancelled while waiting
  | done
  deriving DecidableEq, Repr

inductive Act where
  | enter (t : Nat) (key : Nat) (ttl : Option Nat) (wait : Bool)
  | attempt (t : Nat)
  | leave (t : Nat) (how : How)
  | giveUp (t : Nat)                       -- cancellation delivered while waiting for the lock
  | tick (dt : Nat)
  | foreignUnlock (key : Nat) (n : Nat)    -- `unlock(key, <a value that no lock() call generated>)`
  | probe (key : Nat)                      -- `is_locked(key)`
  | purge
  deriving Repr

inductive LOut where
  | unit
  | acquired                 -- `set_lock` returned True; the task is in the section
  | retry                    -- `set_lock` returned False, wait=True
  | locked                   -- `set_lock` returned False, wait=False: `LockedError`
  | released (b : Bool)      -- result of the `unlock` in `finally`
  | bool (b : Bool)          -- result of a foreign `unlock` / `is_locked`
  | ignored                  -- the action is not enabled in this state (nothing happens)
  deriving DecidableEq, Repr

structure LockSt (σ : Type) where
  be    : σ
  tasks : Nat → TState
  next  : Nat                -- uuid4 modelled as a fresh-token counter

/-- the value a `lock()` call stores: its identifier -/
def ownTok (n : Nat) : Val := .tok n
/-- a value presented by someone who is not a `lock()` call -/
def alienTok (n : Nat) : Val := .int n

def setTask {σ} (s : LockSt σ) (t : Nat) (x : TState) : LockSt σ :=
  { s with tasks := fun t' => if t' = t then x else s.tasks t' }

/-- the activation is in the middle of a `lock()` call -/
def TState.busy : TState → Bool
  | .trying .. => true
  | .inside .. => true
  | _ => false

/-- the identifier an activation carries -/
def TState.tok? : TState → Option Nat
  | .trying _ _ _ tok => some tok
  | .inside _ tok _ => some tok
  | _ => none

def step {σ} (B : LockOps σ) (s : LockSt σ) : Act → LockSt σ × LOut
  | .enter t key ttl wait =>
    if (s.tasks t).busy then (s, .ignored)
    else ({ setTask s t (.trying key ttl wait s.next) with next := s.next + 1 }, .unit)
  | .attempt t =>
    match s.tasks t with
    | .trying key ttl wait tok =>
      let r := B.setLock s.be key (ownTok tok) ttl
      if r.2 then
        (setTask { s with be := r.1 } t (.inside key tok (deadlineOf (B.now s.be) ttl)), .acquired)
      else if wait then ({ s with be := r.1 }, .retry)
      else (setTask { s with be := r.1 } t .failed, .locked)
    | _ => (s, .ignored)
  | .leave t _ =>
    match s.tasks t with
    | .inside key tok _ =>
      let r := B.unlock s.be key (ownTok tok)
      (setTask { s with be := r.1 } t .done, .released r.2)
    | _ => (s, .ignored)
  | .giveUp t =>
    match s.tasks t with
    | .trying .. => (setTask s t .failed, .unit)
    | _ => (s, .ignored)
  | .tick dt => ({ s with be := B.tick s.be dt }, .unit)
  | .foreignUnlock key n =>
    let r := B.unlock s.be key (alienTok n)
    ({ s with be := r.1 }, .bool r.2)
  | .probe key =>
    let r := B.isLocked s.be key
    ({ s with be := r.1 }, .bool r.2)
  | .purge => ({ s with be := B.purge s.be }, .unit)

def run {σ} (B : LockOps σ) (s : LockSt σ) : List Act → LockSt σ
  | [] => s
  | a :: as => run B (step B s a).1 as

def outs {σ} (B : LockOps σ) (s : LockSt σ) : List Act → List LOut
  | [] => []
  | a :: as => (step B s a).2 :: outs B (step B s a).1 as

def init {σ} (be : σ) : LockSt σ := { be := be, tasks := fun _ => .idle, next := 0 }

/-- task `t` is in the section guarded by `key` -/
def insideKey {σ} (s : LockSt σ) (t : Nat) (key : Nat) : Bool :=
  match s.tasks t with
  | .inside k _ _ => k == key
  | _ => false

/-- task `t` is in a section and its lease has not run out -/
def withinLease {σ} (B : LockOps σ) (s : LockSt σ) (t : Nat) : Bool :=
  match s.tasks t with
  | .inside _ _ dl => liveAt dl (B.now s.be)
  | _ => false

end CashewsVerif.Lock
