import CashewsVerif.Model.Mem
import CashewsVerif.Spec.TtlMap
/-
C06 — the lock protocol of `cashews/backends/interface.py` (`_BackendInterface.lock`, used by
`Cache.lock` and `@cache.locked` / `cashews/decorators/locked.py`) as a labelled transition
system over an abstract lock backend.

    @asynccontextmanager
    async def lock(self, key, expire, wait=True, check_interval=0):
        identifier = str(uuid.uuid4())                                  -- `enter`   (fresh token)
        while True:
            lock = await self.set_lock(key, identifier, expire=expire)  -- `attempt`
            if lock is None:                                            -- SET_LOCK disabled on the owning backend
                yield; return                                           --   "no locking": task is `unguarded`
            if not lock:
                if await self._lock_probe(key) is None:                 -- liveness probe of the OWNING backend
                    yield; return                                       --   "backend down": task is `unguarded`
                if wait:
                    await asyncio.sleep(check_interval)                 -- (other actions / `tick` / `giveUp` on cancel)
                    continue
                raise LockedError(...)                                  -- task becomes `failed`
            try:
                yield                                                   -- task is `inside`
            finally:
                await self.unlock(key, identifier)                      -- `leave normal|exc|cancel`
            return

One step = one backend command plus the task-local code up to the next one (asyncio: no
preemption between suspension points).  The backend is a parameter (`LockOps`): the protocol
only needs `set_lock` (write-if-absent-or-expired with a lease) and `unlock`
(delete-iff-owner), each atomic.  Two instances are given: the in-memory model `Mem`
(`Memory.set(exist=False)` + `Memory.unlock`) and the ideal `TtlMap` (which also is what
Redis' `SET NX PX` and the owner-checked `_UNLOCK` script implement).

Through the `Cache` facade every command of `lock()` is routed by the lock key to the backend that
owns it (longest registered prefix, C17) and passes that backend's disable-control middleware: a
disabled command answers `None`.  The two things `lock()` learns that way - "SET_LOCK is enabled",
"the backend answers PING" - are the *inputs* of an attempt (`attemptCore`); `step` reads them off the
owning backend (`s.health (s.route key)`), never off another configured backend.
(`CommandWrapper._lock_probe(key)` routes the probe by the lock key; D43: it used to be routed by the text
of its message `b"LOCK"`, i.e. to the default-prefix backend.)

Transactions (`cache.transaction(mode)`, a ContextVar-scoped overlay per real task =: thread):
`TransactionBackend.set_lock / unlock / is_locked / ping` proxy to the wrapped backend, i.e. the lock
commands BYPASS the overlay.  The state carries the overlay of every thread (`tx`), the actions
`txBegin / txSet / txEnd` change only that, and the lock actions are applied to the shared store `be`
whatever transaction is current (`Props/C06.lean: lock_commands_bypass_transactions`).

Mathlib-free: the driver links against this file.
-/
namespace CashewsVerif.Lock

/-- `now < deadline`, no deadline = never expires (`expire` falsy) -/
def liveAt (dl : Option Nat) (now : Nat) : Bool :=
  match dl with
  | none => true
  | some d => decide (now < d)

/-- What the protocol uses of a backend.  Tokens are stored values (`Val`). -/
structure LockOps (σ : Type) where
  /-- the backend's clock -/
  now      : σ → Nat
  /-- abstraction function: the *live* lock on a key (owner token, deadline) -/
  owner    : σ → Key → Option (Val × Option Nat)
  /-- `set_lock(key, value, expire)` = `set(key, value, expire=expire, exist=False)` -/
  setLock  : σ → Key → Val → Option Nat → σ × Bool
  /-- `unlock(key, value)` -/
  unlock   : σ → Key → Val → σ × Bool
  /-- `is_locked(key)` -/
  isLocked : σ → Key → σ × Bool
  /-- passage of time -/
  tick     : σ → Nat → σ
  /-- one sweep of the backend's own expiry task (in-memory purge); invisible through `owner` -/
  purge    : σ → σ

/-! ### instance 1: the in-memory backend model (`cashews/backends/memory.py`) -/

def memOwner (s : Mem) (k : Key) : Option (Val × Option Nat) :=
  match Store.lookup s.store k with
  | none => none
  | some e => if e.live s.now then some (e.val, e.dl) else none

/-- `Memory.unlock`:
    `if await self._get(key, default=_missed) != value: return False`
    `return await self._delete(key)` -/
def memUnlock (s : Mem) (k : Key) (v : Val) : Mem × Bool :=
  let (s', r) := s.rawGet k
  if r = some v then s'.rawDelete k else (s', false)

/-- `set_lock` = `Memory.set(key, value, expire=expire, exist=False)`:
    `if exist is not None and (await self._key_exist(key)) is not exist: return False`
    `self._set(key, value, expire); return True`
(this is literally `Mem.step (.set k v ttl .nx)` of the C01 model, see `memSetLock_eq_step`) -/
def memSetLock (s : Mem) (k : Key) (v : Val) (ttl : Option Nat) : Mem × Bool :=
  let (s', r) := s.rawGet k
  if r.isSome then (s', false) else (s'.rawSet k v ttl, true)

/-- `Memory.is_locked(key)` with `wait=None`: `return await self._key_exist(key)` -/
def memIsLocked (s : Mem) (k : Key) : Mem × Bool :=
  let (s', r) := s.rawGet k
  (s', r.isSome)

def memOps : LockOps Mem where
  now := (·.now)
  owner := memOwner
  setLock := memSetLock
  unlock := memUnlock
  isLocked := memIsLocked
  tick := fun s dt => { s with now := s.now + dt }
  purge := Mem.purge

/-! ### instance 2: the ideal TTL map (C01's spec; also the reading of Redis
`SET key value NX PX ms` and of the `_UNLOCK` script
`if redis.call("GET", KEYS[1]) == ARGV[1] then return redis.call("DEL", KEYS[1]) else return 0 end`) -/

def ttlOwner (t : TtlMap) (k : Key) : Option (Val × Option Nat) :=
  (t.find k).map fun e => (e.val, e.dl)

def ttlSetLock (t : TtlMap) (k : Key) (v : Val) (ttl : Option Nat) : TtlMap × Bool :=
  if (t.find k).isSome then (t, false) else (t.write k v ttl, true)

def ttlUnlock (t : TtlMap) (k : Key) (v : Val) : TtlMap × Bool :=
  if (t.find k).map (·.val) = some v then (t.remove k, true) else (t, false)

def ttlOps : LockOps TtlMap where
  now := (·.now)
  owner := ttlOwner
  setLock := ttlSetLock
  unlock := ttlUnlock
  isLocked := fun t k => (t, (t.find k).isSome)
  tick := fun t dt => { t with now := t.now + dt }
  purge := id

/-! ### the protocol -/

/-- what a guarded body can end with: an exception of the application, every exception class that
`cashews/exceptions.py` itself defines (the body may talk to the cache and let its errors through), and
a `BaseException` that is not an `Exception` (other than cancellation, which is `How.cancel`) -/
inductive ExcClass where
  | user                       -- any exception class of the application / the standard library
  | cacheError | backendNotAvailable | notConfigured | unsupportedPickler | unSecureData | signIsMissing
  | wrongKey | tagNotRegistered | locked | backendInteraction | rateLimit | circuitBreakerOpen
  | baseException              -- a BaseException subclass outside Exception raised by the body
  | other                      -- an exception class this list does not know yet
  deriving DecidableEq, Repr

inductive How where
  | normal
  | exc (c : ExcClass)
  | cancel
  | closed      -- `GeneratorExit` at the yield point of a `@locked` async generator: the consumer stopped iterating
                -- (`break` + `aclose()`, `aclosing(...)`, or the abandoned generator finalised by the event loop)
  deriving DecidableEq, Repr

/-- program counter of one activation of `lock()` (called a task; a real task that enters several
sections, possibly nested, is several activations) -/
inductive TState where
  | idle
  | trying (key : Nat) (ttl : Option Nat) (wait : Bool) (tok : Nat)
  | inside (key : Nat) (tok : Nat) (dl : Option Nat)
  | unguarded (key : Nat)   -- in the section WITHOUT a lock: `set_lock` disabled, or the probe got no answer
  | failed          -- `LockedError` (wait=False), or cancelled while waiting
  | done
  deriving DecidableEq, Repr

/-- `cashews.wrapper.transaction.TransactionMode` -/
inductive TxMode where
  | fast | locked | serializable
  deriving DecidableEq, Repr

/-- the transaction a thread (a real task: the ContextVar `_transaction`) is in.
`overlay` = the private view (`TransactionBackend._local_cache`): pending writes of application keys. -/
structure TxCtx where
  mode    : TxMode
  depth   : Nat                  -- inner `async with cache.transaction()` blocks join the running one
  overlay : List (Nat × Nat)
  deriving DecidableEq, Repr

/-- what `lock()` can learn about one configured backend through the facade's middlewares -/
structure Health where
  setLock : Bool     -- `Command.SET_LOCK` is enabled (a disabled command answers None)
  ping    : Bool     -- `ping(b"LOCK")` is answered (`Command.PING` enabled and the server reachable)
  deriving DecidableEq, Repr

def Health.ok : Health := ⟨true, true⟩

/-! ### user middlewares (`cashews/helpers.py`, installed with `setup(..., middlewares=(...))`)

A middleware sees every command before the backend does and may answer in its place.  `lock()` reads a
`None` answer of `set_lock` as "locking is switched off" (that IS the meaning of the disable-control
middleware, modelled by `Health.setLock`), so a user middleware must let the lock commands through. -/

/-- the commands a middleware can tell apart (`cashews.commands.Command`) -/
inductive CmdKind where
  | set | setMany | setLock | unlock | isLocked | ping | other
  deriving DecidableEq, Repr

/-- the commands of the lock protocol -/
def CmdKind.isLockCmd : CmdKind → Bool
  | .setLock | .unlock | .isLocked | .ping => true
  | _ => false

/-- `helpers.memory_limit(min_bytes, max_bytes)`: does a command whose value(s) measure `sizes` bytes reach
the backend?  (`False` = the middleware answers None itself.)
    `if cmd == Command.SET_MANY: pairs = {those within the window}; if not pairs: return None`
    `elif cmd == Command.SET: if max_bytes and size > max_bytes or size < min_bytes: return None`
    `return await call(*args, **kwargs)` -/
def memoryLimitPasses (minB : Nat) (maxB : Option Nat) (c : CmdKind) (sizes : List Nat) : Bool :=
  let out (n : Nat) : Bool := (match maxB with | some m => m != 0 && n > m | none => false) || n < minB
  match c with
  | .setMany => sizes.any fun n => !out n
  | .set => !(sizes.any out)
  | _ => true

inductive Act where
  | enter (t : Nat) (th : Nat) (key : Nat) (ttl : Option Nat) (wait : Bool)   -- thread `th` calls `lock()`
  | attempt (t : Nat)
  | leave (t : Nat) (how : How)
  | giveUp (t : Nat)                       -- cancellation delivered while waiting for the lock
  | tick (dt : Nat)
  | foreignUnlock (key : Nat) (n : Nat)    -- `unlock(key, <a value that no lock() call generated>)`
  | probe (key : Nat)                      -- `is_locked(key)`
  | purge
  | setHealth (b : Nat) (h : Health)       -- `cache.disable/enable(cmd, prefix=…)`, an outage of backend `b`
  | txBegin (th : Nat) (mode : TxMode)     -- `async with cache.transaction(mode):` entered by thread `th`
  | txSet (th : Nat) (k v : Nat)           -- `cache.set(<application key>, v)` by thread `th`
  | txEnd (th : Nat) (commit : Bool)       -- the block is left (commit / rollback)
  deriving Repr

/-- `helpers.add_prefix(p)` / `helpers.all_keys_lower()`: the key a lock command reaches the backend with is
a function of the key it was called with - the same function for `set_lock`, `unlock` and `is_locked`. -/
def Act.mapKey (f : Nat → Nat) : Act → Act
  | .enter t th key ttl wait => .enter t th (f key) ttl wait
  | .foreignUnlock key n => .foreignUnlock (f key) n
  | .probe key => .probe (f key)
  | a => a

inductive LOut where
  | unit
  | acquired                 -- `set_lock` returned True; the task is in the section
  | retry                    -- `set_lock` returned False, wait=True
  | locked                   -- `set_lock` returned False, wait=False: `LockedError`
  | noLocking                -- `set_lock` answered None (disabled): the section runs without a lock
  | down                     -- `set_lock` returned False and the probe got no answer: the section runs without a lock
  | released (b : Bool)      -- result of the `unlock` in `finally`
  | bool (b : Bool)          -- result of a foreign `unlock` / `is_locked`
  | ignored                  -- the action is not enabled in this state (nothing happens)
  deriving DecidableEq, Repr

structure LockSt (σ : Type) where
  be    : σ
  tasks : Nat → TState
  next  : Nat                -- uuid4 modelled as a fresh-token counter
  thr   : Nat → Nat          -- the thread (real task) an activation belongs to
  tx    : Nat → Option TxCtx -- the transaction each thread is in
  route : Nat → Nat          -- lock key ↦ the backend that owns it (`Wrapper._get_backend`, C17); fixed
  health : Nat → Health      -- per configured backend

/-- the value a `lock()` call stores: its identifier -/
def ownTok (n : Nat) : Val := .tok n
/-- a value presented by someone who is not a `lock()` call -/
def alienTok (n : Nat) : Val := .int n

def setTask {σ} (s : LockSt σ) (t : Nat) (x : TState) : LockSt σ :=
  { s with tasks := fun t' => if t' = t then x else s.tasks t' }

/-- the activation is in the middle of a `lock()` call -/
def TState.busy : TState → Bool
  | .trying .. => true
  | .inside .. => true
  | .unguarded .. => true
  | _ => false

/-- the identifier an activation carries -/
def TState.tok? : TState → Option Nat
  | .trying _ _ _ tok => some tok
  | .inside _ tok _ => some tok
  | _ => none

/-- One pass of the `while True:` body of `lock()` for an activation that is `trying`, with what the
facade lets it learn about the backend as explicit inputs: `h.setLock` (is the command enabled) and
`h.ping` (the probe's answer, consulted only after a refused `set_lock`). -/
def attemptCore {σ} (B : LockOps σ) (s : LockSt σ) (t : Nat) (key : Nat) (ttl : Option Nat) (wait : Bool)
    (tok : Nat) (h : Health) : LockSt σ × LOut :=
  if h.setLock then
    let r := B.setLock s.be key (ownTok tok) ttl
    if r.2 then
      (setTask { s with be := r.1 } t (.inside key tok (deadlineOf (B.now s.be) ttl)), .acquired)
    else if h.ping then
      if wait then ({ s with be := r.1 }, .retry)
      else (setTask { s with be := r.1 } t .failed, .locked)
    else (setTask { s with be := r.1 } t (.unguarded key), .down)
  else (setTask s t (.unguarded key), .noLocking)

def txBegin (c : Option TxCtx) (mode : TxMode) : Option TxCtx :=
  match c with
  | none => some { mode := mode, depth := 0, overlay := [] }
  | some c => some { c with depth := c.depth + 1 }       -- `if self.current_tx: self._inner += 1`

def txEnd (c : Option TxCtx) : Option TxCtx :=
  match c with
  | none => none
  | some c => if c.depth = 0 then none else some { c with depth := c.depth - 1 }

def setTx {σ} (s : LockSt σ) (th : Nat) (c : Option TxCtx) : LockSt σ :=
  { s with tx := fun th' => if th' = th then c else s.tx th' }

def step {σ} (B : LockOps σ) (s : LockSt σ) : Act → LockSt σ × LOut
  | .enter t th key ttl wait =>
    if (s.tasks t).busy then (s, .ignored)
    else ({ setTask s t (.trying key ttl wait s.next) with
            next := s.next + 1, thr := fun t' => if t' = t then th else s.thr t' }, .unit)
  | .attempt t =>
    match s.tasks t with
    | .trying key ttl wait tok => attemptCore B s t key ttl wait tok (s.health (s.route key))
    | _ => (s, .ignored)
  | .leave t _ =>
    match s.tasks t with
    | .inside key tok _ =>
      let r := B.unlock s.be key (ownTok tok)
      (setTask { s with be := r.1 } t .done, .released r.2)
    | .unguarded _ => (setTask s t .done, .unit)         -- `yield; return`: no unlock is issued
    | _ => (s, .ignored)
  | .giveUp t =>
    match s.tasks t with
    | .trying .. => (setTask s t .failed, .unit)
    | _ => (s, .ignored)
  | .tick dt => ({ s with be := B.tick s.be dt }, .unit)
  | .foreignUnlock key n =>
    let r := B.unlock s.be key (alienTok n)
    ({ s with be := r.1 }, .bool r.2)
  | .probe key =>
    let r := B.isLocked s.be key
    ({ s with be := r.1 }, .bool r.2)
  | .purge => ({ s with be := B.purge s.be }, .unit)
  | .setHealth b h => ({ s with health := fun b' => if b' = b then h else s.health b' }, .unit)
  | .txBegin th mode => (setTx s th (txBegin (s.tx th) mode), .unit)
  | .txSet th k v =>
    match s.tx th with
    | some c => (setTx s th (some { c with overlay := (k, v) :: c.overlay }), .unit)
    | none => (s, .ignored)                              -- a plain write of an application key: not a lock matter
  | .txEnd th _ =>
    match s.tx th with
    | some _ => (setTx s th (txEnd (s.tx th)), .unit)    -- flushes / drops application keys only
    | none => (s, .ignored)

def run {σ} (B : LockOps σ) (s : LockSt σ) : List Act → LockSt σ
  | [] => s
  | a :: as => run B (step B s a).1 as

def outs {σ} (B : LockOps σ) (s : LockSt σ) : List Act → List LOut
  | [] => []
  | a :: as => (step B s a).2 :: outs B (step B s a).1 as

/-- nobody has called `lock()`, no transaction is open, a single healthy backend owns every key -/
def init {σ} (be : σ) : LockSt σ :=
  { be := be, tasks := fun _ => .idle, next := 0, thr := id, tx := fun _ => none,
    route := fun _ => 0, health := fun _ => Health.ok }

/-- the same with `n`-keys-per-backend routing (`key / n`) -/
def initRouted {σ} (be : σ) (n : Nat) : LockSt σ := { init be with route := fun k => k / n }

/-- task `t` is in the section guarded by `key` -/
def insideKey {σ} (s : LockSt σ) (t : Nat) (key : Nat) : Bool :=
  match s.tasks t with
  | .inside k _ _ => k == key
  | _ => false

/-- task `t` is in the section guarded by `key`, with or without a lock -/
def inSection {σ} (s : LockSt σ) (t : Nat) (key : Nat) : Bool :=
  match s.tasks t with
  | .inside k _ _ => k == key
  | .unguarded k => k == key
  | _ => false

/-- task `t` holds a lock whose lease has run out (it overstayed) -/
def overstayed {σ} (B : LockOps σ) (s : LockSt σ) (t : Nat) : Bool :=
  match s.tasks t with
  | .inside _ _ dl => !liveAt dl (B.now s.be)
  | _ => false

/-- the thread of activation `t` is inside a `cache.transaction()` block -/
def inTx {σ} (s : LockSt σ) (t : Nat) : Bool := (s.tx (s.thr t)).isSome

/-- task `t` is in a section and its lease has not run out -/
def withinLease {σ} (B : LockOps σ) (s : LockSt σ) (t : Nat) : Bool :=
  match s.tasks t with
  | .inside _ _ dl => liveAt dl (B.now s.be)
  | _ => false

end CashewsVerif.Lock
