import CashewsVerif.Model.SafeClient
/-
Model of `cashews/backends/redis/backend.py` (class `_Redis`): every cashews command is a short
program of client calls plus post-processing of the replies.  The Python text is quoted next to
each definition.  TTLs are milliseconds (`int(expire * 1000)`); `some 0`/`none` are Python-falsy.

Cashews-level values: a Python int, or any other object, identified with the byte string the
serializer produces for it (`obj hex`); `Serializer.encode` returns ints unchanged (redis-py then
sends their decimal text), everything else as signed pickle bytes.
-/
namespace CashewsVerif.Redis

inductive CVal where
  | int (i : Int)
  | obj (hex : String)
  deriving DecidableEq, Repr, Inhabited

def encode : CVal → Bytes
  | .int i => .num i
  | .obj h => .blob h

/-- `_transform_value` / `Serializer.decode`: `None` → default; all digits (with the D28 repair: an optional
leading '-') → int; else the serializer decodes or gives the default. -/
def decode (cfg : Cfg) : Bytes → Option CVal
  | .num i => some (.int i)
  | .blob h => if cfg.isEnc h then some (.obj h) else none

inductive ROp where
  | set (k : String) (v : CVal) (ttl : Option Nat) (c : Cond)
  | setMany (kvs : List (String × CVal)) (ttl : Option Nat)
  | get (k : String)
  | getMany (ks : List String)
  | exists_ (k : String)
  | incr (k : String) (by_ : Int) (ttl : Option Nat)
  | delete (k : String)
  | deleteMany (ks : List String)
  | expire (k : String) (ms : Nat)
  | getExpire (k : String)
  | clear
  | keysCount
  | scan (pat : String) (count : Nat)
  | getMatch (pat : String) (count : Nat)
  | deleteMatch (pat : String)
  | setLock (k : String) (tok : Bytes) (ms : Nat)
  | unlock (k : String) (tok : Bytes)
  | isLocked (k : String)
  | setAdd (k : String) (ms : List String) (ttl : Option Nat)
  | setRemove (k : String) (ms : List String)
  | setPop (k : String) (count : Nat)
  | getBits (k : String) (idx : List Nat) (size : Nat)
  | incrBits (k : String) (idx : List Nat) (size : Nat) (by_ : Int)
  | sliceIncr (k : String) (start stop : Bytes) (maxv : Int) (ttl : Option Nat)
  | ping
  | adv (dt : Nat)
  deriving Repr

inductive ROut where
  | none_                                  -- Python `None`
  | bool (b : Bool)
  | val (v : Option CVal)                  -- `none` = the caller's default came back
  | vals (vs : List (Option CVal))
  | int (i : Int)
  | keys (ks : List String)
  | pairs (kvs : List (String × CVal))
  | ints (l : List Int)
  | pong
  | raise                                  -- CacheBackendInteractionError
  | raiseOther                             -- any other exception
  deriving DecidableEq, Repr

/-! ### a small state-and-exception monad (kept explicit so that proofs can unfold it) -/

def M (α : Type) := World → World × Res α

def M.pure {α} (a : α) : M α := fun w => (w, .ok a)

def M.bind {α β} (x : M α) (f : α → M β) : M β := fun w =>
  match x w with
  | (w', .ok a) => f a w'
  | (w', .raise) => (w', .raise)
  | (w', .raiseOther) => (w', .raiseOther)

instance : Monad M where
  pure := M.pure
  bind := M.bind

def raiseOther {α} : M α := fun w => (w, .raiseOther)

def call (cfg : Cfg) (c : Cmd) : M Reply := clientCall cfg c
def pipe (cfg : Cfg) (cs : List Cmd) : M Unit := pipeCall cfg cs

/-- Python truthiness of a reply as redis-py hands it over -/
def truthy : Reply → Bool
  | .nil => false
  | .ok => true
  | .pong => true
  | .int i => i ≠ 0
  | .bulk _ => true
  | .bulks l => !l.isEmpty
  | .strs l => !l.isEmpty
  | .scan _ _ => true
  | .ints l => !l.isEmpty
  | .sha _ => true
  | .err => false

/-- `int(expire * 1000) if expire else None` -/
def pxOf : Option Nat → Option Nat
  | some (t + 1) => some (t + 1)
  | _ => none

def intOrNone : Reply → ROut
  | .int i => .int i
  | _ => .none_

/-- `if self._sha.get(NAME) is None: self._sha[NAME] = await self._client.script_load(TEXT)`; the SHA to use -/
def ensureScript (cfg : Cfg) (sc : Script) : M (Option Script) := fun w =>
  if sc ∈ w.cached then (w, .ok (some sc))
  else
    match clientCall cfg (.scriptLoad (some sc)) w with
    | (w', .ok (.sha s)) => ({ w' with cached := s :: w'.cached }, .ok (some s))
    | (w', .ok _) => (w', .ok none)                     -- suppressed failure: `None` is remembered, i.e. nothing is
    | (w', .raise) => (w', .raise)
    | (w', .raiseOther) => (w', .raiseOther)

/-- `get_many`: `values = await self._client.mget(*keys); if values is None: return (default,)*len(keys)` -/
def getMany (cfg : Cfg) (ks : List String) : M (List (Option CVal)) :=
  if ks.isEmpty then pure [] else do
    let r ← call cfg (.mget ks)
    match r with
    | .nil => pure (ks.map fun _ => none)
    | .bulks l => pure (l.map fun b => b.bind (decode cfg))
    | _ => raiseOther

/-- `scan`: `while True: cursor, keys = await self._client.scan(cursor, match=pattern, count=batch_size); yield …; if not cursor: return` -/
def scanLoop (cfg : Cfg) (pat : String) (count : Nat) : Nat → Nat → List String → M (List String)
  | 0, _, acc => pure acc
  | fuel + 1, cur, acc => do
    let r ← call cfg (.scan cur (some pat) (some count))
    match r with
    | .scan next keys =>
      if next = 0 then pure (acc ++ keys) else scanLoop cfg pat count fuel next (acc ++ keys)
    | _ => raiseOther

/-- `get_match`: scan page; `if not keys: if not cursor: return; continue`; `get_many(*keys, default=_empty)`;
yield the pairs whose value is not `_empty`; `if not cursor: return` -/
def getMatchLoop (cfg : Cfg) (pat : String) (count : Nat) : Nat → Nat → List (String × CVal) → M (List (String × CVal))
  | 0, _, acc => pure acc
  | fuel + 1, cur, acc => do
    let r ← call cfg (.scan cur (some pat) (some count))
    match r with
    | .scan next keys =>
      if keys.isEmpty then
        (if next = 0 then pure acc else getMatchLoop cfg pat count fuel next acc)
      else do
        let vs ← getMany cfg keys
        let acc' := acc ++ (keys.zip vs).filterMap (fun kv => kv.2.map (fun v => (kv.1, v)))
        if next = 0 then pure acc' else getMatchLoop cfg pat count fuel next acc'
    | _ => raiseOther

/-- `delete_match` with a `*`: scan page (count=100); `if not keys: if not cursor: return; continue`; unlink the page; loop -/
def delMatchLoop (cfg : Cfg) (pat : String) : Nat → Nat → M Unit
  | 0, _ => pure ()
  | fuel + 1, cur => do
    let r ← call cfg (.scan cur (some pat) (some 100))
    match r with
    | .scan next keys =>
      if keys.isEmpty then (if next = 0 then pure () else delMatchLoop cfg pat fuel next)
      else do
        let _ ← call cfg (.unlink keys)
        delMatchLoop cfg pat fuel next
    | _ => raiseOther

def domLen : M Nat := fun w => (w, .ok w.srv.ks.dom.length)

def stepM (cfg : Cfg) : ROp → M ROut
  | .set k v ttl c => do
    -- `_set = bool(await self._client.set(key, value, px=px, nx=nx, xx=xx))`
    let r ← call cfg (.set k (encode v) (pxOf ttl) c)
    pure (.bool (truthy r))
  | .setMany kvs ttl => do
    -- `async with self._pipeline as pipe: for …: await pipe.set(key, value, px=px); await pipe.execute()`
    pipe cfg (kvs.map fun kv => .set kv.1 (encode kv.2) (pxOf ttl) .always)
    pure .none_
  | .get k => do
    let r ← call cfg (.get k)
    match r with
    | .nil => pure (.val none)
    | .bulk b => pure (.val (decode cfg b))
    | _ => raiseOther
  | .getMany ks => do
    let vs ← getMany cfg ks
    pure (.vals vs)
  | .exists_ k => do
    let r ← call cfg (.exists_ [k])
    pure (.bool (truthy r))
  | .incr k by_ ttl =>
    match pxOf ttl with
    | none => do
      -- `if not expire: return await self._client.incr(key, amount=value)`
      let r ← call cfg (.incrby k by_)
      pure (intOrNone r)
    | some ms => do
      let sha ← ensureScript cfg .incrExpire
      let r ← call cfg (.evalsha sha k [.num by_, .num ms])
      pure (intOrNone r)
  | .delete k => do
    let r ← call cfg (.unlink [k])
    pure (.bool (truthy r))
  | .deleteMany ks => do
    let _ ← call cfg (.unlink ks)
    pure .none_
  | .expire k ms => do
    let _ ← call cfg (.pexpire k ms)
    pure .none_
  | .getExpire k => do
    let r ← call cfg (.ttl k)
    pure (intOrNone r)
  | .clear => do
    let _ ← call cfg .flushdb
    pure .none_
  | .keysCount => do
    let r ← call cfg .dbsize
    pure (intOrNone r)
  | .scan pat count => do
    let n ← domLen
    let ks ← scanLoop cfg pat count (n + 2) 0 []
    pure (.keys ks)
  | .getMatch pat count => do
    let n ← domLen
    let kvs ← getMatchLoop cfg pat count (n + 2) 0 []
    pure (.pairs kvs)
  | .deleteMatch pat =>
    if pat.toList.contains '*' then do
      let n ← domLen
      delMatchLoop cfg pat (2 * n + 8) 0
      pure .none_
    else do
      -- `if "*" not in pattern: await self._client.unlink(pattern); return`
      let _ ← call cfg (.unlink [pat])
      pure .none_
  | .setLock k tok ms => do
    -- `bool(await self._client.set(key, value, px=int(expire * 1000), nx=True))`
    let r ← call cfg (.set k tok (some ms) .nx)
    pure (.bool (truthy r))
  | .unlock k tok => do
    let sha ← ensureScript cfg .unlock
    let r ← call cfg (.evalsha sha k [tok])
    pure (intOrNone r)
  | .isLocked k => do
    let r ← call cfg (.exists_ [k])
    pure (.bool (truthy r))
  | .setAdd k ms ttl =>
    match ttl with
    | none => do
      -- `if expire is None: return await self._client.sadd(key, *values)`   (result not part of the interface)
      let _ ← call cfg (.sadd k ms)
      pure .none_
    | some t => do
      pipe cfg [.sadd k ms, .pexpire k t]
      pure .none_
  | .setRemove k ms => do
    let _ ← call cfg (.srem k ms)
    pure .none_
  | .setPop k count => do
    let r ← call cfg (.spop k count)
    match r with
    | .nil => pure (.keys [])
    | .strs l => pure (.keys l)
    | _ => raiseOther
  | .getBits k idx size => do
    -- `return tuple(await bitops.execute() or [])`
    let r ← call cfg (.bitfield k (idx.map fun i => .get size i))
    match r with
    | .nil => pure (.ints [])
    | .ints l => pure (.ints l)
    | _ => raiseOther
  | .incrBits k idx size by_ => do
    -- with the D27 repair: `return tuple(await bitops.execute() or [])`
    let ops := match idx with
      | [] => []
      | _ => BfOp.overflow .sat :: idx.map fun i => BfOp.incrby size i by_
    let r ← call cfg (.bitfield k ops)
    match r with
    | .nil => pure (.ints [])
    | .ints l => pure (.ints l)
    | _ => raiseOther
  | .sliceIncr k start stop maxv ttl => do
    -- `expire = int((expire or 0) * 1000)`
    let sha ← ensureScript cfg .incrSlice
    let r ← call cfg (.evalsha sha k [start, stop, .num maxv, .num ((ttl.getD 0 : Nat))])
    pure (intOrNone r)
  | .ping => do
    let _ ← call cfg .ping
    pure .pong
  | .adv dt => fun w => ({ w with srv := w.srv.adv dt }, .ok .none_)

def outOf : Res ROut → ROut
  | .ok o => o
  | .raise => .raise
  | .raiseOther => .raiseOther

def step (cfg : Cfg) (w : World) (op : ROp) : World × ROut :=
  let (w', r) := stepM cfg op w
  (w', outOf r)

def run (cfg : Cfg) (w : World) : List ROp → World × List ROut
  | [] => (w, [])
  | op :: ops =>
    let (w', o) := step cfg w op
    let (w'', os) := run cfg w' ops
    (w'', o :: os)

end CashewsVerif.Redis
