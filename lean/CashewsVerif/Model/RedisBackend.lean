import CashewsVerif.Model.SafeClient
/-
Model of `cashews/backends/redis/backend.py` (class `_Redis`): every cashews command is a short
program of client calls plus post-processing of the replies.  The Python text is quoted next to
each definition.  TTLs are milliseconds (`int(expire * 1000)`); `some 0`/`none` are Python-falsy.

Cashews-level values: a Python int, or any other object, identified with the byte string the
serializer produces for it (`obj hex`); `Serializer.encode` returns ints unchanged (redis-py then
sends their decimal text), everything else as signed pickle bytes.
-/
namespace CashewsVerif.Redis

inductive CVal where
  | int (i : Int)
  | obj (hex : String)
  deriving DecidableEq, Repr, Inhabited

def encode : CVal → Bytes
  | .int i => .num i
  | .obj h => .blob h

/-- `_transform_value` / `Serializer.decode`: `None` → default; all digits (with the D28 repair: an optional
leading '-') → int; else the serializer decodes or gives the default. -/
def decode (cfg : Cfg) : Bytes → Option CVal
  | .num i => some (.int i)
  | .blob h => if cfg.isEnc h then some (.obj h) else none

inductive ROp where
  | set (k : String) (v : CVal) (ttl : Option Nat) (c : Cond)
  | setMany (kvs : List (String × CVal)) (ttl : Option Nat)
  | get (k : String)
  | getMany (ks : List String)
  | exists_ (k : String)
  | incr (k : String) (by_ : Int) (ttl : Option Nat)
  | delete (k : String)
  | deleteMany (ks : List String)
  | expire (k : String) (ms : Nat)
  | getExpire (k : String)
  | clear
  | keysCount
  | scan (pat : String) (count : Nat)
  | getMatch (pat : String) (count : Nat)
  | deleteMatch (pat : String)
  | setLock (k : String) (tok : Bytes) (ms : Nat)
  | unlock (k : String) (tok : Bytes)
  | isLocked (k : String)
  | setAdd (k : String) (ms : List String) (ttl : Option Nat)
  | setRemove (k : String) (ms : List String)
  | setPop (k : String) (count : Nat)
  | getBits (k : String) (idx : List Nat) (size : Nat)
  | incrBits (k : String) (idx : List Nat) (size : Nat) (by_ : Int)
  | sliceIncr (k : String) (start stop : Bytes) (maxv : Int) (ttl : Option Nat)
  | ping
  | adv (dt : Nat)
  deriving Repr

inductive ROut where
  | none_                                  -- Python `None`
  | bool (b : Bool)
  | val (v : Option CVal)                  -- `none` = the caller's default came back
  | vals (vs : List (Option CVal))
  | int (i : Int)
  | keys (ks : List String)
  | pairs (kvs : List (String × CVal))
  | ints (l : List Int)
  | pong
  | raise                                  -- CacheBackendInteractionError
  | raiseOther                             -- any other exception
  deriving DecidableEq, Repr

/-! ### a small state-and-exception monad, written out (no `Monad` instance) so that proofs can unfold it -/

abbrev M (α : Type) := World → World × Res α

def M.pure {α} (a : α) : M α := fun w => (w, .ok a)

/-- sequencing: an exception ends the command -/
def M.bind {α β} (x : M α) (f : α → M β) : M β := fun w =>
  match x w with
  | (w', .ok a) => f a w'
  | (w', .raise) => (w', .raise)
  | (w', .raiseOther) => (w', .raiseOther)

infixl:55 " >>=ₘ " => M.bind

def raiseOther {α} : M α := fun w => (w, .raiseOther)

def call (cfg : Cfg) (c : Cmd) : M Reply := clientCall cfg c
def pipe (cfg : Cfg) (cs : List Cmd) : M Unit := pipeCall cfg cs

/-- Python truthiness of a reply as redis-py hands it over -/
def truthy : Reply → Bool
  | .nil => false
  | .ok => true
  | .pong => true
  | .int i => i ≠ 0
  | .bulk _ => true
  | .bulks l => !l.isEmpty
  | .strs l => !l.isEmpty
  | .scan _ _ => true
  | .ints l => !l.isEmpty
  | .sha _ => true
  | .err => false

/-- `int(expire * 1000) if expire else None` -/
def pxOf : Option Nat → Option Nat
  | some (t + 1) => some (t + 1)
  | _ => none

def intOrNone : Reply → ROut
  | .int i => .int i
  | _ => .none_

/-- `if self._sha.get(NAME) is None: self._sha[NAME] = await self._client.script_load(TEXT)`; the SHA to use -/
def ensureScript (cfg : Cfg) (sc : Script) : M (Option Script) := fun w =>
  if sc ∈ w.cached then (w, .ok (some sc))
  else
    match clientCall cfg (.scriptLoad (some sc)) w with
    | (w', .ok (.sha s)) => ({ w' with cached := s :: w'.cached }, .ok (some s))
    | (w', .ok _) => (w', .ok none)                     -- suppressed failure: `None` is remembered, i.e. nothing is
    | (w', .raise) => (w', .raise)
    | (w', .raiseOther) => (w', .raiseOther)

/-- `get_many`: `values = await self._client.mget(*keys); if values is None: return (default,)*len(keys)` -/
def getMany (cfg : Cfg) (ks : List String) : M (List (Option CVal)) :=
  if ks.isEmpty then M.pure [] else
    call cfg (.mget ks) >>=ₘ fun r =>
    match r with
    | .nil => M.pure (ks.map fun _ => none)
    | .bulks l => M.pure (l.map fun b => b.bind (decode cfg))
    | _ => raiseOther

/-- `scan`: `while True: cursor, keys = await self._client.scan(cursor, match=pattern, count=batch_size); yield …; if not cursor: return` -/
def scanLoop (cfg : Cfg) (pat : String) (count : Nat) : Nat → Nat → List String → M (List String)
  | 0, _, acc => M.pure acc
  | fuel + 1, cur, acc =>
    call cfg (.scan cur (some pat) (some count)) >>=ₘ fun r =>
    match r with
    | .scan next keys =>
      if next = 0 then M.pure (acc ++ keys) else scanLoop cfg pat count fuel next (acc ++ keys)
    | _ => raiseOther

/-- the pairs `get_match` yields for one page: those whose value is not `_empty` -/
def pairsOf (keys : List String) (vs : List (Option CVal)) : List (String × CVal) :=
  (keys.zip vs).filterMap (fun kv => kv.2.map (fun v => (kv.1, v)))

/-- `get_match`: scan page; `if not keys: if not cursor: return; continue`; `get_many(*keys, default=_empty)`;
yield the pairs whose value is not `_empty`; `if not cursor: return` -/
def getMatchLoop (cfg : Cfg) (pat : String) (count : Nat) : Nat → Nat → List (String × CVal) → M (List (String × CVal))
  | 0, _, acc => M.pure acc
  | fuel + 1, cur, acc =>
    call cfg (.scan cur (some pat) (some count)) >>=ₘ fun r =>
    match r with
    | .scan next keys =>
      if keys.isEmpty then
        (if next = 0 then M.pure acc else getMatchLoop cfg pat count fuel next acc)
      else
        getMany cfg keys >>=ₘ fun vs =>
        if next = 0 then M.pure (acc ++ pairsOf keys vs) else getMatchLoop cfg pat count fuel next (acc ++ pairsOf keys vs)
    | _ => raiseOther

/-- `delete_match` with a `*`: scan page (count=100); `if not keys: if not cursor: return; continue`; unlink the page; loop -/
def delMatchLoop (cfg : Cfg) (pat : String) : Nat → Nat → M Unit
  | 0, _ => M.pure ()
  | fuel + 1, cur =>
    call cfg (.scan cur (some pat) (some 100)) >>=ₘ fun r =>
    match r with
    | .scan next keys =>
      if keys.isEmpty then (if next = 0 then M.pure () else delMatchLoop cfg pat fuel next)
      else
        call cfg (.unlink keys) >>=ₘ fun _ =>
        delMatchLoop cfg pat fuel next
    | _ => raiseOther

def domLen : M Nat := fun w => (w, .ok w.srv.ks.dom.length)

/-- the BITFIELD sub-commands of `incr_bits`: `OVERFLOW SAT` is emitted once, before the first INCRBY -/
def incrBitsOps (idx : List Nat) (size : Nat) (by_ : Int) : List BfOp :=
  match idx with
  | [] => []
  | _ => BfOp.overflow .sat :: idx.map fun i => BfOp.incrby size i by_

def stepM (cfg : Cfg) : ROp → M ROut
  | .set k v ttl c =>
    -- `_set = bool(await self._client.set(key, value, px=px, nx=nx, xx=xx))`
    call cfg (.set k (encode v) (pxOf ttl) c) >>=ₘ fun r =>
    M.pure (.bool (truthy r))
  | .setMany kvs ttl =>
    -- `async with self._pipeline as pipe: for …: await pipe.set(key, value, px=px); await pipe.execute()`
    pipe cfg (kvs.map fun kv => .set kv.1 (encode kv.2) (pxOf ttl) .always) >>=ₘ fun _ =>
    M.pure .none_
  | .get k =>
    call cfg (.get k) >>=ₘ fun r =>
    match r with
    | .nil => M.pure (.val none)
    | .bulk b => M.pure (.val (decode cfg b))
    | _ => raiseOther
  | .getMany ks =>
    getMany cfg ks >>=ₘ fun vs =>
    M.pure (.vals vs)
  | .exists_ k =>
    call cfg (.exists_ [k]) >>=ₘ fun r =>
    M.pure (.bool (truthy r))
  | .incr k by_ ttl =>
    match pxOf ttl with
    | none =>
      -- `if not expire: return await self._client.incr(key, amount=value)`
      call cfg (.incrby k by_) >>=ₘ fun r =>
      M.pure (intOrNone r)
    | some ms =>
      ensureScript cfg .incrExpire >>=ₘ fun sha =>
      call cfg (.evalsha sha k [.num by_, .num ms]) >>=ₘ fun r =>
      M.pure (intOrNone r)
  | .delete k =>
    call cfg (.unlink [k]) >>=ₘ fun r =>
    M.pure (.bool (truthy r))
  | .deleteMany ks =>
    call cfg (.unlink ks) >>=ₘ fun _ =>
    M.pure .none_
  | .expire k ms =>
    call cfg (.pexpire k ms) >>=ₘ fun _ =>
    M.pure .none_
  | .getExpire k =>
    call cfg (.ttl k) >>=ₘ fun r =>
    M.pure (intOrNone r)
  | .clear =>
    call cfg .flushdb >>=ₘ fun _ =>
    M.pure .none_
  | .keysCount =>
    call cfg .dbsize >>=ₘ fun r =>
    M.pure (intOrNone r)
  | .scan pat count =>
    domLen >>=ₘ fun n =>
    scanLoop cfg pat count (n + 2) 0 [] >>=ₘ fun ks =>
    M.pure (.keys ks)
  | .getMatch pat count =>
    domLen >>=ₘ fun n =>
    getMatchLoop cfg pat count (n + 2) 0 [] >>=ₘ fun kvs =>
    M.pure (.pairs kvs)
  | .deleteMatch pat =>
    if pat.toList.contains '*' then
      domLen >>=ₘ fun n =>
      delMatchLoop cfg pat (2 * n + 8) 0 >>=ₘ fun _ =>
      M.pure .none_
    else
      -- `if "*" not in pattern: await self._client.unlink(pattern); return`
      call cfg (.unlink [pat]) >>=ₘ fun _ =>
      M.pure .none_
  | .setLock k tok ms =>
    -- `pexpire = int(expire * 1000) if expire else None; bool(await self._client.set(key, value, px=pexpire, nx=True))`
    -- (finding D67, repaired: `ms = 0` stands for "no ttl" - `locked(ttl=None)` - a lock without a lease, as in memory)
    call cfg (.set k tok (pxOf (some ms)) .nx) >>=ₘ fun r =>
    M.pure (.bool (truthy r))
  | .unlock k tok =>
    ensureScript cfg .unlock >>=ₘ fun sha =>
    call cfg (.evalsha sha k [tok]) >>=ₘ fun r =>
    M.pure (intOrNone r)
  | .isLocked k =>
    call cfg (.exists_ [k]) >>=ₘ fun r =>
    M.pure (.bool (truthy r))
  | .setAdd k ms ttl =>
    match ttl with
    | none =>
      -- `if expire is None: return await self._client.sadd(key, *values)`   (result not part of the interface)
      call cfg (.sadd k ms) >>=ₘ fun _ =>
      M.pure .none_
    | some t =>
      pipe cfg [.sadd k ms, .pexpire k t] >>=ₘ fun _ =>
      M.pure .none_
  | .setRemove k ms =>
    call cfg (.srem k ms) >>=ₘ fun _ =>
    M.pure .none_
  | .setPop k count =>
    call cfg (.spop k count) >>=ₘ fun r =>
    match r with
    | .nil => M.pure (.keys [])
    | .strs l => M.pure (.keys l)
    | _ => raiseOther
  | .getBits k idx size =>
    -- `return tuple(await bitops.execute() or [])`
    call cfg (.bitfield k (idx.map fun i => .get size i)) >>=ₘ fun r =>
    match r with
    | .nil => M.pure (.ints [])
    | .ints l => M.pure (.ints l)
    | _ => raiseOther
  | .incrBits k idx size by_ =>
    -- with the D27 repair: `return tuple(await bitops.execute() or [])`
    call cfg (.bitfield k (incrBitsOps idx size by_)) >>=ₘ fun r =>
    match r with
    | .nil => M.pure (.ints [])
    | .ints l => M.pure (.ints l)
    | _ => raiseOther
  | .sliceIncr k start stop maxv ttl =>
    -- `expire = int((expire or 0) * 1000)`
    ensureScript cfg .incrSlice >>=ₘ fun sha =>
    call cfg (.evalsha sha k [start, stop, .num maxv, .num ((ttl.getD 0 : Nat))]) >>=ₘ fun r =>
    M.pure (intOrNone r)
  | .ping =>
    call cfg .ping >>=ₘ fun _ =>
    M.pure .pong
  | .adv dt => fun w => ({ w with srv := w.srv.adv dt }, .ok .none_)

def outOf : Res ROut → ROut
  | .ok o => o
  | .raise => .raise
  | .raiseOther => .raiseOther

def step (cfg : Cfg) (w : World) (op : ROp) : World × ROut :=
  ((stepM cfg op w).1, outOf (stepM cfg op w).2)

def run (cfg : Cfg) (w : World) : List ROp → World × List ROut
  | [] => (w, [])
  | op :: ops =>
    ((run cfg (step cfg w op).1 ops).1, (step cfg w op).2 :: (run cfg (step cfg w op).1 ops).2)

end CashewsVerif.Redis
