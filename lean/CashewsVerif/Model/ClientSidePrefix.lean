import CashewsVerif.Model.ClientSide
/-
The key prefix of `BcastClientSide` (`client_side_prefix`, default "cashews:"), made explicit.

`Model/ClientSide.lean` is written over the keys the CALLER uses.  On the wire every key carries the configured prefix:

    def _add_prefix(self, key):     return self._prefix + key
    def _remove_prefix(self, key):  return key[len(self._prefix):]          # strip exactly ONE leading prefix

* every command sends `_add_prefix(key)` (patterns too: `_add_prefix(pattern)`), so the server's keyspace is the model's
  keyspace renamed by `addPrefix p` — an injective renaming (`addPrefix_injective`), hence nothing collides;
* what comes BACK from the server as a key — an invalidation announcement on the listener's connection, a key of a SCAN page
  (`scan`, `get_match`), the keys of `get_many`'s `missed` dictionary — is mapped to the caller's key by `_remove_prefix`.
  The model is faithful iff that is a left inverse of `_add_prefix` for EVERY key — also for a key that contains the prefix
  text again further in (`copy-of:cashews:page`, or `doc:7` under the prefix `c:`), a key equal to the prefix, a key that is a
  fragment of the prefix, the empty key (`removePrefix_addPrefix`).  `wireMsg` / `applyWire` say it for the listener:
  processing the announcement as it arrives on the wire is processing the model's announcement (`applyWire_wireMsg`).

`stripEverywhere` models `key.replace(prefix, "")`, which agrees with `_remove_prefix` on keys that contain the prefix only
at the start and is NOT a left inverse otherwise (evaluated counter-examples in Props/C20.lean).   Mathlib-free.
-/
namespace CashewsVerif.Redis.CS

/-- `self._prefix + key` -/
def addPrefix (p k : String) : String := p ++ k

/-- `key[len(self._prefix):]`: drop as many characters as the prefix has, once, from the front -/
def removePrefix (p s : String) : String := String.ofList (s.toList.drop p.toList.length)

/-- an announcement as it travels: the keys carry the prefix -/
def wireMsg (p : String) : Msg → Msg
  | .flush => .flush
  | .keys ks => .keys (ks.map (addPrefix p))

/-- the listener: `key = self._remove_prefix(original_key)` for every announced key, then the treatment of `applyKey` -/
def Client.applyWire (p : String) (c : Client) (now : Nat) : Msg → Client
  | .flush => c.lclear
  | .keys ks => ks.foldl (fun c k => c.applyKey now (removePrefix p k)) c

/-- `str.replace(prefix, "")` on character lists: every occurrence goes, scanning left to right (`fuel` ≥ length) -/
def stripEverywhereAux (p : List Char) : Nat → List Char → List Char
  | 0, s => s
  | _, [] => []
  | fuel + 1, c :: s =>
    if !p.isEmpty && p.isPrefixOf (c :: s) then stripEverywhereAux p fuel ((c :: s).drop p.length)
    else c :: stripEverywhereAux p fuel s

def stripEverywhere (p s : String) : String := String.ofList (stripEverywhereAux p.toList s.toList.length s.toList)

end CashewsVerif.Redis.CS
