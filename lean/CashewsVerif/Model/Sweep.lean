import CashewsVerif.Model.Mem
/-
The purge task next to the application, at two granularities (C01, C06, C11).

`Memory._remove_expired` is a loop `sweep; wait check_interval`.  In the code as it is, a sweep
(`for key in dict(self.store): await self.get(key)`) never reaches a real suspension point (`Memory.get`
awaits only coroutines that return without suspending), so the whole sweep is ONE step of the purge task:
no application command runs between two of its keys.  That is an assumption about the code and about
asyncio (A1: no preemption between suspension points), not a theorem; it is what lets the models treat a
sweep as the single operation `Op.purge`.  This file makes the assumption explicit:

* `Item` / `runItems`  — histories at **command granularity**: application commands and purge ticks;
* `Ev` / `runEv`       — histories at **key granularity**: a sweep is a sequence of per-key micro-steps,
  between which (if the sweep suspended there) commands may run.  Two flavours of micro-step:
  `recheck k` looks at the entry when it handles it (`await self.get(key)`), `stale k` carries out a decision
  taken earlier from a snapshot (`await self._delete(key)`);
* `atomicEvents`       — the key-granularity history of a command-granularity history under the assumption:
  every tick's micro-steps are contiguous.

`Lemmas/Sweep.lean` proves what follows from it, `Props/C01.lean` / `Props/C11.lean` state it.
-/
namespace CashewsVerif
open Store

/-- a history at command granularity -/
inductive Item where
  | cmd (op : Op)        -- an application command
  | tick                 -- the purge task wakes up and sweeps
  deriving Repr

def Item.toOp : Item → Op
  | .cmd op => op
  | .tick => .purge

/-- what can happen between two suspension points, at key granularity -/
inductive Ev where
  | cmd (op : Op)        -- an application command (no command of `Memory` suspends)
  | recheck (k : Key)    -- a sweep handles key `k` by reading it: expired *now* → removed, else moved to the end
  | stale (k : Key)      -- a sweep removes key `k` because it *was* expired when the sweep took its snapshot
  deriving Repr

def Ev.cmds : List Ev → List Op
  | [] => []
  | .cmd op :: r => op :: Ev.cmds r
  | _ :: r => Ev.cmds r

namespace Mem

/-- run a command-granularity history; answers of the application commands only -/
def runItems (s : Mem) : List Item → Mem × List Out
  | [] => (s, [])
  | .cmd op :: r =>
    let (s', o) := s.step op
    let (s'', os) := runItems s' r
    (s'', o :: os)
  | .tick :: r => runItems s.purge r

/-- run a key-granularity history; answers of the application commands only -/
def runEv (s : Mem) : List Ev → Mem × List Out
  | [] => (s, [])
  | .cmd op :: r =>
    let (s', o) := s.step op
    let (s'', os) := runEv s' r
    (s'', o :: os)
  | .recheck k :: r => runEv (s.rawGet k).1 r
  | .stale k :: r => runEv (s.rawDelete k).1 r

/-- the keys a snapshot-taking sweep decides to remove: those whose deadline has passed *now* -/
def expiredKeys (s : Mem) : List Key := keys (s.store.filter (fun p => !p.2.live s.now))

/-- **The atomicity assumption, as a function**: the key-granularity history of a command-granularity one
when every sweep runs to completion within one step of the purge task — the micro-steps of a tick (over
the keys of the store as the tick finds it) are contiguous, the next item starts after the last of them. -/
def atomicEvents (s : Mem) : List Item → List Ev
  | [] => []
  | .cmd op :: r => .cmd op :: atomicEvents (s.step op).1 r
  | .tick :: r => (keys s.store).map .recheck ++ atomicEvents s.purge r

/-- the same for a sweep that works from a snapshot of the expired keys -/
def atomicStaleEvents (s : Mem) : List Item → List Ev
  | [] => []
  | .cmd op :: r => .cmd op :: atomicStaleEvents (s.step op).1 r
  | .tick :: r => s.expiredKeys.map .stale ++ atomicStaleEvents s.purge r

end Mem
end CashewsVerif
