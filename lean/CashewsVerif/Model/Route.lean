/-
C17 — routing of keys to backends by registered prefix (cashews/wrapper/wrapper.py) and the
per-backend grouping / re-assembly of the multi-key commands (cashews/wrapper/commands.py).
Mathlib-free (the driver links against this).

A Python `str` is its sequence of code points; it is modelled as `List Nat`.  `<` on `str` is
CPython's `unicode_compare`: the first differing code point decides, otherwise the shorter
string is the smaller one.  Backends are identified by a number (object identity).
-/
namespace CashewsVerif.Route

/-- Python `a < b` on `str` (code-point lexicographic order). -/
def pyLt : List Nat → List Nat → Bool
  | [], [] => false
  | [], _ :: _ => true
  | _ :: _, [] => false
  | a :: as, b :: bs => if a < b then true else if b < a then false else pyLt as bs

/-- one step of `sorted(..., reverse=True)` written as an insertion: `x` goes in front of the first
element that is smaller than it -/
def insertDesc (x : List Nat) : List (List Nat) → List (List Nat)
  | [] => [x]
  | y :: ys => if pyLt y x then x :: y :: ys else y :: insertDesc x ys

/-- `sorted(prefixes, reverse=True)`.  (The prefixes are `dict` keys, hence distinct; on distinct
elements the result of a sort does not depend on the algorithm: `Lemmas/Route.lean` proves the
result strictly descending and a permutation, and the theorems of `Props/C17.lean` are stated
for *any* strictly descending list with the same members.) -/
def sortDesc : List (List Nat) → List (List Nat)
  | [] => []
  | x :: xs => insertDesc x (sortDesc xs)

/-- the routing table: `self._backends : dict[str, Backend]` in insertion order -/
structure Table where
  regs : List (List Nat × Nat)
  deriving Repr

def Table.empty : Table := ⟨[]⟩

/-- `d[k] = v` on an insertion-ordered dict: an existing key keeps its position -/
def dictSet {κ ν} [DecidableEq κ] (k : κ) (v : ν) : List (κ × ν) → List (κ × ν)
  | [] => [(k, v)]
  | (k', v') :: r => if k' = k then (k, v) :: r else (k', v') :: dictSet k v r

/-- `d.get(k)` -/
def dictGet {κ ν} [DecidableEq κ] (k : κ) : List (κ × ν) → Option ν
  | [] => none
  | (k', v) :: r => if k' = k then some v else dictGet k r

/-- `_add_backend`: `self._backends[prefix] = backend` (the sorted tuple is recomputed from the keys) -/
def Table.add (t : Table) (p : List Nat) (b : Nat) : Table := ⟨dictSet p b t.regs⟩

/-- `self._backends.keys()` -/
def Table.prefixes (t : Table) : List (List Nat) := t.regs.map (·.1)

/-- `self._sorted_prefixes = tuple(sorted(self._backends.keys(), reverse=True))` -/
def Table.sorted (t : Table) : List (List Nat) := sortDesc t.prefixes

/-- `for prefix in self._sorted_prefixes: if key.startswith(prefix): return prefix` -/
def firstMatch (sorted : List (List Nat)) (key : List Nat) : Option (List Nat) :=
  sorted.find? (·.isPrefixOf key)

/-- the prefix that serves `key` -/
def Table.routePrefix (t : Table) (key : List Nat) : Option (List Nat) := firstMatch t.sorted key

/-- `Wrapper._get_backend(key)`; `none` = `NotConfiguredError` -/
def Table.getBackend (t : Table) (key : List Nat) : Option Nat :=
  (t.routePrefix key).bind fun p => dictGet p t.regs

/-- `self._backends.values()` (registration order): what `clear` / `get_keys_count` /
`is_full_disable` iterate over -/
def Table.backends (t : Table) : List Nat := t.regs.map (·.2)

/-! ### The specification side: the longest matching prefix, computed without any sorting -/

/-- the longest element of `ps` that is a prefix of `key` (the earliest among equally long ones) -/
def longestMatch : List (List Nat) → List Nat → Option (List Nat)
  | [], _ => none
  | p :: ps, key =>
    if p.isPrefixOf key then
      match longestMatch ps key with
      | none => some p
      | some q => if p.length < q.length then some q else some p
    else longestMatch ps key

/-! ### The specification side of (re-)registration: what "registered under prefix `p`" means after a
history of `setup()` calls, computed without any table -/

/-- the backend of the LAST `setup(..., prefix=p)` of the history -/
def lastReg (regs : List (List Nat × Nat)) (p : List Nat) : Option Nat :=
  regs.foldl (fun acc r => if r.1 = p then some r.2 else acc) none

/-! ### Multi-key commands: grouping per backend -/

/-- `backends.setdefault(backend, []).append(key)` on an insertion-ordered dict -/
def addToGroup {κ} (b : Nat) (k : κ) : List (Nat × List κ) → List (Nat × List κ)
  | [] => [(b, [k])]
  | (b', ks) :: r => if b' = b then (b', ks ++ [k]) :: r else (b', ks) :: addToGroup b k r

/-- ```
for key in keys:
    backend = self._get_backend(key)          # may raise NotConfiguredError
    backends.setdefault(backend, []).append(key)
``` -/
def groupFrom {κ} (route : κ → Option Nat) : List (Nat × List κ) → List κ → Option (List (Nat × List κ))
  | g, [] => some g
  | g, k :: ks =>
    match route k with
    | none => none
    | some b => groupFrom route (addToGroup b k g) ks

def groupKeys {κ} (route : κ → Option Nat) (keys : List κ) : Option (List (Nat × List κ)) :=
  groupFrom route [] keys

/-- `result.update(dict(zip(_keys, _values)))` -/
def dictUpdateZip {κ ν} [DecidableEq κ] (d : List (κ × ν)) : List κ → List ν → List (κ × ν)
  | k :: ks, v :: vs => dictUpdateZip (dictSet k v d) ks vs
  | _, _ => d

/-- the loop of `get_many` over the groups; `resp i` is what the `i`-th group call answered
(from the backend, or from the disable middleware) -/
def assembleFrom {κ ν} [DecidableEq κ] (resp : Nat → List ν) :
    Nat → List (κ × ν) → List (Nat × List κ) → List (κ × ν)
  | _, d, [] => d
  | i, d, (_, ks) :: r => assembleFrom resp (i + 1) (dictUpdateZip d ks (resp i)) r

/-- `tuple(result.get(key) for key in keys)`; `none` is Python's `None` of `dict.get` -/
def getManyResult {κ ν} [DecidableEq κ] (groups : List (Nat × List κ)) (resp : Nat → List ν)
    (keys : List κ) : List (Option ν) :=
  let result := assembleFrom resp 0 [] groups
  keys.map fun k => dictGet k result

end CashewsVerif.Route
