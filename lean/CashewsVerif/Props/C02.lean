import CashewsVerif.Lemmas.DecorSimple
import CashewsVerif.Lemmas.DecorIter
import CashewsVerif.Lemmas.Ttl
/-
C02 — a cached call returns only a fresh real result for the same arguments; the iterator
decorator replays one complete run; every TTL spelling denotes the same number of seconds.
Property theorems only; models in `Model/Decor/*`, `Model/Ttl`, helper lemmas in `Lemmas/`.

All theorems about the decorators are stated for the state reached by an *arbitrary* history
`ops` (calls with any keys, time advances of any size), an arbitrary script of the wrapped
function (`script n` = behaviour and duration of its n-th execution), an arbitrary condition and
an arbitrary TTL function of (key, result): "the next call in state `run … ops`" ranges over every
call of every history.
-/
namespace CashewsVerif.Props.C02
open CashewsVerif CashewsVerif.Decor

section simple
open CashewsVerif.Decor.Simple

/-- the state a history leads to -/
abbrev after (cfg : Cfg) (script : Nat → Beh) (ops : List Simple.Op) : St := (run cfg script St.init ops).1

/-- **Every answer is a fresh real result for the same key.**  Whatever a call with key `k`
hands to its caller (`r`: a value, `None`, a falsy constant or a raised exception) is the outcome
of a real execution number `n` of the wrapped function *with the same key* (and, results being
stamped, of that execution only when `r` is a payload or an exception).  If the answer came from
the store, that execution happened earlier, was accepted by the condition, and is younger than
its ttl (`now - t_e < ttl`; a ttl of 0 is "no ttl", as in the code); otherwise it is the
execution made by this very call. -/
theorem served_is_fresh_real (cfg : Cfg) (script : Nat → Beh) (ops : List Simple.Op) (k : Nat) (r : Res) (cached : Bool)
    (h : (step cfg script (after cfg script ops) (.call k)).2 = .got r cached) :
    ∃ n x, (step cfg script (after cfg script ops) (.call k)).1.execs[n]? = some x ∧
      x.key = k ∧ x.res = r ∧ x.beh = script n ∧ r = (script n).kind.res n 0 ∧
      (cached = false → n = (after cfg script ops).execs.length ∧
        x.at_ = (step cfg script (after cfg script ops) (.call k)).1.store.now) ∧
      (cached = true → n < (after cfg script ops).execs.length ∧ accepts cfg.cond x.beh = true ∧
        x.at_ ≤ (after cfg script ops).store.now ∧
        (cfg.ttl k r = 0 ∨ (after cfg script ops).store.now < x.at_ + cfg.ttl k r)) := by
  have inv : Inv cfg script (after cfg script ops) := inv_run (inv_init cfg script) ops
  generalize after cfg script ops = s at h inv ⊢
  cases hf : s.store.find k with
  | some e =>
    rw [step_call_hit cfg script s k e hf] at h ⊢
    simp only [Simple.Out.got.injEq] at h
    obtain ⟨hm, hl⟩ := find_eq_some.mp hf
    obtain ⟨x, hx, hk, ha, he⟩ := inv.stored k e hm
    obtain ⟨n, hn⟩ := List.getElem?_of_mem hx
    obtain ⟨hb, hr⟩ := inv.stamped n x hn
    have hres : x.res = r := by rw [← h.1, he]; exact (Res.dec_enc _).symm
    have hfr : Fresh cfg x s.store.now := (live_entryOf_iff cfg x _).mp (he ▸ hl)
    refine ⟨n, x, hn, hk, hres, hb, by rw [← hres, hr], ?_, ?_⟩
    · intro hc; rw [hc] at h; exact absurd h.2 (by simp)
    · intro _
      refine ⟨(List.getElem?_eq_some_iff.mp hn).1, ha, inv.past x hx, ?_⟩
      unfold Fresh at hfr
      rw [hk, hres] at hfr
      exact hfr
  | none =>
    rw [step_call_miss cfg script s k hf] at h ⊢
    simp only [Simple.Out.got.injEq] at h
    refine ⟨s.execs.length, ⟨k, s.store.now + (script s.execs.length).dur, script s.execs.length,
      (script s.execs.length).kind.res s.execs.length 0⟩, by simp [missState], rfl, h.1, rfl, h.1.symm, ?_, ?_⟩
    · intro _
      refine ⟨rfl, ?_⟩
      simp only [missState]
      split <;> simp
    · intro hc; rw [hc] at h; exact absurd h.2 (by simp)

/-- **The function is executed iff no such stored result exists.**  In every reachable state a
call with key `k` runs the wrapped function (the execution log grows, the answer is flagged as
not cached) exactly when there is no earlier execution with the same key that the condition
accepted and that is still younger than its ttl; otherwise the log is unchanged. -/
theorem executes_iff_no_stored (cfg : Cfg) (script : Nat → Beh) (ops : List Simple.Op) (k : Nat) :
    let s := after cfg script ops
    let stored := ∃ x ∈ s.execs, x.key = k ∧ accepts cfg.cond x.beh = true ∧ Fresh cfg x s.store.now
    (¬ stored → (step cfg script s (.call k)).1.execs.length = s.execs.length + 1 ∧
        ∃ r, (step cfg script s (.call k)).2 = .got r false) ∧
    (stored → (step cfg script s (.call k)).1 = s ∧ ∃ r, (step cfg script s (.call k)).2 = .got r true) := by
  intro s stored
  have inv : Inv cfg script s := inv_run (inv_init cfg script) ops
  cases hf : s.store.find k with
  | some e =>
    obtain ⟨hm, hl⟩ := find_eq_some.mp hf
    obtain ⟨x, hx, hk, ha, he⟩ := inv.stored k e hm
    have hst : stored := ⟨x, hx, hk, ha, (live_entryOf_iff cfg x _).mp (he ▸ hl)⟩
    rw [step_call_hit cfg script s k e hf]
    exact ⟨fun h => absurd hst h, fun _ => ⟨rfl, _, rfl⟩⟩
  | none =>
    have hst : ¬ stored := by
      intro ⟨x, hx, hk, ha, hfr⟩
      have hm := inv.latest x hx ha hfr
      rw [hk] at hm
      have := (find_eq_none.mp hf) _ hm
      rw [(live_entryOf_iff cfg x _).mpr hfr] at this
      exact absurd this (by simp)
    rw [step_call_miss cfg script s k hf]
    exact ⟨fun _ => ⟨by simp [missState], _, rfl⟩, fun h => absurd h hst⟩

/-- **A rejected result is never stored.**  An execution whose outcome the condition rejects (a
result for which it does not return `True`, an exception it does not select) leaves the store
exactly as it was: only time has passed. -/
theorem rejected_execution_stores_nothing (cfg : Cfg) (script : Nat → Beh) (ops : List Simple.Op) (k : Nat)
    (hrun : (after cfg script ops).store.find k = none)
    (hrej : accepts cfg.cond (script (after cfg script ops).execs.length) = false) :
    (step cfg script (after cfg script ops) (.call k)).1.store.m = (after cfg script ops).store.m := by
  rw [step_call_miss cfg script _ k hrun]
  simp [missState, hrej]

/-- **… and never replayed.**  In every reachable state, for every logged execution number `n`
that the condition rejected: (a) every entry of the store was written by a *different*, accepted
execution; (b) every answer that comes from the store was produced by a different, accepted
execution, and if the rejected result is stamped (a payload or an exception instance) no answer
from the store equals it. -/
theorem rejected_never_stored (cfg : Cfg) (script : Nat → Beh) (ops : List Simple.Op) (n : Nat) (x : Exec)
    (hx : (after cfg script ops).execs[n]? = some x) (hrej : accepts cfg.cond x.beh = false) :
    (∀ k e, (after cfg script ops).store.m k = some e →
      ∃ n' x', n' ≠ n ∧ (after cfg script ops).execs[n']? = some x' ∧ accepts cfg.cond x'.beh = true ∧
        e = entryOf cfg x') ∧
    (∀ k r, (step cfg script (after cfg script ops) (.call k)).2 = .got r true →
      (∃ n' x', n' ≠ n ∧ (after cfg script ops).execs[n']? = some x' ∧ accepts cfg.cond x'.beh = true ∧
        x'.res = r) ∧
      ((x.res.isExc = true ∨ ∃ i, x.res = .val n i) → r ≠ x.res)) := by
  have inv : Inv cfg script (after cfg script ops) := inv_run (inv_init cfg script) ops
  generalize after cfg script ops = s at hx inv ⊢
  have part_a : ∀ k e, s.store.m k = some e →
      ∃ n' x', n' ≠ n ∧ s.execs[n']? = some x' ∧ accepts cfg.cond x'.beh = true ∧ e = entryOf cfg x' := by
    intro k e he
    obtain ⟨x', hx', _, ha, hee⟩ := inv.stored k e he
    obtain ⟨n', hn'⟩ := List.getElem?_of_mem hx'
    refine ⟨n', x', ?_, hn', ha, hee⟩
    intro hnn; subst hnn
    rw [hx] at hn'; simp only [Option.some.injEq] at hn'; subst hn'
    rw [hrej] at ha; exact absurd ha (by simp)
  refine ⟨part_a, ?_⟩
  intro k r h
  cases hf : s.store.find k with
  | none =>
    rw [step_call_miss cfg script s k hf] at h
    simp at h
  | some e =>
    rw [step_call_hit cfg script s k e hf] at h
    simp only [Simple.Out.got.injEq, and_true] at h
    obtain ⟨n', x', hne, hn', ha, hee⟩ := part_a k e (find_eq_some.mp hf).1
    have hres : x'.res = r := by rw [← h, hee]; exact (Res.dec_enc _).symm
    refine ⟨⟨n', x', hne, hn', ha, hres⟩, ?_⟩
    intro hst heq
    have h1 := (inv.stamped n x hx).2
    have h2 := (inv.stamped n' x' hn').2
    rw [← hres, h2] at heq
    rw [h1] at heq hst
    -- stamped results of different executions differ
    cases hk : (script n).kind <;> cases hk' : (script n').kind <;>
      simp [hk, hk', Kind.res, Res.isExc] at heq hst <;> omega

/-- **A replayed failure is the very exception that was raised.**  In every reachable state, when a call
with key `k` is answered from the store with an exception of class `c`, payload `p` and stamp `m`, then `m`
is a logged execution with the same key whose script entry *is* "raise class `c` with payload `p`": the class,
the payload (constructor family and arguments, message, attributes, cause - everything the instance carries)
and the stamp of what the caller receives are those of what that execution raised; nothing is re-made from
the class or from a part of the payload.  That execution was selected by the condition and is younger than
its ttl.  (The payload is opaque to the model: `Res.enc` / `Res.dec` carry it unchanged, the library's
conditions do not look at it.) -/
theorem replayed_exception_is_the_raised_one (cfg : Cfg) (script : Nat → Beh) (ops : List Simple.Op) (k c p m : Nat)
    (h : (step cfg script (after cfg script ops) (.call k)).2 = .got (.exc c p m) true) :
    ∃ x, (after cfg script ops).execs[m]? = some x ∧ x.key = k ∧ x.beh = script m ∧
      (script m).kind = .exc c p ∧ x.res = .exc c p m ∧ accepts cfg.cond x.beh = true ∧
      x.at_ ≤ (after cfg script ops).store.now ∧
      (cfg.ttl k (.exc c p m) = 0 ∨ (after cfg script ops).store.now < x.at_ + cfg.ttl k (.exc c p m)) ∧
      (step cfg script (after cfg script ops) (.call k)).1 = after cfg script ops := by
  have inv : Inv cfg script (after cfg script ops) := inv_run (inv_init cfg script) ops
  generalize after cfg script ops = s at h inv ⊢
  cases hf : s.store.find k with
  | none =>
    rw [step_call_miss cfg script s k hf] at h
    simp at h
  | some e =>
    rw [step_call_hit cfg script s k e hf] at h ⊢
    simp only [Simple.Out.got.injEq, and_true] at h
    obtain ⟨hm, hl⟩ := find_eq_some.mp hf
    obtain ⟨x, hx, hk, ha, he⟩ := inv.stored k e hm
    obtain ⟨n, hn⟩ := List.getElem?_of_mem hx
    obtain ⟨hb, hr⟩ := inv.stamped n x hn
    have hres : x.res = .exc c p m := by rw [← h, he]; exact (Res.dec_enc _).symm
    have hfr : Fresh cfg x s.store.now := (live_entryOf_iff cfg x _).mp (he ▸ hl)
    -- the stamp of a raised exception is the number of the execution that raised it
    have hkind : (script n).kind = .exc c p ∧ n = m := by
      rw [hr] at hres
      cases hkd : (script n).kind <;> simp [hkd, Kind.res] at hres
      exact ⟨by rw [hres.1, hres.2.1], hres.2.2⟩
    obtain ⟨hkd, rfl⟩ := hkind
    refine ⟨x, hn, hk, hb, hkd, hres, ha, inv.past x hx, ?_, rfl⟩
    unfold Fresh at hfr
    rw [hk, hres] at hfr
    exact hfr

/-- **A call whose caller is cancelled while the function is running.**  In every reachable state: under thunder
protection (`protected=True`, the default) the call itself is shielded - the state afterwards (store and execution log)
is exactly the state after the same call with a caller that stays, so every theorem above speaks about that execution
like about any other (its result is stored iff accepted, served only while younger than its ttl, and the next call
after that executes the function again); the cancelled caller has an answer only if it came from the store.  Without
protection a call that is cut short as the function starts to work leaves the state exactly as it was (nothing is
logged, nothing is stored), and it is cut short only if the store holds no live result for the key. -/
theorem cancelled_caller (cfg : Cfg) (script : Nat → Beh) (ops : List Simple.Op) (k : Nat) :
    let s := after cfg script ops
    (step cfg script s (.lost k)).1 = (step cfg script s (.call k)).1 ∧
    (∀ r, (step cfg script s (.call k)).2 = .got r true → (step cfg script s (.lost k)).2 = .got r true) ∧
    (∀ r, (step cfg script s (.call k)).2 = .got r false → (step cfg script s (.lost k)).2 = .lost true) ∧
    (step cfg script s (.cut k)).1 = s ∧
    ((step cfg script s (.cut k)).2 = .lost false ↔ s.store.find k = none) ∧
    (∀ r, (step cfg script s (.call k)).2 = .got r true → (step cfg script s (.cut k)).2 = .got r true) := by
  intro s
  refine ⟨rfl, ?_, ?_, step_cut_state cfg script s k, ?_, ?_⟩
  · intro r h
    show ((step cfg script s (.call k)).2).hide = _
    rw [h]; rfl
  · intro r h
    show ((step cfg script s (.call k)).2).hide = _
    rw [h]; rfl
  · cases hf : s.store.find k with
    | none => simp [step, hf]
    | some e => simp [step, hf]
  · intro r h
    cases hf : s.store.find k with
    | none => rw [step_call_miss cfg script s k hf] at h; simp at h
    | some e =>
      rw [step_call_hit cfg script s k e hf] at h
      simp only [Simple.Out.got.injEq, and_true] at h
      simp [step, hf, h]

/-- two exception answers are the same exception only if class, payload and stamp all agree -/
example : Res.exc 1 3 2 ≠ Res.exc 1 0 2 ∧ Res.dec (Res.enc (.exc 1 3 2)) = .exc 1 3 2 := by decide

/-! ### Non-vacuity (simple cache): the model provably does something, and the hypotheses are satisfiable -/

/-- executions 0.. : payload, `None`, exception of class 1 with payload 3, payload, payload (each taking 1 tick) -/
def sampleScript : Nat → Beh
  | 0 => ⟨.val, 1⟩ | 1 => ⟨.none, 1⟩ | 2 => ⟨.exc 1 3, 1⟩ | _ => ⟨.val, 1⟩

/-- not-none condition, ttl 8 ticks: hit within ttl, re-execution at the deadline, a rejected `None`
(executed again on the next call), a second key -/
example : (run ⟨.notNone, fun _ _ => 8⟩ sampleScript St.init
      [.call 0, .adv 6, .call 0, .adv 2, .call 0, .call 0, .call 1, .call 1]).2 =
    [.got (.val 0 0) false, .unit, .got (.val 0 0) true, .unit, .got .none false,
     .got (.exc 1 3 2) false, .got (.val 3 0) false, .got (.val 3 0) true] := by decide

/-- `with_exceptions(1)`: the selected exception is replayed from the store, `None` is stored too -/
example : (run ⟨.withExc [1], fun _ _ => 8⟩ sampleScript St.init
      [.call 0, .adv 8, .call 0, .call 0, .adv 8, .call 0, .call 0]).2 =
    [.got (.val 0 0) false, .unit, .got .none false, .got .none true, .unit,
     .got (.exc 1 3 2) false, .got (.exc 1 3 2) true] := by decide

/-- the hypothesis of `replayed_exception_is_the_raised_one` is satisfiable (same history: the last call) -/
example : (step ⟨.withExc [1], fun _ _ => 8⟩ sampleScript
      (after ⟨.withExc [1], fun _ _ => 8⟩ sampleScript [.call 0, .adv 8, .call 0, .call 0, .adv 8, .call 0]) (.call 0)).2 =
    .got (.exc 1 3 2) true := by decide

/-- a callable returning a truthy non-bool stores nothing; a time condition stores only slow executions -/
example : (run ⟨.fn (fun _ => .other true), fun _ _ => 8⟩ sampleScript St.init [.call 0, .call 0]).2 =
    [.got (.val 0 0) false, .got .none false] := by decide
example : (run ⟨.slower 1, fun _ _ => 8⟩ sampleScript St.init [.call 0, .call 0]).2 =
    [.got (.val 0 0) false, .got .none false] := by decide
example : (run ⟨.slower 0, fun _ _ => 8⟩ sampleScript St.init [.call 0, .call 0]).2 =
    [.got (.val 0 0) false, .got (.val 0 0) true] := by decide

/-- a caller cancelled under thunder protection: the execution completes and is stored; it is served within its ttl
(8 ticks) and not after; a call cut short without protection does not count as an execution -/
example : (run ⟨.all, fun _ _ => 8⟩ sampleScript St.init
      [.cut 0, .lost 0, .call 0, .lost 0, .adv 8, .call 0, .cut 0]).2 =
    [.lost false, .lost true, .got (.val 0 0) true, .got (.val 0 0) true, .unit, .got .none false, .got .none true] := by decide

/-- `time_condition` together with a condition: both have to accept (a slow `None` is not stored under not-none; a fast
payload is not stored either; a slow payload is) -/
example : (run ⟨.slowerAnd 0 .notNone, fun _ _ => 8⟩ (fun n => if n = 1 then ⟨.none, 1⟩ else if n = 2 then ⟨.val, 0⟩ else ⟨.val, 1⟩)
      St.init [.call 1, .call 1, .call 0, .call 0, .call 0, .call 0]).2 =
    [.got (.val 0 0) false, .got (.val 0 0) true, .got .none false, .got (.val 2 0) false, .got (.val 3 0) false,
     .got (.val 3 0) true] := by decide

/-- the hypotheses of `rejected_never_stored` / `rejected_execution_stores_nothing` are satisfiable:
after `[call 0, adv 8]` under not-none the next execution (number 1, `None`) is rejected -/
example : (after ⟨.notNone, fun _ _ => 8⟩ sampleScript [.call 0, .adv 8]).store.find 0 = none ∧
    accepts .notNone (sampleScript (after ⟨.notNone, fun _ _ => 8⟩ sampleScript [.call 0, .adv 8]).execs.length) = false := by
  decide
example : ∃ x, (after ⟨.notNone, fun _ _ => 8⟩ sampleScript [.call 0, .adv 8, .call 0]).execs[1]? = some x ∧
    accepts .notNone x.beh = false := ⟨⟨0, 10, ⟨.none, 1⟩, .none⟩, by decide, by decide⟩

end simple

section iterator
open CashewsVerif.Decor.Iter

abbrev afterI (cfg : Iter.Cfg) (script : Nat → IBeh) (ops : List Iter.Op) : Iter.St :=
  (Iter.run cfg script Iter.St.init ops).1

/-- **A replay is exactly one complete real run.**  In every reachable state, when a call with
key `k` is answered from the cache, the replay is - in order and in full, whatever the items are (`None`,
falsy constants, a final exception) - everything that ONE logged run `n` of the generator *with the same
key* delivered, and that run ended by itself (it completed, or raised: it was neither abandoned by its
consumer nor cancelled), so what it delivered is everything its body produces, `produced n (script n).steps 0`;
that run started less than ttl ago, and the condition accepted every one of its items.  What the consumer of
the replay receives (`rs`) is that sequence (a consumer that stops after `j+1` elements: its first `j+1`). -/
theorem iterator_replays_one_complete_run (cfg : Iter.Cfg) (script : Nat → IBeh) (ops : List Iter.Op) (k : Nat)
    (cs : Consumer) (rs : List Res) (h : (Iter.step cfg script (afterI cfg script ops) (.iter k cs)).2 = .got rs true) :
    ∃ n r, (afterI cfg script ops).runs[n]? = some r ∧ r.key = k ∧
      (r.ending = .completed ∨ r.ending = .raised) ∧
      r.outs = produced n (script n).steps 0 ∧ r.outs ≠ [] ∧
      rs = cs.view r.outs ∧ ((∀ j, cs ≠ .take j) → rs = r.outs) ∧
      allOk cfg.cond (script n).steps = true ∧
      r.start ≤ (afterI cfg script ops).store.now ∧ (afterI cfg script ops).store.now < r.start + cfg.ttl k := by
  have inv : Iter.Inv cfg script (afterI cfg script ops) := Iter.inv_run (Iter.inv_init cfg script) ops
  generalize afterI cfg script ops = s at h inv ⊢
  by_cases hc : markerCount (s.store.find (ckey k 0)) = 0
  · rw [step_iter_miss cfg script s k cs hc] at h; simp at h
  · rw [step_iter_hit cfg script s k cs hc] at h
    simp only [Iter.Out.got.injEq, and_true] at h
    cases hf : s.store.find (ckey k 0) with
    | none => rw [hf] at hc; exact absurd rfl hc
    | some e =>
      obtain ⟨hm, hl⟩ := find_eq_some.mp hf
      obtain ⟨n, r, hn, hca, hall⟩ := inv.cached k e hm hl
      have hlive : s.store.now < r.start + cfg.ttl k := by
        have := hca.dl
        unfold Entry.live at hl
        rw [this] at hl
        simpa using hl
      have hrep := replay_cached hca hlive r.outs.length 0 (by simp)
      rw [hf, markerCount_cached hca, hrep, List.drop_zero] at h
      have hend : r.ending = .completed ∨ r.ending = .raised := by
        have := hca.done
        cases he : r.ending <;> simp [he, Ending.done] at this ⊢
      refine ⟨n, r, hn, hca.key, hend, inv.complete n r hn hca.done, ?_, h.symm, ?_, hall,
        inv.past r (List.mem_of_getElem? hn), hlive⟩
      · intro hnil
        exact hca.ne (by simp [hnil])
      · intro hnt
        rw [← h]
        cases cs with
        | take j => exact absurd rfl (hnt j)
        | drain => rfl
        | cancel j => rfl

/-- **A call that is not answered from the cache performs one real run** and hands its consumer what that run
delivers to it: a prefix of what the body produces - all of it when the run ends by itself (the consumer drains
the stream, or the body ends or raises before the consumer stops); the run is logged with this key, the current
instant, the consumer and the way it ended. -/
theorem iterator_miss_is_a_real_run (cfg : Iter.Cfg) (script : Nat → IBeh) (ops : List Iter.Op) (k : Nat) (cs : Consumer)
    (rs : List Res) (h : (Iter.step cfg script (afterI cfg script ops) (.iter k cs)).2 = .got rs false) :
    let n := (afterI cfg script ops).runs.length
    rs = delivered cs n (script n).steps 0 ∧
    rs = (produced n (script n).steps 0).take rs.length ∧
    ((ending cs (script n).steps 0).done = true → rs = produced n (script n).steps 0) ∧
    (cs = .drain → rs = produced n (script n).steps 0) ∧
    (Iter.step cfg script (afterI cfg script ops) (.iter k cs)).1.runs =
      (afterI cfg script ops).runs ++ [⟨k, (afterI cfg script ops).store.now, rs,
        (Iter.step cfg script (afterI cfg script ops) (.iter k cs)).1.store.now, cs, ending cs (script n).steps 0⟩] := by
  generalize afterI cfg script ops = s at h ⊢
  by_cases hc : markerCount (s.store.find (ckey k 0)) = 0
  · rw [step_iter_miss cfg script s k cs hc] at h ⊢
    simp only [Iter.Out.got.injEq, and_true] at h
    refine ⟨h.symm, ?_, ?_, ?_, ?_⟩
    · rw [← h]; exact delivered_prefix _ _ _ _
    · intro hd; rw [← h]; exact delivered_done _ _ _ _ hd
    · intro hd; subst hd; rw [← h]; exact delivered_done _ _ _ _ (ending_drain_done _ _)
    · simp only [Iter.missState]
      rw [body_outs, h]
  · rw [step_iter_hit cfg script s k cs hc] at h; simp at h

/-- **The generator is run iff there is no cached run.**  In every reachable state a call with key `k` is
answered from the cache (state unchanged) exactly when the log holds a run with the same key that ended by itself
(completed or raised - not abandoned, not cancelled), delivered something, whose every item (and final exception,
if any) the condition accepted, that took less than its ttl and started less than ttl ago; otherwise the generator
is run once more (the run log grows by one) - whatever the consumers of the earlier calls and of this call do. -/
theorem iterator_executes_iff_no_cached_run (cfg : Iter.Cfg) (script : Nat → IBeh) (ops : List Iter.Op) (k : Nat)
    (cs : Consumer) :
    let s := afterI cfg script ops
    let cachedRun := ∃ n r, s.runs[n]? = some r ∧ r.key = k ∧ r.ending.done = true ∧ r.outs ≠ [] ∧
      allOk cfg.cond (script n).steps = true ∧
      r.fin < r.start + cfg.ttl k ∧ s.store.now < r.start + cfg.ttl k
    (¬ cachedRun → (Iter.step cfg script s (.iter k cs)).1.runs.length = s.runs.length + 1 ∧
        ∃ rs, (Iter.step cfg script s (.iter k cs)).2 = .got rs false) ∧
    (cachedRun → (Iter.step cfg script s (.iter k cs)).1 = s ∧ ∃ rs, (Iter.step cfg script s (.iter k cs)).2 = .got rs true) := by
  intro s cachedRun
  have inv : Iter.Inv cfg script s := Iter.inv_run (Iter.inv_init cfg script) ops
  by_cases hc : markerCount (s.store.find (ckey k 0)) = 0
  · have hno : ¬ cachedRun := by
      intro ⟨n, r, hn, hk, hdone, hne, hall, hfast, hfresh⟩
      subst hk
      have hm := inv.latest n r hn hdone hall hne hfast hfresh
      have hf : s.store.find (ckey r.key 0) = some ⟨.int (r.outs.length : Nat), some (r.start + cfg.ttl r.key)⟩ :=
        find_eq_some.mpr ⟨hm, by simp [Entry.live]; omega⟩
      rw [hf] at hc
      simp only [markerCount] at hc
      exact hne (by simpa using hc)
    rw [step_iter_miss cfg script s k cs hc]
    exact ⟨fun _ => ⟨by simp [Iter.missState], _, rfl⟩, fun h => absurd h hno⟩
  · have hyes : cachedRun := by
      cases hf : s.store.find (ckey k 0) with
      | none => rw [hf] at hc; exact absurd rfl hc
      | some e =>
        obtain ⟨hm, hl⟩ := find_eq_some.mp hf
        obtain ⟨n, r, hn, hca, hall⟩ := inv.cached k e hm hl
        refine ⟨n, r, hn, hca.key, hca.done, ?_, hall, hca.intime, ?_⟩
        · intro h; exact hca.ne (by simp [h])
        · have := hca.dl
          unfold Entry.live at hl
          rw [this] at hl
          simpa using hl
    rw [step_iter_hit cfg script s k cs hc]
    exact ⟨fun h => absurd hyes h, fun _ => ⟨rfl, _, rfl⟩⟩

/-- **An abandoned or cancelled run stores no marker.**  In every reachable state, when a call with key `k` runs
the generator and that run does not end by itself - its consumer stops after some items (`break` / `aclose()` /
the stream is dropped) or is cancelled while the body is working -, then the run is logged as abandoned or
cancelled, the marker of *every* key is exactly what it was, and the only slots of the store that may differ are
chunk slots of key `k` itself (which no replay reads without a marker that counts them). -/
theorem interrupted_run_stores_no_marker (cfg : Iter.Cfg) (script : Nat → IBeh) (ops : List Iter.Op) (k : Nat) (cs : Consumer)
    (hmiss : markerCount ((afterI cfg script ops).store.find (ckey k 0)) = 0)
    (hint : (ending cs (script (afterI cfg script ops).runs.length).steps 0).done = false) :
    let s := afterI cfg script ops
    let s' := (Iter.step cfg script s (.iter k cs)).1
    (∃ r, s'.runs = s.runs ++ [r] ∧ r.key = k ∧ r.cons = cs ∧ (r.ending = .abandoned ∨ r.ending = .cancelled)) ∧
    (∀ k', s'.store.m (ckey k' 0) = s.store.m (ckey k' 0)) ∧
    (∀ q, (∀ j, q ≠ ckey k (j + 1)) → s'.store.m q = s.store.m q) := by
  intro s s'
  have hs' : s' = Iter.missState cfg script s k cs := by
    show (Iter.step cfg script s (.iter k cs)).1 = _
    rw [step_iter_miss cfg script s k cs hmiss]
  rw [hs']
  refine ⟨⟨_, rfl, rfl, rfl, ?_⟩, ?_, ?_⟩
  · show ending cs (script s.runs.length).steps 0 = .abandoned ∨ ending cs (script s.runs.length).steps 0 = .cancelled
    have hint' : (ending cs (script s.runs.length).steps 0).done = false := hint
    revert hint'
    cases ending cs (script s.runs.length).steps 0 <;> simp [Ending.done]
  · intro k'
    exact miss_interrupted cfg script s k cs hint _ (fun j => ckey_ne_of_slot (by omega) k)
  · intro q hq
    exact miss_interrupted cfg script s k cs hint q hq

/-- **… and is never replayed.**  In every reachable state, for every logged run number `n` that was abandoned or
cancelled: whatever a call is answered with from the cache is the complete sequence of a *different* logged run `n'`
that ended by itself; in particular no stamped item of run `n` (a payload `val n i`) is ever replayed. -/
theorem interrupted_run_never_replayed (cfg : Iter.Cfg) (script : Nat → IBeh) (ops : List Iter.Op) (n : Nat) (r : Run)
    (hr : (afterI cfg script ops).runs[n]? = some r) (hint : r.ending = .abandoned ∨ r.ending = .cancelled)
    (k : Nat) (cs : Consumer) (rs : List Res)
    (h : (Iter.step cfg script (afterI cfg script ops) (.iter k cs)).2 = .got rs true) :
    (∃ n' r', n' ≠ n ∧ (afterI cfg script ops).runs[n']? = some r' ∧ r'.key = k ∧
      (r'.ending = .completed ∨ r'.ending = .raised) ∧ r'.outs = produced n' (script n').steps 0 ∧ rs = cs.view r'.outs) ∧
    ∀ i, Res.val n i ∉ rs := by
  obtain ⟨n', r', hn', hk, hend, hprod, _, hrs, _, _, _, _⟩ := iterator_replays_one_complete_run cfg script ops k cs rs h
  have hne : n' ≠ n := by
    intro hnn; subst hnn
    rw [hr] at hn'; simp only [Option.some.injEq] at hn'; subst hn'
    rcases hint with h1 | h1 <;> rcases hend with h2 | h2 <;> rw [h1] at h2 <;> cases h2
  refine ⟨⟨n', r', hne, hn', hk, hend, hprod, hrs⟩, ?_⟩
  intro i hmem
  have hmem' : Res.val n i ∈ r'.outs := by
    rw [hrs] at hmem
    cases cs with
    | take j => exact List.mem_of_mem_take hmem
    | drain => exact hmem
    | cancel j => exact hmem
  rw [hprod] at hmem'
  exact hne (produced_val_stamp n' (script n').steps 0 n i hmem')

/-- **The failure at the end of a replayed run is the very exception that run raised.**  In every reachable
state, when a call with key `k` is answered from the cache and its consumer meets an exception of class `c`,
payload `p` and stamp `m` at position `j`, then `m` is a logged run with the same key that ended by raising, the
exception is the last thing that run delivered (and the last thing the consumer receives), and the body of run `m`
is `pre ++ (raise class c payload p) :: _` with `j` items in `pre`, none of them a raise: class, payload and stamp
are those of what that run raised. -/
theorem iterator_replayed_exception_is_the_raised_one (cfg : Iter.Cfg) (script : Nat → IBeh) (ops : List Iter.Op)
    (k : Nat) (cs : Consumer) (rs : List Res)
    (h : (Iter.step cfg script (afterI cfg script ops) (.iter k cs)).2 = .got rs true)
    (j c p m : Nat) (hj : rs[j]? = some (.exc c p m)) :
    ∃ r, (afterI cfg script ops).runs[m]? = some r ∧ r.key = k ∧ rs = cs.view r.outs ∧ j + 1 = r.outs.length ∧
      j + 1 = rs.length ∧
      ∃ pre d rest, (script m).steps = pre ++ (.exc c p, d) :: rest ∧ pre.length = j ∧
        ∀ st ∈ pre, ∀ c' p', st.1 ≠ .exc c' p' := by
  obtain ⟨n, r, hn, hk, _, hprod, _, hrs, _, _, _, _⟩ := iterator_replays_one_complete_run cfg script ops k cs rs h
  have hj' : r.outs[j]? = some (.exc c p m) ∧ (j + 1 = r.outs.length → j + 1 = rs.length) := by
    rw [hrs] at hj ⊢
    cases cs with
    | take i =>
      simp only [Consumer.view] at hj ⊢
      rw [List.getElem?_take] at hj
      split at hj
      · exact ⟨hj, fun hl => by rw [List.length_take]; omega⟩
      · cases hj
    | drain => exact ⟨hj, id⟩
    | cancel i => exact ⟨hj, id⟩
  obtain ⟨hj1, hj2⟩ := hj'
  rw [hprod] at hj1
  obtain ⟨rfl, hlen, pre, d, rest, hsteps, hpl, hpre⟩ := produced_exc_at n (script n).steps 0 j c p m hj1
  exact ⟨r, hn, hk, hrs, by rw [hprod]; exact hlen, hj2 (by rw [hprod]; exact hlen), pre, d, rest, hsteps, hpl, hpre⟩

/-- **An item that is an exception object is replayed as an item.**  In every reachable state, when a call with key `k`
is answered from the cache and the replay holds, at position `j`, the exception instance of class `c`, payload `p` and
stamp `m` AS A VALUE, then `m` is a logged run with the same key whose step `j` *yields* exactly that object (it raises
nothing there), the replay is that run's complete sequence - so everything the run yielded after it follows -, and the
consumer of the replay is handed it like any other item (`Res.isExc` is false: the replay loop does not stop at it).
Only what a run RAISED (stored as `RaiseException`) is raised by a replay. -/
theorem iterator_replays_exception_objects_as_items (cfg : Iter.Cfg) (script : Nat → IBeh) (ops : List Iter.Op)
    (k : Nat) (cs : Consumer) (rs : List Res)
    (h : (Iter.step cfg script (afterI cfg script ops) (.iter k cs)).2 = .got rs true)
    (j c p m : Nat) (hj : rs[j]? = some (.eobj c p m)) :
    ∃ r, (afterI cfg script ops).runs[m]? = some r ∧ r.key = k ∧ rs = cs.view r.outs ∧
      r.outs = produced m (script m).steps 0 ∧ r.outs[j]? = some (.eobj c p m) ∧
      (∃ d, (script m).steps[j]? = some (.eobj c p, d)) ∧ (Res.eobj c p m).isExc = false ∧
      ((∀ i, cs ≠ .take i) → rs.length = r.outs.length) := by
  obtain ⟨n, r, hn, hk, _, hprod, _, hrs, hfull, _, _, _⟩ := iterator_replays_one_complete_run cfg script ops k cs rs h
  have hj' : r.outs[j]? = some (.eobj c p m) := by
    rw [hrs] at hj
    cases cs with
    | take i =>
      simp only [Consumer.view] at hj
      rw [List.getElem?_take] at hj
      split at hj
      · exact hj
      · cases hj
    | drain => exact hj
    | cancel i => exact hj
  have hj1 := hj'
  rw [hprod] at hj1
  obtain ⟨rfl, d, hd⟩ := produced_eobj_at n (script n).steps 0 j c p m hj1
  exact ⟨r, hn, hk, hrs, hprod, hj', ⟨d, hd⟩, rfl, fun hnt => by rw [hfull hnt]⟩

/-! ### Non-vacuity (iterator) -/

/-- run 0: three items, the last one 4 ticks late; run 1: two items, `0` (falsy) first; run 2: `None` in the middle -/
def sampleRuns : Nat → IBeh
  | 0 => ⟨[(.val, 0), (.val, 0), (.val, 4)], 0⟩
  | 1 => ⟨[(.falsy 0, 0), (.val, 0)], 0⟩
  | 2 => ⟨[(.val, 0), (.none, 0), (.val, 0)], 0⟩
  | _ => ⟨[(.val, 0), (.exc 1 2, 0)], 0⟩

/-- D16 + D17: a shorter run after a longer one whose last chunk is still alive is replayed alone, in full,
falsy first item included (ttl 8 ticks; the marker of run 0 dies at 8, its third chunk lives until 12) -/
example : (Iter.run ⟨.all, fun _ => 8⟩ sampleRuns Iter.St.init [.iter 0 .drain, .iter 0 .drain, .adv 8, .iter 0 .drain, .iter 0 .drain]).2 =
    [.got [.val 0 0, .val 0 1, .val 0 2] false, .got [.val 0 0, .val 0 1, .val 0 2] true, .unit,
     .got [.falsy 0, .val 1 1] false, .got [.falsy 0, .val 1 1] true] := by decide

/-- D18: a run with an item the condition rejects is not cached (it is run again) -/
example : (Iter.run ⟨.notNone, fun _ => 8⟩ sampleRuns Iter.St.init [.iter 0 .drain, .adv 8, .iter 0 .drain, .adv 8, .iter 0 .drain, .iter 0 .drain]).2 =
    [.got [.val 0 0, .val 0 1, .val 0 2] false, .unit, .got [.falsy 0, .val 1 1] false, .unit,
     .got [.val 2 0, .none, .val 2 2] false, .got [.val 3 0, .exc 1 2 3] false] := by decide

/-- a run that ends with a selected exception is replayed, exception included -/
example : (Iter.run ⟨.withExc [], fun _ => 8⟩ (fun _ => ⟨[(.val, 0), (.exc 1 4, 7)], 0⟩) Iter.St.init [.iter 0 .drain, .iter 0 .drain]).2 =
    [.got [.val 0 0, .exc 1 4 0] false, .got [.val 0 0, .exc 1 4 0] true] := by decide

/-- the hypotheses of `iterator_replayed_exception_is_the_raised_one` are satisfiable: that replay holds the
exception of class 1, payload 4 raised by run 0 at position 1 -/
example : ∃ rs, (Iter.step ⟨.withExc [], fun _ => 8⟩ (fun _ => ⟨[(.val, 0), (.exc 1 4, 7)], 0⟩)
      (afterI ⟨.withExc [], fun _ => 8⟩ (fun _ => ⟨[(.val, 0), (.exc 1 4, 7)], 0⟩) [.iter 0 .drain]) (.iter 0 .drain)).2 = .got rs true ∧
    rs[1]? = some (.exc 1 4 0) := ⟨[.val 0 0, .exc 1 4 0], by decide, by decide⟩

/-- … but not when it lasted exactly ttl (D18b / 5b10c85) -/
example : (Iter.run ⟨.withExc [], fun _ => 8⟩ (fun _ => ⟨[(.val, 0), (.exc 1 4, 8)], 0⟩) Iter.St.init [.iter 0 .drain, .iter 0 .drain]).2 =
    [.got [.val 0 0, .exc 1 4 0] false, .got [.val 1 0, .exc 1 4 1] false] := by decide

/-- three payloads, no delays -/
def threeItems : Nat → IBeh := fun _ => ⟨[(.val, 0), (.val, 0), (.val, 0)], 0⟩

/-- an abandoned run (the consumer closes the stream after 2 of 3 items) and a cancelled one (while the body works on
its third item) are not cached: the next call runs the generator again and gets everything; a consumer that stops
early on a replay receives a prefix of the cached run and changes nothing; a consumer that takes all three items but
never asks for the end has abandoned the run as well -/
example : (Iter.run ⟨.all, fun _ => 8⟩ threeItems Iter.St.init
      [.iter 0 (.take 1), .iter 0 (.cancel 2), .iter 0 (.take 2), .iter 0 (.cancel 3), .iter 0 .drain, .iter 0 (.take 0),
       .iter 0 (.cancel 1)]).2 =
    [.got [.val 0 0, .val 0 1] false, .got [.val 1 0, .val 1 1] false, .got [.val 2 0, .val 2 1, .val 2 2] false,
     .got [.val 3 0, .val 3 1, .val 3 2] false, .got [.val 4 0, .val 4 1, .val 4 2] false,
     .got [.val 4 0] true, .got [.val 4 0, .val 4 1, .val 4 2] true] := by decide

/-- how those runs are logged; a consumer that would stop later than the body ends (or raises) has a complete run -/
example : ((afterI ⟨.all, fun _ => 8⟩ threeItems [.iter 0 (.take 1), .iter 0 (.cancel 2), .iter 0 (.cancel 3), .iter 0 (.take 3)]).runs.map
      (·.ending)) = [.abandoned, .cancelled, .cancelled, .completed] := by decide
example : ending (.take 1) [(.val, 0), (.exc 1 0, 0)] 0 = .raised ∧ ending (.cancel 1) [(.val, 0), (.exc 1 0, 0)] 0 = .cancelled := by
  decide

/-- the hypotheses of `interrupted_run_stores_no_marker` are satisfiable (first call, consumer stops after two items) -/
example : markerCount ((afterI ⟨.all, fun _ => 8⟩ threeItems []).store.find (ckey 0 0)) = 0 ∧
    (ending (.take 1) (threeItems (afterI ⟨.all, fun _ => 8⟩ threeItems []).runs.length).steps 0).done = false := by decide

/-- the hypotheses of `interrupted_run_never_replayed` are satisfiable: run 0 abandoned, run 1 complete, then a replay -/
example : ∃ r rs, (afterI ⟨.all, fun _ => 8⟩ threeItems [.iter 0 (.take 1), .iter 0 .drain]).runs[0]? = some r ∧
    r.ending = .abandoned ∧
    (Iter.step ⟨.all, fun _ => 8⟩ threeItems (afterI ⟨.all, fun _ => 8⟩ threeItems [.iter 0 (.take 1), .iter 0 .drain])
      (.iter 0 .drain)).2 = .got rs true :=
  ⟨⟨0, 0, [.val 0 0, .val 0 1], 0, .take 1, .abandoned⟩, [.val 1 0, .val 1 1, .val 1 2], by decide, rfl, by decide⟩

/-- "whatever the items are": a run that yields an exception object (class 1, payload 2) between two payloads, a tuple /
bytes constant (`falsy 5`) and `None` is replayed in full - the exception object is yielded, not raised; under
`only_exceptions()` a run of exception objects alone is accepted (the condition hands each of them back) -/
example : (Iter.run ⟨.all, fun _ => 8⟩ (fun _ => ⟨[(.val, 0), (.eobj 1 2, 0), (.falsy 5, 0), (.none, 0), (.val, 0)], 0⟩) Iter.St.init
      [.iter 0 .drain, .iter 0 .drain]).2 =
    [.got [.val 0 0, .eobj 1 2 0, .falsy 5, .none, .val 0 4] false, .got [.val 0 0, .eobj 1 2 0, .falsy 5, .none, .val 0 4] true] := by
  decide
example : (Iter.run ⟨.onlyExc [], fun _ => 8⟩ (fun n => if n = 0 then ⟨[(.eobj 1 2, 0), (.eobj 0 0, 0)], 0⟩ else ⟨[(.eobj 1 2, 0), (.val, 0)], 0⟩)
      Iter.St.init [.iter 0 .drain, .iter 0 .drain, .iter 1 .drain, .iter 1 .drain]).2 =
    [.got [.eobj 1 2 0, .eobj 0 0 0] false, .got [.eobj 1 2 0, .eobj 0 0 0] true,
     .got [.eobj 1 2 1, .val 1 1] false, .got [.eobj 1 2 2, .val 2 1] false] := by decide

/-- the hypotheses of `iterator_replays_exception_objects_as_items` are satisfiable -/
example : ∃ rs, (Iter.step ⟨.all, fun _ => 8⟩ (fun _ => ⟨[(.val, 0), (.eobj 1 2, 0), (.val, 0)], 0⟩)
      (afterI ⟨.all, fun _ => 8⟩ (fun _ => ⟨[(.val, 0), (.eobj 1 2, 0), (.val, 0)], 0⟩) [.iter 0 .drain]) (.iter 0 .drain)).2 = .got rs true ∧
    rs[1]? = some (.eobj 1 2 0) := ⟨[.val 0 0, .eobj 1 2 0, .val 0 2], by decide, by decide⟩

end iterator

section ttl
open CashewsVerif.Ttl

/-- **Duration strings.**  For all numbers `d h m s`, the parser (unit table regenerated from
`cashews/ttl.py` on every run) reads the rendering of `"{d}d{h}h{m}m{s}s"` as
`86400 d + 3600 h + 60 m + s` seconds. -/
theorem ttl_string (d h m s : Nat) :
    ttlFromStr (render [(d, .d), (h, .h), (m, .m), (s, .s)]) = some (86400 * d + 3600 * h + 60 * m + s) := by
  rw [ttlFromStr_render]
  simp only [total, U.secs]
  congr 1; omega

/-- the same on actual strings: `s!"{d}d{h}h{m}m{s}s"` -/
theorem ttl_string_repr (d h m s : Nat) :
    ttlFromStr (toString d ++ "d" ++ toString h ++ "h" ++ toString m ++ "m" ++ toString s ++ "s").toList =
      some (86400 * d + 3600 * h + 60 * m + s) := by
  have : (toString d ++ "d" ++ toString h ++ "h" ++ toString m ++ "m" ++ toString s ++ "s").toList =
      render [(d, .d), (h, .h), (m, .m), (s, .s)] := by
    simp [render, digits, Nat.toString_eq_repr, Nat.toList_repr, U.char]
  rw [this, ttl_string]

/-- **Any sequence of `<number><unit>` segments** (any length, any order, repeated units) denotes
the sum of its segments. -/
theorem ttl_segments (segs : List (Nat × U)) : ttlFromStr (render segs) = some (total segs) :=
  ttlFromStr_render segs

/-- **All spellings of `n` seconds agree**: the int `n`, the float `n.0`, `timedelta(seconds=n)`,
the strings `"n"` and `"ns"`, and a callable returning any of these (for whatever arguments and
result) all denote `n` seconds (= `8 n` ticks). -/
theorem ttl_forms_agree (n key res : Nat) (f : Nat → Nat → Plain)
    (hf : f key res = .int n ∨ f key res = .float (8 * n) ∨ f key res = .delta (8 * n) ∨
          f key res = .str (digits n) ∨ f key res = .str (render [(n, .s)])) :
    (Spelling.plain (.int n)).ticks key res = some (8 * n) ∧
    (Spelling.plain (.float (8 * n))).ticks key res = some (8 * n) ∧
    (Spelling.plain (.delta (8 * n))).ticks key res = some (8 * n) ∧
    (Spelling.plain (.str (digits n))).ticks key res = some (8 * n) ∧
    (Spelling.plain (.str (render [(n, .s)]))).ticks key res = some (8 * n) ∧
    (Spelling.callable f).ticks key res = some (8 * n) := by
  have hs : (Plain.str (render [(n, .s)])).ticks = some (8 * n) := by
    simp [Plain.ticks, ttlFromStr_render, total, U.secs]
  have hd : (Plain.str (digits n)).ticks = some (8 * n) := by
    simp [Plain.ticks, ttlFromStr_digits]
  refine ⟨rfl, rfl, rfl, hd, hs, ?_⟩
  simp only [Spelling.ticks]
  rcases hf with h | h | h | h | h <;> rw [h]
  · rfl
  · rfl
  · rfl
  · exact hd
  · exact hs

/-! ### Non-vacuity (TTL parser): the model evaluates -/
example : ttlFromStr "1d2h3m50s".toList = some 93830 := by decide
example : ttlFromStr " 10M ".toList = some 600 := by decide
example : ttlFromStr "1h30".toList = some 3600 := by decide      -- trailing digits after a unit are dropped (mirrored)
example : ttlFromStr "90".toList = some 90 := by decide
example : ttlFromStr "h".toList = none ∧ ttlFromStr "1 h".toList = none ∧ ttlFromStr "1w".toList = none := by decide

end ttl

end CashewsVerif.Props.C02
