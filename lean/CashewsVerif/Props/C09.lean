import CashewsVerif.Lemmas.Serial
/-
C09 — serialization round-trips every supported value under every configuration.

The framing layer (`sign/check_sign`, `encode/decode`, custom `type:` payloads, the digit shortcut) is
proved to round-trip for EVERY payload, key, secret, digest and pickler, under explicit hypotheses on
the two externals that are not in Lean:

* the MAC renders its result as lower-case hex (`hexdigest()` / `f"{s:x}"`) — `HexMac`, shown to hold
  for every MAC of the shape the code builds (`hex_mac_of_raw`);
* the pickler (`P1`–`P3` below) — hypotheses of the theorems, validated for the real picklers by the
  harness on every generated value (that part is sampling and labelled so in the evidence).
-/
namespace CashewsVerif.Props.C09
open CashewsVerif.Serial

variable {α : Type}

/-- the MAC output is `[0-9a-f]*` for every digest, secret and message -/
def HexMac (cfg : Cfg α) : Prop := ∀ d s m, isLowerHex (cfg.mac d s m) = true

/-- the type tag of every registered type contains no `:` (Python class names never do) -/
def TagsColonFree (cfg : Cfg α) : Prop := ∀ tag c, cfg.registry tag = some c → colon ∉ tag

/-- **P1** for the value `v`: `dumps` yields bytes that `loads` turns back into `v`, and `v` is not `bytes` -/
def P1 (pk : Pickler α) (v : Val α) : Prop :=
  ∃ p, pk.dumps v = .bytes p ∧ pk.loads p = .ok v ∧ v.isBytes = false

/-- **P2** for the value `v`: its pickled form does not start with a registered type tag followed by
`:` (so `decode` does not mistake it for a custom-encoded payload).  Since fix d1f0dd9 custom-encoded
payloads are never fed to the unpickler, which is why P2 no longer has to say anything about what
`loads` does on them (it used to be false for the real pickle, e.g. for a class named `Item`). -/
def P2 (cfg : Cfg α) (v : Val α) : Prop := ∀ p, cfg.pickler.dumps v = .bytes p → isCustomEncoded cfg p = false

/-- **P3** for the value `v`: its pickled form is not a string of ASCII digits -/
def P3 (pk : Pickler α) (v : Val α) : Prop := ∀ p, pk.dumps v = .bytes p → isDigits p = false

/-- **Signature framing round-trips for every payload** (including payloads that contain `_`, `:`,
only digits, or look like a signature header themselves), every key, secret and digest: the check
splits at the first `_`, the header `label:hex` contains none. -/
theorem check_sign_sign (cfg : Cfg α) (s : Signer) (key p : Bytes)
    (hhex : isLowerHex (cfg.mac s.digest s.secret (key ++ p)) = true) :
    checkHash cfg s key (hashSign cfg s key p) = .ok p :=
  checkHash_sign_of_no_us cfg s key p (us_not_mem_of_hex hhex)

/-- the same for whichever signer is configured (`NullSigner` included) -/
theorem check_sign_sign_any (cfg : Cfg α) (hhex : HexMac cfg) (key p b : Bytes)
    (h : sign cfg key (.bytes p) = some (.bytes b)) : checkSign cfg key b = .ok p :=
  checkSign_sign cfg hhex key p b h

/-- the hex hypothesis is not an idealisation: it holds for every MAC built the way
`HashSigner._digestmods` builds them (any raw keyed hash rendered with `hexdigest()`, and `sum`) -/
theorem hex_mac_of_raw (raw : Digest → Bytes → Bytes → Bytes) (cfg : Cfg α) (h : cfg.mac = macOfRaw raw) :
    HexMac cfg := by
  intro d s m
  rw [h]
  exact isLowerHex_macOfRaw raw d s m

/-- **No stored blob can be mistaken for an integer**: whatever `encode` hands to the store as bytes
is not a digit string (so the digit shortcut of `decode` only ever fires on real integers written
by other means), for custom-encoded, pickled, signed and unsigned values alike. -/
theorem encoded_blob_never_digits (cfg : Cfg α) (key : Bytes) (v : Val α) (b : Bytes)
    (hp3 : P3 cfg.pickler v) (h : encode cfg key v = some (.bytes b)) : isDigits b = false := by
  have hsign : ∀ w : Val α, sign cfg key w = some (.bytes b) →
      (∀ p, w = .bytes p → isDigits p = false) → isDigits b = false := by
    intro w hw hd
    unfold sign at hw
    cases hs : cfg.signer with
    | none => simp [hs] at hw; exact hd b hw
    | some s =>
      cases w with
      | bytes p =>
        simp [hs] at hw
        subst hw
        exact isDigits_with_colon _ _
      | int i => simp [hs] at hw
      | obj x => simp [hs] at hw
  cases v with
  | int i => simp [encode] at h
  | bytes vb =>
    simp only [encode] at h
    cases hc : customEncode cfg (.bytes vb) with
    | some cb =>
      simp only [hc] at h
      refine hsign _ h ?_
      intro p hp; cases hp
      unfold customEncode at hc
      split at hc
      · cases hc
      · cases hc; exact isDigits_with_colon _ _
    | none =>
      simp only [hc] at h
      exact hsign _ h (fun p hp => hp3 p hp)
  | obj x =>
    simp only [encode] at h
    cases hc : customEncode cfg (.obj x) with
    | some cb =>
      simp only [hc] at h
      refine hsign _ h ?_
      intro p hp; cases hp
      unfold customEncode at hc
      split at hc
      · cases hc
      · cases hc; exact isDigits_with_colon _ _
    | none =>
      simp only [hc] at h
      exact hsign _ h (fun p hp => hp3 p hp)

/-- **Round trip, real picklers** (default pickle, json, dill, sqlalchemy; with or without a secret;
any of the four digests).  For every key and every value `v`:

* an integer is stored raw and comes back as that integer;
* a value of a registered type (`bytes` is the built-in instance with `enc = dec = id`) comes back
  through its own pair — whatever bytes the encoder produced, whatever the pickler would make of
  them — provided `dec (enc v) = v` and the type tag has no `:`;
* any other value comes back through the pickler, provided P1, P2 and P3 hold for it.

`same = false`: the stored object is not the very object the caller passed as `default`. -/
theorem decode_encode (cfg : Cfg α) (key : Bytes) (v : Val α)
    (hhex : HexMac cfg) (htags : TagsColonFree cfg)
    (hR : ∀ c, cfg.registry (tagOf cfg v) = some c → c.dec (c.enc v) = some v)
    (hP1 : (∀ i, v ≠ .int i) → cfg.registry (tagOf cfg v) = none → P1 cfg.pickler v)
    (hP2 : P2 cfg v) (hP3 : P3 cfg.pickler v) :
    ∃ w, encode cfg key v = some w ∧ decode cfg key w false = .value v := by
  -- a successful `sign` of bytes always exists
  have hsign : ∀ p : Bytes, ∃ b, sign cfg key (.bytes p) = some (.bytes b) := by
    intro p
    unfold sign
    cases cfg.signer with
    | none => exact ⟨p, rfl⟩
    | some s => exact ⟨_, rfl⟩
  have main : (∀ i, v ≠ .int i) → ∃ w, encode cfg key v = some w ∧ decode cfg key w false = .value v := by
    intro hni
    have henc : encode cfg key v = match customEncode cfg v with
        | some b => sign cfg key (.bytes b)
        | none => sign cfg key (cfg.pickler.dumps v) := by
      cases v with
      | int i => exact absurd rfl (hni i)
      | bytes _ => rfl
      | obj _ => rfl
    cases hreg : cfg.registry (tagOf cfg v) with
    | some c =>
      have hce : customEncode cfg v = some (tagOf cfg v ++ colon :: c.enc v) := by
        simp [customEncode, hreg]
      obtain ⟨b, hb⟩ := hsign (tagOf cfg v ++ colon :: c.enc v)
      refine ⟨.bytes b, by rw [henc, hce]; exact hb, ?_⟩
      have hnd : isDigits b = false :=
        encoded_blob_never_digits cfg key v b hP3 (by rw [henc, hce]; exact hb)
      rw [decode_signed cfg hhex key _ b hb hnd, isCustomEncoded_tagged cfg htags _ _ c hreg]
      simp [customDecode, splitFirst_append colon _ _ (htags _ c hreg), hreg, hR c hreg]
    | none =>
      have hce : customEncode cfg v = none := by simp [customEncode, hreg]
      obtain ⟨p, hd, hl, hnb⟩ := hP1 hni hreg
      obtain ⟨b, hb⟩ := hsign p
      refine ⟨.bytes b, by rw [henc, hce, hd]; exact hb, ?_⟩
      have hnd : isDigits b = false :=
        encoded_blob_never_digits cfg key v b hP3 (by rw [henc, hce, hd]; exact hb)
      rw [decode_signed cfg hhex key _ b hb hnd, hP2 p hd, hl]
      cases v with
      | int i => exact absurd rfl (hni i)
      | bytes _ => simp [Val.isBytes] at hnb
      | obj x => rfl
  cases v with
  | int i => exact ⟨.int i, rfl, rfl⟩
  | bytes b => exact main (by intro i h; cases h)
  | obj x => exact main (by intro i h; cases h)

/-- **Round trip, `mem://` default configuration** (NonPickler + NullSigner, what `Cache.setup("mem://")`
builds): integers and unregistered objects are stored as they are and come back untouched; values of
a registered type go through `type:` + encoder output and come back through the decoder. -/
theorem decode_encode_null (cfg : Cfg α) (key : Bytes) (v : Val α)
    (hpk : cfg.pickler = Pickler.null) (hs : cfg.signer = none) (htags : TagsColonFree cfg)
    (hR : ∀ c, cfg.registry (tagOf cfg v) = some c → c.dec (c.enc v) = some v)
    (hbytes : cfg.registry (tagOf cfg v) = none → v.isBytes = false) :
    ∃ w, encode cfg key v = some w ∧ decode cfg key w false = .value v := by
  have hsign : ∀ w : Val α, sign cfg key w = some w := by intro w; simp [sign, hs]
  cases v with
  | int i => exact ⟨.int i, rfl, rfl⟩
  | bytes vb =>
    cases hreg : cfg.registry (tagOf cfg (.bytes vb)) with
    | none => have := hbytes hreg; simp [Val.isBytes] at this
    | some c =>
      refine ⟨.bytes (tagOf cfg (.bytes vb) ++ colon :: c.enc (.bytes vb)), ?_, ?_⟩
      · simp [encode, customEncode, hreg, hsign]
      · simp [decode, preLoads, isDigits_with_colon, checkSign, hs, isCustomEncoded_tagged cfg htags _ _ c hreg,
          customDecode, splitFirst_append colon _ _ (htags _ c hreg), hreg, hR c hreg]
  | obj x =>
    cases hreg : cfg.registry (tagOf cfg (.obj x)) with
    | none =>
      refine ⟨.obj x, ?_, ?_⟩
      · simp [encode, customEncode, hreg, hsign, hpk, Pickler.null]
      · simp [decode, preLoads]
    | some c =>
      refine ⟨.bytes (tagOf cfg (.obj x) ++ colon :: c.enc (.obj x)), ?_, ?_⟩
      · simp [encode, customEncode, hreg, hsign]
      · simp [decode, preLoads, isDigits_with_colon, checkSign, hs, isCustomEncoded_tagged cfg htags _ _ c hreg,
          customDecode, splitFirst_append colon _ _ (htags _ c hreg), hreg, hR c hreg]

/-- `value is default`: when the stored object is the very object the caller passed as default,
`decode` returns the default — i.e. that same object, so the caller still receives the stored value. -/
theorem decode_same (cfg : Cfg α) (key : Bytes) (w : Val α) : decode cfg key w true = .dflt := rfl


/-- the value `v` round-trips under key `k` through the serializer alone (the conclusion of
`decode_encode` / `decode_encode_null`) -/
def RoundTrips (cfg : Cfg α) (k : Bytes) (v : Val α) : Prop :=
  ∃ w, encode cfg k v = some w ∧ decode cfg k w false = .value v

/-- **set / get**: whatever the store held, after `set k v` a `get k` yields `v`. -/
theorem set_get (cfg : Cfg α) (st : SStore α) (k : Bytes) (v : Val α) (h : RoundTrips cfg k v) :
    (st.set cfg k v).get cfg k = .value v := by
  obtain ⟨w, he, hd⟩ := h
  simp [SStore.set, SStore.get, SStore.lookup, he, hd]

/-- a `set` under one key does not disturb what is read under another -/
theorem set_get_other (cfg : Cfg α) (st : SStore α) (k k' : Bytes) (v : Val α) (hne : k ≠ k') :
    (st.set cfg k v).get cfg k' = st.get cfg k' := by
  unfold SStore.set
  cases encode cfg k v with
  | none => rfl
  | some w => simp [SStore.get, SStore.lookup, hne]

/-- **set_many / get_many alike**: after `set_many` of pairs with distinct keys, each of which
round-trips through the serializer, `get_many` of those keys returns exactly the values, in order —
whatever the store held before. -/
theorem set_many_get_many (cfg : Cfg α) (st : SStore α) (pairs : List (Bytes × Val α))
    (hnd : (pairs.map (·.1)).Nodup) (h : ∀ kv ∈ pairs, RoundTrips cfg kv.1 kv.2) :
    (st.setMany cfg pairs).getMany cfg (pairs.map (·.1)) = pairs.map (fun kv => .value kv.2) := by
  -- generalised: a key written once and not written again keeps its value
  have keep : ∀ (ps : List (Bytes × Val α)) (s : SStore α) (k : Bytes),
      k ∉ ps.map (·.1) → (SStore.setMany cfg s ps).get cfg k = s.get cfg k := by
    intro ps
    induction ps with
    | nil => intro s k _; rfl
    | cons p r ih =>
      intro s k hk
      simp only [List.map_cons, List.mem_cons, not_or] at hk
      simp only [SStore.setMany, List.foldl_cons]
      have := ih (s.set cfg p.1 p.2) k hk.2
      simp only [SStore.setMany] at this
      rw [this, set_get_other cfg s p.1 k p.2 (fun e => hk.1 e.symm)]
  induction pairs generalizing st with
  | nil => rfl
  | cons p r ih =>
    simp only [List.map_cons, List.nodup_cons] at hnd
    have hp := h p (by simp)
    have hr : ∀ kv ∈ r, RoundTrips cfg kv.1 kv.2 := fun kv m => h kv (by simp [m])
    have tail := ih (st.set cfg p.1 p.2) hnd.2 hr
    simp only [SStore.setMany, List.foldl_cons, SStore.getMany, List.map_cons] at tail ⊢
    have head : (SStore.setMany cfg (st.set cfg p.1 p.2) r).get cfg p.1 = .value p.2 := by
      rw [keep r _ p.1 hnd.1]
      exact set_get cfg st p.1 p.2 hp
    simp only [SStore.setMany] at head
    rw [head, tail]

/-! ### non-vacuity: a concrete configuration that satisfies every hypothesis, evaluated -/

/-- toy pickler: `obj n ↦ [0x80, n]` -/
def toyPickler : Pickler Nat where
  dumps := fun v => match v with
    | .obj n => .bytes [0x80, n.toUInt8]
    | v => v
  loads := fun b => match b with
    | [0x80, n] => .ok (.obj n.toNat)
    | _ => .unpickling

/-- built-in `bytes` registration: `enc = dec = id` -/
def bytesCodec : Codec Nat where
  enc := fun v => match v with
    | .bytes b => b
    | _ => []
  dec := fun b => some (.bytes b)

def toyCfg (signer : Option Signer) : Cfg Nat where
  mac := macOfRaw fun _ s m => s ++ m
  signer := signer
  pickler := toyPickler
  typeName := fun _ => [0x4e]          -- b"N"
  registry := fun t => if t = tagBytes then some bytesCodec else none

def toySigner : Signer := { secret := [0x73], digest := .md5 }

example : HexMac (toyCfg (some toySigner)) := hex_mac_of_raw _ _ rfl
example : TagsColonFree (toyCfg (some toySigner)) := by
  intro tag c h
  simp only [toyCfg] at h
  split at h
  · rename_i e; rw [e]; decide
  · cases h
example : P1 toyPickler (.obj 7) := ⟨[0x80, 7], rfl, rfl, rfl⟩
example : P3 toyPickler (.obj 7) := by intro p h; cases h; decide
example : P2 (toyCfg (some toySigner)) (.obj 7) := by intro p h; cases h; decide

-- the model does something: b"123" (digit-only bytes) signed under key "k" with md5 …
example : encode (toyCfg (some toySigner)) [0x6b] (.bytes [0x31, 0x32, 0x33])
    = some (.bytes ([0x6d, 0x64, 0x35, 0x3a] ++ hexdigest ([0x73] ++ [0x6b] ++ (tagBytes ++ colon :: [0x31, 0x32, 0x33]))
        ++ us :: (tagBytes ++ colon :: [0x31, 0x32, 0x33]))) := by decide
-- … comes back as the bytes b"123", not as the integer 123
example : (encode (toyCfg (some toySigner)) [0x6b] (.bytes [0x31, 0x32, 0x33])).map
    (fun w => decode (toyCfg (some toySigner)) [0x6b] w false) = some (.value (.bytes [0x31, 0x32, 0x33])) := by decide
-- a payload that looks like a signature header, unsigned
example : (encode (toyCfg none) [0x6b] (.bytes [0x6d, 0x64, 0x35, 0x3a, 0x78, 0x5f, 0x79])).map
    (fun w => decode (toyCfg none) [0x6b] w false) = some (.value (.bytes [0x6d, 0x64, 0x35, 0x3a, 0x78, 0x5f, 0x79])) := by decide
example : (encode (toyCfg (some toySigner)) [0x6b] (.obj 7)).map
    (fun w => decode (toyCfg (some toySigner)) [0x6b] w false) = some (.value (.obj 7)) := by decide
-- set_many then get_many through the store glue: digit-only bytes, an object and an integer come back as written
example : (SStore.setMany (toyCfg (some toySigner)) [] [([0x6b], .bytes [0x31]), ([0x6c], .obj 7), ([0x6d], .int 5)]).getMany
    (toyCfg (some toySigner)) [[0x6b], [0x6c], [0x6d]] = [.value (.bytes [0x31]), .value (.obj 7), .value (.int 5)] := by decide
-- a raw digit blob in the store is an integer
example : decode (toyCfg (some toySigner)) [0x6b] (.bytes [0x30, 0x34, 0x32]) false = .value (.int 42) := by decide

end CashewsVerif.Props.C09
