import CashewsVerif.Lemmas.Serial
/-
C09 — serialization round-trips every supported value under every configuration.

The framing layer (`sign/check_sign`, `encode/decode`, custom `type:` payloads, the digit shortcut) is
proved to round-trip for EVERY payload, key, secret, digest and pickler, under explicit hypotheses on
the two externals that are not in Lean:

* the MAC renders its result as lower-case hex (`hexdigest()` / `f"{s:x}"`) — `HexMac`, shown to hold
  for every MAC of the shape the code builds (`hex_mac_of_raw`);
* the pickler (`P1`–`P3` below) — hypotheses of the theorems, validated for the real picklers by the
  harness on every generated value (that part is sampling and labelled so in the evidence).
-/
namespace CashewsVerif.Props.C09
open CashewsVerif.Serial

variable {α : Type}

/-- the MAC output is `[0-9a-f]*` for every digest, secret and message -/
def HexMac (cfg : Cfg α) : Prop := ∀ d s m, isLowerHex (cfg.mac d s m) = true

/-- the type tag of every registered type contains no `:` (Python class names never do) -/
def TagsColonFree (reg : Registry α) : Prop := ∀ tag c, reg tag = some c → colon ∉ tag

/-- **P1** for the value `v`: `dumps` yields bytes that `loads` turns back into `v`, and `v` is not `bytes` -/
def P1 (pk : Pickler α) (v : Val α) : Prop :=
  ∃ p, pk.dumps v = .bytes p ∧ pk.loads p = .ok v ∧ v.isBytes = false

/-- **P2** for the value `v` and the registry `reg` (the one in force when the value is READ): its pickled form
does not start with a registered type tag followed by `:` (so `decode` does not mistake it for a custom-encoded
payload).  Since fix d1f0dd9 custom-encoded payloads are never fed to the unpickler, which is why P2 no longer
has to say anything about what `loads` does on them (it used to be false for the real pickle, e.g. for a class
named `Item`). -/
def P2 (cfg : Cfg α) (reg : Registry α) (v : Val α) : Prop :=
  ∀ p, cfg.pickler.dumps v = .bytes p → isCustomEncoded reg p = false

/-- **P3** for the value `v`: its pickled form is not a string of ASCII digits, with or without a leading `-` -/
def P3 (pk : Pickler α) (v : Val α) : Prop := ∀ p, pk.dumps v = .bytes p → isIntLit p = false

/-- **Signature framing round-trips for every payload** (including payloads that contain `_`, `:`,
only digits, or look like a signature header themselves), every key, secret and digest: the check
splits at the first `_`, the header `label:hex` contains none. -/
theorem check_sign_sign (cfg : Cfg α) (s : Signer) (key p : Bytes)
    (hhex : isLowerHex (cfg.mac s.digest s.secret (key ++ p)) = true) :
    checkHash cfg s key (hashSign cfg s key p) = .ok p :=
  checkHash_sign_of_no_us cfg s key p (us_not_mem_of_hex hhex)

/-- the same for whichever signer is configured (`NullSigner` included) -/
theorem check_sign_sign_any (cfg : Cfg α) (hhex : HexMac cfg) (key p b : Bytes)
    (h : sign cfg key (.bytes p) = some (.bytes b)) : checkSign cfg key b = .ok p :=
  checkSign_sign cfg hhex key p b h

/-- the hex hypothesis is not an idealisation: it holds for every MAC built the way
`HashSigner._digestmods` builds them (any raw keyed hash rendered with `hexdigest()`, and `sum`) -/
theorem hex_mac_of_raw (raw : Digest → Bytes → Bytes → Bytes) (cfg : Cfg α) (h : cfg.mac = macOfRaw raw) :
    HexMac cfg := by
  intro d s m
  rw [h]
  exact isLowerHex_macOfRaw raw d s m

/-- **No stored blob can be mistaken for an integer**: whatever `encode` hands to the store as bytes
is neither a digit string nor `-` + digits (so the integer shortcut of `decode` only ever fires on real integers
written by other means), for custom-encoded, pickled, signed and unsigned values alike, whatever the registry.  P3 is
needed only for values that are handed to the pickler (no pair registered for their class). -/
theorem encoded_blob_never_digits_of (cfg : Cfg α) (reg : Registry α) (key : Bytes) (v : Val α) (b : Bytes)
    (hp3 : reg (tagOf cfg v) = none → P3 cfg.pickler v) (h : encode cfg reg key v = some (.bytes b)) :
    isIntLit b = false := by
  have hsign : ∀ w : Val α, sign cfg key w = some (.bytes b) →
      (∀ p, w = .bytes p → isIntLit p = false) → isIntLit b = false := by
    intro w hw hd
    unfold sign at hw
    cases hs : cfg.signer with
    | none => simp [hs] at hw; exact hd b hw
    | some s =>
      cases w with
      | bytes p =>
        simp [hs] at hw
        subst hw
        exact isIntLit_with_colon _ _
      | int i => simp [hs] at hw
      | obj x => simp [hs] at hw
  have main : (∀ i, v ≠ .int i) → isIntLit b = false := by
    intro hni
    have henc : encode cfg reg key v = match customEncode cfg reg v with
        | some b => sign cfg key (.bytes b)
        | none => sign cfg key (cfg.pickler.dumps v) := by
      cases v with
      | int i => exact absurd rfl (hni i)
      | bytes _ => rfl
      | obj _ => rfl
    rw [henc] at h
    cases hreg : reg (tagOf cfg v) with
    | some c =>
      have hc : customEncode cfg reg v = some (tagOf cfg v ++ colon :: c.enc v) := by simp [customEncode, hreg]
      simp only [hc] at h
      refine hsign _ h ?_
      intro p hp; cases hp
      exact isIntLit_with_colon _ _
    | none =>
      have hc : customEncode cfg reg v = none := by simp [customEncode, hreg]
      simp only [hc] at h
      exact hsign _ h (fun p hp => hp3 hreg p hp)
  cases v with
  | int i => simp [encode] at h
  | bytes vb => exact main (by intro i h; cases h)
  | obj x => exact main (by intro i h; cases h)

/-- the same with P3 assumed outright -/
theorem encoded_blob_never_digits (cfg : Cfg α) (reg : Registry α) (key : Bytes) (v : Val α) (b : Bytes)
    (hp3 : P3 cfg.pickler v) (h : encode cfg reg key v = some (.bytes b)) : isIntLit b = false :=
  encoded_blob_never_digits_of cfg reg key v b (fun _ => hp3) h

/-- **Round trip, real picklers, registry changing between write and read** (default pickle, json, dill,
sqlalchemy; with or without a secret; any of the four digests).  `rw` is the class-level registry when the value
is written, `rr` the registry when it is read — `register_type` may have been called any number of times in
between, before or after the serializer / cache was built: the model's `decode` consults `rr`, the registry of
the moment, exactly like `encode` consults `rw`.  For every key and every value `v`:

* an integer is stored raw and comes back as that integer;
* a value whose type was registered at write time comes back through the decoder registered for that name at
  read time — whatever bytes the encoder produced, whatever the pickler would make of them — provided that
  name is still registered and `dec_read (enc_write v) = v` (`hR`; the same pair is the typical instance, see
  `decode_encode_registry_grows`), and the type tags have no `:`;
* a value whose type was NOT registered at write time comes back through the pickler, provided P1, P3 hold
  for it and P2 holds for the registry at read time (its pickled form does not begin with a name that has been
  registered meanwhile followed by `:`) — also when its own type has been registered meanwhile.  The pickler
  hypotheses are asked ONLY of such values: a value of a registered class never reaches the pickler.

`same = false`: the stored object is not the very object the caller passed as `default`. -/
theorem decode_encode_registries (cfg : Cfg α) (rw rr : Registry α) (key : Bytes) (v : Val α)
    (hhex : HexMac cfg) (htagsW : TagsColonFree rw) (htagsR : TagsColonFree rr)
    (hR : ∀ c, rw (tagOf cfg v) = some c → ∃ c', rr (tagOf cfg v) = some c' ∧ c'.dec (c.enc v) = some v)
    (hP1 : (∀ i, v ≠ .int i) → rw (tagOf cfg v) = none → P1 cfg.pickler v)
    (hP2 : rw (tagOf cfg v) = none → P2 cfg rr v) (hP3 : rw (tagOf cfg v) = none → P3 cfg.pickler v) :
    ∃ w, encode cfg rw key v = some w ∧ decode cfg rr key w false = .value v := by
  -- a successful `sign` of bytes always exists
  have hsign : ∀ p : Bytes, ∃ b, sign cfg key (.bytes p) = some (.bytes b) := by
    intro p
    unfold sign
    cases cfg.signer with
    | none => exact ⟨p, rfl⟩
    | some s => exact ⟨_, rfl⟩
  have main : (∀ i, v ≠ .int i) → ∃ w, encode cfg rw key v = some w ∧ decode cfg rr key w false = .value v := by
    intro hni
    have henc : encode cfg rw key v = match customEncode cfg rw v with
        | some b => sign cfg key (.bytes b)
        | none => sign cfg key (cfg.pickler.dumps v) := by
      cases v with
      | int i => exact absurd rfl (hni i)
      | bytes _ => rfl
      | obj _ => rfl
    cases hreg : rw (tagOf cfg v) with
    | some c =>
      obtain ⟨c', hreg', hdec⟩ := hR c hreg
      have hce : customEncode cfg rw v = some (tagOf cfg v ++ colon :: c.enc v) := by
        simp [customEncode, hreg]
      obtain ⟨b, hb⟩ := hsign (tagOf cfg v ++ colon :: c.enc v)
      refine ⟨.bytes b, by rw [henc, hce]; exact hb, ?_⟩
      have hnd : isIntLit b = false :=
        encoded_blob_never_digits_of cfg rw key v b hP3 (by rw [henc, hce]; exact hb)
      rw [decode_signed cfg rr hhex key _ b hb hnd, isCustomEncoded_tagged rr htagsR _ _ c' hreg']
      simp [customDecode, splitFirst_append colon _ _ (htagsW _ c hreg), hreg', hdec]
    | none =>
      have hce : customEncode cfg rw v = none := by simp [customEncode, hreg]
      obtain ⟨p, hd, hl, hnb⟩ := hP1 hni hreg
      obtain ⟨b, hb⟩ := hsign p
      refine ⟨.bytes b, by rw [henc, hce, hd]; exact hb, ?_⟩
      have hnd : isIntLit b = false :=
        encoded_blob_never_digits_of cfg rw key v b hP3 (by rw [henc, hce, hd]; exact hb)
      rw [decode_signed cfg rr hhex key _ b hb hnd, hP2 hreg p hd, hl]
      cases v with
      | int i => exact absurd rfl (hni i)
      | bytes _ => simp [Val.isBytes] at hnb
      | obj x => rfl
  cases v with
  | int i => exact ⟨.int i, rfl, rfl⟩
  | bytes b => exact main (by intro i h; cases h)
  | obj x => exact main (by intro i h; cases h)

/-- **registry at write time ⊆ registry at read time**: every pair registered when the value was written is
still registered, unchanged, when it is read (types registered in between — after `cache.setup()`, between the
construction of two caches, … — are new names).  Then the round trip needs only `dec (enc v) = v` of the pair
itself. -/
theorem decode_encode_registry_grows (cfg : Cfg α) (rw rr : Registry α) (hle : rw.le rr) (key : Bytes) (v : Val α)
    (hhex : HexMac cfg) (htagsR : TagsColonFree rr)
    (hR : ∀ c, rw (tagOf cfg v) = some c → c.dec (c.enc v) = some v)
    (hP1 : (∀ i, v ≠ .int i) → rw (tagOf cfg v) = none → P1 cfg.pickler v)
    (hP2 : rw (tagOf cfg v) = none → P2 cfg rr v) (hP3 : rw (tagOf cfg v) = none → P3 cfg.pickler v) :
    ∃ w, encode cfg rw key v = some w ∧ decode cfg rr key w false = .value v :=
  decode_encode_registries cfg rw rr key v hhex (fun tag c h => htagsR tag c (hle tag c h)) htagsR
    (fun c h => ⟨c, hle _ c h, hR c h⟩) hP1 hP2 hP3

/-- the same registry on both sides (no `register_type` between write and read) -/
theorem decode_encode (cfg : Cfg α) (reg : Registry α) (key : Bytes) (v : Val α)
    (hhex : HexMac cfg) (htags : TagsColonFree reg)
    (hR : ∀ c, reg (tagOf cfg v) = some c → c.dec (c.enc v) = some v)
    (hP1 : (∀ i, v ≠ .int i) → reg (tagOf cfg v) = none → P1 cfg.pickler v)
    (hP2 : reg (tagOf cfg v) = none → P2 cfg reg v) (hP3 : reg (tagOf cfg v) = none → P3 cfg.pickler v) :
    ∃ w, encode cfg reg key v = some w ∧ decode cfg reg key w false = .value v :=
  decode_encode_registry_grows cfg reg reg (Registry.le_refl reg) key v hhex htags hR hP1 hP2 hP3

/-- **a type registered after the value was written, under a name that was free**: whatever was registered when
`v` was written, and any run of later `register_type` calls on names that were not bound then (the same new name
possibly several times, with different pairs), `v` still reads back. -/
theorem decode_encode_after_late_registrations (cfg : Cfg α) (rw : Registry α) (late : List (Bytes × Codec α))
    (hfresh : ∀ tc ∈ late, rw tc.1 = none) (key : Bytes) (v : Val α)
    (hhex : HexMac cfg) (htagsR : TagsColonFree (rw.registerAll late))
    (hR : ∀ c, rw (tagOf cfg v) = some c → c.dec (c.enc v) = some v)
    (hP1 : (∀ i, v ≠ .int i) → rw (tagOf cfg v) = none → P1 cfg.pickler v)
    (hP2 : rw (tagOf cfg v) = none → P2 cfg (rw.registerAll late) v) (hP3 : rw (tagOf cfg v) = none → P3 cfg.pickler v) :
    ∃ w, encode cfg rw key v = some w ∧ decode cfg (rw.registerAll late) key w false = .value v :=
  decode_encode_registry_grows cfg rw _ (Registry.le_registerAll rw late hfresh) key v hhex htagsR hR hP1 hP2 hP3

/-! ### classes: `register_type(klass, …)` and `type(value)` meet through ONE key function, `Klass.tag` -/

/-- after `register_type(k, c)` every value whose exact class is `k` — whatever `k`'s `__qualname__`: module-level,
nested in another class, local to a function — is written through `c`'s encoder, inside the envelope `k.tag:…` -/
theorem custom_encode_of_registered_class (cfg : Cfg α) (r : Registry α) (k : Klass) (c : Codec α) (v : Val α)
    (hcls : classOfVal cfg v = k) :
    customEncode cfg (r.registerClass k c) v = some (k.tag ++ colon :: c.enc v) := by
  have ht : tagOf cfg v = k.tag := by simp [tagOf, hcls]
  simp [customEncode, ht, Registry.registerClass, Registry.register]

/-- registering a class whose key has no `:` keeps the registry's keys colon-free -/
theorem tagsColonFree_registerClass (r : Registry α) (k : Klass) (c : Codec α) (htags : TagsColonFree r)
    (hk : colon ∉ k.tag) : TagsColonFree (r.registerClass k c) := by
  intro tag c' h
  by_cases e : tag = k.tag
  · rw [e]; exact hk
  · rw [Registry.registerClass, Registry.register_other r k.tag tag c e] at h
    exact htags tag c' h

/-- **Values registered with a custom encoder/decoder round-trip through that pair** — the last sentence of C09,
for EVERY class `k` handed to `register_type` (module-level, nested, function-local: `k.qual` is arbitrary), every
value `v` whose exact class is `k`, every key, pickler, secret and digest: after `register_type(k, c)` the value is
stored as `k.tag:` + `c.enc v` (signed or not) and read back through `c.dec`, provided only `c.dec (c.enc v) = v` and
`k`'s name has no `:`.  No pickler hypothesis: the pickler is never consulted.  This holds because `register_type`
files the pair under `Klass.tag k` and `_custom_encode` looks `Klass.tag (type(v))` up — the same function. -/
theorem decode_encode_registered_class (cfg : Cfg α) (r : Registry α) (k : Klass) (c : Codec α) (key : Bytes)
    (v : Val α) (hhex : HexMac cfg) (htags : TagsColonFree r) (hk : colon ∉ k.tag)
    (hcls : classOfVal cfg v = k) (hdec : c.dec (c.enc v) = some v) :
    ∃ w, encode cfg (r.registerClass k c) key v = some w ∧
      decode cfg (r.registerClass k c) key w false = .value v := by
  have ht : tagOf cfg v = k.tag := by simp [tagOf, hcls]
  have hreg : (r.registerClass k c) (tagOf cfg v) = some c := by
    rw [ht]; exact Registry.register_same r k.tag c
  refine decode_encode cfg (r.registerClass k c) key v hhex (tagsColonFree_registerClass r k c htags hk) ?_ ?_ ?_ ?_
  · intro c' h; rw [hreg] at h; cases h; exact hdec
  · intro _ h; rw [hreg] at h; cases h
  · intro h; rw [hreg] at h; cases h
  · intro h; rw [hreg] at h; cases h

/-- … and still does after any run of later `register_type` calls for classes with OTHER names (hypothesis on the
names only — the qualified names of the later classes are irrelevant, because they are not part of the key) -/
theorem decode_encode_registered_class_later (cfg : Cfg α) (r : Registry α) (k : Klass) (c : Codec α)
    (late : List (Klass × Codec α)) (hlate : ∀ kc ∈ late, kc.1.name ≠ k.name) (key : Bytes) (v : Val α)
    (hhex : HexMac cfg) (htags : TagsColonFree r) (hk : colon ∉ k.tag)
    (htagsR : TagsColonFree ((r.registerClass k c).registerClasses late))
    (hcls : classOfVal cfg v = k) (hdec : c.dec (c.enc v) = some v) :
    ∃ w, encode cfg (r.registerClass k c) key v = some w ∧
      decode cfg ((r.registerClass k c).registerClasses late) key w false = .value v := by
  have ht : tagOf cfg v = k.tag := by simp [tagOf, hcls]
  have hreg : (r.registerClass k c) (tagOf cfg v) = some c := by
    rw [ht]; exact Registry.register_same r k.tag c
  have keep : ∀ (l : List (Klass × Codec α)) (r' : Registry α), (∀ kc ∈ l, kc.1.name ≠ k.name) →
      (r'.registerClasses l) k.tag = r' k.tag := by
    intro l
    induction l with
    | nil => intro r' _; rfl
    | cons kc rest ih =>
      intro r' hl
      simp only [Registry.registerClasses, List.foldl_cons]
      have := ih (r'.registerClass kc.1 kc.2) (fun x m => hl x (by simp [m]))
      simp only [Registry.registerClasses] at this
      rw [this, Registry.registerClass, Registry.register_other]
      exact fun e => hl kc (by simp) e.symm
  refine decode_encode_registries cfg (r.registerClass k c) _ key v hhex
    (tagsColonFree_registerClass r k c htags hk) htagsR ?_ ?_ ?_ ?_
  · intro c' h
    rw [hreg] at h; cases h
    refine ⟨c, ?_, hdec⟩
    rw [ht, keep late _ hlate]; exact Registry.register_same r k.tag c
  · intro _ h; rw [hreg] at h; cases h
  · intro h; rw [hreg] at h; cases h
  · intro h; rw [hreg] at h; cases h

/-- **why the two sites must share the key function**: a pair filed under any OTHER key `t` (what
`register_type` does for a nested or function-local class if it keys the registry by `__qualname__` while
`_custom_encode` keeps looking `__name__` up) is never found for the value: it is not custom-encoded … -/
theorem registered_under_another_key_is_bypassed (cfg : Cfg α) (r : Registry α) (t : Bytes) (c : Codec α) (v : Val α)
    (hfree : r (tagOf cfg v) = none) (ht : t ≠ tagOf cfg v) :
    customEncode cfg (r.register t c) v = none := by
  have : (r.register t c) (tagOf cfg v) = none := by
    rw [Registry.register_other r t _ c (fun e => ht e.symm)]; exact hfree
  simp [customEncode, this]

/-- … and is handed to the pickler instead (which raises for what only the encoder can serialise); with the
NonPickler and no secret the object itself is stored: neither the encoder nor the decoder ever runs. -/
theorem bypassed_pair_goes_to_the_pickler (cfg : Cfg α) (r : Registry α) (t : Bytes) (c : Codec α) (key : Bytes) (x : α)
    (hfree : r (tagOf cfg (.obj x)) = none) (ht : t ≠ tagOf cfg (.obj x)) :
    encode cfg (r.register t c) key (.obj x) = sign cfg key (cfg.pickler.dumps (.obj x)) := by
  simp [encode, registered_under_another_key_is_bypassed cfg r t c (.obj x) hfree ht]

/-- classes with the same `__name__` (nested in different classes, local to different functions) share ONE slot:
the later `register_type` replaces the pair for both — the behaviour of the code, mirrored, not a claim of C09 -/
theorem same_name_classes_share_slot (r : Registry α) (k1 k2 : Klass) (c1 c2 : Codec α) (h : k1.name = k2.name) :
    (r.registerClass k1 c1).registerClass k2 c2 = r.registerClass k2 c2 := by
  funext t
  simp only [Registry.registerClass, Registry.register, Klass.tag, h]
  split <;> simp [*]

/-- … so a value of the FIRST class is then written through the SECOND class's encoder -/
theorem same_name_class_uses_latest_pair (cfg : Cfg α) (r : Registry α) (k1 k2 : Klass) (c1 c2 : Codec α) (v : Val α)
    (h : k1.name = k2.name) (hcls : classOfVal cfg v = k1) :
    customEncode cfg ((r.registerClass k1 c1).registerClass k2 c2) v = some (k1.tag ++ colon :: c2.enc v) := by
  rw [same_name_classes_share_slot r k1 k2 c1 c2 h]
  have ht : tagOf cfg v = k2.tag := by simp [tagOf, hcls, Klass.tag, h]
  have ht' : k1.tag = k2.tag := by simp [Klass.tag, h]
  simp [customEncode, ht, ht', Registry.registerClass, Registry.register]

/-- `type(value)` is the exact class: registering a class does nothing for values whose class has another name —
in particular for instances of its subclasses (a subclass that keeps the parent's `__name__` in another scope is the
previous theorem) -/
theorem other_name_not_custom_encoded (cfg : Cfg α) (r : Registry α) (k : Klass) (c : Codec α) (v : Val α)
    (hne : (classOfVal cfg v).name ≠ k.name) :
    customEncode cfg (r.registerClass k c) v = customEncode cfg r v := by
  have : (r.registerClass k c) (tagOf cfg v) = r (tagOf cfg v) := by
    rw [Registry.registerClass, Registry.register_other]; exact hne
  simp [customEncode, this]

/-- **Round trip, `mem://` default configuration** (NonPickler + NullSigner, what `Cache.setup("mem://")`
builds), registry changing between write (`rw`) and read (`rr`): integers and objects whose type is not
registered at write time are stored as they are and come back untouched (whatever is registered later); values of
a type registered at write time go through `type:` + encoder output and come back through the decoder registered
under that name at read time. -/
theorem decode_encode_null (cfg : Cfg α) (rw rr : Registry α) (key : Bytes) (v : Val α)
    (hpk : cfg.pickler = Pickler.null) (hs : cfg.signer = none)
    (htagsW : TagsColonFree rw) (htagsR : TagsColonFree rr)
    (hR : ∀ c, rw (tagOf cfg v) = some c → ∃ c', rr (tagOf cfg v) = some c' ∧ c'.dec (c.enc v) = some v)
    (hbytes : rw (tagOf cfg v) = none → v.isBytes = false) :
    ∃ w, encode cfg rw key v = some w ∧ decode cfg rr key w false = .value v := by
  have hsign : ∀ w : Val α, sign cfg key w = some w := by intro w; simp [sign, hs]
  cases v with
  | int i => exact ⟨.int i, rfl, rfl⟩
  | bytes vb =>
    cases hreg : rw (tagOf cfg (.bytes vb)) with
    | none => have := hbytes hreg; simp [Val.isBytes] at this
    | some c =>
      obtain ⟨c', hreg', hdec⟩ := hR c hreg
      refine ⟨.bytes (tagOf cfg (.bytes vb) ++ colon :: c.enc (.bytes vb)), ?_, ?_⟩
      · simp [encode, customEncode, hreg, hsign]
      · simp [decode, preLoads, isIntLit_with_colon, checkSign, hs, isCustomEncoded_tagged rr htagsR _ _ c' hreg',
          customDecode, splitFirst_append colon _ _ (htagsW _ c hreg), hreg', hdec]
  | obj x =>
    cases hreg : rw (tagOf cfg (.obj x)) with
    | none =>
      refine ⟨.obj x, ?_, ?_⟩
      · simp [encode, customEncode, hreg, hsign, hpk, Pickler.null]
      · simp [decode, preLoads]
    | some c =>
      obtain ⟨c', hreg', hdec⟩ := hR c hreg
      refine ⟨.bytes (tagOf cfg (.obj x) ++ colon :: c.enc (.obj x)), ?_, ?_⟩
      · simp [encode, customEncode, hreg, hsign]
      · simp [decode, preLoads, isIntLit_with_colon, checkSign, hs, isCustomEncoded_tagged rr htagsR _ _ c' hreg',
          customDecode, splitFirst_append colon _ _ (htagsW _ c hreg), hreg', hdec]

/-- **the registry argument matters** (what a serializer that keeps the registry of the moment it was built gets
wrong): if the name under which `v` was custom-encoded is NOT in the registry the reader consults, a signed or
unsigned blob `name:…` is not recognised, and with the NonPickler the read yields the default, not `v`. -/
theorem stale_registry_loses_value (cfg : Cfg α) (rw stale : Registry α) (key : Bytes) (v : Val α) (c : Codec α)
    (hpk : cfg.pickler = Pickler.null) (hs : cfg.signer = none) (htagsW : TagsColonFree rw)
    (hreg : rw (tagOf cfg v) = some c) (hni : ∀ i, v ≠ .int i) (hstale : stale (tagOf cfg v) = none) :
    ∃ w, encode cfg rw key v = some w ∧ decode cfg stale key w false = .dflt := by
  have hsign : ∀ w : Val α, sign cfg key w = some w := by intro w; simp [sign, hs]
  have henc : encode cfg rw key v = some (.bytes (tagOf cfg v ++ colon :: c.enc v)) := by
    cases v with
    | int i => exact absurd rfl (hni i)
    | bytes _ => simp [encode, customEncode, hreg, hsign]
    | obj _ => simp [encode, customEncode, hreg, hsign]
  refine ⟨_, henc, ?_⟩
  have hsplit := splitFirst_append colon (tagOf cfg v) (c.enc v) (htagsW _ c hreg)
  simp [decode, preLoads, isIntLit_with_colon, checkSign, hs, isCustomEncoded, hsplit, hstale, hpk, Pickler.null,
    postLoads, customDecode]

/-- `value is default`: when the stored object is the very object the caller passed as default,
`decode` returns the default — i.e. that same object, so the caller still receives the stored value. -/
theorem decode_same (cfg : Cfg α) (reg : Registry α) (key : Bytes) (w : Val α) : decode cfg reg key w true = .dflt := rfl


/-- the value `v`, written under key `k` while the registry is `rw`, reads back while the registry is `rr` through
the serializer alone (the conclusion of `decode_encode_registries` / `decode_encode_null`) -/
def RoundTrips (cfg : Cfg α) (rw rr : Registry α) (k : Bytes) (v : Val α) : Prop :=
  ∃ w, encode cfg rw k v = some w ∧ decode cfg rr k w false = .value v

/-- **set / get**: whatever the store held, after `set k v` (registry `rw`) a `get k` (registry `rr`) yields `v`. -/
theorem set_get (cfg : Cfg α) (rw rr : Registry α) (st : SStore α) (k : Bytes) (v : Val α)
    (h : RoundTrips cfg rw rr k v) :
    (st.set cfg rw k v).get cfg rr k = .value v := by
  obtain ⟨w, he, hd⟩ := h
  simp [SStore.set, SStore.get, SStore.lookup, he, hd]

/-- a `set` under one key does not disturb what is read under another -/
theorem set_get_other (cfg : Cfg α) (rw rr : Registry α) (st : SStore α) (k k' : Bytes) (v : Val α) (hne : k ≠ k') :
    (st.set cfg rw k v).get cfg rr k' = st.get cfg rr k' := by
  unfold SStore.set
  cases encode cfg rw k v with
  | none => rfl
  | some w => simp [SStore.get, SStore.lookup, hne]

/-- **set_many / get_many alike**: after `set_many` of pairs with distinct keys (registry `rw`), each of which
round-trips through the serializer, `get_many` of those keys (registry `rr`) returns exactly the values, in
order — whatever the store held before. -/
theorem set_many_get_many (cfg : Cfg α) (rw rr : Registry α) (st : SStore α) (pairs : List (Bytes × Val α))
    (hnd : (pairs.map (·.1)).Nodup) (h : ∀ kv ∈ pairs, RoundTrips cfg rw rr kv.1 kv.2) :
    (st.setMany cfg rw pairs).getMany cfg rr (pairs.map (·.1)) = pairs.map (fun kv => .value kv.2) := by
  -- generalised: a key written once and not written again keeps its value
  have keep : ∀ (ps : List (Bytes × Val α)) (s : SStore α) (k : Bytes),
      k ∉ ps.map (·.1) → (SStore.setMany cfg rw s ps).get cfg rr k = s.get cfg rr k := by
    intro ps
    induction ps with
    | nil => intro s k _; rfl
    | cons p r ih =>
      intro s k hk
      simp only [List.map_cons, List.mem_cons, not_or] at hk
      simp only [SStore.setMany, List.foldl_cons]
      have := ih (s.set cfg rw p.1 p.2) k hk.2
      simp only [SStore.setMany] at this
      rw [this, set_get_other cfg rw rr s p.1 k p.2 (fun e => hk.1 e.symm)]
  induction pairs generalizing st with
  | nil => rfl
  | cons p r ih =>
    simp only [List.map_cons, List.nodup_cons] at hnd
    have hp := h p (by simp)
    have hr : ∀ kv ∈ r, RoundTrips cfg rw rr kv.1 kv.2 := fun kv m => h kv (by simp [m])
    have tail := ih (st.set cfg rw p.1 p.2) hnd.2 hr
    simp only [SStore.setMany, List.foldl_cons, SStore.getMany, List.map_cons] at tail ⊢
    have head : (SStore.setMany cfg rw (st.set cfg rw p.1 p.2) r).get cfg rr p.1 = .value p.2 := by
      rw [keep r _ p.1 hnd.1]
      exact set_get cfg rw rr st p.1 p.2 hp
    simp only [SStore.setMany] at head
    rw [head, tail]

/-- **set, anything later, get**: after `set k v`, any interleaving of `register_type` calls and writes under
other keys leaves a state in which `get k` yields `v`, provided `v` round-trips from the registry of the write to
the registry at the end (`decode_encode_registries`; `decode_encode_after_late_registrations` when the later
registrations bind new names). -/
theorem set_later_get (cfg : Cfg α) (rw : Registry α) (st : SStore α) (k : Bytes) (v : Val α) (later : List (Later α))
    (hk : ∀ k' v', Later.set k' v' ∈ later → k' ≠ k)
    (h : RoundTrips cfg rw (runLater cfg (rw, st.set cfg rw k v) later).1 k v) :
    (runLater cfg (rw, st.set cfg rw k v) later).2.get cfg (runLater cfg (rw, st.set cfg rw k v) later).1 k = .value v := by
  -- the entry under k is not touched by the later steps
  have frame : ∀ (later : List (Later α)) (reg : Registry α) (s : SStore α),
      (∀ k' v', Later.set k' v' ∈ later → k' ≠ k) →
      (runLater cfg (reg, s) later).2.lookup k = s.lookup k := by
    intro later
    induction later with
    | nil => intro reg s _; rfl
    | cons step rest ih =>
      intro reg s hk
      cases step with
      | register tag c =>
        simp only [runLater]
        exact ih _ _ (fun k' v' m => hk k' v' (by simp [m]))
      | set k' v' =>
        simp only [runLater]
        rw [ih _ _ (fun k'' v'' m => hk k'' v'' (by simp [m]))]
        have hne : k' ≠ k := hk k' v' (by simp)
        unfold SStore.set
        cases encode cfg reg k' v' with
        | none => rfl
        | some w => simp [SStore.lookup, hne]
  obtain ⟨w, he, hd⟩ := h
  have hl := frame later rw (st.set cfg rw k v) hk
  have hs : (st.set cfg rw k v).lookup k = some w := by simp [SStore.set, he, SStore.lookup]
  simp only [SStore.get, hl, hs, hd]

/-- **"storing the value" is storing the content of the moment**: the caller hands `set` its own (mutable) object `r`;
whatever it does to its objects afterwards (`later`: assignments to `r` itself included — the world is then the pair of the
heap `h.run later` and the store), `get` yields the content `r` had when it was written — not `(h.run later) r`.  In the model this holds by construction (the store holds values, `setRef`
reads the heap once); that the code has this shape — `Memory._set` keeps a `copy()` even when a serializer is configured,
because the NonPickler and the NullSigner hand the caller's object through — is what the harness checks by mutating its
own objects after every write and comparing with an independent snapshot. -/
theorem set_then_caller_mutations_get (cfg : Cfg α) (rw rr : Registry α) (st : SStore α) (h : Heap α) (k : Bytes) (r : Nat)
    (later : List (Nat × Val α)) (hrt : RoundTrips cfg rw rr k (h r)) :
    ((h.run later, st.setRef cfg rw h k r) : Heap α × SStore α).2.get cfg rr k = .value (h r) :=
  set_get cfg rw rr st k (h r) hrt

/-- **an empty secret is no secret**: `secret=""` / `secret=b""` (an unset environment variable read with a `""` fallback)
build the same serializer as no secret at all — NullSigner, and the NonPickler stays unless a real pickler was asked for … -/
theorem empty_secret_is_no_secret (d : Digest) (asked : Bool) :
    signerOf (some (.str [])) d = none ∧ signerOf (some (.bytes [])) d = none ∧ signerOf none d = none ∧
    nonPicklerStays (some (.str [])) d asked = nonPicklerStays none d asked ∧
    nonPicklerStays (some (.bytes [])) d asked = nonPicklerStays none d asked :=
  ⟨rfl, rfl, rfl, rfl, rfl⟩

/-- … so every value round-trips under it exactly as on plain `mem://` (`decode_encode_null`) … -/
theorem decode_encode_empty_secret (cfg : Cfg α) (secret : SecretArg) (hempty : toBytes secret = some []) (d : Digest)
    (hs : cfg.signer = signerOf (some secret) d) (hpk : cfg.pickler = Pickler.null)
    (rw rr : Registry α) (key : Bytes) (v : Val α)
    (htagsW : TagsColonFree rw) (htagsR : TagsColonFree rr)
    (hR : ∀ c, rw (tagOf cfg v) = some c → ∃ c', rr (tagOf cfg v) = some c' ∧ c'.dec (c.enc v) = some v)
    (hbytes : rw (tagOf cfg v) = none → v.isBytes = false) :
    ∃ w, encode cfg rw key v = some w ∧ decode cfg rr key w false = .value v := by
  have hnone : cfg.signer = none := by rw [hs]; simp [signerOf, hempty]
  exact decode_encode_null cfg rw rr key v hpk hnone htagsW htagsR hR hbytes

/-- … whereas the combination the two tests must never produce — a signer on top of the NonPickler (signing decided by
`secret is not None`, the pickler by `bool(secret)`) — cannot store any object that is neither an integer nor custom-encoded:
`sign` is handed the object itself (TypeError: can't concat … to bytes) -/
theorem signer_over_nonpickler_cannot_store_objects (cfg : Cfg α) (reg : Registry α) (s : Signer) (hs : cfg.signer = some s)
    (hpk : cfg.pickler = Pickler.null) (key : Bytes) (x : α) (hfree : reg (tagOf cfg (.obj x)) = none) :
    encode cfg reg key (.obj x) = none := by
  simp [encode, customEncode, hfree, hpk, Pickler.null, sign, hs]

/-! ### non-vacuity: a concrete configuration that satisfies every hypothesis, evaluated -/

/-- toy pickler: `obj n ↦ [0x80, n]` -/
def toyPickler : Pickler Nat where
  dumps := fun v => match v with
    | .obj n => .bytes [0x80, n.toUInt8]
    | v => v
  loads := fun b => match b with
    | [0x80, n] => .ok (.obj n.toNat)
    | _ => .unpickling

/-- built-in `bytes` registration: `enc = dec = id` -/
def bytesCodec : Codec Nat where
  enc := fun v => match v with
    | .bytes b => b
    | _ => []
  dec := fun b => some (.bytes b)

def toyCfg (signer : Option Signer) : Cfg Nat where
  mac := macOfRaw fun _ s m => s ++ m
  signer := signer
  pickler := toyPickler
  classOf := fun _ => ⟨[0x4e], [0x4e]⟩  -- the module-level class `N`

/-- the registry as it is after `import cashews`: only `bytes` -/
def toyReg : Registry Nat := Registry.empty.register tagBytes bytesCodec

/-- a custom pair for the toy objects (type name `N`): `obj n ↦ [n]` -/
def nCodec : Codec Nat where
  enc := fun v => match v with
    | .obj n => [n.toUInt8]
    | _ => []
  dec := fun b => match b with
    | [n] => some (.obj n.toNat)
    | _ => none

/-- … and after a later `register_type(N, …)` -/
def toyRegLate : Registry Nat := toyReg.register [0x4e] nCodec

def toySigner : Signer := { secret := [0x73], digest := .md5 }

example : HexMac (toyCfg (some toySigner)) := hex_mac_of_raw _ _ rfl
example : TagsColonFree toyReg := by
  intro tag c h
  simp only [toyReg, Registry.register, Registry.empty] at h
  split at h
  · rename_i e; rw [e]; decide
  · cases h
example : toyReg.le toyRegLate := Registry.le_register_fresh _ _ _ (by decide)
example : P1 toyPickler (.obj 7) := ⟨[0x80, 7], rfl, rfl, rfl⟩
example : P3 toyPickler (.obj 7) := by intro p h; cases h; decide
example : P2 (toyCfg (some toySigner)) toyReg (.obj 7) := by intro p h; cases h; decide
example : P2 (toyCfg (some toySigner)) toyRegLate (.obj 7) := by intro p h; cases h; decide

-- the model does something: b"123" (digit-only bytes) signed under key "k" with md5 …
example : encode (toyCfg (some toySigner)) toyReg [0x6b] (.bytes [0x31, 0x32, 0x33])
    = some (.bytes ([0x6d, 0x64, 0x35, 0x3a] ++ hexdigest ([0x73] ++ [0x6b] ++ (tagBytes ++ colon :: [0x31, 0x32, 0x33]))
        ++ us :: (tagBytes ++ colon :: [0x31, 0x32, 0x33]))) := by decide
-- … comes back as the bytes b"123", not as the integer 123
example : (encode (toyCfg (some toySigner)) toyReg [0x6b] (.bytes [0x31, 0x32, 0x33])).map
    (fun w => decode (toyCfg (some toySigner)) toyReg [0x6b] w false) = some (.value (.bytes [0x31, 0x32, 0x33])) := by decide
-- a payload that looks like a signature header, unsigned
example : (encode (toyCfg none) toyReg [0x6b] (.bytes [0x6d, 0x64, 0x35, 0x3a, 0x78, 0x5f, 0x79])).map
    (fun w => decode (toyCfg none) toyReg [0x6b] w false) = some (.value (.bytes [0x6d, 0x64, 0x35, 0x3a, 0x78, 0x5f, 0x79])) := by decide
example : (encode (toyCfg (some toySigner)) toyReg [0x6b] (.obj 7)).map
    (fun w => decode (toyCfg (some toySigner)) toyReg [0x6b] w false) = some (.value (.obj 7)) := by decide
-- set_many then get_many through the store glue: digit-only bytes, an object and an integer come back as written
example : (SStore.setMany (toyCfg (some toySigner)) toyReg [] [([0x6b], .bytes [0x31]), ([0x6c], .obj 7), ([0x6d], .int 5)]).getMany
    (toyCfg (some toySigner)) toyReg [[0x6b], [0x6c], [0x6d]] = [.value (.bytes [0x31]), .value (.obj 7), .value (.int 5)] := by decide
-- a raw digit blob in the store is an integer, also a negative one (D28 repair)
example : decode (toyCfg (some toySigner)) toyReg [0x6b] (.bytes [0x30, 0x34, 0x32]) false = .value (.int 42) := by decide
example : decode (toyCfg (some toySigner)) toyReg [0x6b] (.bytes [0x2d, 0x34, 0x32]) false = .value (.int (-42)) := by decide
example : decode (toyCfg (some toySigner)) toyReg [0x6b] (.bytes [0x2d]) false = .dflt := by decide

/-! ### registry changing between write and read, evaluated -/

-- registered late, then written: the stored form is the custom envelope `N:` + encoder output, signed …
example : encode (toyCfg (some toySigner)) toyRegLate [0x6b] (.obj 7)
    = some (.bytes ([0x6d, 0x64, 0x35, 0x3a] ++ hexdigest ([0x73] ++ [0x6b] ++ [0x4e, 0x3a, 0x07]) ++ us :: [0x4e, 0x3a, 0x07])) := by decide
-- … and it reads back with the registry of the moment
example : (encode (toyCfg (some toySigner)) toyRegLate [0x6b] (.obj 7)).map
    (fun w => decode (toyCfg (some toySigner)) toyRegLate [0x6b] w false) = some (.value (.obj 7)) := by decide
-- a reader consulting the registry as it was BEFORE the registration loses the value (json/pickle: unpickling error → default)
example : (encode (toyCfg (some toySigner)) toyRegLate [0x6b] (.obj 7)).map
    (fun w => decode (toyCfg (some toySigner)) toyReg [0x6b] w false) = some .dflt := by decide
-- written (pickled) before the type was registered, read after: still the value
example : (encode (toyCfg (some toySigner)) toyReg [0x6b] (.obj 7)).map
    (fun w => decode (toyCfg (some toySigner)) toyRegLate [0x6b] w false) = some (.value (.obj 7)) := by decide
-- the name re-registered with a pair whose decoder rejects the old encoding: the default (hypothesis `hR` fails)
example : (encode (toyCfg none) toyRegLate [0x6b] (.obj 7)).map
    (fun w => decode (toyCfg none) (toyRegLate.register [0x4e] { nCodec with dec := fun _ => none }) [0x6b] w false)
    = some .dflt := by decide
-- set, a later register_type and a write under another key, get: through the store glue
def toyLater : Registry Nat × SStore Nat :=
  runLater (toyCfg (some toySigner)) (toyReg, SStore.set (toyCfg (some toySigner)) toyReg [] [0x6b] (.obj 7))
    [.register ⟨[0x4e], [0x4e]⟩ nCodec, .set [0x6c] (.obj 8)]
example : (toyLater.2.get (toyCfg (some toySigner)) toyLater.1 [0x6b], toyLater.2.get (toyCfg (some toySigner)) toyLater.1 [0x6c])
    = (Res.value (.obj 7), Res.value (.obj 8)) := by decide
-- the hypotheses of `decode_encode_after_late_registrations` are satisfiable with a non-empty run of registrations
example : ∃ w, encode (toyCfg (some toySigner)) toyReg [0x6b] (.obj 7) = some w ∧
    decode (toyCfg (some toySigner)) (toyReg.registerAll [([0x4e], nCodec)]) [0x6b] w false = .value (.obj 7) := by
  have hN : toyReg (tagOf (toyCfg (some toySigner)) (Val.obj 7)) = none := by decide
  have htags : TagsColonFree (toyReg.registerAll [([0x4e], nCodec)]) := by
    intro tag c h
    simp only [Registry.registerAll, List.foldl, toyReg, Registry.register, Registry.empty] at h
    split at h
    · rename_i e; rw [e]; decide
    · split at h
      · rename_i e; rw [e]; decide
      · cases h
  exact decode_encode_after_late_registrations (toyCfg (some toySigner)) toyReg [([0x4e], nCodec)] (by decide) [0x6b] (.obj 7)
    (hex_mac_of_raw _ _ rfl) htags
    (fun c h => by rw [hN] at h; cases h)
    (fun _ _ => ⟨[0x80, 7], rfl, rfl, rfl⟩)
    (by intro _ p h; cases h; decide) (by intro _ p h; cases h; decide)

/-! ### classes with a qualified name, evaluated -/

/-- `class Api: class Session` -/
def kNested : Klass := ⟨[0x53], [0x41, 0x2e, 0x53]⟩          -- name `S`, qualname `A.S`
/-- `class Other: class Session` — the same `__name__` in another scope -/
def kNested2 : Klass := ⟨[0x53], [0x42, 0x2e, 0x53]⟩         -- name `S`, qualname `B.S`

/-- objects `n < 100` are instances of the nested class, the others of the module-level class `N` -/
def clsCfg (signer : Option Signer) : Cfg Nat :=
  { toyCfg signer with classOf := fun n => if n < 100 then kNested else ⟨[0x4e], [0x4e]⟩ }

-- a nested class, registered: written through the pair (envelope `S:`), read back through it — signed and unsigned
example : encode (clsCfg none) (toyReg.registerClass kNested nCodec) [0x6b] (.obj 7) = some (.bytes [0x53, 0x3a, 0x07]) := by decide
example : (encode (clsCfg (some toySigner)) (toyReg.registerClass kNested nCodec) [0x6b] (.obj 7)).map
    (fun w => decode (clsCfg (some toySigner)) (toyReg.registerClass kNested nCodec) [0x6b] w false)
    = some (.value (.obj 7)) := by decide
-- the hypotheses of `decode_encode_registered_class` are satisfiable for it
example : ∃ w, encode (clsCfg (some toySigner)) (toyReg.registerClass kNested nCodec) [0x6b] (.obj 7) = some w ∧
    decode (clsCfg (some toySigner)) (toyReg.registerClass kNested nCodec) [0x6b] w false = .value (.obj 7) :=
  decode_encode_registered_class (clsCfg (some toySigner)) toyReg kNested nCodec [0x6b] (.obj 7)
    (hex_mac_of_raw _ _ rfl)
    (by
      intro tag c h
      simp only [toyReg, Registry.register, Registry.empty] at h
      split at h
      · rename_i e; rw [e]; decide
      · cases h)
    (by decide) (by decide) (by decide)
-- the same pair filed under the QUALIFIED name `A.S`: never found, the value goes to the pickler (toy pickler: `[0x80, 7]`)
example : encode (clsCfg none) (toyReg.register kNested.qual nCodec) [0x6b] (.obj 7) = some (.bytes [0x80, 0x07]) := by decide
-- two classes named `S`: the later registration serves both
example : customEncode (clsCfg none) ((toyReg.registerClass kNested nCodec).registerClass kNested2 { nCodec with enc := fun _ => [0x21] })
    (.obj 7) = some [0x53, 0x3a, 0x21] := by decide

-- the caller changes its object after the write: the heap says `8`, the store still answers `7`
example : Heap.run (fun _ => Val.obj 7 : Heap Nat) [(0, Val.obj 8)] 0 = Val.obj 8 := by decide
example : (SStore.setRef (toyCfg none) toyReg [] (fun _ => Val.obj 7) [0x6b] 0).get (toyCfg none) toyReg [0x6b] = .value (.obj 7) := by decide

end CashewsVerif.Props.C09
