import CashewsVerif.Lemmas.DisableConc
import CashewsVerif.Lemmas.DisableHist
import CashewsVerif.Lemmas.DisableCompose
/-
C17 — keys are routed by longest prefix; disabling truly bypasses the cache.
Property theorems only; helper lemmas live in `Lemmas/Route.lean`, `Lemmas/RouteGroup.lean`,
`Lemmas/Disable.lean`, `Lemmas/DisableConc.lean`, `Lemmas/RouteHist.lean`, `Lemmas/DisableStack.lean`,
`Lemmas/DisableHist.lean`, `Lemmas/DisableCompose.lean`; the models in `Model/Route.lean`,
`Model/Disable.lean`, `Model/DisableCompose.lean`.

Strings are lists of code points: `[]` = "", `[97]` = "a", `[98]` = "b", `[97,98]` = "ab",
`[97,58]` = "a:".
-/
namespace CashewsVerif.Props.C17
open CashewsVerif.Route CashewsVerif.Disable

/-! ## Routing -/

/-- **First match = longest match**, for every list of prefixes that is strictly descending in
Python's string order (whatever produced it) and every key: the first element that is a prefix of
the key is a member, matches, and no matching member is longer.  (Two prefixes of one key are
comparable by the prefix order and a proper prefix sorts before its extension.) -/
theorem first_match_is_longest (sp : List (List Nat)) (key p : List Nat) (hs : Desc sp)
    (h : firstMatch sp key = some p) :
    p ∈ sp ∧ p <+: key ∧ ∀ q ∈ sp, q <+: key → q.length ≤ p.length :=
  firstMatch_spec hs h

/-- `sorted(prefixes, reverse=True)` of distinct strings (dict keys) is strictly descending and has
the same members — the hypothesis of `first_match_is_longest` holds for every prefix set. -/
theorem sorted_prefixes_descending (ps : List (List Nat)) (h : ps.Nodup) :
    Desc (sortDesc ps) ∧ (∀ x, x ∈ sortDesc ps ↔ x ∈ ps) ∧ (sortDesc ps).length = ps.length :=
  ⟨desc_sortDesc h, fun _ => mem_sortDesc, length_sortDesc ps⟩

/-- **Every key is served by the backend registered under its longest matching prefix** — for
every sequence of registrations (any number of prefixes, nested, overlapping, empty, re-registered)
and every key, as an equivalence. -/
theorem route_is_longest_prefix (regs : List (List Nat × Nat)) (key : List Nat) (b : Nat) :
    (Table.ofList regs).getBackend key = some b ↔
      ∃ p, (p, b) ∈ (Table.ofList regs).regs ∧ p <+: key ∧
        ∀ q ∈ (Table.ofList regs).prefixes, q <+: key → q.length ≤ p.length :=
  Table.getBackend_iff (Table.wf_ofList regs) key b

/-- **Routing is a function of the CURRENT registrations.**  After any history of `setup()` calls —
new prefixes, prefixes registered again (same or another backend) — the backend that serves a key
is the one registered LAST under the longest prefix, among all prefixes ever registered, that
matches the key.  `lastReg` scans the history; no table, no sorting. -/
theorem route_follows_current_registrations (regs : List (List Nat × Nat)) (key : List Nat) (b : Nat) :
    (Table.ofList regs).getBackend key = some b ↔
      ∃ p, lastReg regs p = some b ∧ p <+: key ∧
        ∀ q ∈ regs.map (·.1), q <+: key → q.length ≤ p.length :=
  Table.getBackend_ofList_iff regs key b

/-- **A registration takes effect at once, for every key**: after `setup(..., prefix=p)` creating
backend `b'` — whether `p` is new or was registered before, and whatever was routed earlier — every
key whose longest registered prefix is `p` is served by `b'`; no key is left with a replaced backend. -/
theorem registration_takes_effect_at_once (regs : List (List Nat × Nat)) (p : List Nat) (b' : Nat)
    (key : List Nat) (hp : p <+: key)
    (hlong : ∀ q ∈ regs.map (·.1), q <+: key → q.length ≤ p.length) :
    (Table.ofList (regs ++ [(p, b')])).getBackend key = some b' := by
  rw [Table.getBackend_ofList_iff]
  refine ⟨p, by rw [lastReg_snoc]; simp, hp, ?_⟩
  intro q hq hqk
  simp only [List.map_append, List.map_cons, List.map_nil, List.mem_append, List.mem_singleton] at hq
  rcases hq with hq | rfl
  · exact hlong q hq hqk
  · exact Nat.le_refl _

/-- ... and the keys of the other prefixes stay where they were -/
theorem registration_leaves_other_keys (regs : List (List Nat × Nat)) (p : List Nat) (b' : Nat)
    (key : List Nat) (hp : ¬ p <+: key) :
    (Table.ofList (regs ++ [(p, b')])).getBackend key = (Table.ofList regs).getBackend key := by
  have hiff : ∀ b, (Table.ofList (regs ++ [(p, b')])).getBackend key = some b ↔
      (Table.ofList regs).getBackend key = some b := by
    intro b
    rw [Table.getBackend_ofList_iff, Table.getBackend_ofList_iff]
    constructor
    · rintro ⟨p', h1, h2, h3⟩
      have hne : ¬ p = p' := fun e => hp (e ▸ h2)
      rw [lastReg_snoc] at h1
      simp only [hne, if_false] at h1
      exact ⟨p', h1, h2, fun q hq => h3 q (by simp [hq])⟩
    · rintro ⟨p', h1, h2, h3⟩
      have hne : ¬ p = p' := fun e => hp (e ▸ h2)
      refine ⟨p', by rw [lastReg_snoc]; simp [hne, h1], h2, ?_⟩
      intro q hq hqk
      simp only [List.map_append, List.map_cons, List.map_nil, List.mem_append, List.mem_singleton] at hq
      rcases hq with hq | rfl
      · exact h3 q hq hqk
      · exact absurd hqk hp
  cases h : (Table.ofList regs).getBackend key with
  | some b => exact (hiff b).2 h
  | none =>
    cases h' : (Table.ofList (regs ++ [(p, b')])).getBackend key with
    | none => rfl
    | some b =>
      rw [(hiff b).1 h'] at h
      cases h

/-- `NotConfiguredError` is raised exactly when no registered prefix matches the key. -/
theorem not_configured_iff (regs : List (List Nat × Nat)) (key : List Nat) :
    (Table.ofList regs).getBackend key = none ↔
      ∀ q ∈ (Table.ofList regs).prefixes, ¬ q <+: key :=
  Table.getBackend_none key

/-- the model's routing (reverse sort + first match) equals the specification's (longest matching
prefix computed by a scan, no sorting) — what the driver prints as `model=` and `spec=` -/
theorem route_eq_longest_match (regs : List (List Nat × Nat)) (key : List Nat) :
    (Table.ofList regs).routePrefix key = longestMatch (Table.ofList regs).prefixes key :=
  Table.routePrefix_eq_longestMatch (Table.wf_ofList regs) key

/-- **Every issued backend command is enabled and goes to the routed backend**: whatever public
command is run, in whatever control state, in or outside a transaction, each backend command it
issues (i) is not disabled in the caller's context, (ii) carries only keys whose longest-prefix
backend is the receiver; the key-less ones (`clear`, `get_keys_count`) go to registered backends. -/
theorem every_call_is_enabled_and_routed (t : Table) (w : World) (c : Nat) (inTx : Bool) (f : FCmd)
    (res : Res) (calls : List Call) (h : exec t w c inTx f = some (res, calls)) :
    ∀ call ∈ calls,
      isDisable w c call.target.ctl [call.cmd] = false ∧
      (∀ k ∈ call.keys, t.getBackend k = some call.target.backend) ∧
      (call.keys = [] → call.target.backend ∈ t.backends) := by
  have grp : ∀ (cmd : Cmd) (keys : List (List Nat)) (groups : List (Nat × List (List Nat))),
      groupKeys t.getBackend keys = some groups →
      ∀ call ∈ (groupCalls w c inTx cmd groups 0).1,
        isDisable w c call.target.ctl [call.cmd] = false ∧
        (∀ k ∈ call.keys, t.getBackend k = some call.target.backend) ∧
        (call.keys = [] → call.target.backend ∈ t.backends) := by
    intro cmd keys groups hg call hc
    obtain ⟨b, ks, hm, rfl, hd⟩ := groupCalls_mem w c inTx cmd groups 0 call hc
    have hok := (groupKeys_spec hg).1
    have := hok.2 b ks hm
    refine ⟨hd, ?_, ?_⟩
    · intro k hk
      simpa [target_backend_targetOf] using this.2 k hk
    · intro he
      exact absurd he this.1
  cases f with
  | keyed cmd key =>
    simp only [exec, Option.map_eq_some_iff] at h
    obtain ⟨b, hb, hm⟩ := h
    unfold middleware at hm
    split at hm
    · cases hm
      simp
    · rename_i hd
      cases hm
      intro call hc
      simp only [List.mem_singleton] at hc
      subst hc
      refine ⟨by simpa using hd, ?_, by simp⟩
      intro k hk
      simp only [List.mem_singleton] at hk
      subst hk
      simpa [target_backend_targetOf] using hb
  | getMany keys =>
    simp only [exec, Option.map_eq_some_iff] at h
    obtain ⟨groups, hg, hm⟩ := h
    cases hm
    exact grp .getMany keys groups hg
  | setMany keys =>
    simp only [exec, Option.map_eq_some_iff] at h
    obtain ⟨groups, hg, hm⟩ := h
    cases hm
    exact grp .setMany keys groups hg
  | deleteMany keys =>
    simp only [exec, Option.map_eq_some_iff] at h
    obtain ⟨groups, hg, hm⟩ := h
    cases hm
    exact grp .deleteMany keys groups hg
  | clear =>
    simp only [exec, Option.some.injEq, Prod.mk.injEq] at h
    obtain ⟨_, rfl⟩ := h
    intro call hc
    obtain ⟨b, hb, rfl, hd⟩ := (allBackendsCalls_mem w c .clear t.backends call).1 hc
    exact ⟨hd, by simp, fun _ => hb⟩
  | keysCount =>
    simp only [exec, Option.some.injEq, Prod.mk.injEq] at h
    obtain ⟨_, rfl⟩ := h
    intro call hc
    obtain ⟨b, hb, rfl, hd⟩ := (allBackendsCalls_mem w c .getKeysCount t.backends call).1 hc
    exact ⟨hd, by simp, fun _ => hb⟩

/-- **A value written under a key is read back from the same backend**: any two single-key commands
for the same key — issued from any two contexts, control states, in or outside a transaction —
reach the same backend, the one registered under the key's longest prefix. -/
theorem write_then_read_same_backend (t : Table) (key : List Nat) (cmd₁ cmd₂ : Cmd)
    (w₁ w₂ : World) (c₁ c₂ : Nat) (tx₁ tx₂ : Bool) (r₁ r₂ : Res) (cs₁ cs₂ : List Call)
    (h₁ : exec t w₁ c₁ tx₁ (.keyed cmd₁ key) = some (r₁, cs₁))
    (h₂ : exec t w₂ c₂ tx₂ (.keyed cmd₂ key) = some (r₂, cs₂)) :
    ∀ a ∈ cs₁, ∀ b ∈ cs₂, a.target.backend = b.target.backend ∧
      t.getBackend key = some a.target.backend := by
  intro a ha b hb
  have k1 : a.keys = [key] := by
    simp only [exec, Option.map_eq_some_iff] at h₁
    obtain ⟨b', _, hm⟩ := h₁
    unfold middleware at hm
    split at hm <;> cases hm
    · simp at ha
    · simp at ha; simp [ha]
  have k2 : b.keys = [key] := by
    simp only [exec, Option.map_eq_some_iff] at h₂
    obtain ⟨b', _, hm⟩ := h₂
    unfold middleware at hm
    split at hm <;> cases hm
    · simp at hb
    · simp at hb; simp [hb]
  have e1 := (every_call_is_enabled_and_routed t w₁ c₁ tx₁ _ r₁ cs₁ h₁ a ha).2.1 key (by simp [k1])
  have e2 := (every_call_is_enabled_and_routed t w₂ c₂ tx₂ _ r₂ cs₂ h₂ b hb).2.1 key (by simp [k2])
  rw [e1] at e2
  exact ⟨by simpa using e2, e1⟩

/-- **Multi-key commands are split exactly along the routing**: for `get_many`, `set_many` and
`delete_many` (i) every issued call carries *all* keys of the request that are routed to its
backend, in the caller's order, and nothing else, (ii) no backend is called twice, (iii) every
backend that has the command enabled and owns at least one key is called. -/
theorem multi_key_split (t : Table) (w : World) (c : Nat) (inTx : Bool) (keys : List (List Nat))
    (f : FCmd) (cmd : Cmd)
    (hf : (f = .getMany keys ∧ cmd = .getMany) ∨ (f = .setMany keys ∧ cmd = .setMany) ∨
          (f = .deleteMany keys ∧ cmd = .deleteMany))
    (res : Res) (calls : List Call) (h : exec t w c inTx f = some (res, calls)) :
    (∀ call ∈ calls, call.cmd = cmd ∧
        call.keys = keys.filter fun k => decide (t.getBackend k = some call.target.backend)) ∧
    (calls.map fun cl => cl.target.backend).Nodup ∧
    (∀ k ∈ keys, ∀ b, t.getBackend k = some b → isDisable w c b [cmd] = false →
        ∃ call ∈ calls, call.target.backend = b) := by
  have main : ∀ groups, groupKeys t.getBackend keys = some groups →
      calls = (groupCalls w c inTx cmd groups 0).1 →
      (∀ call ∈ calls, call.cmd = cmd ∧
        call.keys = keys.filter fun k => decide (t.getBackend k = some call.target.backend)) ∧
      (calls.map fun cl => cl.target.backend).Nodup ∧
      (∀ k ∈ keys, ∀ b, t.getBackend k = some b → isDisable w c b [cmd] = false →
        ∃ call ∈ calls, call.target.backend = b) := by
    intro groups hg hc
    subst hc
    obtain ⟨hok, hspec⟩ := groupKeys_spec hg
    refine ⟨?_, ?_, ?_⟩
    · intro call hcall
      obtain ⟨b, ks, hm, rfl, _⟩ := groupCalls_mem w c inTx cmd groups 0 call hcall
      refine ⟨rfl, ?_⟩
      simp only [target_backend_targetOf]
      rw [← hspec b, groupOf_of_mem hok.1 hm]
    · exact (groupCalls_backends_sublist w c inTx cmd groups 0).nodup hok.1
    · intro k hk b hb hd
      have hkb : k ∈ groupOf groups b := by
        rw [hspec b]
        simp [hk, hb]
      have hm := mem_of_groupOf_ne_nil (List.ne_nil_of_mem hkb)
      refine ⟨_, groupCalls_complete w c inTx cmd groups 0 b _ hm
        (by simpa [target_ctl_targetOf] using hd), ?_⟩
      simp [target_backend_targetOf]
  rcases hf with ⟨rfl, rfl⟩ | ⟨rfl, rfl⟩ | ⟨rfl, rfl⟩
  all_goals
    simp only [exec, Option.map_eq_some_iff] at h
    obtain ⟨groups, hg, hm⟩ := h
    cases hm
    exact main groups hg rfl

/-- **`get_many` answers in the caller's key order across backends.**  Let the issued backend calls
answer position by position with a value that depends on (backend, key) only (what C01 proves of a
backend's `get_many`).  Then position `i` of the facade's answer is the default if the backend that
owns `keys[i]` has `get_many` disabled, and otherwise that backend's value for `keys[i]` — for every
key list (duplicates, any interleaving of backends), every control state, in or outside a
transaction.  In particular a disabled read yields exactly one default per key. -/
theorem get_many_reassembles {ν : Type} (t : Table) (w : World) (c : Nat) (inTx : Bool)
    (keys : List (List Nat)) (slots : List Slot) (calls : List Call)
    (h : exec t w c inTx (.getMany keys) = some (.many slots, calls))
    (ans : Nat → Nat → ν) (dv nv : ν) (f : Nat → List Nat → ν) (hpos : Positional calls ans f) :
    slots.map (evalSlot ans dv nv) =
      keys.map fun k =>
        match t.getBackend k with
        | some b => if isDisable w c b [.getMany] then dv else f b k
        | none => nv := by
  simp only [exec, Option.map_eq_some_iff] at h
  obtain ⟨groups, hg, hm⟩ := h
  simp only [Prod.mk.injEq, Res.many.injEq] at hm
  obtain ⟨rfl, rfl⟩ := hm
  obtain ⟨hok, _⟩ := groupKeys_spec hg
  let f' : List Nat → ν := fun k =>
    match t.getBackend k with
    | some b => if isDisable w c b [.getMany] then dv else f b k
    | none => nv
  have hev := groupCalls_eval w c inTx .getMany ans dv nv f groups [] (by simpa using hpos)
  have hresp : ∀ i (hi : i < groups.length),
      (((groupCalls w c inTx .getMany groups 0).2).getD i []).map (evalSlot ans dv nv) =
        (groups[i]).2.map f' := by
    intro i hi
    have := hev i hi
    simp only [List.length_nil] at this
    rw [this]
    apply List.map_congr_left
    intro k hk
    have hr := (hok.2 (groups[i]).1 (groups[i]).2 (List.getElem_mem hi)).2 k hk
    simp only [f', hr]
  have hpos' := getManyResult_positional hg f'
    (fun i => (((groupCalls w c inTx .getMany groups 0).2).getD i []).map (evalSlot ans dv nv)) hresp
  rw [getManyResult_map] at hpos'
  have := map_ofOption_eval (evalSlot ans dv nv) _ (keys.map f')
    (by rw [hpos', List.map_map]; rfl)
  exact this

/-- the same statement position by position -/
theorem get_many_positional {ν : Type} (t : Table) (w : World) (c : Nat) (inTx : Bool)
    (keys : List (List Nat)) (slots : List Slot) (calls : List Call)
    (h : exec t w c inTx (.getMany keys) = some (.many slots, calls))
    (ans : Nat → Nat → ν) (dv nv : ν) (f : Nat → List Nat → ν) (hpos : Positional calls ans f)
    (i : Nat) (hi : i < keys.length) :
    ∃ b, t.getBackend (keys[i]) = some b ∧
      (slots.map (evalSlot ans dv nv))[i]? =
        some (if isDisable w c b [.getMany] then dv else f b (keys[i])) := by
  have hall := get_many_reassembles t w c inTx keys slots calls h ans dv nv f hpos
  have hsome : (groupKeys t.getBackend keys).isSome := by
    simp only [exec, Option.map_eq_some_iff] at h
    obtain ⟨groups, hg, _⟩ := h
    simp [hg]
  cases hb : t.getBackend (keys[i]) with
  | none =>
    have := groupKeys_none.2 ⟨keys[i], List.getElem_mem hi, hb⟩
    rw [this] at hsome
    simp at hsome
  | some b =>
    refine ⟨b, rfl, ?_⟩
    rw [hall]
    simp [hi, hb]

/-! ## Disabling -/

/-- **Disabled ⇒ no backend command, default-shaped answer, no error.**  If the command is disabled
(in the caller's context) for the backend that owns the key, a single-key or pattern command issues
nothing and answers the default shape — in and outside a transaction alike. -/
theorem disabled_short_circuit (t : Table) (w : World) (c : Nat) (inTx : Bool) (cmd : Cmd)
    (key : List Nat) (b : Nat) (hb : t.getBackend key = some b)
    (hd : isDisable w c b [cmd] = true) :
    exec t w c inTx (.keyed cmd key) = some (defaultShape cmd 1, []) := by
  simp [exec, hb, middleware, target_ctl_targetOf, hd]

/-- the default shapes: the caller's default for `get`, one default per key for `get_many`, an empty
stream for `scan` / `get_match`, `None` for every other command -/
theorem default_shapes (n : Nat) :
    defaultShape .get n = .dflt ∧
    defaultShape .getMany n = .many (List.replicate n .dflt) ∧
    defaultShape .scan n = .emptyStream ∧ defaultShape .getMatch n = .emptyStream ∧
    ∀ cmd, cmd ≠ .get → cmd ≠ .getMany → cmd ≠ .scan → cmd ≠ .getMatch →
      defaultShape cmd n = .none_ := by
  refine ⟨rfl, rfl, rfl, rfl, ?_⟩
  intro cmd h1 h2 h3 h4
  cases cmd <;> first | rfl | contradiction

/-- conversely an enabled command is handed to the routed backend exactly once and its answer is
passed through -/
theorem enabled_passes_through (t : Table) (w : World) (c : Nat) (inTx : Bool) (cmd : Cmd)
    (key : List Nat) (b : Nat) (hb : t.getBackend key = some b)
    (hd : isDisable w c b [cmd] = false) :
    exec t w c inTx (.keyed cmd key) =
      some (passShape cmd 0 1, [⟨targetOf inTx b, cmd, [key]⟩]) := by
  simp [exec, hb, middleware, target_ctl_targetOf, hd]

/-- **No command raises because of disabling**: whether a public command raises
(`NotConfiguredError`, the only error of the facade layer) depends on the routing table alone — it
is the same in every control state and context — and happens exactly when some key has no backend. -/
theorem disabling_never_raises (t : Table) (w w' : World) (c c' : Nat) (inTx : Bool) (f : FCmd) :
    ((exec t w c inTx f).isSome = (exec t w' c' inTx f).isSome) ∧
    (exec t w c inTx f = none ↔ ∃ k ∈ f.keys, t.getBackend k = none) := by
  cases f with
  | keyed cmd key => simp [exec, FCmd.keys]
  | getMany keys => simp [exec, FCmd.keys, groupKeys_none]
  | setMany keys => simp [exec, FCmd.keys, groupKeys_none]
  | deleteMany keys => simp [exec, FCmd.keys, groupKeys_none]
  | clear => simp [exec, FCmd.keys]
  | keysCount => simp [exec, FCmd.keys]

/-- **While the whole cache is disabled no backend command at all is issued**, by any public command. -/
theorem fully_disabled_issues_nothing (t : Table) (w : World) (c : Nat) (inTx : Bool) (f : FCmd)
    (hfull : facadeFullDisable t w c = true) (res : Res) (calls : List Call)
    (h : exec t w c inTx f = some (res, calls)) : calls = [] := by
  cases hc : calls with
  | nil => rfl
  | cons call rest =>
    exfalso
    have hm : call ∈ calls := by simp [hc]
    obtain ⟨h1, h2, h3⟩ := every_call_is_enabled_and_routed t w c inTx f res calls h call hm
    have hb : call.target.backend ∈ t.backends := by
      cases hk : call.keys with
      | nil => exact h3 hk
      | cons k _ => exact getBackend_mem_backends (h2 k (by simp [hk]))
    unfold facadeFullDisable at hfull
    rw [List.all_eq_true] at hfull
    have := isDisable_of_full (hfull _ hb) call.cmd
    have e : call.target.ctl = call.target.backend := by cases call.target <;> rfl
    rw [e, this] at h1
    simp at h1

/-- **Decorated functions run on every call while the cache is fully disabled**, and touch no
backend: `n` consecutive calls execute the body `n` times and issue nothing. -/
theorem decorators_bypass_when_fully_disabled (t : Table) (w : World) (c : Nat) (key : List Nat)
    (hreg : t.regs ≠ []) (hfull : facadeFullDisable t w c = true) (n : Nat) (st : DecSt) :
    decoratedCalls t w c key n st = some { st with execs := st.execs + n } :=
  decoratedCalls_bypass t w c key hreg hfull n st

/-- the same when only the read command is disabled for the key's backend: the disabled `get` answers
the miss sentinel, so the body runs on every call and no `get` reaches the backend -/
theorem decorator_runs_body_when_get_disabled (t : Table) (w : World) (c : Nat) (key : List Nat)
    (b : Nat) (hb : t.getBackend key = some b) (hd : isDisable w c b [.get] = true) (st : DecSt) :
    ∃ st', decoratedCall t w c key st = some st' ∧ st'.execs = st.execs + 1 ∧
      st'.calls.filter (fun cl => cl.cmd = .get) = st.calls.filter (fun cl => cl.cmd = .get) := by
  have hne : t.regs.isEmpty = false := by
    cases hr : t.regs with
    | nil =>
      have : t.getBackend key = none := by
        simp [Table.getBackend, Table.routePrefix, Table.sorted, Table.prefixes, hr, sortDesc,
          firstMatch]
      rw [this] at hb
      simp at hb
    | cons _ _ => rfl
  unfold decoratedCall
  simp only [hne, Bool.false_eq_true, if_false]
  split
  · exact ⟨_, rfl, rfl, rfl⟩
  · simp only [hb, hd, Bool.not_true, Bool.false_eq_true, if_false, Bool.false_and]
    split
    · refine ⟨_, rfl, rfl, ?_⟩
      simp [List.filter_append]
    · exact ⟨_, rfl, rfl, rfl⟩

/-- **Overlapping calls: while the cache is fully disabled every call runs its own body.**
Take any table with a backend, either setting of `protected`, any initial control state and ANY
interleaving of call starts (any contexts, equal or different cache keys), body returns (in any
order, also of calls that never started or already ended) and control operations, such that every
call starts in a context that sees the cache fully disabled at that moment.  Let the bodies still
running return.  Then the body was executed exactly once per call, no backend command was issued,
nothing was stored, no call is left waiting, none failed, and the `k`-th call that started was
handed the outcome of execution number `k` — the one it started itself: no call is joined to
another call's execution (no single-flight coalescing under a full disable). -/
theorem decorators_bypass_when_fully_disabled_concurrent (t : Table) (hreg : t.regs ≠ [])
    (prot : Bool) (w : World) (evs : List CEv) (hfull : AllStartsFull t w evs) :
    let s := cdrain (crun t prot ⟨w, CSt.init⟩ evs).s
    s.execs = (CEv.starts evs).length ∧ s.calls = [] ∧ s.cached = [] ∧ s.flights = [] ∧ s.nc = [] ∧
      s.results.Perm (CEv.starts evs).zipIdx := by
  have h := AllBypass.run hreg prot evs ⟨w, CSt.init⟩ [] AllBypass.init hfull
  simp only [List.nil_append] at h
  have hd := AllBypass.drainN (crun t prot ⟨w, CSt.init⟩ evs).s.flights.length h
  have hfl := hd.2 (Nat.le_refl _)
  have hp := hd.1.perm
  rw [hfl] at hp
  simp only [List.map_nil, List.append_nil] at hp
  exact ⟨hd.1.execs, hd.1.calls, hd.1.cached, hfl, hd.1.nc, hp⟩

/-- **A fully disabled call is never shared, whatever else is going on.**  In ANY history of the
decorated function — earlier events `before`, later events `after`, other calls that see the cache
enabled (and are coalesced by `thunder_protection`, hit the cache, store results), control
operations, body returns in any order — a call `c` that starts in a context that sees the cache
fully disabled starts execution number `e` of the body at once (the counter goes up by one, no
backend command is issued), and from then on, also after all running bodies returned: `e` is never
stored in the cache, no other caller is ever handed `e`'s outcome, and `c` itself is either still
running `e` or has been handed exactly `e`. -/
theorem fully_disabled_call_is_never_shared (t : Table) (hreg : t.regs ≠ []) (prot : Bool)
    (w : World) (before after : List CEv) (c ctx : Nat) (key : List Nat)
    (hfull : facadeFullDisable t (crun t prot ⟨w, CSt.init⟩ before).w ctx = true) :
    let r0 := crun t prot ⟨w, CSt.init⟩ before
    let r1 := cstep t prot r0 (.start c ctx key)
    let e := r0.s.execs
    (r1.s.execs = e + 1 ∧ r1.s.calls = r0.s.calls ∧ ⟨c, key, .bypass e⟩ ∈ r1.s.flights) ∧
    ∀ s, (s = (crun t prot ⟨w, CSt.init⟩ (before ++ [.start c ctx key] ++ after)).s ∨
          s = cdrain (crun t prot ⟨w, CSt.init⟩ (before ++ [.start c ctx key] ++ after)).s) →
      (∀ p ∈ s.cached, p.2 ≠ e) ∧ (∀ p ∈ s.results, p.2 = e → p.1 = c) ∧
      (∀ f ∈ s.flights, f.role.exec? = some e → f = ⟨c, key, .bypass e⟩) ∧
      (⟨c, key, .bypass e⟩ ∈ s.flights ∨ (c, e) ∈ s.results) := by
  intro r0 r1 e
  have hb : Bounded r0.s := Bounded.run t prot before ⟨w, CSt.init⟩ Bounded.init
  have hs : r1.s = { r0.s with execs := r0.s.execs + 1, flights := r0.s.flights ++ [⟨c, key, .bypass r0.s.execs⟩] } := by
    have hfull' : facadeFullDisable t r0.w ctx = true := hfull
    simp [r1, cstep, cstart, regs_isEmpty_false hreg, hfull']
  have hp1 : Private r1.s c key e := Private.of_start hb hreg prot r0.w c ctx key hfull
  refine ⟨⟨by rw [hs], by rw [hs], by rw [hs]; simp [e]⟩, ?_⟩
  have hrun : crun t prot ⟨w, CSt.init⟩ (before ++ [.start c ctx key] ++ after) =
      crun t prot r1 after := by
    rw [crun_append, crun_append]
    rfl
  have hp2 : Private (crun t prot r1 after).s c key e := Private.run t prot after r1 hp1
  intro s hs'
  rw [hrun] at hs'
  rcases hs' with rfl | rfl
  · exact ⟨hp2.cached, hp2.results, hp2.flights, hp2.mine⟩
  · have hp3 := Private.drainN (crun t prot r1 after).s.flights.length hp2
    exact ⟨hp3.cached, hp3.results, hp3.flights, hp3.mine⟩

/-- **The transaction wrapper changes nothing about disabling**: inside `cache.transaction()` every
public command takes the same decisions — same answer shape, same backend commands with the same keys
for the same backends — as outside (9290b53: the wrapper delegates its control state). -/
theorem transaction_wrapper_delegates (t : Table) (w : World) (c : Nat) (f : FCmd) :
    (exec t w c true f).map (fun rc => (rc.1, rc.2.map Call.erase)) =
      (exec t w c false f).map (fun rc => (rc.1, rc.2.map Call.erase)) := by
  cases f with
  | keyed cmd key =>
    simp only [exec, Option.map_map]
    congr 1
    funext b
    simp only [Function.comp, middleware, target_ctl_targetOf]
    split <;> simp [Call.erase, target_backend_targetOf]
  | getMany keys =>
    simp only [exec, Option.map_map]
    congr 1
    funext groups
    have := groupCalls_tx w c .getMany groups 0
    simp [Function.comp, this.1, this.2]
  | setMany keys =>
    simp only [exec, Option.map_map]
    congr 1
    funext groups
    have := groupCalls_tx w c .setMany groups 0
    simp [Function.comp, this.2]
  | deleteMany keys =>
    simp only [exec, Option.map_map]
    congr 1
    funext groups
    have := groupCalls_tx w c .deleteMany groups 0
    simp [Function.comp, this.2]
  | clear => rfl
  | keysCount => rfl

/-! ## Disabling, through the whole middleware stack

`exec` above is the facade with the disable middleware alone.  The facade really runs every backend
command through `[auto_init, invalidate, callbacks, disable]`, the last one outermost; `execS` is
the model of that (`inv`: the caller is inside `invalidate_further()`, `ini`: the backends whose
`init()` has run), and a backend call is anything a backend object is asked to do: a command, the
deletion `invalidate_further()` replaces a read by, `init()`. -/

/-- **Which orders of the middlewares are safe.**  A chain of the default middlewares (outermost
first) issues no backend call of any kind for a disabled command — in every control state, context,
environment, for every command — IF AND ONLY IF the disable check comes first, preceded at most by
middlewares that never talk to the backend (`SafeOrder`).  Then it also answers the default shape
and initialises nothing. -/
theorem disable_check_must_be_outermost (chain : List Mw) :
    (∀ (w : World) (c : Nat) (inv : Bool) (tg : Target) (cmd : Cmd) (keys : List (List Nat))
        (ini : List Nat) (n : Nat), isDisable w c tg.ctl [cmd] = true →
        runChain w c inv tg cmd keys chain ini n = (defaultShape cmd keys.length, [], ini)) ↔
      SafeOrder chain := by
  constructor
  · intro h
    apply safe_of_silent
    intro inv ini
    rw [h Wdis 0 inv (.raw 0) .get [[]] ini 0 wdis_disabled]
  · intro h w c inv tg cmd keys ini n hd
    exact runChain_safe h w c inv tg cmd keys ini n hd

/-- the stack `Cache()` builds — `_default_middlewares = [auto_init, invalidate, callbacks, disable]`
wrapped in list order, the last outermost — is safe; the same list wrapped in the opposite order
(disable check innermost) is not -/
theorem default_stack_is_safe :
    SafeOrder (chainOf defaultMws) ∧ ¬ SafeOrder (chainOf defaultMws.reverse) := by
  refine ⟨defaultMws_safe, ?_⟩
  rintro ⟨pre, post, e, hp⟩
  cases pre with
  | nil => simp [chainOf, defaultMws] at e
  | cons m pre =>
    have hm := hp m (by simp)
    subst hm
    simp [chainOf, defaultMws] at e

/-- **A disabled command touches no backend in any way.**  Whatever public command is run — in any
control state, in or outside a transaction, inside `invalidate_further()` or not, with backends
initialised or not — every backend call it causes (command, replacing deletion, `init()`) goes to a
registered backend for which the command is ENABLED in the caller's context, carries only keys whose
longest-prefix backend is the receiver, and only such backends get initialised.  Contrapositive: a
backend that has the command disabled is not asked to do anything. -/
theorem disabled_command_touches_no_backend (t : Table) (w : World) (c : Nat) (inTx inv : Bool)
    (ini : List Nat) (f : FCmd) (res : Res) (calls : List BCall) (ini' : List Nat)
    (h : execS t w c inTx inv ini f = some (res, calls, ini')) :
    (∀ bc ∈ calls, isDisable w c bc.backend [f.cmd] = false ∧ bc.backend ∈ t.backends ∧
        ∀ k ∈ bc.keys, t.getBackend k = some bc.backend) ∧
    (∀ b ∈ ini', b ∈ ini ∨ (b ∈ t.backends ∧ isDisable w c b [f.cmd] = false)) :=
  ⟨(execS_calls t w c inTx inv ini f res calls ini' h).1,
   (execS_calls t w c inTx inv ini f res calls ini' h).2.1⟩

/-- **Every command handed to a backend is ITSELF enabled for that backend** (fix D46) — not only the
public command it was issued under.  Inside `invalidate_further()` an enabled read is replaced by a
deletion that the middleware hands to the backend directly; it does so only if the DELETING command
(`delete` for `get` / `incr`, `delete_many` for `get_many`, `delete_match` for `get_match`) is enabled
for the receiver in the caller's context.  So for every public command, control state, environment:
each command a backend object receives is enabled for it — a disabled `delete` never deletes. -/
theorem issued_command_is_itself_enabled (t : Table) (w : World) (c : Nat) (inTx inv : Bool)
    (ini : List Nat) (f : FCmd) (res : Res) (calls : List BCall) (ini' : List Nat)
    (h : execS t w c inTx inv ini f = some (res, calls, ini')) :
    ∀ cl, BCall.cmd cl ∈ calls → isDisable w c cl.target.backend [cl.cmd] = false := by
  intro cl hcl
  have := execS_cmdOk t w c inTx inv ini f res calls ini' h _ hcl
  simpa [BCall.cmdOk, Target.ctl_eq_backend] using this

/-- a read whose replacing deletion is disabled: answered as a miss, nothing issued, nothing initialised -/
theorem invalidate_further_respects_disabled_delete (t : Table) (w : World) (c : Nat) (inTx : Bool)
    (ini : List Nat) (cmd del : Cmd) (res : Res) (key : List Nat) (b : Nat)
    (hb : t.getBackend key = some b) (hi : invalidateOf cmd = some (del, res))
    (hen : isDisable w c b [cmd] = false) (hd : isDisable w c b [del] = true) :
    execS t w c inTx true ini (.keyed cmd key) = some (res, [], ini) := by
  simp only [execS, hb, Option.map_some]
  rw [stackCall_eq]
  simp [target_ctl_targetOf, hen, hd, hi]

/-- the short circuit in every environment: nothing issued, nothing initialised, default shape -/
theorem disabled_short_circuit_any_env (t : Table) (w : World) (c : Nat) (inTx inv : Bool)
    (ini : List Nat) (cmd : Cmd) (key : List Nat) (b : Nat) (hb : t.getBackend key = some b)
    (hd : isDisable w c b [cmd] = true) :
    execS t w c inTx inv ini (.keyed cmd key) = some (defaultShape cmd 1, [], ini) := by
  simp only [execS, hb, Option.map_some]
  rw [stackCall_disabled w c inv (targetOf inTx b) cmd [key] ini 0
    (by rw [target_ctl_targetOf]; exact hd)]
  rfl

/-- **One default per key in every environment**: position `i` of a `get_many` answer is the
caller's default whenever the backend that owns `keys[i]` has `get_many` disabled — also inside
`invalidate_further()` and on backends that were never initialised. -/
theorem get_many_default_per_key_any_env (t : Table) (w : World) (c : Nat) (inTx inv : Bool)
    (ini : List Nat) (keys : List (List Nat)) (slots : List Slot) (calls : List BCall) (ini' : List Nat)
    (h : execS t w c inTx inv ini (.getMany keys) = some (.many slots, calls, ini'))
    (i : Nat) (hi : i < keys.length) (b : Nat) (hb : t.getBackend (keys[i]) = some b)
    (hd : isDisable w c b [.getMany] = true) : slots[i]? = some Slot.dflt :=
  execS_getMany_disabled_slot t w c inTx inv ini keys slots calls ini' h i hi b hb hd

/-- **While the whole cache is disabled nothing at all reaches any backend**, whatever the
environment: no command, no deletion, no `init()`; the set of initialised backends is unchanged. -/
theorem fully_disabled_touches_nothing (t : Table) (w : World) (c : Nat) (inTx inv : Bool)
    (ini : List Nat) (f : FCmd) (hfull : facadeFullDisable t w c = true) (res : Res)
    (calls : List BCall) (ini' : List Nat) (h : execS t w c inTx inv ini f = some (res, calls, ini')) :
    calls = [] ∧ ∀ b, b ∈ ini' ↔ b ∈ ini := by
  obtain ⟨h1, h2, h3⟩ := execS_calls t w c inTx inv ini f res calls ini' h
  have hall : ∀ b ∈ t.backends, isDisable w c b [f.cmd] = true := by
    intro b hb
    unfold facadeFullDisable at hfull
    rw [List.all_eq_true] at hfull
    exact isDisable_of_full (hfull b hb) _
  refine ⟨?_, fun b => ⟨?_, h3 b⟩⟩
  · cases hc : calls with
    | nil => rfl
    | cons bc rest =>
      exfalso
      obtain ⟨g1, g2, _⟩ := h1 bc (by simp [hc])
      rw [hall _ g2] at g1
      cases g1
  · intro hb
    rcases h2 b hb with hb | ⟨g1, g2⟩
    · exact hb
    · rw [hall b g1] at g2
      cases g2

/-- **`exec` is the special case** of `execS` outside `invalidate_further()` with every registered
backend initialised: same answer, same commands, no `init()` — so every theorem about `exec` in this
file is a theorem about the full stack in that environment. -/
theorem plain_environment (t : Table) (w : World) (c : Nat) (inTx : Bool) (ini : List Nat) (f : FCmd)
    (hin : ∀ b ∈ t.backends, b ∈ ini) :
    execS t w c inTx false ini f =
      (exec t w c inTx f).map fun rc => (rc.1, rc.2.map BCall.cmd, ini) :=
  execS_plain t w c inTx ini f hin

/-! ## Composite commands: what the facade does behind the caller's back

Tagged `set` / `incr` (→ `set_add` on the tag keys, possibly on a dedicated backend under `_tag:`),
`delete_tags` (→ `set_pop`, `delete_many`), `get_or_set`, `cache.lock` (→ `set_lock`, the liveness probe —
a PING with message `LOCK` routed by the LOCK KEY —, `unlock`),
`@cache.invalidate` (→ `delete_match`) are programs over the facade's own public commands (`Prog`,
`Comp.prog` in `Model/DisableCompose.lean`): every step is routed and runs through the whole middleware
stack, and the next step depends on what the previous one answered (`Env`: the backends' answers and
the keys they report as removed, arbitrary).  The on-remove callback (→ `set_remove` on the tags
backend) is called by a backend while it deletes keys and asks the tags backend directly. -/

/-- **Every backend command a composite causes is enabled for its receiver and routed by longest
prefix** — for EVERY program over the facade's public commands (any control flow over the answers),
every environment (whatever the backends answer, whatever keys they remove), every table, control
state and context, in or outside a transaction and `invalidate_further()`, initialised backends or
not.  (i) Each backend call (command, replacing deletion, `init()`) issued under the facade command `f`
goes to a registered backend that has `f` ENABLED in the caller's context and that is the
longest-prefix backend of every key handed over.  (ii) Each call of the on-remove callback is the
`set_remove` of one tag key, handed to the backend registered — at that moment: no memo (fix D48) — under the
longest prefix of that tag key, which has `set_remove` ENABLED in the caller's context.  Contrapositive: a disabled command — or a disabled (tags) backend —
is never issued anything, also not behind the caller's back. -/
theorem composite_calls_enabled_and_routed (t : Table) (w : World) (c : Nat) (inTx inv : Bool) (env : Env)
    (p : Prog) (ini : List Nat) (n : Nat) :
    (∀ x ∈ PEv.bcalls (Prog.run t w c inTx inv env p ini n).1,
        isDisable w c x.2.backend [x.1.cmd] = false ∧ x.2.backend ∈ t.backends ∧
        ∀ k ∈ x.2.keys, t.getBackend k = some x.2.backend) ∧
    (∀ cl ∈ PEv.cbcalls (Prog.run t w c inTx inv env p ini n).1,
        cl.cmd = .setRemove ∧ isDisable w c cl.target.backend [.setRemove] = false ∧
        (∃ tag, cl.keys = [tagKey tag]) ∧ ∀ k ∈ cl.keys, t.getBackend k = some cl.target.backend) := by
  have hok := Prog.run_ok t w c inTx inv env p ini n
  constructor
  · rintro ⟨f, bc⟩ hx
    obtain ⟨calls, cbs, hev, hbc⟩ := mem_bcalls hx
    exact (hok _ hev).1 bc hbc
  · intro cl hcl
    obtain ⟨f, calls, cbs, hev, hc⟩ := mem_cbcalls hcl
    obtain ⟨h1, _, h3, tag, h4, h5⟩ := (hok _ hev).2 cl hc
    refine ⟨h1, h3, ⟨tag, h4⟩, ?_⟩
    intro k hk
    rw [h4] at hk
    simp only [List.mem_singleton] at hk
    subst hk
    exact h5

/-- the composites of cashews — a single command, `set(tags=)`, `incr(tags=)`, `get_or_set`,
`delete_tags`, `lock`, `@invalidate` — are such programs: the same for each of them -/
theorem cashews_composites_enabled_and_routed (t : Table) (w : World) (c : Nat) (inTx inv : Bool)
    (env : Env) (ini : List Nat) (cm : Comp) :
    (∀ x ∈ PEv.bcalls (runComp t w c inTx inv env ini cm).1,
        isDisable w c x.2.backend [x.1.cmd] = false ∧ x.2.backend ∈ t.backends ∧
        ∀ k ∈ x.2.keys, t.getBackend k = some x.2.backend) ∧
    (∀ cl ∈ PEv.cbcalls (runComp t w c inTx inv env ini cm).1,
        cl.cmd = .setRemove ∧ isDisable w c cl.target.backend [.setRemove] = false ∧
        (∃ tag, cl.keys = [tagKey tag]) ∧ ∀ k ∈ cl.keys, t.getBackend k = some cl.target.backend) :=
  composite_calls_enabled_and_routed t w c inTx inv env cm.prog ini 0

/-- **The tag bookkeeping follows the CURRENT registrations** (fix D48: no memo).  After any history of
`setup()` / `setup_tags_backend()` calls — `_tag:` set up late, set up again, a prefix reaching into the
tag part added — every `set_remove` the on-remove callback issues goes to the backend registered LAST
under the longest prefix, among all prefixes ever registered, of its tag key: the same backend a
`set_add` of that tag key is routed to at that moment. -/
theorem remove_callback_follows_current_registrations (regs : List (List Nat × Nat)) (w : World) (c : Nat)
    (inTx inv : Bool) (env : Env) (p : Prog) (ini : List Nat) (n : Nat) :
    ∀ cl ∈ PEv.cbcalls (Prog.run (Table.ofList regs) w c inTx inv env p ini n).1, ∀ k ∈ cl.keys,
      ∃ q, lastReg regs q = some cl.target.backend ∧ q <+: k ∧
        ∀ r ∈ regs.map (·.1), r <+: k → r.length ≤ q.length := by
  intro cl hcl k hk
  have := ((composite_calls_enabled_and_routed (Table.ofList regs) w c inTx inv env p ini n).2 cl hcl).2.2.2 k hk
  exact (route_follows_current_registrations regs k _).1 this

/-- **When all tag sets live in one backend.**  The callback (like the tagged writes) routes every tag key
`_tag:<tag>` by its own longest prefix.  Provided no registered prefix reaches into the tag part of the
key (every registered prefix of `_tag:<tag>` is a prefix of `_tag:`), that is the backend of `_tag:` —
the one `cache.tags_backend` / `setup_tags_backend()` name.  (No longer a hypothesis of the routing
theorem above: with a registered prefix such as `_tag:u` the tag sets of `u…` simply live elsewhere,
for the writes and for the callback alike.) -/
theorem remove_callback_routed_by_longest_prefix (regs : List (List Nat × Nat)) (tag : List Nat)
    (h : ∀ q ∈ (Table.ofList regs).prefixes, q <+: tagKey tag → q <+: tagPrefix) :
    (Table.ofList regs).getBackend (tagKey tag) = (Table.ofList regs).getBackend tagPrefix := by
  apply getBackend_congr (Table.wf_ofList regs)
  intro q hq
  constructor
  · exact h q hq
  · intro hp
    exact hp.trans (List.prefix_append _ _)

/-- **A disabled step of a composite issues nothing**: whenever a composite runs a single-key (or
pattern, or `ping`) command that is disabled — in the caller's context — for the backend that owns the
key, that step causes no backend call and no callback call.  In particular `set(key, tags=[…])` /
`incr(key, tags=[…])` with `SET_ADD` disabled for the backend of `_tag:<tag>` — through
`disable(Command.SET_ADD)`, or because only the prefix `_tag:` of a dedicated tags backend is disabled —
never hand `set_add` to that backend, while the write itself goes through. -/
theorem disabled_step_issues_nothing (t : Table) (w : World) (c : Nat) (inTx inv : Bool) (env : Env)
    (p : Prog) (ini : List Nat) (n : Nat) (cmd : Cmd) (key : List Nat) (b : Nat)
    (hb : t.getBackend key = some b) (hd : isDisable w c b [cmd] = true)
    (calls : List BCall) (cbs : List Call)
    (hev : PEv.sub (.keyed cmd key) calls cbs ∈ (Prog.run t w c inTx inv env p ini n).1) :
    calls = [] ∧ cbs = [] := by
  obtain ⟨ini0, n0, res, ini', he, hc⟩ := Prog.run_sub t w c inTx inv env p ini n _ calls cbs hev
  rw [disabled_short_circuit_any_env t w c inTx inv ini0 cmd key b hb hd] at he
  simp only [Option.some.injEq, Prod.mk.injEq] at he
  obtain ⟨_, rfl, _⟩ := he
  refine ⟨rfl, ?_⟩
  rcases hc with hc | hc
  · exact hc
  · simpa [callbacksFrom] using hc.symm

/-- **While the whole cache is disabled a composite touches no backend at all**: no command, no
`init()`, no callback call — whatever the program and the environment. -/
theorem fully_disabled_composite_touches_nothing (t : Table) (w : World) (c : Nat) (inTx inv : Bool)
    (env : Env) (p : Prog) (ini : List Nat) (n : Nat) (hfull : facadeFullDisable t w c = true) :
    PEv.bcalls (Prog.run t w c inTx inv env p ini n).1 = [] ∧
    PEv.cbcalls (Prog.run t w c inTx inv env p ini n).1 = [] := by
  obtain ⟨h1, h2⟩ := composite_calls_enabled_and_routed t w c inTx inv env p ini n
  constructor
  · cases hc : PEv.bcalls (Prog.run t w c inTx inv env p ini n).1 with
    | nil => rfl
    | cons x r =>
      exfalso
      obtain ⟨g1, g2, _⟩ := h1 x (by simp [hc])
      rw [full_disables_all hfull g2] at g1
      cases g1
  · cases hc : PEv.cbcalls (Prog.run t w c inTx inv env p ini n).1 with
    | nil => rfl
    | cons cl r =>
      exfalso
      obtain ⟨_, g2, ⟨tag, g3⟩, g4⟩ := h2 cl (by simp [hc])
      rw [full_disables_all hfull (getBackend_mem_backends (g4 (tagKey tag) (by simp [g3])))] at g2
      cases g2

/-- **`cache.lock` while `set_lock` is disabled: no locking, the block runs, nothing is issued** (and
nothing raises, nothing spins — finding D22e): `set_lock` answers `None`, the body runs once, `unlock`
and `ping` are not even attempted. -/
theorem lock_with_set_lock_disabled (t : Table) (w : World) (c : Nat) (inTx inv : Bool) (env : Env)
    (ini : List Nat) (key : List Nat) (b : Nat) (wait : Bool) (fuel : Nat)
    (hb : t.getBackend key = some b) (hd : isDisable w c b [.setLock] = true) :
    runComp t w c inTx inv env ini (.lock key wait (fuel + 1)) =
      ([.sub (.keyed .setLock key) [] [], .body], .ret .none_, ini) := by
  simp [runComp, Comp.prog, lockProg, Prog.run,
    disabled_short_circuit_any_env t w c inTx inv ini .setLock key b hb hd, callbacksFrom, toAns,
    defaultShape]

/-- **`cache.lock` asks the owner of the lock key, and nobody else** (fix D43).  Every backend call the
lock composite causes — `set_lock`, the liveness probe (a PING with message `LOCK`), `unlock`, `init()` —
is issued under a single-key command on the LOCK KEY and goes to the backend registered under the
longest prefix of the lock key: the probe is routed, and disable-checked, by the key, not by the text
of its message.  Hence whether the default backend exists, is disabled or has PING disabled is
irrelevant for a lock whose key lives elsewhere; and (when the backends report no removed keys to the
tag bookkeeping) a lock on a key that has a backend never ends in `NotConfiguredError`: a lock held by
somebody else is waited for / raises `LockedError`, with or without a default backend. -/
theorem lock_asks_only_the_owner_of_the_lock_key (t : Table) (w : World) (c : Nat) (inTx inv : Bool)
    (env : Env) (ini : List Nat) (key : List Nat) (wait : Bool) (fuel : Nat) (b : Nat)
    (hb : t.getBackend key = some b) :
    (∀ x ∈ PEv.bcalls (runComp t w c inTx inv env ini (.lock key wait fuel)).1,
        (∃ cmd, x.1 = .keyed cmd key) ∧ x.2.backend = b ∧ isDisable w c b [x.1.cmd] = false) ∧
    ((∀ n, env.removed n = []) →
        (runComp t w c inTx inv env ini (.lock key wait fuel)).2.1 ≠ .notConfigured) := by
  constructor
  · rintro ⟨f, bc⟩ hx
    obtain ⟨calls, cbs, hev, hbc⟩ := mem_bcalls hx
    obtain ⟨cmd, rfl⟩ := Prog.run_onlyKey_sub t w c inTx inv env key _ (lockProg_onlyKey key wait fuel)
      ini 0 f calls cbs hev
    obtain ⟨ini0, n0, res, ini', he, _⟩ := Prog.run_sub t w c inTx inv env _ ini 0 _ calls cbs hev
    have hbk := execS_keyed_backend hb he bc hbc
    have hen := ((composite_calls_enabled_and_routed t w c inTx inv env _ ini 0).1 _ hx).1
    refine ⟨⟨cmd, rfl⟩, hbk, ?_⟩
    simpa [hbk] using hen
  · intro hrm
    exact Prog.run_onlyKey_configured t w c inTx inv env key b hb hrm _ (lockProg_onlyKey key wait fuel) ini 0

/-- **`get_or_set` while `get` is disabled: the caller's default is computed on every call** (a
disabled read answers the miss sentinel), and the following `set` is issued only if `set` is enabled. -/
theorem get_or_set_with_get_disabled (t : Table) (w : World) (c : Nat) (inTx inv : Bool) (env : Env)
    (ini : List Nat) (key : List Nat) (b : Nat)
    (hb : t.getBackend key = some b) (hd : isDisable w c b [.get] = true) :
    ∃ rest, (runComp t w c inTx inv env ini (.getOrSet key)).1 =
      .sub (.keyed .get key) [] [] :: .body :: rest ∧
      PEv.bodies (runComp t w c inTx inv env ini (.getOrSet key)).1 = 1 := by
  have h0 : (runComp t w c inTx inv env ini (.getOrSet key)).1 =
      .sub (.keyed .get key) [] [] :: .body ::
        (Prog.run t w c inTx inv env (.call (.keyed .set key) fun _ => .done .truthy) ini 0).1 := by
    simp [runComp, Comp.prog, Prog.run,
      disabled_short_circuit_any_env t w c inTx inv ini .get key b hb hd, callbacksFrom, toAns,
      defaultShape]
  refine ⟨_, h0, ?_⟩
  rw [h0]
  simp [PEv.bodies, bodies_call_done]

/-! ## Histories: registration, control and commands interleaved -/

/-- **Every command of every history is routed by the registrations made before it.**  Take any
history — `setup()` of new prefixes and of prefixes registered already (enabled or disabled, from any
task), `init()`, control operations, `invalidate_further()` blocks, earlier commands — and run one
more public command.  Every backend call it causes goes to a backend that is, at that moment, the
LAST registration of some prefix; every key handed over has that prefix as its longest match among
all prefixes registered so far; and the receiver has the command enabled in the caller's context. -/
theorem routing_follows_current_registrations (before : List HOp) (c : Nat) (inTx : Bool) (f : FCmd)
    (res : Res) (calls : List BCall)
    (h : (hstep (hrun Sys.fresh before) (.cmd c inTx f)).2 = .cmd (some (res, calls))) :
    ∀ bc ∈ calls,
      isDisable (hrun Sys.fresh before).w c bc.backend [f.cmd] = false ∧
      (∃ p, lastReg (HOp.setups before) p = some bc.backend) ∧
      ∀ k ∈ bc.keys, ∃ p, lastReg (HOp.setups before) p = some bc.backend ∧ p <+: k ∧
        ∀ q ∈ (HOp.setups before).map (·.1), q <+: k → q.length ≤ p.length := by
  obtain ⟨ini', he⟩ := hstep_cmd_out h
  intro bc hbc
  obtain ⟨h1, h2, h3⟩ := (execS_calls _ _ c inTx _ _ f res calls ini' he).1 bc hbc
  rw [hrun_fresh_t] at h2 h3
  refine ⟨h1, (Table.mem_backends_ofList _ _).1 h2, ?_⟩
  intro k hk
  exact (Table.getBackend_ofList_iff _ k _).1 (h3 k hk)

/-- the states reached by any history from a fresh cache: the control state is well formed and every
backend is enabled by default — `setup(disable=True)` stores the disabled state in the context
variable (`backend.disable()`), never in `enable_by_default` -/
theorem reachable_history_ok (ops : List HOp) :
    (hrun Sys.fresh ops).w.Ok ∧ ∀ b, (hrun Sys.fresh ops).w.enableByDefault b = true := by
  refine ⟨hrun_ok ops (World.ok_init true), ?_⟩
  intro b
  rw [hrun_enableByDefault]
  rfl

/-! ## Context locality (model of ContextVar copy semantics, asyncio assumption A3) -/

/-- **A change of the enabled/disabled state made in one task is not visible to tasks that did not
inherit it.**  Take any well-formed control state (`w.Ok`), any sequence of `disable` / `enable` /
`disabling()` entries and exits (any commands, any prefixes) and task creations, none of which runs
in — or creates — context `c'`, and a backend `b` that is enabled by default OR whose shared
`_control_set` flag is raised already.  Then every answer of `is_disable` and `is_full_disable` in
`c'` for `b`, for every command set, is what it was before.
The hypothesis on `b` is exactly what is needed (`default_disabled_state_leaks`): `_control_set` is a
plain attribute shared by all contexts, and `is_disable` consults `enable_by_default` only while it
is down.  In cashews `enable_by_default` is `True` for every backend, always
(`reachable_history_ok`), so the hypothesis holds in every reachable state. -/
theorem disable_is_context_local (t : Table) (w : World) (hw : w.Ok) (ops : List CtlOp) (c' : Nat)
    (hops : ∀ op ∈ ops, op.target ≠ c') (b : Nat)
    (hb : w.enableByDefault b = true ∨ w.controlSet b = true) (cmds : List Cmd) :
    isDisable (ctlRun t w ops) c' b cmds = isDisable w c' b cmds ∧
    isFullDisable (ctlRun t w ops) c' b = isFullDisable w c' b :=
  view_unchanged hw (ok_ctlRun (t := t) ops hw) b c'
    (by rw [ctlRun_var_other t c' ops w hops]) (by rw [ctlRun_enableByDefault])
    (ctlRun_controlSet_mono t b ops w) hb cmds

/-- **Why the hypothesis is needed: a disabled state kept in `enable_by_default` leaks.**  If a
backend is disabled "by default" (`enable_by_default = False`) and nobody has touched its control
state yet, every context sees it fully disabled — and the FIRST `disable` / `enable` / `disabling()`
for it in ANY context `c`, with whatever commands (even a further restriction), makes every OTHER
context `c'` see it fully enabled.  A disabled state that must survive other tasks' control calls
therefore has to live in the context variable (`backend.disable()`), as `Wrapper.setup` does. -/
theorem default_disabled_state_leaks (t : Table) (w : World) (hw : w.Ok) (b : Nat)
    (he : w.enableByDefault b = false) (hc : w.controlSet b = false) (c c' : Nat) (hne : c ≠ c')
    (p : List Nat) (hp : t.getBackend p = some b) (cmds : List Cmd) (op : CtlOp)
    (hop : op = .disable c cmds p ∨ op = .enable c cmds p ∨ op = .exitDisabling c cmds p) :
    isFullDisable w c' b = true ∧
    (∀ cs, isDisable (ctlStep t w op).1 c' b cs = false) ∧
    isFullDisable (ctlStep t w op).1 c' b = false := by
  have hv : w.var c' b = [] := hw b hc c'
  have hcc : ¬ c' = c := fun e => hne e.symm
  refine ⟨by simp [isFullDisable, hc, he], ?_⟩
  rcases hop with rfl | rfl | rfl <;>
    simp only [ctlStep, hp, disableB, enableB] <;>
    refine ⟨fun cs => by simp [isDisable, setVar, hcc, hv], by simp [isFullDisable, setVar, hcc, hv]; exact ⟨.get, Cmd.mem_all _⟩⟩

/-- **Locality along whole histories.**  In any history — registrations (also `disable=True`, run
by other tasks), re-registrations, `init()`, control operations, task creations,
`invalidate_further()` blocks, commands — in which no operation changes the control state from
context `c'` (or creates `c'`), the view `c'` has of every backend object that is enabled by default
or was touched before stays what it was.  (What `cache.is_disable(prefix=p)` answers may still change
when `p` is registered again: that is the routing table, `route_follows_current_registrations`.) -/
theorem history_control_is_context_local (s : Sys) (hw : s.w.Ok) (ops : List HOp) (c' : Nat)
    (hops : ∀ op ∈ ops, op.target ≠ some c') (b : Nat)
    (hb : s.w.enableByDefault b = true ∨ s.w.controlSet b = true) (cmds : List Cmd) :
    isDisable (hrun s ops).w c' b cmds = isDisable s.w c' b cmds ∧
    isFullDisable (hrun s ops).w c' b = isFullDisable s.w c' b :=
  view_unchanged hw (hrun_ok ops hw) b c'
    (by rw [hrun_var_other c' ops s hops]) (by rw [hrun_enableByDefault])
    (hrun_controlSet_mono b ops s) hb cmds

/-- a new task starts with exactly its creator's view (and the creator's own view is unchanged) -/
theorem child_inherits_parent_state (w : World) (parent child : Nat) (b : Nat) (cmds : List Cmd) :
    isDisable (fork w parent child) child b cmds = isDisable w parent b cmds ∧
    isFullDisable (fork w parent child) child b = isFullDisable w parent b ∧
    (child ≠ parent → isDisable (fork w parent child) parent b cmds = isDisable w parent b cmds) := by
  refine ⟨by simp [isDisable, fork], by simp [isFullDisable, fork], ?_⟩
  intro h
  have : ¬ parent = child := fun e => h e.symm
  simp [isDisable, fork, this]

/-- the states reached from a fresh cache are `Ok` and every backend is enabled by default, so
`disable_is_context_local` applies to them -/
theorem reachable_ok (t : Table) (ops : List CtlOp) :
    (ctlRun t (World.init true) ops).Ok ∧ ∀ b, (ctlRun t (World.init true) ops).enableByDefault b = true :=
  ⟨ok_ctlRun ops (World.ok_init true), fun b => by rw [ctlRun_enableByDefault]; rfl⟩

/-! ## Non-vacuity: the models compute, the hypotheses are satisfiable -/

open CashewsVerif.Disable.Ex   -- T5, W1, T1, Wfull: the concrete tables / states used below

-- sorted(reverse=True) = ["b", "ab", "a:", "a", ""]
example : T5.sorted = [[98], [97, 98], [97, 58], [97], []] := by decide
example : Desc T5.sorted := desc_sortDesc (Table.wf_ofList _)
-- "abc" → "ab";  "a:x" → "a:";  "ac" → "a";  "c" → "";  "b" → "b"
example : T5.getBackend [97, 98, 99] = some 2 := by decide
example : T5.getBackend [97, 58, 120] = some 3 := by decide
example : T5.getBackend [97, 99] = some 1 := by decide
example : T5.getBackend [99] = some 0 := by decide
example : T5.getBackend [98] = some 4 := by decide
example : longestMatch T5.prefixes [97, 98, 99] = some [97, 98] := by decide
-- without the "" prefix a foreign key is not configured
example : (Table.ofList [([97], 1)]).getBackend [98] = none := by decide
-- ascending order would pick "" for every key: the descending hypothesis matters
example : firstMatch [[], [97], [97, 98]] [97, 98, 99] = some [] := by decide
-- re-registering a prefix replaces the backend and keeps the table well formed
example : (Table.ofList [([97], 1), ([], 0), ([97], 7)]).getBackend [97, 98] = some 7 := by decide

-- get_many("abc", "c", "ax", "ab", "b") is split into ab:[abc, ab], "":[c], b:[b]; the group of the
-- disabled backend "a" issues nothing; slots come back in the caller's order
example : exec T5 W1 0 false (.getMany [[97, 98, 99], [99], [97, 120], [97, 98], [98]]) =
    some (.many [.resp 0 0, .resp 1 0, .dflt, .resp 0 1, .resp 2 0],
      [⟨.raw 2, .getMany, [[97, 98, 99], [97, 98]]⟩, ⟨.raw 0, .getMany, [[99]]⟩,
       ⟨.raw 4, .getMany, [[98]]⟩]) := by decide
-- the child context 1 never inherited the change: its get_many reaches backend 1
example : exec T5 W1 1 false (.getMany [[97, 120]]) =
    some (.many [.resp 0 0], [⟨.raw 1, .getMany, [[97, 120]]⟩]) := by decide
-- `Positional` is satisfiable: backends answer "(backend, key)"
example : Positional [⟨.raw 2, .getMany, [[97, 98, 99], [97, 98]]⟩, (⟨.raw 0, .getMany, [[99]]⟩ : Call)]
    (fun ci j => (([2, 0] : List Nat).getD ci 9,
      (([[[97, 98, 99], [97, 98]], [[99]]] : List (List (List Nat))).getD ci []).getD j []))
    (fun b k => (b, k)) := by
  intro ci h j hj
  match ci, h with
  | 0, _ =>
    match j, hj with
    | 0, _ => rfl
    | 1, _ => rfl
  | 1, _ =>
    match j, hj with
    | 0, _ => rfl
-- disabled scan inside a transaction: nothing issued, empty stream
example : exec T5 (ctlRun T5 (World.init true) [.disable 0 [] []]) 0 true (.keyed .scan [42]) =
    some (.emptyStream, []) := by decide
-- enabled set inside a transaction goes to the wrapper of the routed backend
example : exec T5 (World.init true) 0 true (.keyed .set [97, 98, 99]) =
    some (.resp 0, [⟨.tx 2, .set, [[97, 98, 99]]⟩]) := by decide
-- get_keys_count with backend "" disabled sums the other four
example : exec T5 (ctlRun T5 (World.init true) [.disable 0 [] []]) 0 false .keysCount =
    some (.sum [0, 1, 2, 3], [⟨.raw 1, .getKeysCount, []⟩, ⟨.raw 2, .getKeysCount, []⟩,
      ⟨.raw 3, .getKeysCount, []⟩, ⟨.raw 4, .getKeysCount, []⟩]) := by decide
-- `cache.disable()` touches the backend of prefix "" only: the cache is not fully disabled
example : facadeFullDisable T5 (ctlRun T5 (World.init true) [.disable 0 [] []]) 0 = false := by decide

example : facadeFullDisable T1 Wfull 0 = true := by decide
example : (decoratedCalls T1 Wfull 0 [107] 3 DecSt.init).map (fun s => (s.execs, s.calls.length)) =
    some (3, 0) := by decide
-- enabled: first call misses (get, set), the next two hit (get): the body ran once
example : (decoratedCalls T1 (World.init true) 0 [107] 3 DecSt.init).map
    (fun s => (s.execs, s.calls.map (·.cmd))) = some (1, [.get, .set, .get, .get]) := by decide
-- three overlapping calls under a full disable (two with the same key), bodies return out of order:
-- three executions, nothing issued, each caller gets its own execution
example : let s := cdrain (crun T1 true ⟨Wfull, CSt.init⟩
      [.start 10 0 [107], .start 11 0 [107], .start 12 0 [108], .finish 11, .finish 10]).s
    (s.execs, s.results, s.calls.length, s.flights.length) = (3, [(11, 1), (10, 0), (12, 2)], 0, 0) := by
  decide
example : AllStartsFull T1 Wfull
    [.start 10 0 [107], .start 11 0 [107], .start 12 0 [108], .finish 11, .finish 10] := by
  simp only [AllStartsFull]; decide
-- the same calls with the cache enabled and `protected=True`: the second call joins the first
-- (one execution for key "k"), both are handed execution 0; "l" runs its own
example : let s := cdrain (crun T1 true ⟨World.init true, CSt.init⟩
      [.start 10 0 [107], .start 11 0 [107], .start 12 0 [108], .finish 11, .finish 10]).s
    (s.execs, s.results, s.calls.map (·.cmd)) =
      (2, [(10, 0), (11, 0), (12, 1)], [.get, .get, .set, .set]) := by decide
-- `protected=False`, enabled: no joining, both miss and both store
example : let s := cdrain (crun T1 false ⟨World.init true, CSt.init⟩
      [.start 10 0 [107], .start 11 0 [107]]).s
    (s.execs, s.results, s.calls.map (·.cmd)) = (2, [(10, 0), (11, 1)], [.get, .get, .set, .set]) := by
  decide
-- mixed: the child (context 1) re-enabled the cache for itself and has a protected call in flight;
-- the parent (context 0, fully disabled) calls with the same key: it runs its own body and the
-- child's later call joins the child's, never the parent's
example : let w := ctlRun T1 (World.init true) [.disable 0 [] [], .fork 0 1, .enable 1 [] []]
    let s := cdrain (crun T1 true ⟨w, CSt.init⟩
      [.start 10 1 [107], .start 11 0 [107], .start 12 1 [107], .finish 11, .finish 10]).s
    (s.execs, s.results) = (2, [(11, 1), (10, 0), (12, 0)]) := by decide
-- a control operation between the calls: enabled call in flight, then the cache is disabled and
-- the same key is called again: own body, and the first call still stores its result
example : let s := cdrain (crun T1 true ⟨World.init true, CSt.init⟩
      [.start 10 0 [107], .ctl (.disable 0 [] []), .start 11 0 [107]]).s
    (s.execs, s.results, s.calls.map (·.cmd), s.cached) =
      (2, [(10, 0), (11, 1)], [.get, .set], [([107], 0)]) := by decide
-- sequential calls through the overlapping-calls model agree with `decoratedCalls`
example : let s := (crun T1 true ⟨World.init true, CSt.init⟩
      [.start 0 0 [107], .finish 0, .start 1 0 [107], .start 2 0 [107]]).s
    (some (s.execs, s.calls) : Option (Nat × List Call)) =
      (decoratedCalls T1 (World.init true) 0 [107] 3 DecSt.init).map (fun d => (d.execs, d.calls)) := by
  decide
-- disabling() nests by plain set arithmetic: leaving the inner block re-enables its commands
example : isDisable (ctlRun T1 (World.init true)
    [.disable 0 [.get] [], .disable 0 [.get, .set] [], .exitDisabling 0 [.get, .set] []]) 0 0 [.get]
    = false := by decide
-- parent disables, forks a child, re-enables: the child still sees the cache disabled;
-- the child's own `enable` does not reach the parent
example : let w := ctlRun T1 (World.init true) [.disable 0 [] [], .fork 0 1, .enable 0 [] []]
    (isDisable w 0 0 [.set], isDisable w 1 0 [.set]) = (false, true) := by decide
example : let w := ctlRun T1 (World.init true) [.disable 0 [] [], .fork 0 1, .enable 1 [] []]
    (isFullDisable w 0 0, isFullDisable w 1 0) = (true, false) := by decide
-- why `disable_is_context_local` needs its hypothesis: `_control_set` is a plain attribute, so with
-- `enable_by_default = False` a change in context 1 flips context 0's view
example : isDisable (World.init false) 0 0 [.set] = true ∧
    isDisable (ctlRun T1 (World.init false) [.disable 1 [.get] []]) 0 0 [.set] = false := by decide
-- the premises of `default_disabled_state_leaks` are satisfiable: backend 0 disabled by default, untouched
example : (World.init false).Ok ∧ (World.init false).enableByDefault 0 = false ∧
    (World.init false).controlSet 0 = false ∧ T1.getBackend [] = some 0 :=
  ⟨World.ok_init false, rfl, rfl, by decide⟩
-- ... while a backend disabled through the context variable (what `setup(disable=True)` does) keeps its
-- state in context 0 when context 1 enables a command for itself
example : let w := ctlRun T1 (World.init true) [.disable 0 [] [], .fork 0 1, .enable 1 [.get] []]
    (isFullDisable w 0 0, isDisable w 1 0 [.get], isDisable w 1 0 [.set]) = (true, false, true) := by decide

-- re-registration: the last registration of a prefix counts
example : lastReg [([97], 1), ([], 0), ([97], 7)] [97] = some 7 := by decide
example : (Table.ofList ([([97], 1), ([], 0)] ++ [([97], 7)])).getBackend [97, 98] = some 7 :=
  registration_takes_effect_at_once _ [97] 7 [97, 98] (by decide) (by decide)

-- the middleware stack.  Context 0 has disabled everything for backend 0 (`Wfull`); inside
-- `invalidate_further()` on a backend that was never initialised a `get` issues nothing at all ...
example : execS T1 Wfull 0 false true [] (.keyed .get [107]) = some (.dflt, [], []) := by decide
example : execS T1 Wfull 0 false true [] (.getMany [[107], [108]]) = some (.many [.dflt, .dflt], [], []) := by
  decide
-- ... while with the opposite wrapping order (disable check innermost) a disabled `get` (only `get` is disabled:
-- `Wdis`) initialises the backend and, inside `invalidate_further()`, deletes the key
example : runChain Wdis 0 true (.raw 0) .get [[107]] (chainOf defaultMws.reverse) [] 0 =
    (.dflt, [.init (.raw 0), .cmd ⟨.raw 0, .delete, [[107]]⟩], [0]) := by decide
example : runChain Wfull 0 false (.raw 0) .get [[107]] (chainOf defaultMws.reverse) [] 0 =
    (.dflt, [.init (.raw 0)], [0]) := by decide
-- enabled: the first command initialises the backend, the next one does not; inside
-- `invalidate_further()` a read becomes the deletion and answers the default / `None` per key
example : execS T1 (World.init true) 0 false false [] (.keyed .get [107]) =
    some (.resp 1, [.init (.raw 0), .cmd ⟨.raw 0, .get, [[107]]⟩], [0]) := by decide
example : execS T1 (World.init true) 0 false false [0] (.keyed .get [107]) =
    some (.resp 0, [.cmd ⟨.raw 0, .get, [[107]]⟩], [0]) := by decide
example : execS T1 (World.init true) 0 true true [0] (.keyed .get [107]) =
    some (.dflt, [.cmd ⟨.tx 0, .delete, [[107]]⟩], [0]) := by decide
example : execS T1 (World.init true) 0 false true [0] (.getMany [[107], [108]]) =
    some (.many [.missing, .missing], [.cmd ⟨.raw 0, .deleteMany, [[107], [108]]⟩], [0]) := by decide
-- D46: `delete` alone is disabled; get("k") inside invalidate_further() is answered as a miss and deletes nothing;
-- get_many with `delete_many` disabled likewise
example : execS T1 (ctlRun T1 (World.init true) [.disable 0 [.delete] []]) 0 false true [0] (.keyed .get [107]) =
    some (.dflt, [], [0]) := by decide
example : execS T1 (ctlRun T1 (World.init true) [.disable 0 [.deleteMany] []]) 0 false true [0] (.getMany [[107], [108]]) =
    some (.many [.missing, .missing], [], [0]) := by decide
-- `set` is not a retrieve command: `invalidate_further()` leaves it alone
example : execS T1 (World.init true) 0 false true [0] (.keyed .set [107]) =
    some (.resp 0, [.cmd ⟨.raw 0, .set, [[107]]⟩], [0]) := by decide
-- partly disabled get_many inside invalidate_further(): defaults for the disabled owner "a",
-- deletions (and `None`s) for the others
example : execS T5 W1 0 false true [0, 1, 2, 3, 4] (.getMany [[97, 98, 99], [97, 120], [99]]) =
    some (.many [.missing, .dflt, .missing],
      [.cmd ⟨.raw 2, .deleteMany, [[97, 98, 99]]⟩, .cmd ⟨.raw 0, .deleteMany, [[99]]⟩], [0, 1, 2, 3, 4]) := by
  decide

-- a history: "" and "u:" are set up (backends 0, 1) and initialised, "u:1" is read; then "u:" is
-- registered again, disabled, by task 0 (backend 2, never initialised): the same key is now the
-- business of backend 2, which is disabled for task 0 — nothing is issued, nothing initialised —
-- but enabled for task 1, which did not inherit the change: its read initialises and asks backend 2
def H0 : List HOp :=
  [.setup 0 [] 0 false, .setup 0 [117, 58] 1 false, .initB 0, .initB 1, .ctl (.fork 0 1)]
example : (hstep (hrun Sys.fresh H0) (.cmd 0 false (.keyed .get [117, 58, 49]))).2 =
    .cmd (some (.resp 0, [.cmd ⟨.raw 1, .get, [[117, 58, 49]]⟩])) := by decide
example : (hstep (hrun Sys.fresh (H0 ++ [.cmd 0 false (.keyed .get [117, 58, 49]), .setup 0 [117, 58] 2 true]))
      (.cmd 0 false (.keyed .get [117, 58, 49]))).2 = .cmd (some (.dflt, [])) := by decide
example : (hstep (hrun Sys.fresh (H0 ++ [.cmd 0 false (.keyed .get [117, 58, 49]), .setup 0 [117, 58] 2 true]))
      (.cmd 1 false (.keyed .get [117, 58, 49]))).2 =
    .cmd (some (.resp 1, [.init (.raw 2), .cmd ⟨.raw 2, .get, [[117, 58, 49]]⟩])) := by decide
example : HOp.setups (H0 ++ [.setup 0 [117, 58] 2 true]) = [([], 0), ([117, 58], 1), ([117, 58], 2)] := by
  decide

-- composite commands.  `TT`: default backend 0 and a dedicated tags backend 1 under "_tag:"; in `WtagOff`
-- task 0 has switched the prefix "_tag:" off (task 1 was forked before and does not see it).
-- set("u", v, tags=["t"]) by task 0: the write reaches backend 0, `set_add("_tag:t")` is NOT issued ...
example : runComp TT WtagOff 0 false false envT [0, 1] (.setTagged [117] [[116]]) =
    ([.sub (.keyed .set [117]) [.cmd ⟨.raw 0, .set, [[117]]⟩] [],
      .sub (.keyed .setAdd (tagKey [116])) [] []], .ret .truthy, [0, 1]) := by decide
-- ... by task 1 it is, on the tags backend (longest prefix of "_tag:t" is "_tag:")
example : runComp TT WtagOff 1 false false envT [0, 1] (.setTagged [117] [[116]]) =
    ([.sub (.keyed .set [117]) [.cmd ⟨.raw 0, .set, [[117]]⟩] [],
      .sub (.keyed .setAdd (tagKey [116])) [.cmd ⟨.raw 1, .setAdd, [tagKey [116]]⟩] []], .ret .truthy, [0, 1]) := by
  decide
-- only `set_add` disabled (`cache.disable(Command.SET_ADD)` on both backends): incr("u", tags=["t","s"]) issues the incr alone
example : runComp TT WaddOff 0 false false envT [0, 1] (.incrTagged [117] [[116], [115]]) =
    ([.sub (.keyed .incr [117]) [.cmd ⟨.raw 0, .incr, [[117]]⟩] [],
      .sub (.keyed .setAdd (tagKey [116])) [] [], .sub (.keyed .setAdd (tagKey [115])) [] []],
     .ret .truthy, [0, 1]) := by decide
-- a write that did not happen (`set` answered False / is disabled) registers nothing
example : (runComp TT (World.init true) 0 false false ⟨fun _ => .falsy, fun _ => []⟩ [0, 1]
    (.setTagged [117] [[116]])).1 = [.sub (.keyed .set [117]) [.cmd ⟨.raw 0, .set, [[117]]⟩] []] := by decide
-- delete("u") removes a key tagged "t": the callback asks the tags backend directly — unless the caller
-- has it disabled
example : (runComp TT WtagOff 1 false false envRm [0, 1] (.one (.keyed .delete [117]))).1 =
    [.sub (.keyed .delete [117]) [.cmd ⟨.raw 0, .delete, [[117]]⟩] [⟨.raw 1, .setRemove, [tagKey [116]]⟩]] := by
  decide
example : (runComp TT WtagOff 0 false false envRm [0, 1] (.one (.keyed .delete [117]))).1 =
    [.sub (.keyed .delete [117]) [.cmd ⟨.raw 0, .delete, [[117]]⟩] []] := by decide
-- delete_tags("t"): set_pop on the tags backend, delete_many of the members on their own backends
-- ("_x" is served by the default backend: "_tag:" is not a prefix of it), one round (fewer than 100 members)
example : runComp TT (World.init true) 0 false false envPop [0, 1] (.deleteTags [[116]] 3) =
    ([.sub (.keyed .setPop (tagKey [116])) [.cmd ⟨.raw 1, .setPop, [tagKey [116]]⟩] [],
      .sub (.deleteMany [[117], [95, 120]]) [.cmd ⟨.raw 0, .deleteMany, [[117], [95, 120]]⟩] []],
     .ret .none_, [0, 1]) := by decide
-- ... with `set_pop` disabled for the tags backend nothing at all is issued
example : (runComp TT WtagOff 0 false false envPop [0, 1] (.deleteTags [[116]] 3)).1 =
    [.sub (.keyed .setPop (tagKey [116])) [] []] := by decide
-- lock("u", wait=False) while somebody else holds it: set_lock, the probe — a PING routed by the lock key "u" —, then
-- LockedError; with `ping` disabled for the key's backend the block runs unlocked; a free lock: set_lock, block, unlock
example : runComp TT (World.init true) 0 false false envHeld [0, 1] (.lock [117] false 2) =
    ([.sub (.keyed .setLock [117]) [.cmd ⟨.raw 0, .setLock, [[117]]⟩] [],
      .sub (.keyed .ping [117]) [.cmd ⟨.raw 0, .ping, [[117]]⟩] []], .locked, [0, 1]) := by decide
example : (runComp TT (ctlRun TT (World.init true) [.disable 0 [.ping] []]) 0 false false envHeld [0, 1]
    (.lock [117] false 2)).2.1 = .ret .none_ := by decide
example : (runComp TT (World.init true) 0 false false envT [0, 1] (.lock [117] false 2)).1 =
    [.sub (.keyed .setLock [117]) [.cmd ⟨.raw 0, .setLock, [[117]]⟩] [], .body,
     .sub (.keyed .unlock [117]) [.cmd ⟨.raw 0, .unlock, [[117]]⟩] []] := by decide
-- D43: the lock key "ak" lives on the backend of prefix "a" (1); there is NO default backend — "LOCK" has no backend —
-- and the lock is held by somebody else: the probe asks backend 1 and the outcome is LockedError, not NotConfigured
example : (Table.ofList [([97], 1)]).getBackend lockPing = none ∧
    runComp (Table.ofList [([97], 1)]) (World.init true) 0 false false envHeld [1] (.lock [97, 107] false 2) =
      ([.sub (.keyed .setLock [97, 107]) [.cmd ⟨.raw 1, .setLock, [[97, 107]]⟩] [],
        .sub (.keyed .ping [97, 107]) [.cmd ⟨.raw 1, .ping, [[97, 107]]⟩] []], .locked, [1]) := by decide
-- D43: a default backend (0) with PING disabled — even fully disabled — does not let a contender of a lock on "ak" through ...
example : (runComp (Table.ofList [([], 0), ([97], 1)])
      (ctlRun (Table.ofList [([], 0), ([97], 1)]) (World.init true) [.disable 0 [] []]) 0 false false envHeld [0, 1]
      (.lock [97, 107] false 2)).2.1 = .locked := by decide
-- ... while PING disabled for the OWNER of the lock key does (no liveness answer: the block runs, nothing else is issued)
example : runComp (Table.ofList [([], 0), ([97], 1)])
      (ctlRun (Table.ofList [([], 0), ([97], 1)]) (World.init true) [.disable 0 [.ping] [97]]) 0 false false envHeld [0, 1]
      (.lock [97, 107] false 2) =
    ([.sub (.keyed .setLock [97, 107]) [.cmd ⟨.raw 1, .setLock, [[97, 107]]⟩] [],
      .sub (.keyed .ping [97, 107]) [] [], .body], .ret .none_, [0, 1]) := by decide
-- a plain `cache.ping(b"LOCK")` is still routed by the text of its message
example : (runComp (Table.ofList [([], 0), ([97], 1)]) (World.init true) 0 false false envT [0, 1]
    (.one (.keyed .ping lockPing))).1 = [.sub (.keyed .ping lockPing) [.cmd ⟨.raw 0, .ping, [lockPing]⟩] []] := by decide
-- the premises of `lock_with_set_lock_disabled` / `disabled_step_issues_nothing` are satisfiable
example : TT.getBackend (tagKey [116]) = some 1 ∧ isDisable WtagOff 0 1 [.setAdd] = true ∧
    isDisable WtagOff 1 1 [.setAdd] = false := by decide
-- get_or_set("u") on a miss: get, the default, set; inside invalidate_further() the read is replaced by a deletion
example : (runComp TT (World.init true) 0 false false ⟨fun _ => .dflt, fun _ => []⟩ [0, 1] (.getOrSet [117])).1 =
    [.sub (.keyed .get [117]) [.cmd ⟨.raw 0, .get, [[117]]⟩] [], .body,
     .sub (.keyed .set [117]) [.cmd ⟨.raw 0, .set, [[117]]⟩] []] := by decide
example : (runComp TT (World.init true) 0 false true envT [0, 1] (.getOrSet [117])).1 =
    [.sub (.keyed .get [117]) [.cmd ⟨.raw 0, .delete, [[117]]⟩] [], .body,
     .sub (.keyed .set [117]) [.cmd ⟨.raw 0, .set, [[117]]⟩] []] := by decide
-- the hypothesis of `remove_callback_routed_by_longest_prefix` holds for `TT` ...
example : TT.getBackend (tagKey [116]) = TT.getBackend tagPrefix :=
  remove_callback_routed_by_longest_prefix [([], 0), (tagPrefix, 1)] [116] (by decide)
-- ... with a registered prefix "_tag:t" the tag key and "_tag:" have different backends: the tagged write and the
-- callback both follow the tag key (backend 2)
example : (runComp (Table.ofList [([], 0), (tagPrefix, 1), (tagKey [116], 2)]) (World.init true) 0 false false envRm
    [0, 1, 2] (.one (.keyed .delete [117]))).1 =
    [.sub (.keyed .delete [117]) [.cmd ⟨.raw 0, .delete, [[117]]⟩] [⟨.raw 2, .setRemove, [tagKey [116]]⟩]] := by decide
example : (Table.ofList [([], 0), (tagPrefix, 1), (tagKey [116], 2)]).getBackend (tagKey [116]) = some 2 ∧
    (Table.ofList [([], 0), (tagPrefix, 1), (tagKey [116], 2)]).getBackend tagPrefix = some 1 := by decide
-- D48: "_tag:" is set up AFTER the default backend served the tag sets (backend 1 registered last): the callback asks backend 1
example : (runComp (Table.ofList ([([], 0)] ++ [(tagPrefix, 1)])) (World.init true) 0 false false envRm [0, 1]
    (.one (.keyed .delete [117]))).1 =
    [.sub (.keyed .delete [117]) [.cmd ⟨.raw 0, .delete, [[117]]⟩] [⟨.raw 1, .setRemove, [tagKey [116]]⟩]] := by decide
-- fully disabled cache: nothing at all
example : facadeFullDisable TT (ctlRun TT (World.init true) [.disable 0 [] [], .disable 0 [] tagPrefix]) 0 = true := by
  decide

end CashewsVerif.Props.C17
