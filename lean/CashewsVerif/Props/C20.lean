import CashewsVerif.Lemmas.ClientSideOutage
import CashewsVerif.Lemmas.ClientSidePrefix
/-
C20 — the client-side cache agrees with the server once invalidations are delivered.

ABOUT MODELS (as C19): `CS.step` models `client_side.py` (with the repairs of findings D26, D31 and D37, now in the code)
for several clients over the server model `Redis.Srv` extended with BCAST tracking (every modification, expiry and
flush is announced to every tracking client, the writer included; expiry is announced when time passes the deadline).
Neither redis-py nor a Redis server is available in the sandbox; the correspondence check runs 2–3 real
`BcastClientSide` instances on the stub `redis` package whose server (with the announcement queues) is this model.

A *quiescent point* is a state in which every announcement issued so far has been processed: `qstep` = one command
followed by complete delivery to every client.
-/
set_option linter.unusedSimpArgs false
namespace CashewsVerif.Props.C20
open CashewsVerif CashewsVerif.Redis CashewsVerif.Redis.CS
open CashewsVerif.Redis.CS (Op step qrun qstep)

/-- **Agreement at quiescent points, for every command of the model.**  For every history over ALL twenty commands of
`CS.Op` — get, get_many, get_match, scan, get_expire, exists, set (plain and conditional), set_many, incr (with and
without a TTL: INCRBY and the `_INCR_EXPIRE` script), delete, delete_many, delete_match, expire, clear (flush), set_lock,
unlock, explicit delivery, drops of the invalidation connection, reconnects and time advances across TTLs — issued by any
number of clients, with
delivery completed after each command: nothing is in flight (`Quiet`) and every live entry of every connected client's
local copy says what the server says — a value is the server's value, a "known absent" marker means the server has
nothing readable under that key (`Agree`).

`WF` constrains ARGUMENTS only (it excludes no command): a written value is one the serializer reads back (C09), a lock
token likewise (digits or a decodable payload: a raw token is answered from the holder's local copy by `get` but read as
"nothing" from the server, by the code itself).  `expire` takes any time, 0 included (finding D37, repaired: the server
deletes the key and the caller remembers "absent").  `set_many` may repeat a key. -/
theorem agreement_at_quiescence (isEnc : String → Bool) (ops : List CS.Op)
    (hwf : ∀ op ∈ ops, WF isEnc op) :
    Quiet (CS.qrun (St.init isEnc) ops).1 ∧ Agree (CS.qrun (St.init isEnc) ops).1 :=
  (inv2_qrun ops (St.init isEnc) (inv2_init isEnc) hwf).1

/-- …hence, at such a point, `get`, `get_many` and `exists` of ANY client (connected or not) answer exactly what the
server holds. -/
theorem reads_equal_server (isEnc : String → Bool) (ops : List CS.Op) (hwf : ∀ op ∈ ops, WF isEnc op)
    (i : Nat) (k : String) (ks : List String) :
    let st := (CS.qrun (St.init isEnc) ops).1
    (CS.step st (.get i k)).2 = .val (srvValue st k) ∧ (CS.step st (.exists_ i k)).2 = .bool (st.srv.ks.present k) ∧
    (CS.step st (.getMany i ks)).2 = .vals (ks.map (srvValue st)) := by
  intro st
  have h := (agreement_at_quiescence isEnc ops hwf).2
  exact ⟨get_eq_server st h i k, exists_eq_server st h i k, getMany_eq_server st h i ks⟩

/-- …and so do the pattern reads: `scan` lists the server's matching keys (it never consults the local copy) and
`get_match` yields exactly the server's readable content under those keys.  (`get_expire` is part of the histories above
— it only re-times or forgets an entry of the caller's local copy — but its ANSWER is not claimed to be the server's: the
code answers from the local copy's own deadline when that is positive, which a TTL-less overwrite or a second
`incr(…, expire)` leaves different from the server's.) -/
theorem pattern_reads_equal_server (isEnc : String → Bool) (ops : List CS.Op) (hwf : ∀ op ∈ ops, WF isEnc op)
    (i : Nat) (pat : String) :
    let st := (CS.qrun (St.init isEnc) ops).1
    (CS.step st (.scan i pat)).2 = .keys (Ref.matching st.srv.ks pat) ∧
    (CS.step st (.getMatch i pat)).2 =
      .pairs ((Ref.matching st.srv.ks pat).filterMap fun k => (srvValue st k).map fun v => (k, v)) := by
  intro st
  have h := (agreement_at_quiescence isEnc ops hwf).2
  refine ⟨rfl, ?_⟩
  simp only [CS.step, getManyCore_eq_server st h i]
  congr 1
  generalize Ref.matching st.srv.ks pat = ks
  induction ks with
  | nil => rfl
  | cons k ks ih =>
    simp only [List.map_cons, List.zip_cons_cons, List.filterMap_cons, ih]

/-- **A conditional write the server rejected never becomes readable from the writer's local copy** (any state,
quiescent or not): the local copy of the writer is exactly what it was, and so are everybody else's. -/
theorem rejected_conditional_never_readable (st : St) (i : Nat) (k : String) (v : CVal) (ttl : Option Nat) (cond : Cond)
    (hrej : (CS.step st (.set i k v ttl cond)).2 = .bool false) :
    ∀ j, ((CS.step st (.set i k v ttl cond)).1.cl j).loc = (st.cl j).loc := by
  intro j
  simp only [CS.step] at hrej ⊢
  generalize hst0 : ({ st with cl := upd st.cl i ((st.cl i).mark (now st) k) } : St) = st0 at hrej ⊢
  have hloc0 : ∀ j, (st0.cl j).loc = (st.cl j).loc := by
    intro j; subst hst0; by_cases hj : j = i <;> simp [upd, hj, Client.mark]
  by_cases hr : (srvCmd st0 (.set k (encode v) (pxOf ttl) cond)).2 = .ok
  · simp [hr] at hrej
  · simp only [hr, if_false]
    have hcl : (srvCmd st0 (.set k (encode v) (pxOf ttl) cond)).1.cl =
        announceKeys st0.cl (touched st0.srv (.set k (encode v) (pxOf ttl) cond)) := rfl
    by_cases hj : j = i
    · subst hj
      simp only [upd, if_true, Client.unmark]
      rw [hcl, (announceKeys_fields _ _ _).1]; exact hloc0 _
    · simp only [upd, hj, if_false]
      rw [hcl, (announceKeys_fields _ _ _).1]; exact hloc0 _

/-- the same for `set_lock` (write-if-absent with a lease) -/
theorem rejected_lock_never_readable (st : St) (i : Nat) (k : String) (tok : Bytes) (ms : Nat)
    (hrej : (CS.step st (.setLock i k tok ms)).2 = .bool false) :
    ∀ j, ((CS.step st (.setLock i k tok ms)).1.cl j).loc = (st.cl j).loc := by
  intro j
  simp only [CS.step] at hrej ⊢
  generalize hst0 : ({ st with cl := upd st.cl i ((st.cl i).mark (now st) k) } : St) = st0 at hrej ⊢
  have hloc0 : ∀ j, (st0.cl j).loc = (st.cl j).loc := by
    intro j; subst hst0; by_cases hj : j = i <;> simp [upd, hj, Client.mark]
  by_cases hr : (srvCmd st0 (.set k tok (some ms) .nx)).2 = .ok
  · simp [hr] at hrej
  · simp only [hr, if_false]
    have hcl : (srvCmd st0 (.set k tok (some ms) .nx)).1.cl =
        announceKeys st0.cl (touched st0.srv (.set k tok (some ms) .nx)) := rfl
    by_cases hj : j = i
    · subst hj
      simp only [upd, if_true, Client.unmark]
      rw [hcl, (announceKeys_fields _ _ _).1]; exact hloc0 _
    · simp only [upd, hj, if_false]
      rw [hcl, (announceKeys_fields _ _ _).1]; exact hloc0 _

/-- **Losing the invalidation connection empties the local copy instead of serving from it** (any state): after
`drop` the client is not started, its local copy is empty, nothing is queued for it; while it is not started every
read goes to the server whatever the local copy holds; after `reconnect` it starts with an empty local copy and no
echo marks. -/
theorem drop_empties_local (st : St) (i : Nat) :
    ((CS.step st (.drop i)).1.cl i).started = false ∧ (∀ k, ((CS.step st (.drop i)).1.cl i).loc k = none) ∧
    ((CS.step st (.drop i)).1.cl i).queue = [] ∧
    (∀ st' : St, (st'.cl i).started = false → ∀ k,
        (CS.step st' (.get i k)).2 = .val (srvValue st' k) ∧ (CS.step st' (.exists_ i k)).2 = .bool (st'.srv.ks.present k)) ∧
    ((CS.step st (.reconnect i)).1.cl i).started = true ∧ (∀ k, ((CS.step st (.reconnect i)).1.cl i).loc k = none) ∧
    (∀ k, ((CS.step st (.reconnect i)).1.cl i).marks k = none) := by
  refine ⟨by simp [CS.step, upd], by intro k; simp [CS.step, upd, Client.lclear], by simp [CS.step, upd], ?_,
    by simp [CS.step, upd], by intro k; simp [CS.step, upd, Client.lclear], by intro k; simp [CS.step, upd]⟩
  intro st' hs k
  constructor
  · simp only [CS.step, hs, Bool.false_eq_true, if_false]
    cases hv : srvValue st' k <;> rfl
  · simp [CS.step, hs]

/-- **The local copy at every point of an outage** (any state `st`, any client `i`; no invariant assumed).  The timeline is
`drop i`, then any number of windows of commands (of anybody, `i` included) each closed by a refused reconnect attempt
`Op.refused i` — the code runs the same `except` branch for it, so it is `drop i` again —, then a last window, then
`reconnect i`:
(1) right after the drop AND right after every refused attempt the client is stopped, its local copy is empty and nothing
    is queued for it;
(2) inside a window (the client is stopped, whatever its local copy holds by now) every read of `i` — get, exists,
    get_many, get_match — is answered by the server;
(3) …and such a read IS WRITTEN into the local copy (the value, or the "known absent" marker): during the outage the
    local copy fills up with content for which no invalidation will ever arrive;
(4) `reconnect i`, from ANY state — in particular whatever (3) wrote since the last refused attempt —, starts the client
    with an empty local copy, no echo marks and an empty queue. -/
theorem outage_local_copy (st : St) (i : Nat) :
    (((CS.step st (Op.refused i)).1.cl i).started = false ∧ (∀ k, ((CS.step st (Op.refused i)).1.cl i).loc k = none) ∧
      ((CS.step st (Op.refused i)).1.cl i).queue = []) ∧
    ((st.cl i).started = false → ∀ k ks pat,
      (CS.step st (.get i k)).2 = .val (srvValue st k) ∧ (CS.step st (.exists_ i k)).2 = .bool (st.srv.ks.present k) ∧
      (CS.step st (.getMany i ks)).2 = .vals (ks.map (srvValue st)) ∧
      (CS.step st (.getMatch i pat)).2 =
        .pairs ((Ref.matching st.srv.ks pat).filterMap fun k => (srvValue st k).map fun v => (k, v))) ∧
    ((st.cl i).started = false → ∀ k, ∃ dl, ((CS.step st (.get i k)).1.cl i).loc k =
      some ⟨(match srvValue st k with | some v => .val v | none => .absent), dl⟩) ∧
    (((CS.step st (.reconnect i)).1.cl i).started = true ∧ (∀ k, ((CS.step st (.reconnect i)).1.cl i).loc k = none) ∧
      (∀ k, ((CS.step st (.reconnect i)).1.cl i).marks k = none) ∧ ((CS.step st (.reconnect i)).1.cl i).queue = []) := by
  refine ⟨⟨by simp [CS.step, upd], by intro k; simp [CS.step, upd, Client.lclear], by simp [CS.step, upd]⟩, ?_, ?_,
    ⟨by simp [CS.step, upd], by intro k; simp [CS.step, upd, Client.lclear], by intro k; simp [CS.step, upd],
     by simp [CS.step, upd]⟩⟩
  · intro hs k ks pat
    have h : NoLocalAnswer st i := Or.inl hs
    exact ⟨get_of_noLocalAnswer st i h k, exists_of_noLocalAnswer st i h k, getMany_of_noLocalAnswer st i h ks,
      getMatch_of_noLocalAnswer st i h pat⟩
  · intro hs k
    exact get_stopped_writes_local st i hs k

/-- **Nothing read or written during the outage is served after the reconnect** (any state before the reconnect — any
number of refused attempts, any reads and writes of the client after the last of them, any changes by other clients
meanwhile): the first read of every key after `reconnect i` — get, exists, get_many, get_match — is the server's content
of that moment.  (From then on the general theorem takes over: the re-established connection announces later changes.) -/
theorem reads_after_reconnect_equal_server (st : St) (i : Nat) (k : String) (ks : List String) (pat : String) :
    let st' := (CS.step st (.reconnect i)).1
    (CS.step st' (.get i k)).2 = .val (srvValue st' k) ∧ (CS.step st' (.exists_ i k)).2 = .bool (st'.srv.ks.present k) ∧
    (CS.step st' (.getMany i ks)).2 = .vals (ks.map (srvValue st')) ∧
    (CS.step st' (.getMatch i pat)).2 =
      .pairs ((Ref.matching st'.srv.ks pat).filterMap fun k => (srvValue st' k).map fun v => (k, v)) := by
  intro st'
  have h : NoLocalAnswer st' i := Or.inr (by intro k; simp [st', CS.step, upd, Client.lclear])
  exact ⟨get_of_noLocalAnswer st' i h k, exists_of_noLocalAnswer st' i h k, getMany_of_noLocalAnswer st' i h ks,
    getMatch_of_noLocalAnswer st' i h pat⟩

/-- the history of an outage of client `i`'s invalidation connection, with the reconnect schedule explicit: `pre`, the drop,
the windows of commands that end in a refused attempt, the last window, the reconnect, `post` -/
def outageHist (i : Nat) (pre : List CS.Op) (windows : List (List CS.Op)) (last post : List CS.Op) : List CS.Op :=
  pre ++ [.drop i] ++ windows.flatMap (fun w => w ++ [Op.refused i]) ++ last ++ [.reconnect i] ++ post

/-- **Agreement across an outage** — the general theorem read on histories of that shape: whatever any client (the
disconnected one included) reads and writes in any of the windows, for any number of refused attempts, at the quiescent
point after `post` (and so after every prefix of it, the empty one included) every read of every client is the
server's content. -/
theorem agreement_across_outage (isEnc : String → Bool) (i : Nat) (pre : List CS.Op) (windows : List (List CS.Op))
    (last post : List CS.Op) (hwf : ∀ op ∈ outageHist i pre windows last post, WF isEnc op)
    (j : Nat) (k : String) (ks : List String) :
    let st := (CS.qrun (St.init isEnc) (outageHist i pre windows last post)).1
    (CS.step st (.get j k)).2 = .val (srvValue st k) ∧ (CS.step st (.exists_ j k)).2 = .bool (st.srv.ks.present k) ∧
    (CS.step st (.getMany j ks)).2 = .vals (ks.map (srvValue st)) :=
  reads_equal_server isEnc _ hwf j k ks

/-- **The key prefix is transparent, for every prefix and EVERY key.**  The model above is written over the caller's keys; on
the wire each key carries the configured `client_side_prefix` (`_add_prefix`), and every key that comes back — an
invalidation announcement, a key of a SCAN page, a key of `get_many`'s miss dictionary — is mapped back by `_remove_prefix`
(`key[len(prefix):]`, strip exactly one leading prefix).  (1) `_remove_prefix(_add_prefix(k)) = k` for every prefix `p` and
every key `k` — also when `k` contains the prefix text again further in, equals the prefix, is a fragment of it, or is empty;
(2) prefixing is injective, so the server's keyspace is a faithful renaming of the model's (no two keys collide);
(3) a whole list of keys (a SCAN page, an announcement) comes back as it went; (4) the listener processing an announcement AS
IT ARRIVES ON THE WIRE does to the local copy and the echo marks exactly what the model's `applyMsg` does with the model's
announcement — the invalidation reaches the local entry of the very key that changed. -/
theorem prefix_transparent (p : String) :
    (∀ k, removePrefix p (addPrefix p k) = k) ∧
    (∀ k k', addPrefix p k = addPrefix p k' → k = k') ∧
    (∀ ks : List String, (ks.map (addPrefix p)).map (removePrefix p) = ks) ∧
    (∀ (c : Client) (now : Nat) (m : Msg), c.applyWire p now (wireMsg p m) = c.applyMsg now m) :=
  ⟨removePrefix_addPrefix p, fun _ _ h => addPrefix_injective p h, map_removePrefix_addPrefix p, applyWire_wireMsg p⟩

/-! ### Non-vacuity -/

def dec : String → Bool := fun _ => true

/-- two clients: a write read by the other, an overwrite, a rejected conditional write, a delete, a TTL crossing,
a counter, a re-timing, a pattern delete, a drop with a write in between, a reconnect, a flush -/
def sampleHist : List CS.Op :=
  [.set 0 "k" (.int 1) (some 1000) .always, .get 1 "k", .set 1 "k" (.obj "aa") none .always, .get 0 "k",
   .set 0 "k" (.int 5) none .nx, .get 0 "k", .delete 1 "k", .get 0 "k", .set 1 "j" (.int 7) (some 500) .always, .get 0 "j",
   .adv 500, .get 0 "j", .incr 0 "c" 1 none, .getMany 1 ["c", "j", "k"], .incr 1 "c" 1 none, .get 0 "c", .expire 0 "c" 300,
   .adv 300, .getMany 1 ["c"], .set 0 "k:1" (.int 3) none .always, .get 1 "k:1", .deleteMatch 1 "k:*", .get 0 "k:1",
   .drop 0, .set 1 "j" (.int 8) none .always, .get 0 "j", .adv 10000, .reconnect 0, .get 0 "j",
   .set 1 "j" (.int 9) none .always, .get 0 "j", .deleteMany 0 ["j", "zz"], .get 1 "j", .clear 1, .get 0 "j"]

example : ∀ op ∈ sampleHist, WF dec op := by
  intro op hop
  simp only [sampleHist, List.mem_cons, List.mem_nil_iff, or_false] at hop
  repeat (first | (rcases hop with h | hop; · subst h; simp [WF, DecV, dec]) | (subst hop; simp [WF, DecV, dec]))

/-- the model computes on it: every read is the server's content of that moment -/
example : (CS.qrun (St.init dec) sampleHist).2 =
    [.bool true, .val (some (.int 1)), .bool true, .val (some (.obj "aa")), .bool false, .val (some (.obj "aa")), .bool true,
     .val none, .bool true, .val (some (.int 7)), .none_, .val none, .int 1, .vals [some (.int 1), none, none], .int 2,
     .val (some (.int 2)), .none_, .none_, .vals [none], .bool true, .val (some (.int 3)), .none_, .val none, .none_, .bool true,
     .val (some (.int 8)), .none_, .none_, .val (some (.int 8)), .bool true, .val (some (.int 9)), .none_, .val none, .none_,
     .val none] := by decide +kernel

/-- the four commands the earlier, partial theorem left out, and an explicit delivery: a pipeline of writes that repeats
a key, read by the other client; a counter armed with a TTL by its first increment only (the second incrementer's local
copy would outlive the server's key: the expiry announcement removes it); a lock taken, contended, released with the
wrong and with the right token, seen through `exists` and `get` by both clients; a lock that lapses -/
def sampleHist2 : List CS.Op :=
  [.setMany 0 [("a", .int 1), ("b", .obj "bb"), ("a", .int 2)] (some 1000), .get 1 "a", .get 0 "a", .getMany 1 ["a", "b"],
   .incr 0 "n" 1 (some 500), .get 1 "n", .adv 200, .incr 1 "n" 1 (some 500), .get 0 "n", .adv 300, .get 1 "n", .get 0 "n",
   .setLock 0 "L" (.blob "aa") 400, .exists_ 1 "L", .get 1 "L", .setLock 1 "L" (.blob "cc") 400, .get 1 "L",
   .unlock 1 "L" (.blob "cc"), .exists_ 0 "L", .unlock 0 "L" (.blob "aa"), .exists_ 0 "L", .get 0 "L", .exists_ 1 "L",
   .setLock 1 "L" (.num 5) 400, .get 0 "L", .adv 400, .get 0 "L", .exists_ 1 "L", .deliver 0, .adv 1000,
   .getMany 0 ["a", "b"]]

example : ∀ op ∈ sampleHist2, WF dec op := by
  intro op hop
  simp only [sampleHist2, List.mem_cons, List.mem_nil_iff, or_false] at hop
  repeat (first | (rcases hop with h | hop; · subst h; simp [WF, DecV, TokOK, dec]) | (subst hop; simp [WF, DecV, TokOK, dec]))

example : (CS.qrun (St.init dec) sampleHist2).2 =
    [.none_, .val (some (.int 2)), .val (some (.int 2)), .vals [some (.int 2), some (.obj "bb")], .int 1, .val (some (.int 1)),
     .none_, .int 2, .val (some (.int 2)), .none_, .val none, .val none, .bool true, .bool true, .val (some (.obj "aa")),
     .bool false, .val (some (.obj "aa")), .int 0, .bool true, .int 1, .bool false, .val none, .bool false, .bool true,
     .val (some (.int 5)), .none_, .val none, .bool false, .none_, .none_, .vals [none, none]] := by decide +kernel

/-- the theorem instantiated on it: after the whole history both clients' reads are the server's content -/
example : (CS.step (CS.qrun (St.init dec) sampleHist2).1 (.get 1 "a")).2 = .val (srvValue (CS.qrun (St.init dec) sampleHist2).1 "a") :=
  (reads_equal_server dec sampleHist2 (by
    intro op hop
    simp only [sampleHist2, List.mem_cons, List.mem_nil_iff, or_false] at hop
    repeat (first | (rcases hop with h | hop; · subst h; simp [WF, DecV, TokOK, dec]) | (subst hop; simp [WF, DecV, TokOK, dec])))
    1 "a" []).1

/-- the pattern reads and `get_expire`: the server's keys, the server's content under them whoever wrote it, before and
after an overwrite, a delete and a TTL crossing; `get_expire` answered from the writer's local deadline (2.5 s rounds to 2)
and, for the other client, by the server (3) -/
def sampleHist3 : List CS.Op :=
  [.set 0 "k:a" (.int 1) (some 2500) .always, .set 1 "k:b" (.obj "bb") none .always, .set 1 "j:a" (.int 3) none .always,
   .scan 0 "k:*", .getMatch 0 "k:*", .getMatch 1 "*", .getExpire 0 "k:a", .getExpire 1 "k:a", .getExpire 1 "k:b", .getExpire 0 "zz",
   .adv 1000, .getExpire 0 "k:a", .getExpire 1 "k:a", .set 1 "k:a" (.int 9) none .always, .getMatch 0 "k:*", .getExpire 0 "k:a",
   .delete 0 "k:b", .scan 1 "k:*", .getMatch 1 "k:*", .adv 3000, .getMatch 0 "*"]

example : ∀ op ∈ sampleHist3, WF dec op := by
  intro op hop
  simp only [sampleHist3, List.mem_cons, List.mem_nil_iff, or_false] at hop
  repeat (first | (rcases hop with h | hop; · subst h; simp [WF, DecV, TokOK, dec]) | (subst hop; simp [WF, DecV, TokOK, dec]))

example : (CS.qrun (St.init dec) sampleHist3).2 =
    [.bool true, .bool true, .bool true, .keys ["k:a", "k:b"], .pairs [("k:a", .int 1), ("k:b", .obj "bb")],
     .pairs [("k:a", .int 1), ("k:b", .obj "bb"), ("j:a", .int 3)], .int 2, .int 3, .int (-1), .int (-2), .none_, .int 2, .int 2,
     .bool true, .pairs [("k:a", .int 9), ("k:b", .obj "bb")], .int (-1), .bool true, .keys ["k:a"], .pairs [("k:a", .int 9)],
     .none_, .pairs [("k:a", .int 9), ("j:a", .int 3)]] := by decide +kernel

/-- `expire(k, 0)` (finding D37, repaired): the server deletes the key, the caller's local copy says "absent", every
client reads nothing — and a later write is seen again -/
def sampleHist4 : List CS.Op :=
  [.set 0 "k" (.int 1) none .always, .get 0 "k", .get 1 "k", .expire 0 "k" 0, .get 0 "k", .exists_ 0 "k", .get 1 "k",
   .expire 1 "zz" 0, .get 1 "zz", .set 1 "k" (.int 2) none .always, .get 0 "k"]

example : ∀ op ∈ sampleHist4, WF dec op := by
  intro op hop
  simp only [sampleHist4, List.mem_cons, List.mem_nil_iff, or_false] at hop
  repeat (first | (rcases hop with h | hop; · subst h; simp [WF, DecV, TokOK, dec]) | (subst hop; simp [WF, DecV, TokOK, dec]))

example : (CS.qrun (St.init dec) sampleHist4).2 =
    [.bool true, .val (some (.int 1)), .val (some (.int 1)), .none_, .val none, .bool false, .val none, .none_, .val none,
     .bool true, .val (some (.int 2))] ∧ srvValue (CS.qrun (St.init dec) (sampleHist4.take 4)).1 "k" = none := by decide +kernel

/-- an outage with its reconnect schedule: client 0 loses the connection; 10 s later its first attempt is refused; AFTER
that it reads `k` (the server's value, remembered locally) and `zz` (nothing there: remembered as "known absent"); client 1
overwrites `k` and creates `zz`; client 0's reads in the outage already see both (they bypass the local copy); 10 s after
the refusal the connection is re-established; client 0 reads the server's content, also after a later change -/
def sampleHist5 : List CS.Op :=
  outageHist 0 [.set 1 "k" (.int 1) none .always, .get 0 "k"]
    [[.adv 10000]]
    [.get 0 "k", .get 0 "zz", .set 1 "k" (.int 2) none .always, .set 1 "zz" (.obj "cc") none .always, .get 0 "k", .adv 10000]
    [.get 0 "k", .get 0 "zz", .getMany 0 ["k", "zz"], .delete 1 "k", .get 0 "k"]

example : ∀ op ∈ sampleHist5, WF dec op := by
  intro op hop
  simp only [sampleHist5, outageHist, List.flatMap_cons, List.flatMap_nil, List.append_nil, List.cons_append, List.nil_append,
    List.mem_cons, List.mem_nil_iff, or_false] at hop
  repeat (first | (rcases hop with h | hop; · subst h; simp [WF, DecV, TokOK, dec]) | (subst hop; simp [WF, DecV, TokOK, dec]))

example : (CS.qrun (St.init dec) sampleHist5).2 =
    [.bool true, .val (some (.int 1)), .none_, .none_, .none_, .val (some (.int 1)), .val none, .bool true, .bool true,
     .val (some (.int 2)), .none_, .none_, .val (some (.int 2)), .val (some (.obj "cc")),
     .vals [some (.int 2), some (.obj "cc")], .bool true, .val none] := by decide +kernel

/-- the local copy of client 0 along that history: just before the reconnect it holds what the outage-time reads wrote (`k`
as last read, `zz` still as "known absent" although the server has it by now) — and the reconnect throws it away -/
example :
    let before := (CS.qrun (St.init dec) (sampleHist5.take 11)).1
    ((before.cl 0).started = false ∧ (before.cl 0).loc "k" = some ⟨.val (.int 2), none⟩ ∧
      (before.cl 0).loc "zz" = some ⟨.absent, none⟩ ∧ srvValue before "zz" = some (.obj "cc")) ∧
    (let after := (CS.qrun (St.init dec) (sampleHist5.take 12)).1
     (after.cl 0).started = true ∧ (after.cl 0).loc "k" = none ∧ (after.cl 0).loc "zz" = none) := by decide +kernel

/-- keys that contain the prefix text again: one leading prefix is stripped, the rest of the key is left alone — whereas
removing the prefix text everywhere (`key.replace(prefix, "")`), which agrees on ordinary keys, maps the announcement of
`copy-of:cashews:page` to another key, and under the short prefix `c:` mangles the ordinary key `doc:7` -/
example :
    removePrefix "cashews:" (addPrefix "cashews:" "copy-of:cashews:page") = "copy-of:cashews:page" ∧
    removePrefix "c:" (addPrefix "c:" "doc:7") = "doc:7" ∧ removePrefix "c:" (addPrefix "c:" "c:") = "c:" ∧
    removePrefix "c:" (addPrefix "c:" "") = "" ∧ removePrefix "cashews:" (addPrefix "cashews:" "cash") = "cash" ∧
    stripEverywhere "cashews:" (addPrefix "cashews:" "page:home") = "page:home" ∧
    stripEverywhere "cashews:" (addPrefix "cashews:" "copy-of:cashews:page") = "copy-of:page" ∧
    stripEverywhere "c:" (addPrefix "c:" "doc:7") = "do7" := by decide +kernel

/-- the listener on the wire: client 0 holds `doc:7` (prefix `c:`); the announcement `c:doc:7` removes exactly that entry -/
example :
    let c : Client := (Client.init.lset 0 "doc:7" (.val (.int 1)) none).lset 0 "do7" (.val (.int 2)) none
    ((c.applyWire "c:" 0 (wireMsg "c:" (.keys ["doc:7"]))).loc "doc:7" = none) ∧
    ((c.applyWire "c:" 0 (wireMsg "c:" (.keys ["doc:7"]))).loc "do7" = some ⟨.val (.int 2), none⟩) := by decide +kernel

/-- a rejected conditional write exists (the premise of `rejected_conditional_never_readable` is reachable) -/
example : (CS.step (CS.qrun (St.init dec) [.set 0 "k" (.int 1) none .always]).1 (.set 1 "k" (.int 2) none .nx)).2 = .bool false := by
  decide +kernel

end CashewsVerif.Props.C20
