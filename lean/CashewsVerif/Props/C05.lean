import CashewsVerif.Lemmas.TxSchedCounter
import CashewsVerif.Lemmas.TxSchedOwn
import CashewsVerif.Lemmas.TxSchedCheck
import CashewsVerif.Lemmas.TxSchedPhase
/-
C05 — concurrent transactions commit exactly their own writes; no lost increments.

The theorems quantify over *every* schedule `sched : List Act` (`run tid` = the task executes the backend
command it is parked before and runs on to its next one; `adv d` = time passes, timers fire), every number
of tasks, every program, every initial store.  Property theorems only; the lemmas live in
`Lemmas/TxSched{Basic,Inv,Locks,Counter,Own}.lean`, the model in `Model/TxSched.lean`, the sequential
meaning of a body in `Spec/TxBody.lean`.
-/
namespace CashewsVerif.Props.C05
open CashewsVerif.TxSched

/-- the tasks are as the harness creates them: parked before their first instruction, nothing buffered -/
def FreshTasks (ts : List Task) : Prop := ∀ t ∈ ts, t.Fresh

/-- **Context isolation.**  Under every schedule, a task whose program is not a transaction block never
has a transaction in its context: nothing of it is ever buffered in an overlay, it takes no transaction
lock, it is only ever parked before a *direct* backend command (or asleep, or finished) — and when it is
released there, the command takes effect on the store in that very step and is logged under its name
(`expire` changes no value; a conditional `set` decides on the store's presence at that very step). -/
theorem ctx_isolation (store : Store) (ts : List Task) (hf : FreshTasks ts) (sched : List Act) (i : Nat)
    (hplain : ((World.init store ts).tasks i).isTx = false) :
    let w := (World.init store ts).run sched
    ((w.tasks i).ctx = false ∧ (w.tasks i).ov = [] ∧ (w.tasks i).del = [] ∧ (w.tasks i).locks = [] ∧
      (w.tasks i).pc.plainOk) ∧
    (∀ k v, (w.tasks i).pc = .direct (.set k v) →
      (w.runTask i).store = (Mut.directSet k v).apply w.store ∧ (w.runTask i).log = w.log ++ [(i, .directSet k v)]) ∧
    (∀ k n, (w.tasks i).pc = .direct (.incr k n) →
      (w.runTask i).store = (Mut.directSet k ((w.store k).getD 0 + n)).apply w.store) ∧
    (∀ k, (w.tasks i).pc = .direct (.delete k) → (w.runTask i).store = (Mut.directDel k).apply w.store) ∧
    (∀ k, (w.tasks i).pc = .direct (.expire k) → (w.runTask i).store = w.store) ∧
    (∀ k v e, (w.tasks i).pc = .direct (.setx k v e) →
      (w.runTask i).store = if (w.store k).isSome = e then (Mut.directSet k v).apply w.store else w.store) := by
  intro w
  have hti := AllTI_run store ts hf sched i
  have hx : (w.tasks i).isTx = false := (isTx_run store ts sched i).trans hplain
  have hc := hti.plain_ctx hx
  refine ⟨⟨hc, (hti.noctx hc).2.1, (hti.noctx hc).2.2, (hti.noctx hc).1, hti.noctx_pc hc⟩, ?_, ?_, ?_, ?_, ?_⟩
  · intro k v hpc
    refine ⟨?_, ?_⟩ <;> simp [taskStep_direct _ _ _ _ _ hpc, directStep]
  · intro k n hpc
    simp only [runTask_store, taskStep_direct _ _ _ _ _ hpc, directStep]
  · intro k hpc
    simp only [runTask_store, taskStep_direct _ _ _ _ _ hpc, directStep]
  · intro k hpc
    simp only [runTask_store, taskStep_direct _ _ _ _ _ hpc, directStep]
  · intro k v e hpc
    simp only [runTask_store, taskStep_direct _ _ _ _ _ hpc, directStep]

/-- a step of one task never changes another task's state (its overlay, its context, its program counter):
no command of `j` can be captured by `i`'s transaction -/
theorem step_frame (w : World) (tid i : Nat) (h : i ≠ tid) : (w.runTask tid).tasks i = w.tasks i :=
  runTask_tasks_ne w tid h

/-- **Own writes only.**  Under every schedule, for every task `i` that is a transaction block
(context-manager or decorator form — the form is not looked at by any rule —, nested blocks inside):
* if its caller got a normal return with results `rs`, then the body's sequential meaning (`specBody`, a fold
  that knows nothing of locks, schedules or other tasks) on the values its backend reads returned ran to the
  end with exactly those results, and the store mutations made by the steps of `i` are exactly the commit of
  that body's write-set (`delete_many` of its deletions, `set_many` of its overlay) — nothing else, nothing less;
* if the caller got the body's exception, the spec raises too and no step of `i` mutated the store;
* if the caller got `LockedError`, no step of `i` mutated the store.
And the store is nothing but the initial store with the logged mutations applied in order. -/
theorem own_writes_only (store : Store) (ts : List Task) (hf : FreshTasks ts) (sched : List Act) (i : Nat)
    (htx : ((World.init store ts).tasks i).isTx = true) :
    let w := (World.init store ts).run sched
    let p0 := ((World.init store ts).tasks i).prog
    (∀ rs, (w.tasks i).pc = .finished (.returned rs) →
      ∃ s, specBody p0 (w.tasks i).reads {} = .normal s [] ∧ rs = s.results ∧ mineOf w i = commitMuts s) ∧
    ((w.tasks i).pc = .finished .raisedBody →
      specBody p0 (w.tasks i).reads {} = .raised ∧ mineOf w i = []) ∧
    ((w.tasks i).pc = .finished .raisedLocked → mineOf w i = []) ∧
    w.store = (w.log.map (·.2)).foldl Mut.apply store := by
  intro w p0
  have hx : (w.tasks i).isTx = true := (isTx_run store ts sched i).trans htx
  have ho := own_run store ts hf sched i hx
  have hctx : ∀ o, (w.tasks i).pc = .finished o → OWpark p0 (w.tasks i) (mineOf w i) := by
    intro o hpc
    cases hc : (w.tasks i).ctx
    · have := (ho.pre hc).1; rw [hpc] at this; cases this
    · exact ho.post hc
  refine ⟨?_, ?_, ?_, store_eq_log_run store ts sched⟩
  · intro rs hpc
    have := hctx _ hpc
    simpa only [OWpark, hpc, Done] using this
  · intro hpc
    have := hctx _ hpc
    simpa only [OWpark, hpc, Done] using this
  · intro hpc
    have := hctx _ hpc
    simpa only [OWpark, hpc, Done] using this

/-- **No lost increments.**  All transactions run in one mode `m`, locked or serializable; `k` is a
counter: transactions only `incr` it or re-time it (`expire`, a read-modify-write that buffers the store's
value and writes it back at commit — it contributes 0) or read it, none `set`s (plain or conditional) or deletes
it, and tasks outside a transaction do not write it; the schedule keeps every
transaction within its timeout (`WithinTimeout`: in every state passed through, each task inside its
transaction entered it less than `timeout` ago).  Then in the state reached — final or not — the counter
equals its initial value plus the sum, over the transactions whose commit has reached the store, of the
increments their programs apply to it.  (Absent counts as 0, as `incr` reads it.) -/
theorem no_lost_increments (store : Store) (ts : List Task) (hf : FreshTasks ts) (k : Nat) (m : Mode)
    (hm : m = .locked ∨ m = .serializable)
    (hmodes : ∀ t ∈ ts, t.isTx = true → t.mode = m)
    (honly : ∀ t ∈ ts, OnlyIncr k t.isTx t.prog)
    (sched : List Act) (hT : WithinTimeout (World.init store ts) sched) :
    let w := (World.init store ts).run sched
    (w.store k).getD 0 = (store k).getD 0 +
      csum (fun i => if (w.tasks i).isTx = true ∧ (w.tasks i).committed = true
                     then incrTotal k (progOf ts i) else 0) ts.length := by
  intro w
  have hmf : m ≠ .fast := by rcases hm with h | h <;> simp [h]
  exact (counter_run store ts hf k m hmf hmodes honly sched hT).sum

/-- the key invariant behind it, exposed: while a transaction has the counter buffered — seeded by its first
`incr` or buffered by an `expire` — it holds the lock that protects it, and what it has buffered is the store's
*current* value plus its own increments so far: the store's value has not changed since the transaction read it
(so the value an `expire` writes back at commit is never stale) -/
theorem buffered_counter_is_current (store : Store) (ts : List Task) (hf : FreshTasks ts) (k : Nat) (m : Mode)
    (hm : m = .locked ∨ m = .serializable)
    (hmodes : ∀ t ∈ ts, t.isTx = true → t.mode = m)
    (honly : ∀ t ∈ ts, OnlyIncr k t.isTx t.prog)
    (sched : List Act) (hT : WithinTimeout (World.init store ts) sched) (i : Nat) (v : Int) :
    let w := (World.init store ts).run sched
    (w.tasks i).ctx = true → (w.tasks i).active = true → (w.tasks i).ov.get k = some v →
      lockKeyOf m k ∈ (w.tasks i).held ∧
      v + incrTotal k (w.tasks i).rem = (w.store k).getD 0 + incrTotal k (progOf ts i) := by
  intro w hc ha hv
  have hmf : m ≠ .fast := by rcases hm with h | h <;> simp [h]
  have hci := counter_run store ts hf k m hmf hmodes honly sched hT
  have hti := AllTI_run store ts hf sched i
  have hb := ((hci.ci i).body hc ha).some_ v hv
  rw [hci.modes i (hti.ctx_tx hc)] at hb
  refine ⟨?_, hb.2⟩
  unfold Task.held
  split
  · rename_i hpc; simp [Task.active, hpc] at ha
  · exact hb.1

/-- **Re-timing keeps the value.**  Same setting; if nobody writes `k` at all (transactions only `expire` or read
it), then `k` holds its initial value in every state reached: the write-back of an `expire` never resurrects an
older value. -/
theorem retime_only_keeps_value (store : Store) (ts : List Task) (hf : FreshTasks ts) (k : Nat) (m : Mode)
    (hm : m = .locked ∨ m = .serializable)
    (hmodes : ∀ t ∈ ts, t.isTx = true → t.mode = m)
    (hro : ∀ t ∈ ts, ∀ c ∈ t.prog, c.writes k = false)
    (sched : List Act) (hT : WithinTimeout (World.init store ts) sched) :
    let w := (World.init store ts).run sched
    (w.store k).getD 0 = (store k).getD 0 := by
  intro w
  have hz : ∀ p : List Cmd, (∀ c ∈ p, c.writes k = false) → incrTotal k p = 0 := by
    intro p
    induction p with
    | nil => intro _; rfl
    | cons c r ih =>
      intro h
      have hr := ih (fun c' hc' => h c' (List.mem_cons_of_mem _ hc'))
      have hc := h c List.mem_cons_self
      cases c <;> simp_all [incrTotal, Cmd.writes]
  have honly : ∀ t ∈ ts, OnlyIncr k t.isTx t.prog := by
    intro t ht
    unfold OnlyIncr
    split
    · intro c hc
      have := hro t ht c hc
      cases c <;> simp_all [Cmd.writes, Cmd.clobbers]
    · exact hro t ht
  have h := no_lost_increments store ts hf k m hm hmodes honly sched hT
  rw [h, csum_zero]; · simp
  intro i hi
  split
  · have : progOf ts i = (ts[i]).prog := by
      unfold progOf
      rw [List.getD_eq_getElem?_getD, List.getElem?_eq_getElem hi]; rfl
    rw [this]
    exact hz _ (hro _ (List.getElem_mem hi))
  · rfl

/-- **Lock holders exclude each other** (locked mode: per key; serializable: the one global lock), for every
schedule within the timeouts: two tasks never believe to hold the same lock, and a held lock is recorded in
the store under its holder with a lease that is still running. -/
theorem lock_exclusive (store : Store) (ts : List Task) (hf : FreshTasks ts)
    (sched : List Act) (hT : WithinTimeout (World.init store ts) sched) (i j : Nat) (l : LockKey) :
    let w := (World.init store ts).run sched
    l ∈ (w.tasks i).held → l ∈ (w.tasks j).held → i = j := by
  intro w h1 h2
  exact (LockInv_run store ts hf sched hT).2.exclusive h1 h2

/-- **Write phases are disjoint (serializable).**  The write phase of a transaction is from the step that
acquires the lock (before its first write) to the step that releases it (after commit or rollback) — the
states in which `held ≠ []`.  Under every schedule within the timeouts, two serializable transactions are
never in their write phases at the same time. -/
theorem write_phases_disjoint (store : Store) (ts : List Task) (hf : FreshTasks ts)
    (sched : List Act) (hT : WithinTimeout (World.init store ts) sched) (i j : Nat) (hij : i ≠ j) :
    let w := (World.init store ts).run sched
    (w.tasks i).mode = .serializable → (w.tasks j).mode = .serializable →
      ¬ ((w.tasks i).held ≠ [] ∧ (w.tasks j).held ≠ []) := by
  intro w hmi hmj ⟨hi, hj⟩
  have hinv := LockInv_run store ts hf sched hT
  have key : ∀ a, (w.tasks a).mode = .serializable → (w.tasks a).held ≠ [] → none ∈ (w.tasks a).held := by
    intro a hma hne
    have hti := hinv.1 a
    obtain ⟨l, hl⟩ := List.exists_mem_of_ne_nil _ hne
    have hshape : ∃ k, l = lockKeyOf (w.tasks a).mode k := by
      unfold Task.held at hl
      split at hl
      · rename_i ls o hpc
        rcases List.mem_append.mp hl with h | h
        · exact hti.shape l h
        · exact (hti.unl ls o hpc).2.2.1 l h
      · exact hti.shape l hl
    obtain ⟨k, hk⟩ := hshape
    rw [hma] at hk
    simp [lockKeyOf] at hk
    rw [← hk]; exact hl
  exact hij (hinv.2.exclusive (key i hmi hi) (key j hmj hj))

/-- **The store is written inside the write phase.**  Under every schedule (no timing hypothesis), a
transaction in locked or serializable mode that is about to issue a commit command (`delete_many` /
`set_many` — by `own_writes_only` the only store mutations it ever makes) is in its write phase: it holds a
lock.  Together with `write_phases_disjoint`: in serializable mode, at the moment a transaction writes the
store no other transaction is between its lock and its unlock — in particular no other commit falls between
a transaction's `delete_many` and its `set_many`. -/
theorem commit_inside_write_phase (store : Store) (ts : List Task) (hf : FreshTasks ts) (sched : List Act) (i : Nat) :
    let w := (World.init store ts).run sched
    (w.tasks i).mode ≠ .fast → ((w.tasks i).pc = .commitDel ∨ (w.tasks i).pc = .commitSet) → (w.tasks i).held ≠ [] := by
  intro w hm hpc
  have h : WLp (w.tasks i) := WLp_run store ts hf sched i
  generalize w.tasks i = t at hm hpc h ⊢
  rcases hpc with hpc | hpc
  · have := h.locks (by simp [Task.active, hpc]) hm (Or.inr (Or.inl (h.cdel hpc)))
    simpa [Task.held, hpc] using this
  · have := h.locks (by simp [Task.active, hpc]) hm (Or.inl (h.cset hpc))
    simpa [Task.held, hpc] using this

/-! ### Non-vacuity: the hypotheses are satisfiable and the model does something -/

section examples

/-- two calls of one decorated function, two increments each -/
def exTasks (m : Mode) : List Task :=
  [{ isTx := true, mode := m, timeout := 40, form := .dec, prog := [.incr 0 1, .incr 0 1] },
   { isTx := true, mode := m, timeout := 40, form := .dec, prog := [.incr 0 1, .incr 0 1] }]

/-- task 0 takes the lock; task 1 tries, fails, sleeps one lock step (4 u = 0.1 s), retries after task 0 has
committed and unlocked -/
def exSched : List Act :=
  [.run 0, .run 1, .run 0, .run 1, .run 0, .run 0, .run 0, .adv 4, .run 1, .run 1, .run 1, .run 1]

/-- `WithinTimeout` holds of a schedule with real contention (a failed `set_lock`, a retry after 0.1 s) -/
example : WithinTimeout (World.init (fun _ => none) (exTasks .locked)) exSched :=
  withinTimeout_of_check _ _ (by intro t ht; simp [exTasks] at ht; rcases ht with rfl | rfl <;> constructor <;> rfl) _ (by decide)

example : WithinTimeout (World.init (fun _ => none) (exTasks .serializable)) exSched :=
  withinTimeout_of_check _ _ (by intro t ht; simp [exTasks] at ht; rcases ht with rfl | rfl <;> constructor <;> rfl) _ (by decide)

/-- the other hypotheses of `no_lost_increments` hold of it -/
example : ∀ t ∈ exTasks .locked, OnlyIncr 0 t.isTx t.prog := by
  intro t ht
  simp [exTasks] at ht
  rcases ht with rfl | rfl <;> simp [OnlyIncr, Cmd.clobbers]

/-- ... and the model really runs: contention happened (task 1 slept on the lock), both committed, counter = 4 -/
example : (((World.init (fun _ => none) (exTasks .locked)).run (exSched.take 4)).tasks 1).pc = .lockSleep 0 9 4 := by decide
example : ((World.init (fun _ => none) (exTasks .locked)).run exSched).store 0 = some 4 := by decide
example : (((World.init (fun _ => none) (exTasks .locked)).run exSched).tasks 1).pc = .finished (.returned [some 3, some 4]) := by
  decide
example : mineOf ((World.init (fun _ => none) (exTasks .locked)).run exSched) 1 = [.setMany [(0, 4)]] := by decide

/-- serializable: in the middle of the schedule task 0 is in its write phase (and task 1 is not) -/
example : (((World.init (fun _ => none) (exTasks .serializable)).run (exSched.take 5)).tasks 0).held = [none] := by decide
example : (((World.init (fun _ => none) (exTasks .serializable)).run (exSched.take 5)).tasks 1).held = [] := by decide

/-- the mode hypothesis is needed: in fast mode the same two calls lose an update under this schedule
(both seed from the store before either commits) -/
example : ((World.init (fun _ => none) (exTasks .fast)).run
    [.run 0, .run 1, .run 0, .run 1, .run 0, .run 1]).store 0 = some 2 := by decide

/-- the timeout hypothesis is needed: a holder that sleeps past its lease (timeout 20 u = 0.5 s, sleep 8 ticks = 40 u)
has the lock taken over, and an increment is lost: both transactions commit, three increments in total, counter = 2 -/
def exLate : List Task :=
  [{ isTx := true, mode := .serializable, timeout := 20, form := .ctx, prog := [.incr 0 1, .sleep 8, .incr 0 1] },
   { isTx := true, mode := .serializable, timeout := 40, form := .dec, prog := [.sleep 4, .incr 0 1] }]

def exLateSched : List Act :=
  [.run 0, .run 0, .run 0, .run 1, .adv 20, .run 1, .run 1, .run 1, .run 1, .adv 20, .run 0, .run 0]

example : ((World.init (fun _ => none) exLate).run exLateSched).store 0 = some 2 := by decide
example : (((World.init (fun _ => none) exLate).run exLateSched).tasks 0).pc = .finished (.returned [some 1, some 2]) := by decide
example : (((World.init (fun _ => none) exLate).run exLateSched).tasks 1).pc = .finished (.returned [some 1]) := by decide
example : withinB (fun _ => none) exLate exLateSched = false := by decide

/-- `expire` under contention: task 0 increments the counter and keeps its lock while task 1 wants to re-time the
counter (and then increment it): task 1 is refused the lock, sleeps a lock step, and buffers the store's value only
once it owns the lock — after task 0's commit.  Nothing is lost: 1 + 1 + 2. -/
def exRetime (m : Mode) : List Task :=
  [{ isTx := true, mode := m, timeout := 40, form := .dec, prog := [.incr 0 1] },
   { isTx := true, mode := m, timeout := 40, form := .dec, prog := [.expire 0, .incr 0 2] }]

def exRetimeSched : List Act :=
  [.run 0, .run 0, .run 0, .run 1, .run 1, .run 0, .run 0, .adv 4, .run 1, .run 1, .run 1, .run 1]

def exStore1 : Store := fun k => if k = 0 then some 1 else none

example : WithinTimeout (World.init exStore1 (exRetime .locked)) exRetimeSched :=
  withinTimeout_of_check _ _ (by intro t ht; simp [exRetime] at ht; rcases ht with rfl | rfl <;> constructor <;> rfl) _ (by decide)
example : ∀ t ∈ exRetime .locked, OnlyIncr 0 t.isTx t.prog := by
  intro t ht
  simp [exRetime] at ht
  rcases ht with rfl | rfl <;> simp [OnlyIncr, Cmd.clobbers]
example : (((World.init exStore1 (exRetime .locked)).run (exRetimeSched.take 5)).tasks 1).pc = .lockSleep 0 9 4 := by decide
example : (((World.init exStore1 (exRetime .locked)).run (exRetimeSched.take 9)).tasks 1).pc = .expGet 0 := by decide
example : (((World.init exStore1 (exRetime .locked)).run (exRetimeSched.take 10)).tasks 1).ov = [(0, 4)] := by decide
example : ((World.init exStore1 (exRetime .locked)).run exRetimeSched).store 0 = some 4 := by decide
example : ((World.init exStore1 (exRetime .serializable)).run exRetimeSched).store 0 = some 4 := by decide
example : mineOf ((World.init exStore1 (exRetime .locked)).run exRetimeSched) 1 = [.setMany [(0, 4)]] := by decide
/-- the mode hypothesis is needed for `expire` too: in fast mode (no lock) the re-timing transaction buffers the
value before the other commit and writes it back over it — task 0's increment is lost (1 + 1 + 2 ≠ 3) -/
example : ((World.init exStore1 (exRetime .fast)).run
    [.run 0, .run 1, .run 1, .run 0, .run 0, .run 1, .run 1]).store 0 = some 3 := by decide

/-- conditional `set`: only-if-absent on a key another transaction has just created is refused (result 0) once the
lock is handed over, only-if-present succeeds -/
def exSetx : List Task :=
  [{ isTx := true, mode := .locked, timeout := 40, form := .ctx, prog := [.set 1 5] },
   { isTx := true, mode := .locked, timeout := 40, form := .ctx, prog := [.setx 1 7 false, .setx 1 8 true, .setx 2 9 true] }]

example : (((World.init (fun _ => none) exSetx).run
    [.run 0, .run 0, .run 1, .run 1, .run 0, .run 0, .adv 4, .run 1, .run 1, .run 1, .run 1, .run 1, .run 1, .run 1, .run 1]).tasks 1).pc
    = .finished (.returned [some 0, some 1, some 0]) := by decide
example : ((World.init (fun _ => none) exSetx).run
    [.run 0, .run 0, .run 1, .run 1, .run 0, .run 0, .adv 4, .run 1, .run 1, .run 1, .run 1, .run 1, .run 1, .run 1, .run 1]).store 1
    = some 8 := by decide

/-- a task outside any transaction next to a transaction: its `set` is in the store in the very step, while the
transaction's own write of the same key waits for the commit -/
def exMixed : List Task :=
  [{ isTx := true, mode := .locked, timeout := 40, form := .ctx, prog := [.set 1 5, .nestIn .dec, .incr 0 1, .nestOut, .raise] },
   { isTx := false, mode := .fast, timeout := 0, form := .ctx, prog := [.set 1 8, .get 1] }]

example : ((World.init (fun _ => none) exMixed).run [.run 0, .run 0, .run 1, .run 1]).store 1 = some 8 := by decide
example : (((World.init (fun _ => none) exMixed).run [.run 0, .run 0, .run 1, .run 1]).tasks 0).ov = [(1, 5)] := by decide
/-- the transaction raises after a nested block: nothing of it reaches the store, the caller gets the body's exception -/
example : (((World.init (fun _ => none) exMixed).run
    [.run 0, .run 0, .run 1, .run 1, .run 0, .run 0, .run 0, .run 0, .run 1]).tasks 0).pc = .finished .raisedBody := by decide
example : mineOf ((World.init (fun _ => none) exMixed).run
    [.run 0, .run 0, .run 1, .run 1, .run 0, .run 0, .run 0, .run 0, .run 1]) 0 = [] := by decide
example : ((World.init (fun _ => none) exMixed).run
    [.run 0, .run 0, .run 1, .run 1, .run 0, .run 0, .run 0, .run 0, .run 1]).store 0 = none := by decide

end examples

end CashewsVerif.Props.C05
