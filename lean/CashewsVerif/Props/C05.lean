import CashewsVerif.Lemmas.TxSchedCounter
import CashewsVerif.Lemmas.TxSchedOwn
import CashewsVerif.Lemmas.TxSchedCheck
import CashewsVerif.Lemmas.TxSchedPhase
import CashewsVerif.Lemmas.TxSchedSeg
import CashewsVerif.Lemmas.TxSchedNest
/-
C05 — concurrent transactions commit exactly their own writes; no lost increments.

The theorems quantify over *every* schedule `sched : List Act` (`run tid` = the task executes the backend
command it is parked before and runs on to its next one; `adv d` = time passes, timers fire; `cancel tid` =
`task.cancel()` reaches the task at the suspension point of its body it is parked at), every number
of tasks, every program (bodies may call `tx.commit()` / `tx.rollback()` themselves, any number of times, and go
on), every initial store.  A block ends in one of the ways of `Outcome`: the body returned, raised an exception object
of ANY kind `Exc` (an `Exception` or a `BaseException` that is not an `Exception`; an object whose truth value is True -
every built-in exception - or False: a class defining `__bool__` / `__len__`), got `LockedError`, or the task was cancelled
inside it.  Property theorems only; the lemmas live in
`Lemmas/TxSched{Basic,Inv,Locks,Counter,Own}.lean`, the model in `Model/TxSched.lean`, the sequential
meaning of a body in `Spec/TxBody.lean`.
-/
namespace CashewsVerif.Props.C05
open CashewsVerif.TxSched

/-- the tasks are as the harness creates them: parked before their first instruction, nothing buffered -/
def FreshTasks (ts : List Task) : Prop := ∀ t ∈ ts, t.Fresh

/-- **Context isolation.**  Under every schedule, a task whose program is not a transaction block never
has a transaction in its context: nothing of it is ever buffered in an overlay, it takes no transaction
lock, it is only ever parked before a *direct* backend command (or asleep, or finished) — and when it is
released there, the command takes effect on the store in that very step and is logged under its name
(`expire` changes no value; a conditional `set` decides on the store's presence at that very step). -/
theorem ctx_isolation (store : Store) (ts : List Task) (hf : FreshTasks ts) (sched : List Act) (i : Nat)
    (hplain : ((World.init store ts).tasks i).isTx = false) :
    let w := (World.init store ts).run sched
    ((w.tasks i).ctx = false ∧ (w.tasks i).ov = [] ∧ (w.tasks i).del = [] ∧ (w.tasks i).locks = [] ∧
      (w.tasks i).pc.plainOk) ∧
    (∀ k v, (w.tasks i).pc = .direct (.set k v) →
      (w.runTask i).store = (Mut.directSet k v).apply w.store ∧ (w.runTask i).log = w.log ++ [(i, .directSet k v)]) ∧
    (∀ k n, (w.tasks i).pc = .direct (.incr k n) →
      (w.runTask i).store = (Mut.directSet k ((w.store k).getD 0 + n)).apply w.store) ∧
    (∀ k, (w.tasks i).pc = .direct (.delete k) → (w.runTask i).store = (Mut.directDel k).apply w.store) ∧
    (∀ k, (w.tasks i).pc = .direct (.expire k) → (w.runTask i).store = w.store) ∧
    (∀ k v e, (w.tasks i).pc = .direct (.setx k v e) →
      (w.runTask i).store = if (w.store k).isSome = e then (Mut.directSet k v).apply w.store else w.store) := by
  intro w
  have hti := AllTI_run store ts hf sched i
  have hx : (w.tasks i).isTx = false := (isTx_run store ts sched i).trans hplain
  have hc := hti.plain_ctx hx
  refine ⟨⟨hc, (hti.noctx hc).2.1, (hti.noctx hc).2.2, (hti.noctx hc).1, hti.noctx_pc hc⟩, ?_, ?_, ?_, ?_, ?_⟩
  · intro k v hpc
    refine ⟨?_, ?_⟩ <;> simp [taskStep_direct _ _ _ _ _ hpc, directStep]
  · intro k n hpc
    simp only [runTask_store, taskStep_direct _ _ _ _ _ hpc, directStep]
  · intro k hpc
    simp only [runTask_store, taskStep_direct _ _ _ _ _ hpc, directStep]
  · intro k hpc
    simp only [runTask_store, taskStep_direct _ _ _ _ _ hpc, directStep]
  · intro k v e hpc
    simp only [runTask_store, taskStep_direct _ _ _ _ _ hpc, directStep]

/-- a step of one task never changes another task's state (its overlay, its context, its program counter):
no command of `j` can be captured by `i`'s transaction -/
theorem step_frame (w : World) (tid i : Nat) (h : i ≠ tid) : (w.runTask tid).tasks i = w.tasks i :=
  runTask_tasks_ne w tid h

/-- **Own writes only.**  Under every schedule (cancellations included), for every task `i` that is a transaction
block (context-manager form on a context object of its own, context-manager form on ONE context object shared by all the tasks
and entered by several of them at once, or decorator form — the form is not looked at by any rule: after the repairs of D12 and
D51 nothing a block remembers is shared between tasks through the object —, nested blocks inside, explicit
`tx.commit()` / `tx.rollback()` calls inside).  `specBody` is the body's sequential meaning, a fold that knows nothing of
locks, schedules or other tasks: a body is a sequence of segments separated by its explicit commits / rollbacks;
`s.done` = the commits of the explicitly committed segments, `commitMuts s` = the commit of the segment open at the end.
* If the caller got a normal return with results `rs`: the spec, on the values the task's backend reads returned, ran to
  the end with exactly those results, and the store mutations made by the steps of `i` are exactly: the commit of
  every explicitly committed segment, then the commit of the last segment (`delete_many` of its deletions, `set_many`
  of its overlay) — nothing else, nothing less; the increments made durable are those of these segments.
* If the caller got the body's own exception `e` (`raised e`, for EVERY kind of exception object `e : Exc`: an
  `Exception` or a `BaseException` that is not an `Exception`, truthy or FALSY — `bool(e)` False because its class
  defines `__bool__` / `__len__` —; the caller gets that very kind: the body's `raise e` is where it stopped),
  got `LockedError`, or got `CancelledError` because the task was cancelled while
  suspended inside the body: the body stopped after an executed part `p` (for the body's own exception: right
  before that `raise e`), and the store mutations made by the steps of `i` are exactly the commits of the segments `p`
  committed explicitly (`s.done`) — NOTHING of the segment that was open (for a body without explicit commits:
  nothing at all, `interrupted_block_applies_nothing`).
And the store is nothing but the initial store with the logged mutations applied in order. -/
theorem own_writes_only (store : Store) (ts : List Task) (hf : FreshTasks ts) (sched : List Act) (i : Nat)
    (htx : ((World.init store ts).tasks i).isTx = true) :
    let w := (World.init store ts).run sched
    let p0 := ((World.init store ts).tasks i).prog
    (∀ rs, (w.tasks i).pc = .finished (.returned rs) →
      ∃ s, specBody p0 (w.tasks i).reads {} = .normal s [] ∧ rs = s.results ∧ mineOf w i = s.done ++ commitMuts s ∧
        (w.tasks i).cinc = s.cinc ++ s.pend) ∧
    (∀ e : Exc, (w.tasks i).pc = .finished (.raised e) →
      specBody p0 (w.tasks i).reads {} = .raised ∧
      ∃ p rest s, p0 = p ++ .raise e :: rest ∧ specBody p (w.tasks i).reads {} = .normal s [] ∧
        mineOf w i = s.done ∧ (w.tasks i).cinc = s.cinc) ∧
    (((w.tasks i).pc = .finished .raisedLocked ∨ (w.tasks i).pc = .finished .cancelled) →
      ∃ p rest s, p0 = p ++ rest ∧ specBody p (w.tasks i).reads {} = .normal s [] ∧
        mineOf w i = s.done ∧ (w.tasks i).cinc = s.cinc) ∧
    w.store = (w.log.map (·.2)).foldl Mut.apply store := by
  intro w p0
  have hx : (w.tasks i).isTx = true := (isTx_run store ts sched i).trans htx
  have ho := own_run store ts hf sched i hx
  have hctx : ∀ o, (w.tasks i).pc = .finished o → OWpark p0 (w.tasks i) (mineOf w i) := by
    intro o hpc
    cases hc : (w.tasks i).ctx
    · have := (ho.pre hc).1; rw [hpc] at this; cases this
    · exact ho.post hc
  refine ⟨?_, ?_, ?_, store_eq_log_run store ts sched⟩
  · intro rs hpc
    have := hctx _ hpc
    simpa only [OWpark, hpc, Done] using this
  · intro e hpc
    have := hctx _ hpc
    simp only [OWpark, hpc, Done] at this
    obtain ⟨h1, p, rest, s, hp, ⟨r, hr⟩, hs, hm, hci⟩ := this
    exact ⟨h1, p, r, s, by rw [hp, hr], hs, hm, hci⟩
  · intro hpc
    rcases hpc with hpc | hpc
    · have := hctx _ hpc
      simp only [OWpark, hpc, Done] at this
      obtain ⟨p, rest, s, hp, _, hs, hm, hci⟩ := this
      exact ⟨p, rest, s, hp, hs, hm, hci⟩
    · have := hctx _ hpc
      simp only [OWpark, hpc, Done] at this
      obtain ⟨p, rest, s, hp, _, hs, hm, hci⟩ := this
      exact ⟨p, rest, s, hp, hs, hm, hci⟩

/-- **A block that does not end by returning applies nothing** (rollback is the identity on the store — for every kind
of exit with an exception).  The body calls no `tx.commit()` itself.  Whatever ends the block other than a normal
return — the body's own exception of whatever kind (`raised e` for every `e : Exc`: an `Exception`, a `BaseException`
that is not an `Exception`, an exception object whose truth value is False), `LockedError`, or the cancellation
of the task while it is suspended inside the body (after any number of buffered writes, while waiting for a lock,
in a sleep) — no step of the task ever mutated the store, under every schedule.  (Seeded changes C03-5 / C05-4 decided
with `isinstance(exc_value, Exception)` and committed the half-done transaction of a cancelled task; seeded change C05-9
decided with the truth value of the exception object, `if exc_value: rollback else: commit`, and committed a body that
raised a falsy exception.) -/
theorem interrupted_block_applies_nothing (store : Store) (ts : List Task) (hf : FreshTasks ts) (sched : List Act) (i : Nat)
    (htx : ((World.init store ts).tasks i).isTx = true)
    (hn : NoExplicit ((World.init store ts).tasks i).prog) (o : Outcome) (ho : ∀ rs, o ≠ .returned rs) :
    let w := (World.init store ts).run sched
    (w.tasks i).pc = .finished o → mineOf w i = [] ∧ (w.tasks i).cinc = [] := by
  intro w hpc
  have key : ∀ p rest s, ((World.init store ts).tasks i).prog = p ++ rest →
      specBody p (w.tasks i).reads {} = .normal s [] → mineOf w i = s.done → (w.tasks i).cinc = s.cinc →
      mineOf w i = [] ∧ (w.tasks i).cinc = [] := by
    intro p rest s hp hs hm hci
    have hw := spec_whole p _ _ _ _ hs (noExplicit_prefix ⟨rest, hp.symm⟩ hn)
    exact ⟨by rw [hm, hw.1], by rw [hci, hw.2.1]⟩
  have h := own_writes_only store ts hf sched i htx
  cases o with
  | returned rs => exact absurd rfl (ho rs)
  | raised e =>
    obtain ⟨_, p, rest, s, hp, hs, hm, hci⟩ := h.2.1 e hpc
    exact key p _ s hp hs hm hci
  | raisedLocked =>
    obtain ⟨p, rest, s, hp, hs, hm, hci⟩ := h.2.2.1 (Or.inl hpc)
    exact key p _ s hp hs hm hci
  | cancelled =>
    obtain ⟨p, rest, s, hp, hs, hm, hci⟩ := h.2.2.1 (Or.inr hpc)
    exact key p _ s hp hs hm hci

/-- **Nested blocks are flat — also an inner block that FAILS.**  A body may contain nested blocks (`nestIn f … nestOut h`: a nested
`async with cache.transaction()` or a call of a decorated function from inside the transaction), and an inner block may be left
by an exception of any kind that the enclosing body catches right outside it (`h = some e`) before going on.  Under every
schedule, if the caller of task `i` got a normal return with results `rs`, then these results and the store mutations made by
the steps of `i` are exactly those of the body with every nested block inlined (`flatten`: the block markers erased, whichever
way each inner block was left): the commits of the explicitly committed segments and then the commit of EVERYTHING buffered in
the open segment — the writes before the failed inner block, the writes the inner block made before it raised, and the writes
after it.  The failure of an inner block does not mark the transaction in any way.  (Seeded change C05-10 made a failed inner
block mark the transaction rollback-only: the outer body finished normally and nothing was committed.) -/
theorem caught_inner_failure_commits_everything (store : Store) (ts : List Task) (hf : FreshTasks ts) (sched : List Act) (i : Nat)
    (htx : ((World.init store ts).tasks i).isTx = true) :
    let w := (World.init store ts).run sched
    let p0 := ((World.init store ts).tasks i).prog
    ∀ rs, (w.tasks i).pc = .finished (.returned rs) →
      ∃ s, specBody (flatten p0) (w.tasks i).reads {} = .normal s [] ∧ rs = s.results ∧ mineOf w i = s.done ++ commitMuts s ∧
        (w.tasks i).cinc = s.cinc ++ s.pend := by
  intro w p0 rs hpc
  obtain ⟨s, hs, h⟩ := (own_writes_only store ts hf sched i htx).1 rs hpc
  exact ⟨s, by rw [← specBody_flatten]; exact hs, h⟩

/-- the sequential meaning of a body does not see the markers of nested blocks at all, whatever the reads and the state: the
same holds for the bodies of the other clauses of `own_writes_only` (raised, `LockedError`, cancelled) -/
theorem nested_blocks_are_flat (p : List Cmd) (rd : List (Option Int)) (s : BodySt) :
    specBody p rd s = specBody (flatten p) rd s := specBody_flatten p rd s

/-- **Multi-key writes are sequences of single-key writes.**  `cache.set_many({k1: v1, …})` / `cache.delete_many(k1, …)` inside a
transaction are the command sequences `Cmd.setMany kvs` / `Cmd.deleteMany ks` (Model/TxSched.lean: the locks are taken key by key
through `_get_lock_key`, then everything is buffered without a suspension point).  Their sequential meaning is what
`TransactionBackend.set_many` / `delete_many` do to the buffer in one go: every pair is put into the overlay (in order) and its
key is struck from the deletion marks; every key is erased from the overlay and marked deleted.  Since they are ordinary programs,
every theorem of this file (own writes only, lock exclusion, disjoint write phases in serializable mode - where `lockKeyOf`
answers the one global lock for EVERY key, also when a multi-key write is the transaction's first write -, commits inside the
write phase) covers bodies that contain them.  (Seeded change C05-14 gave set_many / delete_many a batch-lock helper that built
per-key lock names itself: in serializable mode such a transaction never took the global lock.) -/
theorem multi_key_writes_are_sequences (r : List Cmd) (rd : List (Option Int)) :
    (∀ (kvs : List (Nat × Int)) (s : BodySt), specBody (Cmd.setMany kvs ++ r) rd s =
      specBody r rd { s with ov := kvs.foldl (fun o p => o.put p.1 p.2) s.ov,
                             del := kvs.foldl (fun d p => d.filter (· ≠ p.1)) s.del }) ∧
    (∀ (ks : List Nat) (s : BodySt), specBody (Cmd.deleteMany ks ++ r) rd s =
      specBody r rd { s with ov := ks.foldl AL.erase s.ov,
                             del := ks.foldl (fun d k => k :: d.filter (· ≠ k)) s.del }) := by
  refine ⟨fun kvs => ?_, fun ks => ?_⟩
  · induction kvs with
    | nil => intro s; rfl
    | cons p kvs ih =>
      intro s
      simp only [Cmd.setMany, List.map_cons, List.cons_append, specBody, List.foldl_cons] at ih ⊢
      exact ih _
  · induction ks with
    | nil => intro s; rfl
    | cons k ks ih =>
      intro s
      simp only [Cmd.deleteMany, List.map_cons, List.cons_append, specBody, List.foldl_cons] at ih ⊢
      exact ih _

/-- **A cancelled task releases everything**: a task is cancelled (`Act.cancel`) while it is suspended inside its
body; in the state right after, nothing is buffered any more, it believes to hold no lock beyond those it is about to
release (`held` = the locks its rollback's `_unlock_updates` is working through), and once it has finished it holds none
— under every schedule. -/
theorem cancelled_task_releases (store : Store) (ts : List Task) (hf : FreshTasks ts) (sched : List Act) (i : Nat) :
    let w := (World.init store ts).run sched
    (∀ ls, (w.tasks i).pc = .unlocking ls .cancelled → (w.tasks i).locks = [] ∧ (w.tasks i).held = ls) ∧
    ((w.tasks i).pc = .finished .cancelled → (w.tasks i).held = []) := by
  dsimp only
  have hti := AllTI_run store ts hf sched i
  generalize ((World.init store ts).run sched).tasks i = t at hti ⊢
  refine ⟨fun ls hpc => ?_, fun hpc => ?_⟩
  · have := (hti.unl ls _ hpc).1
    exact ⟨this, by simp [Task.held, hpc, this]⟩
  · simp [Task.held, hpc, hti.fin _ hpc]

/-- **After an explicit `tx.commit()` / `tx.rollback()` the task holds no lock and has an empty buffer**: while
`_unlock_updates` of an explicit commit / rollback works through the locks (`midUnlock ls`), `_locks` is already empty
(`self._locks = set()`), nothing is buffered, and the locks still to be released are distinct locks of the task's mode;
the body resumes only after the last of them — so every later write of the same block has to take its lock again
(`localCmd` runs a write only if `holds`).  (Seeded change C05-5 kept the released locks in `_locks`: the later
write skipped `_lock_updates` while another transaction could take the lock.) -/
theorem explicit_commit_releases_everything (store : Store) (ts : List Task) (hf : FreshTasks ts) (sched : List Act) (i : Nat)
    (ls : List LockKey) :
    let w := (World.init store ts).run sched
    (w.tasks i).pc = .midUnlock ls →
      (w.tasks i).locks = [] ∧ (w.tasks i).ov = [] ∧ (w.tasks i).del = [] ∧ (w.tasks i).held = ls ∧ ls.Nodup := by
  dsimp only
  have hti := AllTI_run store ts hf sched i
  generalize ((World.init store ts).run sched).tasks i = t at hti ⊢
  intro hpc
  have h := hti.mid ls hpc
  exact ⟨h.1, h.2.1, h.2.2.1, by simp [Task.held, hpc, h.1], h.2.2.2.1⟩

/-- **No lost increments.**  All transactions run in one mode `m`, locked or serializable; `k` is a
counter: transactions only `incr` it or re-time it (`expire`, a read-modify-write that buffers the store's
value and writes it back at commit — it contributes 0) or read it, none `set`s (plain or conditional) or deletes
it, and tasks outside a transaction do not write it; the schedule (cancellations included) keeps every
transaction within its timeout (`WithinTimeout`: in every state passed through, each task inside its
transaction entered it less than `timeout` ago).  Then in the state reached — final or not — the counter
equals its initial value plus the sum, over the transactions, of their increments of `k` that a commit has made
durable (`cinc`: the increments of the segments committed explicitly by `tx.commit()`, and of the last segment once the
commit at the end of the block has reached the store; `own_writes_only` ties `cinc` to the program: `s.cinc ++ s.pend`
of the spec for a returned body, `s.cinc` of the executed part otherwise; increments of a segment ended by
`tx.rollback()`, an exception or a cancellation are not in it).  (Absent counts as 0, as `incr` reads it.) -/
theorem no_lost_increments (store : Store) (ts : List Task) (hf : FreshTasks ts) (k : Nat) (m : Mode)
    (hm : m = .locked ∨ m = .serializable)
    (hmodes : ∀ t ∈ ts, t.isTx = true → t.mode = m)
    (honly : ∀ t ∈ ts, OnlyIncr k t.isTx t.prog)
    (sched : List Act) (hT : WithinTimeout (World.init store ts) sched) :
    let w := (World.init store ts).run sched
    (w.store k).getD 0 = (store k).getD 0 +
      csum (fun i => if (w.tasks i).isTx = true then isum k (w.tasks i).cinc else 0) ts.length := by
  intro w
  have hmf : m ≠ .fast := by rcases hm with h | h <;> simp [h]
  exact (counter_run store ts hf k m hmf hmodes honly sched hT).sum

/-- **No lost increments, whole blocks** (the statement in its familiar form): if moreover no body calls
`tx.commit()` / `tx.rollback()` itself, the counter equals its initial value plus the sum, over the transactions whose
commit has reached the store, of ALL the increments their programs apply to it — and a transaction that raised, got
`LockedError` or was cancelled contributes nothing. -/
theorem no_lost_increments_whole_blocks (store : Store) (ts : List Task) (hf : FreshTasks ts) (k : Nat) (m : Mode)
    (hm : m = .locked ∨ m = .serializable)
    (hmodes : ∀ t ∈ ts, t.isTx = true → t.mode = m)
    (honly : ∀ t ∈ ts, OnlyIncr k t.isTx t.prog)
    (hwhole : ∀ t ∈ ts, NoExplicit t.prog)
    (sched : List Act) (hT : WithinTimeout (World.init store ts) sched) :
    let w := (World.init store ts).run sched
    (w.store k).getD 0 = (store k).getD 0 +
      csum (fun i => if (w.tasks i).isTx = true ∧ (w.tasks i).committed = true
                     then incrTotal k (progOf ts i) else 0) ts.length := by
  have h := no_lost_increments store ts hf k m hm hmodes honly sched hT
  dsimp only at h ⊢
  rw [h]
  congr 1
  refine csum_congr (fun i hi => ?_)
  by_cases hx : (((World.init store ts).run sched).tasks i).isTx = true
  · have ho := own_run store ts hf sched i hx
    have hp : progOf ts i = (ts[i]).prog := by
      unfold progOf
      rw [List.getD_eq_getElem?_getD, List.getElem?_eq_getElem hi]; rfl
    have hn : NoExplicit (progOf ts i) := by rw [hp]; exact hwhole _ (List.getElem_mem hi)
    have := contrib_whole (k := k) ho hx hn
    simp only [contrib] at this
    rw [this]
    simp [hx, progOf]
  · simp [hx]

/-- the key invariant behind it, exposed: while a transaction has the counter buffered — seeded by its first
`incr` or buffered by an `expire` — it holds the lock that protects it, and what it has buffered is the store's
*current* value plus the increments it has issued since its last commit / rollback: the store's value has not changed
since the transaction read it (so the value an `expire` writes back at commit is never stale) -/
theorem buffered_counter_is_current (store : Store) (ts : List Task) (hf : FreshTasks ts) (k : Nat) (m : Mode)
    (hm : m = .locked ∨ m = .serializable)
    (hmodes : ∀ t ∈ ts, t.isTx = true → t.mode = m)
    (honly : ∀ t ∈ ts, OnlyIncr k t.isTx t.prog)
    (sched : List Act) (hT : WithinTimeout (World.init store ts) sched) (i : Nat) (v : Int) :
    let w := (World.init store ts).run sched
    (w.tasks i).ctx = true → (w.tasks i).active = true → (w.tasks i).ov.get k = some v →
      lockKeyOf m k ∈ (w.tasks i).held ∧ v = (w.store k).getD 0 + isum k (w.tasks i).pend := by
  intro w hc ha hv
  have hmf : m ≠ .fast := by rcases hm with h | h <;> simp [h]
  have hci := counter_run store ts hf k m hmf hmodes honly sched hT
  have hti := AllTI_run store ts hf sched i
  have hb := ((hci.ci i).body hc ha).some_ v hv
  rw [hci.modes i (hti.ctx_tx hc)] at hb
  refine ⟨?_, hb.2⟩
  unfold Task.held
  split
  · rename_i hpc; simp [Task.active, hpc] at ha
  · exact List.mem_append_left _ hb.1
  · exact hb.1

/-- **Re-timing keeps the value.**  Same setting; if nobody writes `k` at all (transactions only `expire` or read
it), then `k` holds its initial value in every state reached: the write-back of an `expire` never resurrects an
older value. -/
theorem retime_only_keeps_value (store : Store) (ts : List Task) (hf : FreshTasks ts) (k : Nat) (m : Mode)
    (hm : m = .locked ∨ m = .serializable)
    (hmodes : ∀ t ∈ ts, t.isTx = true → t.mode = m)
    (hro : ∀ t ∈ ts, ∀ c ∈ t.prog, c.writes k = false)
    (sched : List Act) (hT : WithinTimeout (World.init store ts) sched) :
    let w := (World.init store ts).run sched
    (w.store k).getD 0 = (store k).getD 0 := by
  have honly : ∀ t ∈ ts, OnlyIncr k t.isTx t.prog := by
    intro t ht
    unfold OnlyIncr
    split
    · intro c hc
      have := hro t ht c hc
      cases c <;> simp_all [Cmd.writes, Cmd.clobbers]
    · exact hro t ht
  have h := no_lost_increments store ts hf k m hm hmodes honly sched hT
  dsimp only at h ⊢
  rw [h, csum_zero]; · simp
  intro i hi
  by_cases hx : (((World.init store ts).run sched).tasks i).isTx = true
  · have ho := own_run store ts hf sched i hx
    have hp : progOf ts i = (ts[i]).prog := by
      unfold progOf
      rw [List.getD_eq_getElem?_getD, List.getElem?_eq_getElem hi]; rfl
    have hn : ∀ c ∈ progOf ts i, c.writes k = false := by rw [hp]; exact hro _ (List.getElem_mem hi)
    have := contrib_nowrite (k := k) ho hx hn
    simpa [contrib, hx] using this
  · simp [hx]

/-- **Lock holders exclude each other** (locked mode: per key; serializable: the one global lock), for every
schedule within the timeouts: two tasks never believe to hold the same lock, and a held lock is recorded in
the store under its holder with a lease that is still running. -/
theorem lock_exclusive (store : Store) (ts : List Task) (hf : FreshTasks ts)
    (sched : List Act) (hT : WithinTimeout (World.init store ts) sched) (i j : Nat) (l : LockKey) :
    let w := (World.init store ts).run sched
    l ∈ (w.tasks i).held → l ∈ (w.tasks j).held → i = j := by
  intro w h1 h2
  exact (LockInv_run store ts hf sched hT).2.exclusive h1 h2

/-- **Write phases are disjoint (serializable).**  A write phase of a transaction is from the step that
acquires the lock (before the first write of a segment) to the step that releases it (after the commit or rollback
that ends the segment: at the end of the block, or an explicit `tx.commit()` / `tx.rollback()` — a body with explicit
commits has one write phase per segment that writes) — the states in which `held ≠ []`.  Under every schedule within the timeouts, two serializable transactions are
never in their write phases at the same time. -/
theorem write_phases_disjoint (store : Store) (ts : List Task) (hf : FreshTasks ts)
    (sched : List Act) (hT : WithinTimeout (World.init store ts) sched) (i j : Nat) (hij : i ≠ j) :
    let w := (World.init store ts).run sched
    (w.tasks i).mode = .serializable → (w.tasks j).mode = .serializable →
      ¬ ((w.tasks i).held ≠ [] ∧ (w.tasks j).held ≠ []) := by
  intro w hmi hmj ⟨hi, hj⟩
  have hinv := LockInv_run store ts hf sched hT
  have key : ∀ a, (w.tasks a).mode = .serializable → (w.tasks a).held ≠ [] → none ∈ (w.tasks a).held := by
    intro a hma hne
    have hti := hinv.1 a
    obtain ⟨l, hl⟩ := List.exists_mem_of_ne_nil _ hne
    have hshape : ∃ k, l = lockKeyOf (w.tasks a).mode k := by
      unfold Task.held at hl
      split at hl
      · rename_i ls o hpc
        rcases List.mem_append.mp hl with h | h
        · exact hti.shape l h
        · exact (hti.unl ls o hpc).2.2.1 l h
      · rename_i ls hpc
        rcases List.mem_append.mp hl with h | h
        · exact hti.shape l h
        · exact (hti.mid ls hpc).2.2.2.2.1 l h
      · exact hti.shape l hl
    obtain ⟨k, hk⟩ := hshape
    rw [hma] at hk
    simp [lockKeyOf] at hk
    rw [← hk]; exact hl
  exact hij (hinv.2.exclusive (key i hmi hi) (key j hmj hj))

/-- **The store is written inside the write phase.**  Under every schedule (no timing hypothesis), a
transaction in locked or serializable mode that is about to issue a commit command (`delete_many` /
`set_many`, of the commit at the end of the block or of an explicit `tx.commit()` — by `own_writes_only` the only
store mutations it ever makes) is in a write phase: it holds a lock.  Together with `write_phases_disjoint`: in
serializable mode, at the moment a transaction writes the store no other transaction is between its lock and its
unlock — in particular no other commit falls between a transaction's `delete_many` and its `set_many`; and a write
issued after an explicit commit cannot reach the store under a lock the transaction has already given back. -/
theorem commit_inside_write_phase (store : Store) (ts : List Task) (hf : FreshTasks ts) (sched : List Act) (i : Nat) :
    let w := (World.init store ts).run sched
    (w.tasks i).mode ≠ .fast →
      ((w.tasks i).pc = .commitDel ∨ (w.tasks i).pc = .commitSet ∨ (w.tasks i).pc = .midDel ∨ (w.tasks i).pc = .midSet) →
      (w.tasks i).held ≠ [] := by
  intro w hm hpc
  have h : WLp (w.tasks i) := WLp_run store ts hf sched i
  generalize w.tasks i = t at hm hpc h ⊢
  rcases hpc with hpc | hpc | hpc | hpc
  · have := h.locks (by simp [Task.active, hpc]) hm (Or.inr (Or.inl (h.cdel hpc)))
    simpa [Task.held, hpc] using this
  · have := h.locks (by simp [Task.active, hpc]) hm (Or.inl (h.cset hpc))
    simpa [Task.held, hpc] using this
  · have := h.locks (by simp [Task.active, hpc]) hm (Or.inr (Or.inl (h.mdel hpc)))
    simpa [Task.held, hpc] using this
  · have := h.locks (by simp [Task.active, hpc]) hm (Or.inl (h.mset hpc))
    simpa [Task.held, hpc] using this

/-! ### Non-vacuity: the hypotheses are satisfiable and the model does something -/

section examples

/-- two calls of one decorated function, two increments each -/
def exTasks (m : Mode) : List Task :=
  [{ isTx := true, mode := m, timeout := 40, form := .dec, prog := [.incr 0 1, .incr 0 1] },
   { isTx := true, mode := m, timeout := 40, form := .dec, prog := [.incr 0 1, .incr 0 1] }]

/-- task 0 takes the lock; task 1 tries, fails, sleeps one lock step (4 u = 0.1 s), retries after task 0 has
committed and unlocked -/
def exSched : List Act :=
  [.run 0, .run 1, .run 0, .run 1, .run 0, .run 0, .run 0, .adv 4, .run 1, .run 1, .run 1, .run 1]

/-- `WithinTimeout` holds of a schedule with real contention (a failed `set_lock`, a retry after 0.1 s) -/
example : WithinTimeout (World.init (fun _ => none) (exTasks .locked)) exSched :=
  withinTimeout_of_check _ _ (by intro t ht; simp [exTasks] at ht; rcases ht with rfl | rfl <;> constructor <;> rfl) _ (by decide)

example : WithinTimeout (World.init (fun _ => none) (exTasks .serializable)) exSched :=
  withinTimeout_of_check _ _ (by intro t ht; simp [exTasks] at ht; rcases ht with rfl | rfl <;> constructor <;> rfl) _ (by decide)

/-- the other hypotheses of `no_lost_increments` hold of it -/
example : ∀ t ∈ exTasks .locked, OnlyIncr 0 t.isTx t.prog := by
  intro t ht
  simp [exTasks] at ht
  rcases ht with rfl | rfl <;> simp [OnlyIncr, Cmd.clobbers]

/-- ... and the model really runs: contention happened (task 1 slept on the lock), both committed, counter = 4 -/
example : (((World.init (fun _ => none) (exTasks .locked)).run (exSched.take 4)).tasks 1).pc = .lockSleep 0 9 4 := by decide
example : ((World.init (fun _ => none) (exTasks .locked)).run exSched).store 0 = some 4 := by decide
example : (((World.init (fun _ => none) (exTasks .locked)).run exSched).tasks 1).pc = .finished (.returned [some 3, some 4]) := by
  decide
example : mineOf ((World.init (fun _ => none) (exTasks .locked)).run exSched) 1 = [.setMany [(0, 4)]] := by decide

/-- serializable: in the middle of the schedule task 0 is in its write phase (and task 1 is not) -/
example : (((World.init (fun _ => none) (exTasks .serializable)).run (exSched.take 5)).tasks 0).held = [none] := by decide
example : (((World.init (fun _ => none) (exTasks .serializable)).run (exSched.take 5)).tasks 1).held = [] := by decide

/-- the mode hypothesis is needed: in fast mode the same two calls lose an update under this schedule
(both seed from the store before either commits) -/
example : ((World.init (fun _ => none) (exTasks .fast)).run
    [.run 0, .run 1, .run 0, .run 1, .run 0, .run 1]).store 0 = some 2 := by decide

/-- the timeout hypothesis is needed: a holder that sleeps past its lease (timeout 20 u = 0.5 s, sleep 8 ticks = 40 u)
has the lock taken over, and an increment is lost: both transactions commit, three increments in total, counter = 2 -/
def exLate : List Task :=
  [{ isTx := true, mode := .serializable, timeout := 20, form := .ctx, prog := [.incr 0 1, .sleep 8, .incr 0 1] },
   { isTx := true, mode := .serializable, timeout := 40, form := .dec, prog := [.sleep 4, .incr 0 1] }]

def exLateSched : List Act :=
  [.run 0, .run 0, .run 0, .run 1, .adv 20, .run 1, .run 1, .run 1, .run 1, .adv 20, .run 0, .run 0]

example : ((World.init (fun _ => none) exLate).run exLateSched).store 0 = some 2 := by decide
example : (((World.init (fun _ => none) exLate).run exLateSched).tasks 0).pc = .finished (.returned [some 1, some 2]) := by decide
example : (((World.init (fun _ => none) exLate).run exLateSched).tasks 1).pc = .finished (.returned [some 1]) := by decide
example : withinB (fun _ => none) exLate exLateSched = false := by decide

/-- `expire` under contention: task 0 increments the counter and keeps its lock while task 1 wants to re-time the
counter (and then increment it): task 1 is refused the lock, sleeps a lock step, and buffers the store's value only
once it owns the lock — after task 0's commit.  Nothing is lost: 1 + 1 + 2. -/
def exRetime (m : Mode) : List Task :=
  [{ isTx := true, mode := m, timeout := 40, form := .dec, prog := [.incr 0 1] },
   { isTx := true, mode := m, timeout := 40, form := .dec, prog := [.expire 0, .incr 0 2] }]

def exRetimeSched : List Act :=
  [.run 0, .run 0, .run 0, .run 1, .run 1, .run 0, .run 0, .adv 4, .run 1, .run 1, .run 1, .run 1]

def exStore1 : Store := fun k => if k = 0 then some 1 else none

example : WithinTimeout (World.init exStore1 (exRetime .locked)) exRetimeSched :=
  withinTimeout_of_check _ _ (by intro t ht; simp [exRetime] at ht; rcases ht with rfl | rfl <;> constructor <;> rfl) _ (by decide)
example : ∀ t ∈ exRetime .locked, OnlyIncr 0 t.isTx t.prog := by
  intro t ht
  simp [exRetime] at ht
  rcases ht with rfl | rfl <;> simp [OnlyIncr, Cmd.clobbers]
example : (((World.init exStore1 (exRetime .locked)).run (exRetimeSched.take 5)).tasks 1).pc = .lockSleep 0 9 4 := by decide
example : (((World.init exStore1 (exRetime .locked)).run (exRetimeSched.take 9)).tasks 1).pc = .expGet 0 := by decide
example : (((World.init exStore1 (exRetime .locked)).run (exRetimeSched.take 10)).tasks 1).ov = [(0, 4)] := by decide
example : ((World.init exStore1 (exRetime .locked)).run exRetimeSched).store 0 = some 4 := by decide
example : ((World.init exStore1 (exRetime .serializable)).run exRetimeSched).store 0 = some 4 := by decide
example : mineOf ((World.init exStore1 (exRetime .locked)).run exRetimeSched) 1 = [.setMany [(0, 4)]] := by decide
/-- the mode hypothesis is needed for `expire` too: in fast mode (no lock) the re-timing transaction buffers the
value before the other commit and writes it back over it — task 0's increment is lost (1 + 1 + 2 ≠ 3) -/
example : ((World.init exStore1 (exRetime .fast)).run
    [.run 0, .run 1, .run 1, .run 0, .run 0, .run 1, .run 1]).store 0 = some 3 := by decide

/-- conditional `set`: only-if-absent on a key another transaction has just created is refused (result 0) once the
lock is handed over, only-if-present succeeds -/
def exSetx : List Task :=
  [{ isTx := true, mode := .locked, timeout := 40, form := .ctx, prog := [.set 1 5] },
   { isTx := true, mode := .locked, timeout := 40, form := .ctx, prog := [.setx 1 7 false, .setx 1 8 true, .setx 2 9 true] }]

example : (((World.init (fun _ => none) exSetx).run
    [.run 0, .run 0, .run 1, .run 1, .run 0, .run 0, .adv 4, .run 1, .run 1, .run 1, .run 1, .run 1, .run 1, .run 1, .run 1]).tasks 1).pc
    = .finished (.returned [some 0, some 1, some 0]) := by decide
example : ((World.init (fun _ => none) exSetx).run
    [.run 0, .run 0, .run 1, .run 1, .run 0, .run 0, .adv 4, .run 1, .run 1, .run 1, .run 1, .run 1, .run 1, .run 1, .run 1]).store 1
    = some 8 := by decide

/-- a task outside any transaction next to a transaction: its `set` is in the store in the very step, while the
transaction's own write of the same key waits for the commit -/
def exMixed : List Task :=
  [{ isTx := true, mode := .locked, timeout := 40, form := .ctx, prog := [.set 1 5, .nestIn .dec, .incr 0 1, .nestOut none, .raise ⟨false, false⟩] },
   { isTx := false, mode := .fast, timeout := 0, form := .ctx, prog := [.set 1 8, .get 1] }]

example : ((World.init (fun _ => none) exMixed).run [.run 0, .run 0, .run 1, .run 1]).store 1 = some 8 := by decide
example : (((World.init (fun _ => none) exMixed).run [.run 0, .run 0, .run 1, .run 1]).tasks 0).ov = [(1, 5)] := by decide
/-- the transaction raises after a nested block: nothing of it reaches the store, the caller gets the body's exception -/
example : (((World.init (fun _ => none) exMixed).run
    [.run 0, .run 0, .run 1, .run 1, .run 0, .run 0, .run 0, .run 0, .run 1]).tasks 0).pc = .finished (.raised ⟨false, false⟩) := by decide
example : mineOf ((World.init (fun _ => none) exMixed).run
    [.run 0, .run 0, .run 1, .run 1, .run 0, .run 0, .run 0, .run 0, .run 1]) 0 = [] := by decide
example : ((World.init (fun _ => none) exMixed).run
    [.run 0, .run 0, .run 1, .run 1, .run 0, .run 0, .run 0, .run 0, .run 1]).store 0 = none := by decide


/-- **cancellation**: task 0 has incremented the counter and written key 1 (two locks held, both writes buffered) and is
asleep inside its block when it is cancelled; task 1 waits for the counter's lock meanwhile -/
def exCancel (m : Mode) : List Task :=
  [{ isTx := true, mode := m, timeout := 40, form := .ctx, prog := [.incr 0 1, .set 1 5, .sleep 2, .incr 0 1] },
   { isTx := true, mode := m, timeout := 40, form := .dec, prog := [.incr 0 2] }]

def exCancelSched : List Act :=
  [.run 0, .run 0, .run 0, .run 0, .run 1, .run 1, .cancel 0, .run 0, .run 0, .adv 4, .run 1, .run 1, .run 1, .run 1]

example : WithinTimeout (World.init exStore1 (exCancel .locked)) exCancelSched :=
  withinTimeout_of_check _ _ (by intro t ht; simp [exCancel] at ht; rcases ht with rfl | rfl <;> constructor <;> rfl) _ (by decide)
example : NoExplicit (exCancel .locked)[0].prog := by intro c hc; simp [exCancel] at hc; rcases hc with rfl | rfl | rfl | rfl <;> rfl
/-- before the cancellation: asleep in the body, both writes buffered, both locks held; task 1 is refused the lock -/
example : (((World.init exStore1 (exCancel .locked)).run (exCancelSched.take 6)).tasks 0).pc = .bodySleep 10 := by decide
example : (((World.init exStore1 (exCancel .locked)).run (exCancelSched.take 6)).tasks 0).ov = [(0, 2), (1, 5)] := by decide
example : (((World.init exStore1 (exCancel .locked)).run (exCancelSched.take 6)).tasks 0).held = [some 0, some 1] := by decide
example : (((World.init exStore1 (exCancel .locked)).run (exCancelSched.take 6)).tasks 1).pc = .lockSleep 0 9 4 := by decide
/-- right after it: buffer dropped, the rollback's `_unlock_updates` is working through the two locks -/
example : (((World.init exStore1 (exCancel .locked)).run (exCancelSched.take 7)).tasks 0).pc
    = .unlocking [some 0, some 1] .cancelled := by decide
example : (((World.init exStore1 (exCancel .locked)).run (exCancelSched.take 7)).tasks 0).ov = [] := by decide
/-- at the end: the caller of task 0 got the cancellation, no step of task 0 touched the store, task 1 got the lock and
committed on top of the untouched value: 1 + 2 -/
example : (((World.init exStore1 (exCancel .locked)).run exCancelSched).tasks 0).pc = .finished .cancelled := by decide
example : mineOf ((World.init exStore1 (exCancel .locked)).run exCancelSched) 0 = [] := by decide
example : ((World.init exStore1 (exCancel .locked)).run exCancelSched).store 0 = some 3 := by decide
example : ((World.init exStore1 (exCancel .locked)).run exCancelSched).store 1 = none := by decide
example : ((World.init exStore1 (exCancel .serializable)).run exCancelSched).store 0 = some 3 := by decide
/-- cancelled while waiting for a lock (in the sleep between two `set_lock` attempts): nothing held, nothing applied -/
example : (((World.init exStore1 (exCancel .locked)).run (exCancelSched.take 6 ++ [.cancel 1])).tasks 1).pc
    = .finished .cancelled := by decide
/-- a body that raises a `BaseException` which is not an `Exception`: rolled back like any other -/
example : (((World.init exStore1 [{ isTx := true, mode := .locked, timeout := 40, form := .ctx, prog := [.incr 0 1, .raise ⟨true, false⟩] }]).run
    [.run 0, .run 0, .run 0, .run 0]).tasks 0).pc = .finished (.raised ⟨true, false⟩) := by decide
example : ((World.init exStore1 [{ isTx := true, mode := .locked, timeout := 40, form := .ctx, prog := [.incr 0 1, .raise ⟨true, false⟩] }]).run
    [.run 0, .run 0, .run 0, .run 0]).store 0 = some 1 := by decide

/-- **a body that raises a FALSY exception object** (`bool(exc)` is False: its class defines `__len__` / `__bool__`), an
`Exception` or a non-`Exception` `BaseException`, in each mode, holding two locks with an increment and a write buffered: the
caller gets that very exception, no step of the task touched the store (rolled back like any other; premise of
`interrupted_block_applies_nothing` with `o = .raised ⟨_, true⟩`), the locks are given back and the waiting call commits on
top of the untouched counter: 1 + 2 -/
def exFalsy (m : Mode) (base : Bool) : List Task :=
  [{ isTx := true, mode := m, timeout := 40, form := .dec, prog := [.incr 0 1, .set 1 5, .raise ⟨base, true⟩] },
   { isTx := true, mode := m, timeout := 40, form := .ctx, prog := [.incr 0 2] }]

def exFalsySched : List Act :=
  [.run 0, .run 0, .run 0, .run 1, .run 1, .run 0, .run 0, .run 0, .adv 4, .run 1, .run 1, .run 1, .run 1]

example : NoExplicit (exFalsy .locked false)[0].prog := by intro c hc; simp [exFalsy] at hc; rcases hc with rfl | rfl | rfl <;> rfl
example : ∀ rs, Outcome.raised ⟨false, true⟩ ≠ .returned rs := by intro rs; simp
example : WithinTimeout (World.init exStore1 (exFalsy .locked true)) exFalsySched :=
  withinTimeout_of_check _ _ (by intro t ht; simp [exFalsy] at ht; rcases ht with rfl | rfl <;> constructor <;> rfl) _ (by decide)
/-- before the raise: both writes buffered, both locks held, the other call refused the counter's lock -/
example : (((World.init exStore1 (exFalsy .locked false)).run (exFalsySched.take 5)).tasks 0).pc = .lockTry 1 9 := by decide
example : (((World.init exStore1 (exFalsy .locked false)).run (exFalsySched.take 5)).tasks 1).pc = .lockSleep 0 9 4 := by decide
example : (((World.init exStore1 (exFalsy .locked false)).run (exFalsySched.take 6)).tasks 0).pc
    = .unlocking [some 0, some 1] (.raised ⟨false, true⟩) := by decide
/-- what the run ends in: (caller of task 0, store mutations by task 0, its durable increments, counter, key 1, caller of task 1) -/
def exFalsyEnd (w : World) : PC × List Mut × List (Nat × Int) × Option Int × Option Int × PC :=
  ((w.tasks 0).pc, mineOf w 0, (w.tasks 0).cinc, w.store 0, w.store 1, (w.tasks 1).pc)

example : exFalsyEnd ((World.init exStore1 (exFalsy .locked false)).run exFalsySched) =
    (.finished (.raised ⟨false, true⟩), [], [], some 3, none, .finished (.returned [some 3])) := by decide
example : exFalsyEnd ((World.init exStore1 (exFalsy .locked true)).run exFalsySched) =
    (.finished (.raised ⟨true, true⟩), [], [], some 3, none, .finished (.returned [some 3])) := by decide
example : exFalsyEnd ((World.init exStore1 (exFalsy .serializable false)).run
      [.run 0, .run 0, .run 0, .run 1, .run 1, .run 0, .adv 4, .run 1, .run 1, .run 1, .run 1]) =
    (.finished (.raised ⟨false, true⟩), [], [], some 3, none, .finished (.returned [some 3])) := by decide
example : exFalsyEnd ((World.init exStore1 (exFalsy .serializable true)).run
      [.run 0, .run 0, .run 0, .run 1, .run 1, .run 0, .adv 4, .run 1, .run 1, .run 1, .run 1]) =
    (.finished (.raised ⟨true, true⟩), [], [], some 3, none, .finished (.returned [some 3])) := by decide
example : exFalsyEnd ((World.init exStore1 (exFalsy .fast false)).run [.run 0, .run 0, .run 1, .run 1, .run 1]) =
    (.finished (.raised ⟨false, true⟩), [], [], some 3, none, .finished (.returned [some 3])) := by decide
example : exFalsyEnd ((World.init exStore1 (exFalsy .fast true)).run [.run 0, .run 0, .run 1, .run 1, .run 1]) =
    (.finished (.raised ⟨true, true⟩), [], [], some 3, none, .finished (.returned [some 3])) := by decide

/-- **an inner block that fails, caught by the outer body** (the shape of seeded change C05-10): task 0 writes key 1 and increments
the counter, opens a nested block that writes key 2 and raises — the exception is caught right outside the inner block —, then
increments again and writes key 3, and returns.  Everything is committed, the inner block's write included; the concurrent
decorated call (refused the lock meanwhile) commits on top: 1 + 1 + 1 + 4 -/
def exCaught (m : Mode) (f : Form) : List Task :=
  [{ isTx := true, mode := m, timeout := 40, form := .ctx,
     prog := [.set 1 5, .incr 0 1, .nestIn f, .set 2 7, .nestOut (some ⟨false, false⟩), .incr 0 1, .set 3 9] },
   { isTx := true, mode := m, timeout := 40, form := .dec, prog := [.incr 0 4] }]

def exCaughtSched : List Act :=
  [.run 0, .run 0, .run 0, .run 0, .run 1, .run 1, .run 0, .run 0, .run 0, .run 0, .run 0, .run 0, .run 0,
   .adv 4, .run 1, .run 1, .run 1, .run 1]

example : flatten (exCaught .locked .dec)[0].prog = [.set 1 5, .incr 0 1, .set 2 7, .incr 0 1, .set 3 9] := by decide
example : WithinTimeout (World.init exStore1 (exCaught .locked .ctx)) exCaughtSched :=
  withinTimeout_of_check _ _ (by intro t ht; simp [exCaught] at ht; rcases ht with rfl | rfl <;> constructor <;> rfl) _ (by decide)
example : (((World.init exStore1 (exCaught .locked .ctx)).run (exCaughtSched.take 6)).tasks 1).pc = .lockSleep 0 9 4 := by decide
example : (fun w : World => ((w.tasks 0).pc, mineOf w 0, w.store 0, w.store 2, (w.tasks 1).pc))
    ((World.init exStore1 (exCaught .locked .ctx)).run exCaughtSched) =
    (.finished (.returned [some 2, some 3]), [.setMany [(1, 5), (2, 7), (0, 3), (3, 9)]], some 7, some 7,
     .finished (.returned [some 7])) := by decide
example : (fun w : World => ((w.tasks 0).pc, mineOf w 0, w.store 0, w.store 2, (w.tasks 1).pc))
    ((World.init exStore1 (exCaught .locked .dec)).run exCaughtSched) =
    (.finished (.returned [some 2, some 3]), [.setMany [(1, 5), (2, 7), (0, 3), (3, 9)]], some 7, some 7,
     .finished (.returned [some 7])) := by decide

/-- **one shared context object** (`T = cache.transaction(m)` at module level, `async with T:` in two tasks at once; defect D51 kept
the block's state on the object): each task runs its own transaction — the raising one applies nothing, the other one commits
its own writes; task 0 re-enters the object nested in itself -/
def exShared (m : Mode) : List Task :=
  [{ isTx := true, mode := m, timeout := 40, form := .obj, prog := [.set 1 5, .nestIn .obj, .incr 0 1, .nestOut none] },
   { isTx := true, mode := m, timeout := 40, form := .obj, prog := [.incr 0 2, .set 2 6, .raise ⟨false, false⟩] }]

example : (fun w : World => ((w.tasks 0).pc, mineOf w 0, (w.tasks 1).pc, mineOf w 1, w.store 0, w.store 2))
    ((World.init exStore1 (exShared .locked)).run
      [.run 0, .run 1, .run 1, .run 1, .run 0, .run 0, .run 1, .run 1, .run 1, .adv 4, .run 0, .run 0, .run 0, .run 0, .run 0]) =
    (.finished (.returned [some 2]), [.setMany [(1, 5), (0, 2)]], .finished (.raised ⟨false, false⟩), [], some 2, none) := by decide

/-- **multi-key writes in serializable mode** (the shape of seeded change C05-14): task 0 writes only with `delete_many` and
`set_many`, so its commit is two backend commands; task 1 sets the same keys.  The first `delete_many` takes the GLOBAL lock; task 1,
released while task 0 is between `delete_many` and `set_many` of its commit, is refused it and sleeps; the write order is
delete_many[0], set_many{1:5}, set_many{0:7,1:7} — a serial outcome -/
def exMulti : List Task :=
  [{ isTx := true, mode := .serializable, timeout := 40, form := .ctx, prog := Cmd.deleteMany [0] ++ Cmd.setMany [(1, 5)] },
   { isTx := true, mode := .serializable, timeout := 40, form := .dec, prog := [.set 0 7, .set 1 7] }]

def exMultiSched : List Act :=
  [.run 0, .run 0, .run 1, .run 0, .run 1, .run 0, .run 0, .adv 4, .run 1, .run 1, .run 1]

example : (((World.init (fun k => if k ≤ 1 then some 1 else none) exMulti).run (exMultiSched.take 2)).tasks 0).held = [none] := by decide
example : (((World.init (fun k => if k ≤ 1 then some 1 else none) exMulti).run (exMultiSched.take 4)).tasks 0).pc = .commitSet := by decide
example : (((World.init (fun k => if k ≤ 1 then some 1 else none) exMulti).run (exMultiSched.take 5)).tasks 1).pc = .lockSleep 0 9 4 := by decide
example : (fun w : World => (w.log.map (·.2), w.store 0, w.store 1))
    ((World.init (fun k => if k ≤ 1 then some 1 else none) exMulti).run exMultiSched) =
    ([.delMany [0], .setMany [(1, 5)], .setMany [(0, 7), (1, 7)]], some 7, some 7) := by decide

/-- **the shared context object entered three deep, the innermost block raises** (the shape of seeded change C05-15, whose
`__aexit__` of an inner block returned the remaining depth and so suppressed the exception): the exception leaves all three
blocks, the caller gets it, no step of the task touched the store, the locks are given back -/
def exDeep : List Task :=
  [{ isTx := true, mode := .locked, timeout := 40, form := .obj,
     prog := [.set 1 5, .nestIn .obj, .incr 0 1, .nestIn .obj, .set 2 6, .raise ⟨false, false⟩, .nestOut none, .nestOut none] }]

example : (fun w : World => ((w.tasks 0).pc, mineOf w 0, w.store 1, w.store 2, (w.tasks 0).held))
    ((World.init exStore1 exDeep).run [.run 0, .run 0, .run 0, .run 0, .run 0, .run 0, .run 0, .run 0]) =
    (.finished (.raised ⟨false, false⟩), [], none, none, []) := by decide

/-- **explicit `tx.commit()` in the middle of a body**: task 0 increments, commits, increments again; after the commit it
holds no lock, so task 1 gets the counter's lock in between and task 0's second `incr` has to wait for it -/
def exMid (m : Mode) : List Task :=
  [{ isTx := true, mode := m, timeout := 40, form := .ctx, prog := [.incr 0 1, .commit, .incr 0 1] },
   { isTx := true, mode := m, timeout := 40, form := .ctx, prog := [.incr 0 5] }]

def exMidSched : List Act :=
  [.run 0, .run 0, .run 0, .run 0, .run 0, .run 1, .run 1, .run 0, .run 1, .run 1, .run 1, .adv 4, .run 0, .run 0, .run 0, .run 0]

example : WithinTimeout (World.init (fun _ => none) (exMid .locked)) exMidSched :=
  withinTimeout_of_check _ _ (by intro t ht; simp [exMid] at ht; rcases ht with rfl | rfl <;> constructor <;> rfl) _ (by decide)
example : ∀ t ∈ exMid .locked, OnlyIncr 0 t.isTx t.prog := by
  intro t ht
  simp [exMid] at ht
  rcases ht with rfl | rfl <;> simp [OnlyIncr, Cmd.clobbers]
/-- parked before the `set_many` of the explicit commit, then before the unlock (premise of
`explicit_commit_releases_everything`), then — the body having resumed — before `set_lock` again -/
example : (((World.init (fun _ => none) (exMid .locked)).run (exMidSched.take 3)).tasks 0).pc = .midSet := by decide
example : (((World.init (fun _ => none) (exMid .locked)).run (exMidSched.take 4)).tasks 0).pc = .midUnlock [some 0] := by decide
example : (((World.init (fun _ => none) (exMid .locked)).run (exMidSched.take 5)).tasks 0).pc = .lockTry 0 9 := by decide
example : (((World.init (fun _ => none) (exMid .locked)).run (exMidSched.take 5)).tasks 0).held = [] := by decide
/-- task 1 takes the lock; task 0's second increment is refused it and sleeps -/
example : (((World.init (fun _ => none) (exMid .locked)).run (exMidSched.take 8)).tasks 0).pc = .lockSleep 0 9 4 := by decide
example : (((World.init (fun _ => none) (exMid .locked)).run (exMidSched.take 8)).tasks 1).held = [some 0] := by decide
/-- nothing is lost: 1 (committed explicitly) + 5 + 1; task 0 made two commits, its durable increments are both -/
example : ((World.init (fun _ => none) (exMid .locked)).run exMidSched).store 0 = some 7 := by decide
example : ((World.init (fun _ => none) (exMid .serializable)).run exMidSched).store 0 = some 7 := by decide
example : mineOf ((World.init (fun _ => none) (exMid .locked)).run exMidSched) 0 = [.setMany [(0, 1)], .setMany [(0, 7)]] := by decide
example : (((World.init (fun _ => none) (exMid .locked)).run exMidSched).tasks 0).cinc = [(0, 1), (0, 1)] := by decide
example : (((World.init (fun _ => none) (exMid .locked)).run exMidSched).tasks 0).pc = .finished (.returned [some 1, some 7]) := by decide
/-- an explicit rollback drops the first increment (and releases the lock), a cancellation after an explicit commit keeps
what was committed: `[incr; rollback; incr; commit; incr]` cancelled while parked before the last increment's read -/
example : (fun w : World => (w.store 0, (w.tasks 0).pc, mineOf w 0, (w.tasks 0).cinc))
    ((World.init (fun _ => none) [{ isTx := true, mode := .serializable, timeout := 40, form := .ctx, prog := [.incr 0 1, .rollback, .incr 0 2, .commit, .incr 0 4] }]).run
      [.run 0, .run 0, .run 0, .run 0, .run 0, .run 0, .run 0, .run 0, .run 0, .cancel 0, .run 0]) =
    (some 2, .finished .cancelled, [.setMany [(0, 2)]], [(0, 2)]) := by decide

end examples

end CashewsVerif.Props.C05
