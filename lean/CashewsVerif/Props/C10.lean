import CashewsVerif.Lemmas.Serial
/-
C10 — signed storage: corrupted or foreign data never becomes a value.

`decode` is split in the model into the decision taken before the unpickler (`preLoads`) and the
classification after it (`postLoads`); `decode = postLoads ∘ loads ∘ preLoads` by definition.  The
theorems below are about a configuration with a `HashSigner` (a secret is configured).

The MAC is abstract.  `unpickle_only_if_mac_verifies`, `value_only_if` and `error_family` need no
assumption on it.  The integrity statement `tampered_never_value` is for an *idealised* MAC:
collision-free jointly in (secret, message) — `MacInjective` — which no real hash satisfies literally;
it stands for "signatures cannot be computed without the secret, only copied".

Keys and secrets in `tampered_never_value`, `key_swap_*`, `foreign_secret_rejected` are the BYTES the MAC is computed
over: `key.encode()` and `_to_bytes(secret)`.  The property speaks about the caller's key text and the configured
secret; the step from bytes to texts is the injectivity of those two conversions — `EncInjective`, an explicit
hypothesis of the `…_text` theorems below, necessary (`colliding_keys_accept_copy`, `colliding_secrets_accept`) and
checked on the real code by the harness on generated pairs of confusable keys / secret spellings.
-/
namespace CashewsVerif.Props.C10
open CashewsVerif.Serial

variable {α : Type}

/-- idealised MAC for digest `d`: equal signatures come from equal secrets and equal messages -/
def MacInjective (mac : Digest → Bytes → Bytes → Bytes) (d : Digest) : Prop :=
  ∀ s s' m m', mac d s m = mac d s' m' → s = s' ∧ m = m'

/-- **The unpickler is reached only through a verified MAC.**  If `decode` is about to call
`loads p`, then the stored object is a byte string of the form `[label:]sig_p` — split at its first
`_` — and `sig` is the MAC, under the reader's secret and the digest named by the label (the
configured digest when there is no label), of `key ‖ p` for the key being read.  No assumption on
the MAC, the pickler or the blob. -/
theorem unpickle_only_if_mac_verifies (cfg : Cfg α) (reg : Registry α) (s : Signer) (hs : cfg.signer = some s)
    (key : Bytes) (w : Val α) (same : Bool) (p : Bytes) (h : preLoads cfg reg key w same = .loads p) :
    VerifiedPayload cfg s key w p :=
  verified_of_check cfg reg s hs key w same p (Or.inl h)

/-- the same for the custom decoders: a registered decoder is run on `p` only through a verified MAC -/
theorem custom_decode_only_if_mac_verifies (cfg : Cfg α) (reg : Registry α) (s : Signer) (hs : cfg.signer = some s)
    (key : Bytes) (w : Val α) (same : Bool) (p : Bytes) (h : preLoads cfg reg key w same = .custom p) :
    VerifiedPayload cfg s key w p :=
  verified_of_check cfg reg s hs key w same p (Or.inr h)

/-- **`loads` is consulted at that payload and nowhere else**: replacing the unpickler by any other
function that agrees with it on the single verified payload (if there is one) does not change the
result of `decode`.  In particular the result for a blob whose MAC does not verify is independent
of the unpickler. -/
theorem decode_consults_loads_only_at_verified (cfg : Cfg α) (reg : Registry α) (loads' : Bytes → Loaded α)
    (key : Bytes) (w : Val α) (same : Bool)
    (hagree : ∀ p, preLoads cfg reg key w same = .loads p → loads' p = cfg.pickler.loads p) :
    decode { cfg with pickler := { cfg.pickler with loads := loads' } } reg key w same = decode cfg reg key w same := by
  have hpre : preLoads { cfg with pickler := { cfg.pickler with loads := loads' } } reg key w same
      = preLoads cfg reg key w same := rfl
  unfold decode
  rw [hpre]
  cases hp : preLoads cfg reg key w same with
  | loads p => simp only; rw [hagree p hp]
  | _ => rfl

/-- **Where a value can come from** when a secret is configured and the store holds bytes: either
the blob is a bare digit string, possibly with a leading `-` (integers are stored unsigned, by design: `b"123"`
reads as `123`, `b"-5"` as `-5`),
or the MAC verified (`preLoads = loads p` or `custom p`, to which `unpickle_only_if_mac_verifies` /
`custom_decode_only_if_mac_verifies` apply). -/
theorem value_only_if (cfg : Cfg α) (reg : Registry α) (key b : Bytes) (v : Val α)
    (h : decode cfg reg key (.bytes b) false = .value v) :
    (isIntLit b = true ∧ v = .int (intVal b)) ∨
    (∃ p, preLoads cfg reg key (.bytes b) false = .loads p ∧ postLoads reg p (cfg.pickler.loads p) = .value v) ∨
    (∃ p, preLoads cfg reg key (.bytes b) false = .custom p ∧ customDecode reg p = .value v) := by
  unfold decode at h
  cases hp : preLoads cfg reg key (.bytes b) false with
  | same => simp [hp] at h
  | dflt => simp [hp] at h
  | unsecure => simp [hp] at h
  | pass v' =>
    unfold preLoads at hp
    simp only [Bool.false_eq_true, if_false] at hp
    by_cases hd : isIntLit b = true
    · simp [hd] at hp
    · cases hc : checkSign cfg key b with
      | missing => simp [hd, hc] at hp
      | unsecure => simp [hd, hc] at hp
      | ok p => by_cases hce : isCustomEncoded reg p = true <;> simp [hd, hc, hce] at hp
  | digit n =>
    left
    simp [hp] at h
    unfold preLoads at hp
    simp only [Bool.false_eq_true, if_false] at hp
    by_cases hd : isIntLit b = true
    · simp [hd] at hp
      exact ⟨hd, by rw [← h, hp]⟩
    · cases hc : checkSign cfg key b with
      | missing => simp [hd, hc] at hp
      | unsecure => simp [hd, hc] at hp
      | ok p => by_cases hce : isCustomEncoded reg p = true <;> simp [hd, hc, hce] at hp
  | loads p =>
    right; left
    simp [hp] at h
    exact ⟨p, rfl, h⟩
  | custom p =>
    right; right
    simp [hp] at h
    exact ⟨p, rfl, h⟩

/-- **Every blob whose digest label is intact falls under the theorems above.**  Whatever follows
`label:` — any alteration, truncation, extension, insertion of `_` or `:` anywhere — the check either
finds no `_` at all (the caller's default), or splits at the first `_` into a signature candidate
`sig` and a payload `rest` and accepts exactly when `sig` is the MAC of `key ‖ rest`. -/
theorem label_intact_verdict (cfg : Cfg α) (s : Signer) (d : Digest) (key tail : Bytes) :
    (us ∉ tail ∧ checkHash cfg s key (d.label ++ colon :: tail) = .missing) ∨
    (∃ sig rest, tail = sig ++ us :: rest ∧ us ∉ sig ∧
      checkHash cfg s key (d.label ++ colon :: tail)
        = if cfg.mac d s.secret (key ++ rest) = sig then .ok rest else .unsecure) := by
  cases hs : splitFirst us tail with
  | none =>
    left
    have hno := splitFirst_none.mp hs
    refine ⟨hno, ?_⟩
    have : splitFirst us (d.label ++ colon :: tail) = none := by
      apply splitFirst_none.mpr
      intro m
      rcases List.mem_append.mp m with m | m
      · exact label_no_us _ m
      · rcases List.mem_cons.mp m with e | m
        · revert e; decide
        · exact hno m
    simp [checkHash, this]
  | some p =>
    obtain ⟨sig, rest⟩ := p
    right
    have h := splitFirst_some hs
    refine ⟨sig, rest, h.1, h.2, ?_⟩
    rw [h.1]
    exact checkHash_tagged d sig rest h.2

/-- **Tampered or foreign data is accepted only in the residual case, stated exactly.**
Let the blob found under `key` carry an intact digest label `d` and a signature that was issued —
under some secret `secret0` — for key `key0` and payload `p0` (signatures can be copied, not
computed: `MacInjective`).  If the reader (secret `s.secret`) accepts it with payload `p`, then the
writer's secret *is* the reader's secret and `key ‖ p = key0 ‖ p0`.  Nothing more can be said:
the MAC input has no separator between key and payload (defect D25, see `d25_residual_is_real`). -/
theorem tampered_never_value (cfg : Cfg α) (s : Signer) (d : Digest) (hinj : MacInjective cfg.mac d)
    (secret0 key0 p0 : Bytes) (hus : us ∉ cfg.mac d secret0 (key0 ++ p0))
    (key rest p : Bytes)
    (hacc : checkHash cfg s key (d.label ++ colon :: (cfg.mac d secret0 (key0 ++ p0) ++ us :: rest)) = .ok p) :
    p = rest ∧ secret0 = s.secret ∧ key ++ p = key0 ++ p0 := by
  rw [checkHash_tagged d _ rest hus] at hacc
  split at hacc
  · rename_i hm
    cases hacc
    have := hinj _ _ _ _ hm
    exact ⟨rfl, this.1.symm, this.2⟩
  · cases hacc

/-- altered, truncated or extended **payload** under the same key and secret: rejected as unsafe -/
theorem altered_payload_rejected (cfg : Cfg α) (s : Signer) (hinj : MacInjective cfg.mac s.digest)
    (key p0 rest : Bytes) (hus : us ∉ cfg.mac s.digest s.secret (key ++ p0)) (hne : rest ≠ p0) :
    checkHash cfg s key (s.digest.label ++ colon :: (cfg.mac s.digest s.secret (key ++ p0) ++ us :: rest))
      = .unsecure := by
  rw [checkHash_tagged _ _ rest hus]
  split
  · rename_i hm
    have := (hinj _ _ _ _ hm).2
    exact absurd (List.append_cancel_left this) hne
  · rfl

/-- altered **signature** (any string that is not the MAC of `key ‖ payload`): rejected as unsafe -/
theorem altered_signature_rejected (cfg : Cfg α) (s : Signer) (d : Digest) (key sig rest : Bytes)
    (hus : us ∉ sig) (hne : sig ≠ cfg.mac d s.secret (key ++ rest)) :
    checkHash cfg s key (d.label ++ colon :: (sig ++ us :: rest)) = .unsecure := by
  rw [checkHash_tagged d sig rest hus]
  split
  · rename_i hm; exact absurd hm.symm hne
  · rfl

/-- **No tolerance around the signature.**  A header in which the genuine signature of `key ‖ payload` is
preceded and/or followed by ANY extra bytes — a trailing `\n` (which a regular expression anchored with `$`
lets through), `\r\n`, blanks that a `strip()` would drop, a `0x` or zeroes that an integer parse would ignore,
NUL, … — is rejected as unsafe, for every MAC (no idealisation needed: the comparison is equality of byte
strings, and the padded header is longer than the MAC). -/
theorem padded_signature_rejected (cfg : Cfg α) (s : Signer) (d : Digest) (key pre post rest : Bytes)
    (hpad : pre ≠ [] ∨ post ≠ [])
    (hus : us ∉ pre ++ cfg.mac d s.secret (key ++ rest) ++ post) :
    checkHash cfg s key (d.label ++ colon :: ((pre ++ cfg.mac d s.secret (key ++ rest) ++ post) ++ us :: rest))
      = .unsecure := by
  apply altered_signature_rejected cfg s d key _ rest hus
  intro e
  have hl := congrArg List.length e
  simp only [List.length_append] at hl
  rcases hpad with h | h
  · have : pre.length ≠ 0 := fun z => h (List.length_eq_zero_iff.mp z)
    omega
  · have : post.length ≠ 0 := fun z => h (List.length_eq_zero_iff.mp z)
    omega

/-- the same one level up: such a blob never reaches the unpickler or a custom decoder and never yields a
value — `decode` raises the unsafe-data error (the blob contains `:`: it is not a digit string) -/
theorem padded_signature_unsecure (cfg : Cfg α) (reg : Registry α) (s : Signer) (hs : cfg.signer = some s)
    (d : Digest) (key pre post rest : Bytes) (hpad : pre ≠ [] ∨ post ≠ [])
    (hus : us ∉ pre ++ cfg.mac d s.secret (key ++ rest) ++ post) :
    decode cfg reg key
      (.bytes (d.label ++ colon :: ((pre ++ cfg.mac d s.secret (key ++ rest) ++ post) ++ us :: rest))) false
      = .unsecure := by
  have h := padded_signature_rejected cfg s d key pre post rest hpad hus
  simp only [decode, preLoads, isIntLit_with_colon, checkSign, hs, h, Bool.false_eq_true, if_false]

/-- a blob **written with a different secret**: rejected as unsafe -/
theorem foreign_secret_rejected (cfg : Cfg α) (s : Signer) (d : Digest) (hinj : MacInjective cfg.mac d)
    (secret0 key0 p0 key rest : Bytes) (hus : us ∉ cfg.mac d secret0 (key0 ++ p0))
    (hne : secret0 ≠ s.secret) :
    checkHash cfg s key (d.label ++ colon :: (cfg.mac d secret0 (key0 ++ p0) ++ us :: rest)) = .unsecure := by
  rw [checkHash_tagged d _ rest hus]
  split
  · rename_i hm; exact absurd (hinj _ _ _ _ hm).1.symm hne
  · rfl

/-- a blob **copied under a different key**: accepted only if one key is a proper prefix of the other
and the payload absorbs / loses exactly the difference — the whole of the residual ambiguity. -/
theorem key_swap_residual (cfg : Cfg α) (s : Signer) (d : Digest) (hinj : MacInjective cfg.mac d)
    (secret0 key0 p0 : Bytes) (hus : us ∉ cfg.mac d secret0 (key0 ++ p0)) (key rest p : Bytes)
    (hkey : key ≠ key0)
    (hacc : checkHash cfg s key (d.label ++ colon :: (cfg.mac d secret0 (key0 ++ p0) ++ us :: rest)) = .ok p) :
    ∃ r, r ≠ [] ∧ ((key0 = key ++ r ∧ p = r ++ p0) ∨ (key = key0 ++ r ∧ p0 = r ++ p)) := by
  have h := (tampered_never_value cfg s d hinj secret0 key0 p0 hus key rest p hacc).2.2
  rcases List.append_eq_append_iff.mp h with ⟨r, h1, h2⟩ | ⟨r, h1, h2⟩
  · refine ⟨r, ?_, Or.inl ⟨h1, h2⟩⟩
    intro e; subst e; simp at h1; exact hkey h1.symm
  · refine ⟨r, ?_, Or.inr ⟨h1, h2⟩⟩
    intro e; subst e; simp at h1; exact hkey h1

/-- keys of equal length (in particular: no key a prefix of another): a copied blob is rejected -/
theorem key_swap_equal_length_rejected (cfg : Cfg α) (s : Signer) (d : Digest) (hinj : MacInjective cfg.mac d)
    (secret0 key0 p0 : Bytes) (hus : us ∉ cfg.mac d secret0 (key0 ++ p0)) (key rest : Bytes)
    (hkey : key ≠ key0) (hlen : key.length = key0.length) :
    checkHash cfg s key (d.label ++ colon :: (cfg.mac d secret0 (key0 ++ p0) ++ us :: rest)) = .unsecure := by
  cases hc : checkHash cfg s key (d.label ++ colon :: (cfg.mac d secret0 (key0 ++ p0) ++ us :: rest)) with
  | unsecure => rfl
  | missing =>
    rw [checkHash_tagged d _ rest hus] at hc
    split at hc <;> cases hc
  | ok p =>
    obtain ⟨r, hr, h | h⟩ := key_swap_residual cfg s d hinj secret0 key0 p0 hus key rest p hkey hc
    · have : key0.length = key.length + r.length := by rw [h.1]; simp
      have : r.length = 0 := by omega
      exact absurd (List.length_eq_zero_iff.mp this) hr
    · have : key.length = key0.length + r.length := by rw [h.1]; simp
      have : r.length = 0 := by omega
      exact absurd (List.length_eq_zero_iff.mp this) hr

/-- **The residual is real (D25).**  For *every* MAC: a blob legitimately signed for key `key ++ r`
and payload `p` is accepted under the shorter key `key` once `r` is moved in front of the payload.
With `r = b"bytes:"` the verified payload `bytes:p` is custom-decoded and the raw pickle bytes `p`
come back as a *value*. -/
theorem d25_residual_is_real (cfg : Cfg α) (s : Signer) (key r p : Bytes)
    (hus : us ∉ cfg.mac s.digest s.secret ((key ++ r) ++ p)) :
    checkHash cfg s key
      (s.digest.label ++ colon :: (genSign cfg s s.digest (key ++ r) p ++ us :: (r ++ p))) = .ok (r ++ p) := by
  unfold genSign
  rw [checkHash_tagged _ _ _ hus]
  simp

/-- **Error family.**  `decode` raises something other than the unsafe-data error only when the
*unpickler itself* raised an exception outside its `UnpicklingError` class and `AttributeError` —
and then on a payload whose MAC had verified. -/
theorem error_family (cfg : Cfg α) (reg : Registry α) (key : Bytes) (w : Val α) (same : Bool)
    (h : decode cfg reg key w same = .raised) :
    ∃ p, preLoads cfg reg key w same = .loads p ∧ cfg.pickler.loads p = .other := by
  unfold decode at h
  cases hp : preLoads cfg reg key w same with
  | loads p =>
    refine ⟨p, rfl, ?_⟩
    simp only [hp] at h
    unfold postLoads at h
    cases hl : cfg.pickler.loads p with
    | other => rfl
    | attrError => simp [hl] at h
    | unpickling =>
      simp only [hl] at h
      unfold customDecode at h
      split at h <;> try cases h
      split at h <;> try cases h
      split at h <;> cases h
    | ok v =>
      cases v with
      | bytes b =>
        simp only [hl] at h
        unfold customDecode at h
        split at h <;> try cases h
        split at h <;> try cases h
        split at h <;> cases h
      | int i => simp [hl] at h
      | obj x => simp [hl] at h
  | custom p =>
    simp only [hp] at h
    unfold customDecode at h
    split at h <;> try cases h
    split at h <;> try cases h
    split at h <;> cases h
  | _ => simp [hp] at h

/-- **Every failure of a blob whose MAC does not verify is the unsafe-data error or the default**
(never a value, never another exception) — whatever the unpickler would do. -/
theorem unverified_is_unsecure_or_default (cfg : Cfg α) (reg : Registry α) (s : Signer) (hs : cfg.signer = some s)
    (key b : Bytes) (hnd : isIntLit b = false) (hno : ∀ p, checkHash cfg s key b ≠ .ok p) :
    decode cfg reg key (.bytes b) false = .dflt ∨ decode cfg reg key (.bytes b) false = .unsecure := by
  simp only [decode, preLoads, hnd, checkSign, hs, Bool.false_eq_true, if_false]
  cases hc : checkHash cfg s key b with
  | missing => left; rfl
  | unsecure => right; rfl
  | ok p => exact absurd hc (hno p)

/-! ### from the bytes under the MAC to the caller's texts: the conversions must be injective -/

/-- a conversion of the caller's texts (key `str`s; configured secrets, possibly after the settings-url parser) into
the bytes the MAC is computed over; `none` = the conversion raises.  Injective: no two different texts give the same
bytes.  (`key.encode()` — strict UTF-8 — and `_to_bytes` on `str`s are; `key.encode("utf-8", "backslashreplace")`,
`"ignore"`, `"replace"`, a normalising or truncating step, or `str(number)` after numeric parsing are not.) -/
def EncInjective {τ : Type} (enc : τ → Option Bytes) : Prop :=
  ∀ a b x, enc a = some x → enc b = some x → a = b

/-- **`tampered_never_value` for texts.**  The signature in the blob was issued for the key text `k0`, payload `p0`,
under the configured secret `sec0`; the reader is configured with `sec` and reads the key text `k`.  With injective
conversions, acceptance forces the SAME configured secret, and `key ‖ p = key0 ‖ p0` on the encoded keys. -/
theorem tampered_never_value_text {κ σ : Type} (keyEnc : κ → Option Bytes) (secEnc : σ → Option Bytes)
    (hsec : EncInjective secEnc)
    (cfg : Cfg α) (s : Signer) (d : Digest) (hinj : MacInjective cfg.mac d)
    (sec0 sec : σ) (k0 k : κ) (sb0 kb0 kb p0 : Bytes)
    (hs0 : secEnc sec0 = some sb0) (hs : secEnc sec = some s.secret)
    (_hk0 : keyEnc k0 = some kb0) (_hk : keyEnc k = some kb)
    (hus : us ∉ cfg.mac d sb0 (kb0 ++ p0)) (rest p : Bytes)
    (hacc : checkHash cfg s kb (d.label ++ colon :: (cfg.mac d sb0 (kb0 ++ p0) ++ us :: rest)) = .ok p) :
    p = rest ∧ sec0 = sec ∧ kb ++ p = kb0 ++ p0 := by
  obtain ⟨h1, h2, h3⟩ := tampered_never_value cfg s d hinj sb0 kb0 p0 hus kb rest p hacc
  exact ⟨h1, hsec sec0 sec s.secret (by rw [hs0, h2]) hs, h3⟩

/-- a blob **written under a differently configured secret** — differing in spelling only (`0042` / `42`), in type
(`str` / number) or in anything else the conversion keeps apart — is rejected as unsafe -/
theorem foreign_secret_text_rejected {σ : Type} (secEnc : σ → Option Bytes) (hsec : EncInjective secEnc)
    (cfg : Cfg α) (s : Signer) (d : Digest) (hinj : MacInjective cfg.mac d)
    (sec0 sec : σ) (sb0 : Bytes) (hs0 : secEnc sec0 = some sb0) (hs : secEnc sec = some s.secret) (hne : sec0 ≠ sec)
    (key0 p0 key rest : Bytes) (hus : us ∉ cfg.mac d sb0 (key0 ++ p0)) :
    checkHash cfg s key (d.label ++ colon :: (cfg.mac d sb0 (key0 ++ p0) ++ us :: rest)) = .unsecure := by
  apply foreign_secret_rejected cfg s d hinj sb0 key0 p0 key rest hus
  intro e
  exact hne (hsec sec0 sec s.secret (by rw [hs0, e]) hs)

/-- a blob **copied under a different key text**: accepted only in the D25 residual of the ENCODED keys (one a proper
prefix of the other, the payload absorbing the difference) -/
theorem key_swap_text_residual {κ : Type} (keyEnc : κ → Option Bytes) (hkey : EncInjective keyEnc)
    (cfg : Cfg α) (s : Signer) (d : Digest) (hinj : MacInjective cfg.mac d)
    (k0 k : κ) (kb0 kb : Bytes) (hk0 : keyEnc k0 = some kb0) (hk : keyEnc k = some kb) (hne : k ≠ k0)
    (secret0 p0 : Bytes) (hus : us ∉ cfg.mac d secret0 (kb0 ++ p0)) (rest p : Bytes)
    (hacc : checkHash cfg s kb (d.label ++ colon :: (cfg.mac d secret0 (kb0 ++ p0) ++ us :: rest)) = .ok p) :
    ∃ r, r ≠ [] ∧ ((kb0 = kb ++ r ∧ p = r ++ p0) ∨ (kb = kb0 ++ r ∧ p0 = r ++ p)) := by
  apply key_swap_residual cfg s d hinj secret0 kb0 p0 hus kb rest p _ hacc
  intro e
  exact hne (hkey k k0 kb hk (by rw [hk0, e]))

/-- two different key texts whose encodings have the same length (confusable spellings are the typical case: `é` /
`e` + combining accent are told apart by their bytes, not by how they look): a copied blob is rejected -/
theorem key_swap_text_equal_length_rejected {κ : Type} (keyEnc : κ → Option Bytes) (hkey : EncInjective keyEnc)
    (cfg : Cfg α) (s : Signer) (d : Digest) (hinj : MacInjective cfg.mac d)
    (k0 k : κ) (kb0 kb : Bytes) (hk0 : keyEnc k0 = some kb0) (hk : keyEnc k = some kb) (hne : k ≠ k0)
    (hlen : kb.length = kb0.length)
    (secret0 p0 : Bytes) (hus : us ∉ cfg.mac d secret0 (kb0 ++ p0)) (rest : Bytes) :
    checkHash cfg s kb (d.label ++ colon :: (cfg.mac d secret0 (kb0 ++ p0) ++ us :: rest)) = .unsecure := by
  apply key_swap_equal_length_rejected cfg s d hinj secret0 kb0 p0 hus kb rest _ hlen
  intro e
  exact hne (hkey k k0 kb hk (by rw [hk0, e]))

/-- **The injectivity of the key conversion is necessary**, for every MAC: if two key texts are converted to the same
bytes (a lone surrogate and its `\uXXXX` spelling under `backslashreplace`; a dropped or `?`-replaced character;
normalisation; truncation), the blob legitimately signed for one is accepted under the other. -/
theorem colliding_keys_accept_copy {κ : Type} (keyEnc : κ → Option Bytes) (cfg : Cfg α) (s : Signer)
    (k0 k : κ) (kb : Bytes) (hk0 : keyEnc k0 = some kb) (hk : keyEnc k = some kb) (p : Bytes)
    (hus : us ∉ cfg.mac s.digest s.secret (kb ++ p)) :
    ∃ kb0 kb', keyEnc k0 = some kb0 ∧ keyEnc k = some kb' ∧
      checkHash cfg s kb' (hashSign cfg s kb0 p) = .ok p :=
  ⟨kb, kb, hk0, hk, checkHash_sign_of_no_us cfg s kb p hus⟩

/-- **… and so is the injectivity of the secret conversion**: two configured secrets that become the same bytes
(`?secret=0042` and `?secret=42` once the url parser has made the int 42 of both and it is rendered with `str()`)
are one secret — the blob written under one is accepted by a reader configured with the other. -/
theorem colliding_secrets_accept {σ : Type} (secEnc : σ → Option Bytes) (cfg : Cfg α) (d : Digest)
    (sec0 sec : σ) (sb : Bytes) (hs0 : secEnc sec0 = some sb) (hs : secEnc sec = some sb) (key p : Bytes)
    (hus : us ∉ cfg.mac d sb (key ++ p)) :
    ∃ sb0 sb', secEnc sec0 = some sb0 ∧ secEnc sec = some sb' ∧
      checkHash cfg { secret := sb', digest := d } key (hashSign cfg { secret := sb0, digest := d } key p) = .ok p :=
  ⟨sb, sb, hs0, hs, checkHash_sign_of_no_us cfg { secret := sb, digest := d } key p hus⟩

/-- `_to_bytes` keeps different `str` secrets different … -/
theorem toBytes_str_injective : EncInjective (fun u : Bytes => toBytes (.str u)) := by
  intro a b x ha hb
  simp only [toBytes, Option.some.injEq] at ha hb
  rw [ha, hb]

/-- … a `str` and the `bytes` of the same text are the SAME secret (by design) … -/
theorem toBytes_str_eq_bytes (t : Bytes) : toBytes (.str t) = toBytes (.bytes t) := rfl

/-- … and an object that is neither is not rendered at all (no `str(number)`): no MAC can be computed with it -/
theorem toBytes_other : toBytes .other = none := rfl

/-- **Where the key matters.**  `decode` looks at the key only to compute a MAC: when it computes none (stored object
not bytes, integer literal, no `_`, unknown label, `NullSigner`), the result is the same for every key — which is why
`decodeK` may pass any bytes for a key that cannot be encoded. -/
theorem decode_ignores_key_without_mac (cfg : Cfg α) (reg : Registry α) (k1 k2 : Bytes) (w : Val α) (same : Bool)
    (h : decodeUsesMac cfg w same = false) : decode cfg reg k1 w same = decode cfg reg k2 w same := by
  have hpre : preLoads cfg reg k1 w same = preLoads cfg reg k2 w same := by
    unfold decodeUsesMac at h
    unfold preLoads
    cases same with
    | true => rfl
    | false =>
      simp only [Bool.false_eq_true, if_false] at h ⊢
      cases w with
      | int i => rfl
      | obj x => rfl
      | bytes b =>
        cases hs : cfg.signer with
        | none => simp [checkSign, hs]
        | some s =>
          simp only [hs] at h
          by_cases hd : isIntLit b = true
          · simp [hd]
          · simp only [hd, if_false, Bool.false_eq_true] at h ⊢
            simp only [checkSign, hs, checkHash]
            cases hsp : splitFirst us b with
            | none => rfl
            | some hp =>
              obtain ⟨hdr, p⟩ := hp
              simp only [hsp] at h
              cases hsd : signAndDigest s hdr with
              | none => simp [hsd]
              | some sd => simp [hsd] at h
  unfold decode
  rw [hpre]

/-- the same for `encode`: integers are stored raw and the `NullSigner` returns its argument -/
theorem encode_ignores_key_without_mac (cfg : Cfg α) (reg : Registry α) (k1 k2 : Bytes) (v : Val α)
    (h : encodeUsesMac cfg v = false) : encode cfg reg k1 v = encode cfg reg k2 v := by
  unfold encodeUsesMac at h
  cases v with
  | int i => rfl
  | bytes b =>
    cases hs : cfg.signer with
    | none => simp [encode, sign, hs]
    | some s => simp [hs] at h
  | obj x =>
    cases hs : cfg.signer with
    | none => simp [encode, sign, hs]
    | some s => simp [hs] at h

/-- **A key that cannot be encoded verifies nothing**: reading a key text with a lone surrogate on a signing
configuration never reaches the unpickler or a custom decoder — the read raises (`macError`), or the MAC was not needed
(integer literal, no `_`: the default, unknown label: unsafe-data error). -/
theorem unencodable_key_never_verifies (cfg : Cfg α) (reg : Registry α) (s : Signer) (hs : cfg.signer = some s)
    (ok : Bool) (b : Bytes) (v : Val α)
    (h : decodeK cfg reg none ok (.bytes b) false = .res (.value v)) :
    isIntLit b = true ∧ v = .int (intVal b) := by
  unfold decodeK at h
  by_cases hu : decodeUsesMac cfg (.bytes b) false = true
  · simp [hu] at h
  · simp only [hu, Bool.false_eq_true, if_false, ResK.res.injEq] at h
    rcases value_only_if cfg reg _ b v h with hd | ⟨p, hp, _⟩ | ⟨p, hp, _⟩
    · exact hd
    all_goals
      exfalso
      apply hu
      obtain ⟨b', hdr, d, hb, hsplit, hno, _⟩ := verified_of_check cfg reg s hs _ (.bytes b) false p (by first | exact Or.inl hp | exact Or.inr hp)
      cases hb
      have hnd : isIntLit b = false := by
        cases hd : isIntLit b with
        | false => rfl
        | true => simp [preLoads, hd] at hp
      have hsp : splitFirst us b = some (hdr, p) := by rw [hsplit]; exact splitFirst_append us hdr p hno
      have hsd : (signAndDigest s hdr).isSome = true := by
        cases hx : signAndDigest s hdr with
        | some _ => rfl
        | none => simp [preLoads, hnd, checkSign, hs, checkHash, hsp, hx] at hp
      simp [decodeUsesMac, hs, hnd, hsp, hsd]

/-! ### the MAC is injective in the secret only up to its own key normalisation -/

/-- `MacInjective` idealises HMAC twice: no collisions, and every secret a different key.  Real HMAC first NORMALISES the
key — a key longer than the hash's block is replaced by its hash, then the key is zero-padded to the block — so `k` and
`k ++ [0]` (and a long key and its digest) are one and the same MAC key.  `norm d` stands for that normalisation;
`MacInjective` is the instance `norm = id`.  This is a property of HMAC, not of cashews: observed, mirrored by the harness
(class `secretswap_hmac_equivalent`), not judged. -/
def MacInjectiveUpTo (norm : Digest → Bytes → Bytes) (mac : Digest → Bytes → Bytes → Bytes) (d : Digest) : Prop :=
  ∀ s s' m m', mac d s m = mac d s' m' → norm d s = norm d s' ∧ m = m'

theorem macInjective_iff_upTo_id (mac : Digest → Bytes → Bytes → Bytes) (d : Digest) :
    MacInjective mac d ↔ MacInjectiveUpTo (fun _ s => s) mac d := Iff.rfl

/-- `tampered_never_value` under the weaker, honest hypothesis: acceptance forces the writer's and the reader's secrets to
be the same HMAC key (equal after normalisation), and `key ‖ p = key0 ‖ p0` -/
theorem tampered_never_value_up_to_norm (norm : Digest → Bytes → Bytes) (cfg : Cfg α) (s : Signer) (d : Digest)
    (hinj : MacInjectiveUpTo norm cfg.mac d)
    (secret0 key0 p0 : Bytes) (hus : us ∉ cfg.mac d secret0 (key0 ++ p0)) (key rest p : Bytes)
    (hacc : checkHash cfg s key (d.label ++ colon :: (cfg.mac d secret0 (key0 ++ p0) ++ us :: rest)) = .ok p) :
    p = rest ∧ norm d secret0 = norm d s.secret ∧ key ++ p = key0 ++ p0 := by
  rw [checkHash_tagged d _ rest hus] at hacc
  split at hacc
  · rename_i hm
    cases hacc
    have := hinj _ _ _ _ hm
    exact ⟨rfl, this.1.symm, this.2⟩
  · cases hacc

/-- a blob written with a secret that is a different key AFTER normalisation is rejected -/
theorem foreign_secret_rejected_up_to_norm (norm : Digest → Bytes → Bytes) (cfg : Cfg α) (s : Signer) (d : Digest)
    (hinj : MacInjectiveUpTo norm cfg.mac d)
    (secret0 key0 p0 key rest : Bytes) (hus : us ∉ cfg.mac d secret0 (key0 ++ p0))
    (hne : norm d secret0 ≠ norm d s.secret) :
    checkHash cfg s key (d.label ++ colon :: (cfg.mac d secret0 (key0 ++ p0) ++ us :: rest)) = .unsecure := by
  rw [checkHash_tagged d _ rest hus]
  split
  · rename_i hm; exact absurd (hinj _ _ _ _ hm).1.symm hne
  · rfl

/-- **… and secrets the MAC itself identifies ARE one secret**, for every MAC: if `mac d s0` and `mac d s` are the same
function (HMAC: `s = s0 ++ zeros`), a blob written under `s0` verifies under `s`.  Nothing in cashews can tell them apart. -/
theorem mac_equivalent_secrets_accept (cfg : Cfg α) (d : Digest) (s0 s : Bytes) (hsame : ∀ m, cfg.mac d s0 m = cfg.mac d s m)
    (key p : Bytes) (hus : us ∉ cfg.mac d s (key ++ p)) :
    checkHash cfg { secret := s, digest := d } key (hashSign cfg { secret := s0, digest := d } key p) = .ok p := by
  have h : hashSign cfg { secret := s0, digest := d } key p = hashSign cfg { secret := s, digest := d } key p := by
    simp [hashSign, genSign, hsame]
  rw [h]
  exact checkHash_sign_of_no_us cfg { secret := s, digest := d } key p hus

/-! ### the configured secret is ONE secret, as a whole -/

/-- a verifier that holds exactly one secret is `check_sign` -/
theorem checkHashAny_singleton (cfg : Cfg α) (s : Signer) (key value : Bytes) :
    checkHashAny cfg [s.secret] s.digest key value = checkHash cfg s key value := by
  unfold checkHashAny checkHash
  cases splitFirst us value with
  | none => rfl
  | some hp =>
    obtain ⟨hdr, payload⟩ := hp
    have hsd : signAndDigest { secret := [], digest := s.digest } hdr = signAndDigest s hdr := rfl
    simp only [hsd]
    cases signAndDigest s hdr with
    | none => rfl
    | some sd =>
      obtain ⟨sig, d⟩ := sd
      by_cases hm : cfg.mac d s.secret (key ++ payload) = sig <;> simp [genSign, hm]

/-- **why the configured text must not be taken apart**: a verifier that tries several secrets (the parts of `new,old`)
accepts every blob written under ANY of them, for every MAC — a cache configured with `alpha,beta` would accept what caches
configured with the different secrets `alpha` or `beta` wrote, and `s3cr3t,` would be the secret `s3cr3t`.  "Written with a
different secret" is a statement about the configured text as a whole (`EncInjective` of the secret conversion: `alpha,beta`,
`alpha` and `beta` are three texts and must stay three keys). -/
theorem any_secret_verifier_accepts_foreign_secret (cfg : Cfg α) (secrets : List Bytes) (d : Digest) (s0 : Bytes)
    (hmem : s0 ∈ secrets) (key p : Bytes) (hus : us ∉ cfg.mac d s0 (key ++ p)) :
    checkHashAny cfg secrets d key (hashSign cfg { secret := s0, digest := d } key p) = .ok p := by
  have hsplit : splitFirst us (hashSign cfg { secret := s0, digest := d } key p)
      = some (d.label ++ colon :: genSign cfg { secret := s0, digest := d } d key p, p) := by
    have : hashSign cfg { secret := s0, digest := d } key p
        = (d.label ++ colon :: genSign cfg { secret := s0, digest := d } d key p) ++ us :: p := by simp [hashSign]
    rw [this]
    apply splitFirst_append
    intro m
    rcases List.mem_append.mp m with m | m
    · exact label_no_us _ m
    · rcases List.mem_cons.mp m with e | m
      · revert e; decide
      · exact hus m
  unfold checkHashAny
  simp only [hsplit, signAndDigest_label]
  have : (secrets.any fun s => genSign cfg { secret := s, digest := d } d key p = genSign cfg { secret := s0, digest := d } d key p) = true := by
    apply List.any_eq_true.mpr
    exact ⟨s0, hmem, by simp⟩
  simp [this]

/-- the model's conversion never takes the text apart: the secret of a `str` IS its bytes, `,` `;` `:` `|` and blanks included -/
theorem toBytes_str_whole (u : Bytes) : toBytes (.str u) = some u := rfl

/-! ### transactions × signed storage: the overlay never holds a stored form -/

/-- **A raw write inside a transaction is read back through the signature check**, inside the transaction: `set_raw` goes to
the backend, the overlay does not know the key, so `get` (and `get_many`, `get_match`, which ask the same `_get`) is the
backend's `decode` of the blob for the key being read — every theorem above applies to it unchanged. -/
theorem tx_read_of_raw_write_is_decoded (cfg : Cfg α) (reg : Registry α) (tx : Tx α) (st : SStore α) (k : Bytes) (w : Val α)
    (hk : tx.lookup k = none) (hd : k ∉ tx.deleted) :
    Tx.get cfg reg tx (tx.setRaw st k w) k = decode cfg reg k w false := by
  simp [Tx.get, hd, hk, Tx.setRaw, SStore.get, SStore.lookup]

/-- … and after the commit: the transaction writes back only its own keys, so the blob is still what the backend holds
under `k` and a read outside any transaction is again `decode` of it (it is NOT re-encoded and signed for `k`). -/
theorem commit_keeps_raw_write_under_the_check (cfg : Cfg α) (reg : Registry α) (tx : Tx α) (st : SStore α) (k : Bytes)
    (w : Val α) (hk : k ∉ tx.pairs.map (·.1)) (hd : k ∉ tx.deleted) :
    (Tx.commit cfg reg tx (tx.setRaw st k w)).get cfg reg k = decode cfg reg k w false := by
  unfold Tx.commit
  rw [SStore.get_setMany_other cfg reg reg tx.pairs _ k hk]
  have hp : (fun k' : Bytes => !(tx.deleted.contains k')) k = true := by simp [hd]
  simp only [SStore.get]
  rw [SStore.lookup_filter_keep (tx.setRaw st k w) (fun k' => !(tx.deleted.contains k')) k hp]
  simp [Tx.setRaw, SStore.lookup]

/-- hence, with a secret configured, a value read inside the transaction from a raw-written blob comes from a verified MAC
or is a bare integer literal — `value_only_if` inside a transaction -/
theorem tx_value_only_if (cfg : Cfg α) (reg : Registry α) (tx : Tx α) (st : SStore α) (k b : Bytes) (v : Val α)
    (hk : tx.lookup k = none) (hd : k ∉ tx.deleted)
    (h : Tx.get cfg reg tx (tx.setRaw st k (.bytes b)) k = .value v) :
    (isIntLit b = true ∧ v = .int (intVal b)) ∨
    (∃ p, preLoads cfg reg k (.bytes b) false = .loads p ∧ postLoads reg p (cfg.pickler.loads p) = .value v) ∨
    (∃ p, preLoads cfg reg k (.bytes b) false = .custom p ∧ customDecode reg p = .value v) := by
  rw [tx_read_of_raw_write_is_decoded cfg reg tx st k (.bytes b) hk hd] at h
  exact value_only_if cfg reg k b v h

/-- **why `set_raw` must not be buffered**: a stored form put into the overlay (as a transactional `set` of the blob would)
comes back verbatim as a value — no MAC, no key, no secret is looked at — whatever the blob is … -/
theorem overlay_returns_a_buffered_blob_unverified (cfg : Cfg α) (reg : Registry α) (tx : Tx α) (st : SStore α) (k b : Bytes) :
    Tx.get cfg reg (tx.set k (.bytes b)) st k = .value (.bytes b) := by
  simp [Tx.get, Tx.set, Tx.lookup, SStore.lookup]

/-! ### non-vacuity -/

example : MacInjective pairMac .md5 := pairMac_injective .md5

/-- a toy configuration: injective MAC, a pickler that reads `[0x80, n]` -/
def toyCfg : Cfg Nat where
  mac := pairMac
  signer := some { secret := [0x73], digest := .md5 }
  pickler := { dumps := id,
               loads := fun b => match b with
                 | [0x80, n] => .ok (.obj n.toNat)
                 | _ => .unpickling }
  classOf := fun _ => ⟨[0x4e], [0x4e]⟩

/-- the registry as it is after `import cashews`: only `bytes` -/
def toyReg : Registry Nat := Registry.empty.register tagBytes { enc := fun _ => [], dec := fun b => some (.bytes b) }

def toyS : Signer := { secret := [0x73], digest := .md5 }

-- a legitimately signed blob for key "k", payload [0x80, 7] reaches the unpickler …
example : preLoads toyCfg toyReg [0x6b] (.bytes (hashSign toyCfg toyS [0x6b] [0x80, 7])) false = .loads [0x80, 7] := by decide
-- … one flipped payload byte does not: unsafe-data error
example : decode toyCfg toyReg [0x6b]
    (.bytes (toyS.digest.label ++ colon :: (genSign toyCfg toyS .md5 [0x6b] [0x80, 7] ++ us :: [0x80, 8]))) false
    = .unsecure := by decide
-- the byte `\n` between the genuine signature and the `_`: unsafe-data error (a `$`-anchored regex would accept it)
example : decode toyCfg toyReg [0x6b]
    (.bytes (toyS.digest.label ++ colon :: ((genSign toyCfg toyS .md5 [0x6b] [0x80, 7] ++ [0x0a]) ++ us :: [0x80, 7]))) false
    = .unsecure := by decide
-- truncated before the `_`: the caller's default
example : decode toyCfg toyReg [0x6b] (.bytes (toyS.digest.label ++ colon :: [0x30])) false = .dflt := by decide
-- a second ':' in the header (D23): unsafe-data error, not a ValueError
example : decode toyCfg toyReg [0x6b] (.bytes (toyS.digest.label ++ [colon, colon, 0x30, us, 0x31])) false = .unsecure := by decide
-- D25: the blob signed for key "kbytes:" and payload [0x80,7], read under key "k", returns the raw payload bytes
example : decode toyCfg toyReg [0x6b]
    (.bytes (toyS.digest.label ++ colon ::
      (genSign toyCfg toyS .md5 ([0x6b] ++ (tagBytes ++ [colon])) [0x80, 7] ++ us :: ((tagBytes ++ [colon]) ++ [0x80, 7])))) false
    = .value (.bytes [0x80, 7]) := by decide

/-! ### keys and secrets as texts, evaluated -/

-- the hypothesis is satisfiable: the identity conversion, and `_to_bytes` on `str`s (`toBytes_str_injective`)
example : EncInjective (fun b : Bytes => some b) := by
  intro a b x ha hb; simp only [Option.some.injEq] at ha hb; rw [ha, hb]

/-- key texts as code points; the strict conversion refuses what it cannot encode (here: anything ≥ 128, standing for
a lone surrogate) … -/
def strictEnc (k : List Nat) : Option Bytes := k.mapM fun c => if c < 128 then some c.toUInt8 else none
/-- … a lossy one replaces it by `?`, like `key.encode("ascii", "replace")` -/
def lossyEnc (k : List Nat) : Option Bytes := some (k.map fun c => if c < 128 then c.toUInt8 else 0x3f)

-- strict: the key `k<U+D83D>` cannot be written on a signing configuration, and reading it raises before anything is verified
example : (strictEnc [0x6b, 0xd83d]).bind (fun kb => encode toyCfg toyReg kb (.obj 7)) = none := by decide
example : encodeK toyCfg toyReg (strictEnc [0x6b, 0xd83d]) true (.obj 7) = none := by decide
example : decodeK toyCfg toyReg (strictEnc [0x6b, 0xd83d]) true (.bytes (hashSign toyCfg toyS [0x6b, 0x3f] [0x80, 7])) false
    = .macError .key := by decide
-- … while a bare digit string, a blob without `_` and one with an unknown label are answered without the key
example : decodeK toyCfg toyReg (strictEnc [0x6b, 0xd83d]) true (.bytes [0x34, 0x32]) false = .res (.value (.int 42)) := by decide
example : decodeK toyCfg toyReg (strictEnc [0x6b, 0xd83d]) true (.bytes [0x78]) false = .res .dflt := by decide
example : decodeK toyCfg toyReg (strictEnc [0x6b, 0xd83d]) true (.bytes [0x78, 0x3a, 0x30, us, 0x31]) false = .res .unsecure := by decide
-- lossy: `k<U+D83D>` and `k?` become the same bytes, and the blob signed for `k?` IS accepted under `k<U+D83D>`
example : lossyEnc [0x6b, 0xd83d] = lossyEnc [0x6b, 0x3f] := by decide
example : (lossyEnc [0x6b, 0xd83d]).map (fun kb => decode toyCfg toyReg kb (.bytes (hashSign toyCfg toyS [0x6b, 0x3f] [0x80, 7])) false)
    = some (.value (.obj 7)) := by decide
-- a secret that is not bytes after `_to_bytes` (the int the url parser made of `secret=0042`): no write, reads raise
example : encodeK toyCfg toyReg (some [0x6b]) (toBytes .other).isSome (.obj 7) = none := by decide
example : decodeK toyCfg toyReg (some [0x6b]) (toBytes .other).isSome (.bytes (hashSign toyCfg toyS [0x6b] [0x80, 7])) false
    = .macError .secret := by decide
-- the texts `0042` and `42` are different secrets: a blob written under the first is unsafe for a reader holding the second
example : decode { toyCfg with signer := some { secret := [0x34, 0x32], digest := .md5 } } toyReg [0x6b]
    (.bytes (hashSign toyCfg { secret := [0x30, 0x30, 0x34, 0x32], digest := .md5 } [0x6b] [0x80, 7])) false = .unsecure := by decide

/-! ### transactions and HMAC-equivalent secrets, evaluated -/

-- a blob for key "k" copied under key "l" with set_raw inside a transaction that has written another key: unsafe inside …
example : Tx.get toyCfg toyReg (Tx.empty.set [0x6d] (.obj 1)) (Tx.setRaw Tx.empty [] [0x6c] (.bytes (hashSign toyCfg toyS [0x6b] [0x80, 7]))) [0x6c]
    = .unsecure := by decide
-- … and after the commit (the raw blob is still what the backend holds: unsafe, not re-signed for the new key)
example : (Tx.commit toyCfg toyReg (Tx.empty.set [0x6d] (.bytes [0x31])) (Tx.setRaw Tx.empty [] [0x6c] (.bytes (hashSign toyCfg toyS [0x6b] [0x80, 7])))).get toyCfg toyReg [0x6c]
    = .unsecure := by decide
-- had the blob been buffered in the overlay instead, the read inside the transaction would hand it out as a value
example : Tx.get toyCfg toyReg (Tx.empty.set [0x6c] (.bytes (hashSign toyCfg toyS [0x6b] [0x80, 7]))) [] [0x6c]
    = .value (.bytes (hashSign toyCfg toyS [0x6b] [0x80, 7])) := by decide
-- `MacInjectiveUpTo` is satisfiable with a non-trivial normalisation: a MAC that ignores trailing zeros of the secret
def stripZeros (s : Bytes) : Bytes := (s.reverse.dropWhile (· = 0)).reverse
example : stripZeros [0x6b] = stripZeros [0x6b, 0, 0] := by decide
example : MacInjectiveUpTo (fun _ => stripZeros) (fun d s m => pairMac d (stripZeros s) m) .md5 := by
  intro s s' m m' h
  exact pairMac_injective .md5 _ _ _ _ h

-- the text `a,b` (0x61 0x2c 0x62) is one secret: a blob written under the secret `a` is unsafe for its reader …
example : decode { toyCfg with signer := some { secret := [0x61, 0x2c, 0x62], digest := .md5 } } toyReg [0x6b]
    (.bytes (hashSign toyCfg { secret := [0x61], digest := .md5 } [0x6b] [0x80, 7])) false = .unsecure := by decide
-- … whereas a verifier trying the parts `a` and `b` accepts it
example : checkHashAny toyCfg [[0x61], [0x62]] .md5 [0x6b] (hashSign toyCfg { secret := [0x61], digest := .md5 } [0x6b] [0x80, 7])
    = .ok [0x80, 7] := by decide

end CashewsVerif.Props.C10
