import CashewsVerif.Lemmas.GlobIter
import CashewsVerif.Lemmas.GlobTx
/-
C13 — pattern commands match `*` as a wildcard and everything else literally.
Property theorems only; helper lemmas live in `Lemmas/Glob.lean`, `Lemmas/GlobTx.lean`.

Reading guide.  `glob pat key` (Spec/Glob.lean) is the property's reading of a pattern.
`translate pat` is the regular expression `Memory.scan` compiles (literal characters and `.*` only),
`source pat` the text it hands to `re.compile`, `parse` the reader of that fragment of regex syntax,
`Matches` the language of such a regex, `matchRe` its executable `fullmatch`.
`scan / deleteMatch / getMatch` are the commands on the `Mem` model of C01 (stores may hold expired,
not yet purged entries; keys are numbers and `name k` is the text of key `k`, arbitrary);
`Tx` is the transaction overlay (backend store + overlay store + pending deletes) and `Tx.direct` the
store obtained by applying its buffered effects directly.

Values.  A (key, value) pair `get_match` yields carries an `Option Val`: `some v` is the value stored under
the key — `some .nil` a stored Python `None`, `some (.int 0)` a stored `0`, … — and `none` would be the default
that `get` hands back for a key that is not there; the two are different, and the theorems below say that
`none` never comes out and that a key is never left out because of the value it holds, with one exception the
code makes on purpose: a key whose value is a bit-field object (`Bitarray`, kept in the same store by
`incr_bits`) is scanned and deleted like any other key but is not a cached *value* and `get_match` skips it.
`bits : Val → Bool` says which stored values are such objects; every theorem holds for every `bits`
(`holdsBits bits m k`: key `k` holds one, for a reader; `NoBits bits st`: store `st` contains none).
-/
namespace CashewsVerif.Props.C13
open CashewsVerif Store Glob

/-- **The compiled regex denotes exactly the glob language** — for every pattern and every key,
whatever characters they contain: the key is in the language of the regular expression built
from the pattern iff the pattern, read literally with `*` as the only wildcard, matches it. -/
theorem translate_is_glob (pat key : List Char) : Matches (translate pat) key ↔ glob pat key = true := by
  rw [glob_eq_matchRe, matchRe_iff]

/-- The executable matcher used by the model (and by the driver) decides the denotation, for
every regex of the fragment and every string. -/
theorem fullmatch_decides (r : Regex) (s : List Char) : matchRe r s = true ↔ Matches r s :=
  matchRe_iff r s

/-- **Never raises / no pattern is rejected.** For every pattern, the text given to `re.compile`
(`".*".join(re.escape(part) for part in pattern.split("*"))`) lies inside the fragment
"escaped character | unescaped ordinary character | `.*`": the fragment's reader accepts it and reads
back exactly `translate pat`.  There is no unbalanced bracket, dangling quantifier or other
construct for the regex compiler to reject. -/
theorem never_raises (pat : List Char) : parse (source pat) = some (translate pat) := by
  have hs1 : special '\\' = true := by decide
  have hs2 : special '.' = true := by decide
  induction pat with
  | nil => rfl
  | cons c cs ih =>
    rw [source_cons, translate_cons]
    by_cases h : c = '*'
    · subst h
      simp [parse, ih]
    · simp only [h, if_false]
      by_cases hs : special c = true
      · simp [hs, parse, ih]
      · simp only [hs]
        have h1 : c ≠ '\\' := by intro hc; rw [hc] at hs; exact hs hs1
        have h2 : c ≠ '.' := by intro hc; rw [hc] at hs; exact hs hs2
        cases hsrc : source cs with
        | nil =>
          rw [hsrc] at ih
          simp only [parse, Option.some.injEq] at ih
          simp [parse, hs, ← ih]
        | cons d r =>
          rw [hsrc] at ih
          simp [parse, h1, h2, hs, ih]

/-- **A pattern without `*` matches exactly itself** — no character other than `*` has any
special meaning. -/
theorem literal_pattern_matches_only_itself (pat key : List Char) (h : '*' ∉ pat) :
    glob pat key = true ↔ key = pat := by
  induction pat generalizing key with
  | nil => cases key <;> simp [glob]
  | cons p ps ih =>
    simp only [List.mem_cons, not_or] at h
    have hp : p ≠ '*' := fun e => h.1 e.symm
    cases key with
    | nil => simp [glob, hp]
    | cons c key => simp [glob, hp, ih key h.2]

/-- **Independent reading of the glob language**: a key matches iff it is the pattern's literal
pieces (`pattern.split("*")`: first piece, then the remaining ones) in order, with an arbitrary run
of characters in front of every piece but the first. -/
theorem glob_pieces (pat key : List Char) :
    glob pat key = true ↔
      ∃ gaps : List (List Char), gaps.length = (splitStar pat).2.length ∧
        key = (splitStar pat).1 ++ (List.zipWith (· ++ ·) gaps (splitStar pat).2).flatten := by
  induction pat generalizing key with
  | nil =>
    cases key with
    | nil => simp [glob, splitStar]
    | cons c key =>
      simp only [glob, splitStar, List.isEmpty_cons, Bool.false_eq_true, List.length_nil, false_iff]
      rintro ⟨gaps, hl, hk⟩
      simp at hk
  | cons c cs ih =>
    by_cases h : c = '*'
    · simp only [glob, h, if_true, splitStar, anySuffix_iff, List.length_cons, List.nil_append]
      constructor
      · rintro ⟨s₁, s₂, hk, hg⟩
        obtain ⟨gaps, hl, hs⟩ := (ih s₂).mp hg
        exact ⟨s₁ :: gaps, by simp [hl], by simp [hk, hs]⟩
      · rintro ⟨gaps, hl, hk⟩
        cases gaps with
        | nil => simp at hl
        | cons g gaps =>
          refine ⟨g, (splitStar cs).1 ++ (List.zipWith (· ++ ·) gaps (splitStar cs).2).flatten, by simp [hk], ?_⟩
          exact (ih _).mpr ⟨gaps, by simpa using hl, rfl⟩
    · simp only [glob, h, if_false, splitStar]
      cases key with
      | nil => simp
      | cons d key =>
        simp only [Bool.and_eq_true, beq_iff_eq, ih key, List.cons_append, List.cons.injEq]
        constructor
        · rintro ⟨rfl, gaps, hl, hk⟩; exact ⟨gaps, hl, rfl, hk⟩
        · rintro ⟨gaps, hl, rfl, hk⟩; exact ⟨rfl, gaps, hl, hk⟩

/-- **`scan` selects exactly the live matching keys** — for every store (expired, not yet purged
entries included), instant, naming of the keys and pattern: the list `Memory.scan` yields is the list
of live keys, in store order, filtered by the glob reading of the pattern.  Nothing missing,
nothing extra, no expired key. -/
theorem scan_selects_exactly (name : Nat → List Char) (m : Mem) (pat : List Char) :
    scan name m pat = (liveKeys m).filter (fun k => glob pat (name k)) := by
  rw [scan_eq]
  unfold liveKeys sel
  rw [List.filter_map, List.filter_filter]
  congr 1
  apply List.filter_congr
  intro ke _
  simp [Bool.and_comm]

/-- `scan`, read key by key against the reader's view of the store (`Mem.view` of C01: what `get`
would find): a key is yielded iff it is present for a reader and its text matches. -/
theorem scan_mem_iff (name : Nat → List Char) (m : Mem) (h : (keys m.store).Nodup) (pat : List Char) (k : Key) :
    k ∈ scan name m pat ↔ (m.view k).isSome ∧ glob pat (name k) = true :=
  mem_scan_iff h pat k

/-- **`delete_match` removes exactly the live matching keys**: the store afterwards is the store
before without the live entries whose key matches (every other entry — non-matching, or expired —
is left in place, in order); for a reader: a matching key is gone, any other key reads as before.
Clock untouched. -/
theorem delete_match_exact (name : Nat → List Char) (m : Mem) (h : (keys m.store).Nodup) (pat : List Char) :
    (deleteMatch name m pat).store =
        m.store.filter (fun ke => !(ke.2.live m.now && glob pat (name ke.1))) ∧
    (deleteMatch name m pat).now = m.now ∧
    ∀ k, (deleteMatch name m pat).view k = if glob pat (name k) then none else m.view k := by
  refine ⟨?_, ?_, fun k => deleteMatch_view h pat k⟩
  · rw [deleteMatch_store h]; rfl
  · rw [deleteMatch_store h]

/-- **`get_match` yields exactly the live matching keys that hold a value, each with its own value**, in
store order, and changes nothing a reader can see.  "Hold a value": every live matching entry is yielded
except those whose value is a bit-field object; the value yielded is the stored one whatever it is
(`None`, `0`, an empty string or list included — there is no truthiness or `is None` test). -/
theorem get_match_exact (name : Nat → List Char) (bits : Val → Bool) (m : Mem) (h : (keys m.store).Nodup) (pat : List Char) :
    (getMatch name bits m pat).2 =
        (m.store.filter (fun ke => (ke.2.live m.now && glob pat (name ke.1)) && !bits ke.2.val)).map
          (fun ke => (ke.1, some ke.2.val)) ∧
    ∀ k, (getMatch name bits m pat).1.view k = m.view k :=
  ⟨getMatch_out h pat, getMatch_view name bits m pat⟩

/-- `get_match`, pair by pair against the reader's view: `(k, v)` is yielded iff `k` is present for a reader
(`get` would find it), its text matches, the value found is not a bit-field object, and `v` is exactly that
value. -/
theorem get_match_mem_iff (name : Nat → List Char) (bits : Val → Bool) (m : Mem) (h : (keys m.store).Nodup)
    (pat : List Char) (k : Key) (v : Option Val) :
    (k, v) ∈ (getMatch name bits m pat).2 ↔
      ∃ e, m.view k = some e ∧ glob pat (name k) = true ∧ bits e.val = false ∧ v = some e.val :=
  mem_getMatch_iff h pat k v

/-- **`get_match` selects what `scan` selects.**  The keys it yields are the keys `scan` yields for the same
pattern, in the same order, minus the keys holding a bit field; on a store without bit fields the two
selections are the same list — and hence (`delete_match_exact`) exactly the keys `delete_match` removes. -/
theorem get_match_selection_is_scan (name : Nat → List Char) (bits : Val → Bool) (m : Mem) (h : (keys m.store).Nodup)
    (pat : List Char) :
    (getMatch name bits m pat).2.map (·.1) = (scan name m pat).filter (fun k => !holdsBits bits m k) ∧
    (NoBits bits m.store → (getMatch name bits m pat).2.map (·.1) = scan name m pat) := by
  refine ⟨getMatch_keys h pat, fun hn => ?_⟩
  rw [getMatch_keys h pat]
  apply List.filter_eq_self.mpr
  intro k _
  simp [holdsBits_of_noBits hn k]

/-- **A stored `None` (or any other value) is a value, not an absence.**  A key that is present for a reader,
matches, and holds any value `w` that is not a bit-field object — `w = .nil` is a stored `None`,
`w = .int 0` a stored `0` — comes out as `(k, some w)`; and no pair ever carries the default `none`
(`get_match` does not report a key it found with "nothing"). -/
theorem get_match_keeps_every_value (name : Nat → List Char) (bits : Val → Bool) (m : Mem) (h : (keys m.store).Nodup)
    (pat : List Char) :
    (∀ k e, m.view k = some e → glob pat (name k) = true → bits e.val = false →
        (k, some e.val) ∈ (getMatch name bits m pat).2) ∧
    (∀ k, (k, none) ∉ (getMatch name bits m pat).2) := by
  refine ⟨fun k e hv hg hb => (mem_getMatch_iff h pat k _).mpr ⟨e, hv, hg, hb, rfl⟩, fun k hk => ?_⟩
  obtain ⟨e, _, _, _, he⟩ := (mem_getMatch_iff h pat k none).mp hk
  exact absurd he (by simp)

/-- **Inside a transaction the selection is the direct one.**  For every split of the keys
between the backend store (with expired entries), the overlay and the pending deletes, the keys
`TransactionBackend.scan` yields are — up to order, and without repetition — the keys `scan` yields
on the store to which the transaction's buffered effects have been applied directly. -/
theorem tx_scan_same (name : Nat → List Char) (t : Tx) (hb : (keys t.backend).Nodup) (ho : (keys t.overlay).Nodup)
    (pat : List Char) :
    (t.scan name pat).Perm (scan name t.direct pat) ∧ (t.scan name pat).Nodup := by
  refine ⟨?_, Tx.nodup_scan hb ho pat⟩
  rw [List.perm_ext_iff_of_nodup (Tx.nodup_scan hb ho pat) (nodup_scan (Tx.nodup_direct hb) pat)]
  intro k
  rw [Tx.mem_scan_iff hb ho, mem_scan_iff (Tx.nodup_direct hb), Tx.direct_view ho]

/-- In-transaction `scan` against the transaction's merged view of each key (own live write first,
else the store's live entry unless its deletion is pending). -/
theorem tx_scan_mem_iff (name : Nat → List Char) (t : Tx) (hb : (keys t.backend).Nodup) (ho : (keys t.overlay).Nodup)
    (pat : List Char) (k : Key) :
    k ∈ t.scan name pat ↔ (t.view k).isSome ∧ glob pat (name k) = true :=
  Tx.mem_scan_iff hb ho pat k

/-- **`get_match` inside a transaction**, pair by pair against the transaction's merged view of each key
(own live write first, else the store's live entry unless its deletion is pending): `(k, v)` is yielded iff
`k` is visible in the transaction, matches, what is visible is not a bit-field object and `v` is the visible
value.  Hypothesis `NoBits bits t.overlay`: the transaction has buffered no bit-field object (true of every
state the transaction commands produce — `incr_bits` is proxied to the backend, `set` stores the caller's
value; see `tx_commands_keep_overlay_values`). -/
theorem tx_get_match_mem_iff (name : Nat → List Char) (bits : Val → Bool) (t : Tx) (hb : (keys t.backend).Nodup)
    (ho : (keys t.overlay).Nodup) (hov : NoBits bits t.overlay) (pat : List Char) (k : Key) (v : Option Val) :
    (k, v) ∈ (t.getMatch name bits pat).2 ↔
      ∃ e, t.view k = some e ∧ glob pat (name k) = true ∧ bits e.val = false ∧ v = some e.val :=
  Tx.mem_getMatch_iff hb ho hov pat k v

/-- **`get_match` inside a transaction** yields, up to order and without repetition, the same
(key, value) pairs as `get_match` on the directly updated store — same keys, each with the value a direct
execution would give it (a stored `None` included). -/
theorem tx_get_match_same (name : Nat → List Char) (bits : Val → Bool) (t : Tx) (hb : (keys t.backend).Nodup)
    (ho : (keys t.overlay).Nodup) (hov : NoBits bits t.overlay) (pat : List Char) :
    (t.getMatch name bits pat).2.Perm (getMatch name bits t.direct pat).2 ∧ (t.getMatch name bits pat).2.Nodup := by
  have hd := Tx.nodup_direct hb
  refine ⟨?_, Tx.nodup_getMatch_out hb ho pat⟩
  rw [List.perm_ext_iff_of_nodup (Tx.nodup_getMatch_out hb ho pat) (nodup_getMatch_out hd pat)]
  rintro ⟨k, v⟩
  rw [Tx.mem_getMatch_iff hb ho hov, mem_getMatch_iff hd, Tx.direct_view ho]

/-- **The transaction's own write is what `get_match` reports** — whatever was written.  If the transaction
wrote `k` (the write is live in the overlay) with value `w` and the pattern matches, then `(k, some w)` is
yielded and no other pair for `k` is: in particular, overwriting a store key with `None` yields
`(k, some .nil)`, never the stale store value and never nothing. -/
theorem tx_get_match_own_write_wins (name : Nat → List Char) (bits : Val → Bool) (t : Tx) (hb : (keys t.backend).Nodup)
    (ho : (keys t.overlay).Nodup) (hov : NoBits bits t.overlay) (pat : List Char) (k : Key) (e : Entry)
    (hw : t.omem.view k = some e) (hg : glob pat (name k) = true) :
    (k, some e.val) ∈ (t.getMatch name bits pat).2 ∧
    ∀ v, (k, v) ∈ (t.getMatch name bits pat).2 → v = some e.val := by
  have hv : t.view k = some e := by simp [Tx.view, hw]
  have hbit : bits e.val = false := by
    simp only [Mem.view, Option.filter_eq_some_iff] at hw
    exact hov (k, e) (mem_of_lookup hw.1)
  refine ⟨(Tx.mem_getMatch_iff hb ho hov pat k _).mpr ⟨e, hv, hg, hbit, rfl⟩, fun v hmem => ?_⟩
  obtain ⟨e', hv', _, _, rfl⟩ := (Tx.mem_getMatch_iff hb ho hov pat k v).mp hmem
  rw [hv] at hv'
  cases hv'
  rfl

/-- **`delete_match` inside a transaction** has, on the directly updated store, exactly the
effect of `delete_match` executed there: applying the transaction's effects after an
in-transaction `delete_match` gives, for a reader, the store obtained by applying them first and
running `delete_match` directly — i.e. matching keys are gone (own writes and store keys alike),
everything else reads as before. -/
theorem tx_delete_match_same (name : Nat → List Char) (t : Tx) (hb : (keys t.backend).Nodup)
    (ho : (keys t.overlay).Nodup) (pat : List Char) (k : Key) :
    (t.deleteMatch name pat).direct.view k = (deleteMatch name t.direct pat).view k ∧
    (t.deleteMatch name pat).direct.view k = if glob pat (name k) then none else t.view k := by
  have hd := Tx.nodup_direct hb
  have ho' : (keys (t.deleteMatch name pat).overlay).Nodup := nodup_deleteMatch (m := t.omem) ho pat
  have key : (t.deleteMatch name pat).direct.view k = if glob pat (name k) then none else t.view k := by
    rw [Tx.direct_view ho']
    unfold Tx.view
    have hom : (t.deleteMatch name pat).omem = deleteMatch name t.omem pat := by
      have := deleteMatch_store (name := name) (m := t.omem) ho pat
      rw [this]
      show ({ now := t.now, cap := 1000, store := (deleteMatch name t.omem pat).store } : Mem) = _
      rw [this]
      rfl
    have h1 : (t.deleteMatch name pat).omem.view k = if glob pat (name k) then none else t.omem.view k := by
      rw [hom]; exact deleteMatch_view (name := name) (m := t.omem) ho pat k
    have h2 : (t.deleteMatch name pat).bmem = t.bmem := rfl
    have h3 : (k ∈ (t.deleteMatch name pat).del) ↔ (k ∈ t.del ∨ ((t.bmem.view k).isSome ∧ glob pat (name k) = true)) := by
      simp only [Tx.deleteMatch, List.mem_append, mem_scan_iff (m := t.bmem) hb]
    rw [h1, h2]
    by_cases hg : glob pat (name k) = true
    · by_cases hdel : k ∈ (t.deleteMatch name pat).del
      · simp [hg, hdel]
      · have := (not_congr h3).mp hdel
        simp only [not_or, not_and] at this
        have hbv : t.bmem.view k = none := by
          cases hv : t.bmem.view k with
          | none => rfl
          | some e => exact absurd hg (this.2 (by simp [hv]))
        simp [hg, hdel, hbv]
    · have hdel : (k ∈ (t.deleteMatch name pat).del) ↔ k ∈ t.del := by
        rw [h3]; simp [hg]
      simp only [hg, hdel]
      rfl
  refine ⟨?_, key⟩
  rw [key, deleteMatch_view hd, Tx.direct_view ho]

/-- The hypothesis of the theorems above (keys of a store are distinct — an `OrderedDict` cannot
hold a key twice) holds in every state the modelled commands can produce: it is preserved by the
transaction's `set`, `delete`, `delete_match` and `get_match`, and holds of the directly updated store. -/
theorem tx_commands_keep_keys_distinct (name : Nat → List Char) (bits : Val → Bool) (t : Tx) (hb : (keys t.backend).Nodup)
    (ho : (keys t.overlay).Nodup) (k : Key) (v : Val) (ttl : Option Nat) (pat : List Char) :
    ((keys (t.set k v ttl).backend).Nodup ∧ (keys (t.set k v ttl).overlay).Nodup) ∧
    ((keys (t.delete k).backend).Nodup ∧ (keys (t.delete k).overlay).Nodup) ∧
    ((keys (t.deleteMatch name pat).backend).Nodup ∧ (keys (t.deleteMatch name pat).overlay).Nodup) ∧
    ((keys (t.getMatch name bits pat).1.backend).Nodup ∧ (keys (t.getMatch name bits pat).1.overlay).Nodup) ∧
    (keys t.direct.store).Nodup := by
  refine ⟨⟨hb, nodup_rawSet (m := t.omem) ho k v ttl⟩, ⟨hb, ?_⟩,
    ⟨hb, nodup_deleteMatch (m := t.omem) ho pat⟩,
    ⟨nodup_getMatch (m := t.bmem) hb pat, nodup_getMatch (m := t.omem) ho pat⟩, Tx.nodup_direct hb⟩
  show (keys (t.omem.rawDelete k).1.store).Nodup
  rw [rawDelete_eq]
  exact Mem.nodup_keys_erase ho k

/-- The other hypothesis of the in-transaction `get_match` theorems (the overlay holds no bit-field object)
holds in every state the modelled transaction commands can produce: true of the empty overlay a transaction
starts with, preserved by `set` of a value that is not a bit-field object (any cached value: `None`, numbers,
strings, …), by `delete`, `delete_match` and `get_match`. -/
theorem tx_commands_keep_overlay_values (name : Nat → List Char) (bits : Val → Bool) (t : Tx)
    (hov : NoBits bits t.overlay) (k : Key) (v : Val) (hv : bits v = false) (ttl : Option Nat) (pat : List Char) :
    NoBits bits ([] : Store) ∧
    NoBits bits (t.set k v ttl).overlay ∧ NoBits bits (t.delete k).overlay ∧
    NoBits bits (t.deleteMatch name pat).overlay ∧ NoBits bits (t.getMatch name bits pat).1.overlay := by
  refine ⟨fun _ h => absurd h (by simp), noBits_rawSet (m := t.omem) hov k hv ttl, ?_, ?_, ?_⟩
  · show NoBits bits (t.omem.rawDelete k).1.store
    rw [rawDelete_eq]
    exact noBits_erase hov k
  · show NoBits bits (deleteMatch name t.omem pat).store
    unfold deleteMatch
    rw [foldl_rawDelete_eq, foldl_erase_eq_filter]
    exact noBits_filter hov _
  · exact noBits_getMany (m := t.omem) _ hov

/-! ### the iteration consumed step by step, with anything happening between two steps -/

/-- **A pattern iteration cannot be disturbed** ("never raising", for consumers that work on the cache between two
steps).  `Memory.scan` is an async generator; between two `__anext__` steps the consumer or any other task may delete
keys, write keys (evicting others from a full store), let time pass, purge.  The model of a step (`scanNext`) is a total
function of the SNAPSHOT taken at the first step and of the clock of the step — it does not read the live store, so no
interleaving can make it fail — and for every snapshot with distinct keys, every sequence of instants `nows` at which
the steps run (all `≤ T`) long enough to exhaust the iteration: no key is yielded twice, every yielded key is a key of
the snapshot that matches, and EVERY matching key of the snapshot whose entry is still live at `T` is yielded —
whatever happened to the store meanwhile.  (Seeded change C13-10 indexed the live store at each step: `KeyError` as
soon as a key not yet visited had been deleted or evicted.) -/
theorem iteration_is_undisturbed (name : Nat → List Char) (pat : List Char) (snap : Store) (hnd : (keys snap).Nodup)
    (nows : List Nat) (T : Nat) (hlen : snap.length < nows.length) (hT : ∀ now ∈ nows, now ≤ T) :
    (scanSteps name pat nows snap).Nodup ∧
    (∀ k ∈ scanSteps name pat nows snap, ∃ e, (k, e) ∈ snap ∧ glob pat (name k) = true) ∧
    (∀ k e, (k, e) ∈ snap → e.live T = true → glob pat (name k) = true → k ∈ scanSteps name pat nows snap) :=
  ⟨scanSteps_nodup name pat nows snap hnd, scanSteps_sound name pat nows snap,
   scanSteps_complete name pat T nows snap hlen hT⟩

/-- consumed in one go — every step at the same instant, nothing in between — the step-wise iteration is `scan` -/
theorem iteration_in_one_go_is_scan (name : Nat → List Char) (m : Mem) (pat : List Char) :
    scanSteps name pat (List.replicate (m.store.length + 1) m.now) m.store = scan name m pat :=
  scanSteps_const name pat m.now _ m.store (Nat.lt_succ_self _)

/-! ### Non-vacuity: the model computes, hypotheses are satisfiable -/

/-- metacharacters are literal, `*` is a wildcard, the whole key must match -/
example : glob ['a', '.', '*', '(', 'b'] ['a', '.', 'x', '+', '(', 'b'] = true
    ∧ glob ['a', '.', 'b'] ['a', 'x', 'b'] = false
    ∧ glob ['a', '+', 'b'] ['a', '+', 'b'] = true
    ∧ glob ['a', '+', 'b'] ['a', 'a', 'b'] = false
    ∧ glob ['a', '*'] ['x', 'a', 'b'] = false
    ∧ glob ['*', ':', '*'] ['a', ':', '\n', 'b'] = true := by decide

/-- the regex built for `a.*(b` and the text handed to `re.compile` (`a\..*\(b`) -/
example : translate ['a', '.', '*', '(', 'b'] = [.lit 'a', .lit '.', .anyStar, .lit '(', .lit 'b']
    ∧ source ['a', '.', '*', '(', 'b'] = ['a', '\\', '.', '.', '*', '\\', '(', 'b']
    ∧ matchRe (translate ['a', '.', '*', '(', 'b']) ['a', '.', '(', 'b'] = true := by decide

/-- an unescaped `(` is *not* in the fragment (`parse` can fail: `never_raises` is not vacuous) -/
example : parse ['a', '(', 'b'] = none ∧ parse ['a', '\\', '(', 'b'] = some [.lit 'a', .lit '(', .lit 'b'] := by decide

/-- key texts used by the examples below: 0 ↦ "a.b", 1 ↦ "axb", 2 ↦ "a.c", 3 ↦ "a.bb" -/
def exName : Nat → List Char
  | 0 => ['a', '.', 'b'] | 1 => ['a', 'x', 'b'] | 2 => ['a', '.', 'c'] | _ => ['a', '.', 'b', 'b']

/-- in the examples a list of numbers stands for a `Bitarray` object -/
def exBits : Val → Bool
  | .nums _ => true
  | _ => false

/-- a store at instant 5 with a live key, a key that only a regex `.` would match, an expired
unpurged matching key (deadline 3) and a live one with a deadline -/
def exMem : Mem :=
  { now := 5, cap := 10,
    store := [(0, ⟨.tok 0, none⟩), (1, ⟨.tok 1, none⟩), (3, ⟨.tok 3, some 3⟩), (2, ⟨.tok 2, some 9⟩)] }

example : (keys exMem.store).Nodup := by decide
example : scan exName exMem ['a', '.', '*'] = [0, 2] := by decide
example : (getMatch exName exBits exMem ['a', '.', '*']).2 = [(0, some (.tok 0)), (2, some (.tok 2))] := by decide
example : (deleteMatch exName exMem ['a', '.', 'b', '*']).store.map (·.1) = [1, 3, 2] := by decide

/-- a transaction: store holds 0,1 and (expired) 3; the transaction overwrote 1, wrote 2, deleted 0 -/
def exTx : Tx :=
  { now := 5,
    backend := [(0, ⟨.tok 0, none⟩), (1, ⟨.tok 1, none⟩), (3, ⟨.tok 3, some 3⟩)],
    overlay := [(2, ⟨.tok 2, some 9⟩), (1, ⟨.tok 11, none⟩)],
    del := [0] }

example : (keys exTx.backend).Nodup ∧ (keys exTx.overlay).Nodup := by decide
example : exTx.scan exName ['a', '*'] = [2, 1] ∧ scan exName exTx.direct ['a', '*'] = [2, 1] := by decide
example : (exTx.getMatch exName exBits ['a', '*']).2 = [(2, some (.tok 2)), (1, some (.tok 11))] := by decide
example : NoBits exBits exTx.overlay := by decide

/-- values: key 0 holds a stored `None`, key 1 a `0`, key 2 a bit field, key 3 (expired) a token -/
def exValMem : Mem :=
  { now := 5, cap := 10,
    store := [(0, ⟨.nil, none⟩), (1, ⟨.int 0, none⟩), (2, ⟨.nums [5], some 9⟩), (3, ⟨.tok 3, some 3⟩)] }

/-- `scan` yields the bit-field key, `get_match` skips it and only it: the stored `None` and `0` come out as values -/
example : scan exName exValMem ['a', '*'] = [0, 1, 2]
    ∧ (getMatch exName exBits exValMem ['a', '*']).2 = [(0, some .nil), (1, some (.int 0))]
    ∧ holdsBits exBits exValMem 2 = true ∧ holdsBits exBits exValMem 0 = false
    ∧ ¬ NoBits exBits exValMem.store := by decide

/-- a transaction over that store that overwrote key 1 with `None`, the bit-field key 2 with a token, and
deleted key 0: `(1, None)` — not the store's `0` — and `(2, tok)` are yielded; the same on the directly updated store -/
def exValTx : Tx :=
  { now := 5, backend := exValMem.store,
    overlay := [(1, ⟨.nil, none⟩), (2, ⟨.tok 7, none⟩)], del := [0] }

example : NoBits exBits exValTx.overlay ∧ (keys exValTx.backend).Nodup ∧ (keys exValTx.overlay).Nodup := by decide
example : (exValTx.getMatch exName exBits ['a', '*']).2 = [(1, some .nil), (2, some (.tok 7))]
    ∧ (getMatch exName exBits exValTx.direct ['a', '*']).2 = [(1, some .nil), (2, some (.tok 7))] := by decide
/-- without the hypothesis the statement fails (so it is needed): a bit field buffered over a store value -/
example : (({ exValTx with overlay := [(1, ⟨.nums [1], none⟩)] } : Tx).getMatch exName exBits ['a', '*']).2
    = [(1, some (.int 0))] := by decide
example : ((exTx.deleteMatch exName ['a', '.', '*']).direct.store.map (·.1)) = [3, 1] := by decide

/-- several commands in one transaction — pattern command, write, the IDENTICAL pattern command again (the class seeded
change C13-9 broke; `tx_delete_match_same` and `tx_commands_keep_keys_distinct` hold in every state, so they apply to
each command of such a sequence): the store key 0 "a.b" matches `a.b*`; `delete_match`, the key written again,
`delete_match` again — it is gone from the transaction's view and from the directly updated store, while the
non-matching key 1 stays; whole histories with `delete_match` in them are the `…_with_patterns` theorems of C03 / C04 -/
example : (fun t : Tx => (t.scan exName ['a', '*'], (liveKeys t.direct)))
      (((exTx.deleteMatch exName ['a', '.', 'b', '*']).set 0 (.tok 7) none).deleteMatch exName ['a', '.', 'b', '*'])
    = ([2, 1], [2, 1]) := by decide

/-- a consumer that works between the steps: the snapshot is `exMem`'s store; the first step runs at instant 5, then
time passes (the later steps run at 9 and 10: key 2's deadline 9 is reached) — keys 0 is yielded, the expired key 3 and
(by now) key 2 are not; had the later steps run at 5 as well, key 2 would have been yielded -/
example : scanSteps exName ['a', '.', '*'] [5, 9, 10, 10, 10] exMem.store = [0]
    ∧ scanSteps exName ['a', '.', '*'] [5, 5, 5, 5, 5] exMem.store = [0, 2] := by decide

/-- `get_match` step by step over a store from which the consumer deleted key 2 after the snapshot: the key comes out
with the default (nothing raises) -/
example : (getMatchNext exName exBits ['a', '.', '*'] { exMem with store := [(0, ⟨.tok 0, none⟩)] }
      [(2, ⟨.tok 2, some 9⟩)]).1.2 = some (2, none) := by decide

end CashewsVerif.Props.C13
