import CashewsVerif.Lemmas.GlobTx
/-
C13 — pattern commands match `*` as a wildcard and everything else literally.
Property theorems only; helper lemmas live in `Lemmas/Glob.lean`, `Lemmas/GlobTx.lean`.

Reading guide.  `glob pat key` (Spec/Glob.lean) is the property's reading of a pattern.
`translate pat` is the regular expression `Memory.scan` compiles (literal characters and `.*` only),
`source pat` the text it hands to `re.compile`, `parse` the reader of that fragment of regex syntax,
`Matches` the language of such a regex, `matchRe` its executable `fullmatch`.
`scan / deleteMatch / getMatch` are the commands on the `Mem` model of C01 (stores may hold expired,
not yet purged entries; keys are numbers and `name k` is the text of key `k`, arbitrary);
`Tx` is the transaction overlay (backend store + overlay store + pending deletes) and `Tx.direct` the
store obtained by applying its buffered effects directly.
-/
namespace CashewsVerif.Props.C13
open CashewsVerif Store Glob

/-- **The compiled regex denotes exactly the glob language** — for every pattern and every key,
whatever characters they contain: the key is in the language of the regular expression built
from the pattern iff the pattern, read literally with `*` as the only wildcard, matches it. -/
theorem translate_is_glob (pat key : List Char) : Matches (translate pat) key ↔ glob pat key = true := by
  rw [glob_eq_matchRe, matchRe_iff]

/-- The executable matcher used by the model (and by the driver) decides the denotation, for
every regex of the fragment and every string. -/
theorem fullmatch_decides (r : Regex) (s : List Char) : matchRe r s = true ↔ Matches r s :=
  matchRe_iff r s

/-- **Never raises / no pattern is rejected.** For every pattern, the text given to `re.compile`
(`".*".join(re.escape(part) for part in pattern.split("*"))`) lies inside the fragment
"escaped character | unescaped ordinary character | `.*`": the fragment's reader accepts it and reads
back exactly `translate pat`.  There is no unbalanced bracket, dangling quantifier or other
construct for the regex compiler to reject. -/
theorem never_raises (pat : List Char) : parse (source pat) = some (translate pat) := by
  have hs1 : special '\\' = true := by decide
  have hs2 : special '.' = true := by decide
  induction pat with
  | nil => rfl
  | cons c cs ih =>
    rw [source_cons, translate_cons]
    by_cases h : c = '*'
    · subst h
      simp [parse, ih]
    · simp only [h, if_false]
      by_cases hs : special c = true
      · simp [hs, parse, ih]
      · simp only [hs]
        have h1 : c ≠ '\\' := by intro hc; rw [hc] at hs; exact hs hs1
        have h2 : c ≠ '.' := by intro hc; rw [hc] at hs; exact hs hs2
        cases hsrc : source cs with
        | nil =>
          rw [hsrc] at ih
          simp only [parse, Option.some.injEq] at ih
          simp [parse, hs, ← ih]
        | cons d r =>
          rw [hsrc] at ih
          simp [parse, h1, h2, hs, ih]

/-- **A pattern without `*` matches exactly itself** — no character other than `*` has any
special meaning. -/
theorem literal_pattern_matches_only_itself (pat key : List Char) (h : '*' ∉ pat) :
    glob pat key = true ↔ key = pat := by
  induction pat generalizing key with
  | nil => cases key <;> simp [glob]
  | cons p ps ih =>
    simp only [List.mem_cons, not_or] at h
    have hp : p ≠ '*' := fun e => h.1 e.symm
    cases key with
    | nil => simp [glob, hp]
    | cons c key => simp [glob, hp, ih key h.2]

/-- **Independent reading of the glob language**: a key matches iff it is the pattern's literal
pieces (`pattern.split("*")`: first piece, then the remaining ones) in order, with an arbitrary run
of characters in front of every piece but the first. -/
theorem glob_pieces (pat key : List Char) :
    glob pat key = true ↔
      ∃ gaps : List (List Char), gaps.length = (splitStar pat).2.length ∧
        key = (splitStar pat).1 ++ (List.zipWith (· ++ ·) gaps (splitStar pat).2).flatten := by
  induction pat generalizing key with
  | nil =>
    cases key with
    | nil => simp [glob, splitStar]
    | cons c key =>
      simp only [glob, splitStar, List.isEmpty_cons, Bool.false_eq_true, List.length_nil, false_iff]
      rintro ⟨gaps, hl, hk⟩
      simp at hk
  | cons c cs ih =>
    by_cases h : c = '*'
    · simp only [glob, h, if_true, splitStar, anySuffix_iff, List.length_cons, List.nil_append]
      constructor
      · rintro ⟨s₁, s₂, hk, hg⟩
        obtain ⟨gaps, hl, hs⟩ := (ih s₂).mp hg
        exact ⟨s₁ :: gaps, by simp [hl], by simp [hk, hs]⟩
      · rintro ⟨gaps, hl, hk⟩
        cases gaps with
        | nil => simp at hl
        | cons g gaps =>
          refine ⟨g, (splitStar cs).1 ++ (List.zipWith (· ++ ·) gaps (splitStar cs).2).flatten, by simp [hk], ?_⟩
          exact (ih _).mpr ⟨gaps, by simpa using hl, rfl⟩
    · simp only [glob, h, if_false, splitStar]
      cases key with
      | nil => simp
      | cons d key =>
        simp only [Bool.and_eq_true, beq_iff_eq, ih key, List.cons_append, List.cons.injEq]
        constructor
        · rintro ⟨rfl, gaps, hl, hk⟩; exact ⟨gaps, hl, rfl, hk⟩
        · rintro ⟨gaps, hl, rfl, hk⟩; exact ⟨rfl, gaps, hl, hk⟩

/-- **`scan` selects exactly the live matching keys** — for every store (expired, not yet purged
entries included), instant, naming of the keys and pattern: the list `Memory.scan` yields is the list
of live keys, in store order, filtered by the glob reading of the pattern.  Nothing missing,
nothing extra, no expired key. -/
theorem scan_selects_exactly (name : Nat → List Char) (m : Mem) (pat : List Char) :
    scan name m pat = (liveKeys m).filter (fun k => glob pat (name k)) := by
  rw [scan_eq]
  unfold liveKeys sel
  rw [List.filter_map, List.filter_filter]
  congr 1
  apply List.filter_congr
  intro ke _
  simp [Bool.and_comm]

/-- `scan`, read key by key against the reader's view of the store (`Mem.view` of C01: what `get`
would find): a key is yielded iff it is present for a reader and its text matches. -/
theorem scan_mem_iff (name : Nat → List Char) (m : Mem) (h : (keys m.store).Nodup) (pat : List Char) (k : Key) :
    k ∈ scan name m pat ↔ (m.view k).isSome ∧ glob pat (name k) = true :=
  mem_scan_iff h pat k

/-- **`delete_match` removes exactly the live matching keys**: the store afterwards is the store
before without the live entries whose key matches (every other entry — non-matching, or expired —
is left in place, in order); for a reader: a matching key is gone, any other key reads as before.
Clock untouched. -/
theorem delete_match_exact (name : Nat → List Char) (m : Mem) (h : (keys m.store).Nodup) (pat : List Char) :
    (deleteMatch name m pat).store =
        m.store.filter (fun ke => !(ke.2.live m.now && glob pat (name ke.1))) ∧
    (deleteMatch name m pat).now = m.now ∧
    ∀ k, (deleteMatch name m pat).view k = if glob pat (name k) then none else m.view k := by
  refine ⟨?_, ?_, fun k => deleteMatch_view h pat k⟩
  · rw [deleteMatch_store h]; rfl
  · rw [deleteMatch_store h]

/-- **`get_match` yields exactly the live matching keys, each with its own value**, in store
order, and changes nothing a reader can see. -/
theorem get_match_exact (name : Nat → List Char) (m : Mem) (h : (keys m.store).Nodup) (pat : List Char) :
    (getMatch name m pat).2 =
        (m.store.filter (fun ke => ke.2.live m.now && glob pat (name ke.1))).map (fun ke => (ke.1, some ke.2.val)) ∧
    ∀ k, (getMatch name m pat).1.view k = m.view k :=
  ⟨getMatch_out h pat, getMatch_view name m pat⟩

/-- **Inside a transaction the selection is the direct one.**  For every split of the keys
between the backend store (with expired entries), the overlay and the pending deletes, the keys
`TransactionBackend.scan` yields are — up to order, and without repetition — the keys `scan` yields
on the store to which the transaction's buffered effects have been applied directly. -/
theorem tx_scan_same (name : Nat → List Char) (t : Tx) (hb : (keys t.backend).Nodup) (ho : (keys t.overlay).Nodup)
    (pat : List Char) :
    (t.scan name pat).Perm (scan name t.direct pat) ∧ (t.scan name pat).Nodup := by
  refine ⟨?_, Tx.nodup_scan hb ho pat⟩
  rw [List.perm_ext_iff_of_nodup (Tx.nodup_scan hb ho pat) (nodup_scan (Tx.nodup_direct hb) pat)]
  intro k
  rw [Tx.mem_scan_iff hb ho, mem_scan_iff (Tx.nodup_direct hb), Tx.direct_view ho]

/-- In-transaction `scan` against the transaction's merged view of each key (own live write first,
else the store's live entry unless its deletion is pending). -/
theorem tx_scan_mem_iff (name : Nat → List Char) (t : Tx) (hb : (keys t.backend).Nodup) (ho : (keys t.overlay).Nodup)
    (pat : List Char) (k : Key) :
    k ∈ t.scan name pat ↔ (t.view k).isSome ∧ glob pat (name k) = true :=
  Tx.mem_scan_iff hb ho pat k

/-- **`get_match` inside a transaction** yields, up to order and without repetition, the same
(key, value) pairs as `get_match` on the directly updated store. -/
theorem tx_get_match_same (name : Nat → List Char) (t : Tx) (hb : (keys t.backend).Nodup)
    (ho : (keys t.overlay).Nodup) (pat : List Char) :
    (t.getMatch name pat).2.Perm (getMatch name t.direct pat).2 := by
  have hd := Tx.nodup_direct hb
  -- membership in the pairs a `getMatch` yields
  have mem_pairs : ∀ (m : Mem), (keys m.store).Nodup → ∀ k v,
      (k, v) ∈ (getMatch name m pat).2 ↔ ∃ e, m.view k = some e ∧ glob pat (name k) = true ∧ v = some e.val := by
    intro m hm k v
    rw [getMatch_out hm]
    simp only [List.mem_map, List.mem_filter, sel, Bool.and_eq_true, Prod.mk.injEq]
    constructor
    · rintro ⟨⟨k', e⟩, ⟨hmem, hl, hg⟩, rfl, rfl⟩
      exact ⟨e, by simp [Mem.view, lookup_of_mem hm hmem, Option.filter, hl], hg, rfl⟩
    · rintro ⟨e, hv, hg, rfl⟩
      simp only [Mem.view, Option.filter_eq_some_iff] at hv
      exact ⟨(k, e), ⟨mem_of_lookup hv.1, hv.2, hg⟩, rfl, rfl⟩
  have nodup_pairs : ∀ (m : Mem), (keys m.store).Nodup → (getMatch name m pat).2.Nodup := by
    intro m hm
    rw [getMatch_out hm]
    have hk : ((m.store.filter (sel name m.now pat)).map (·.1)).Nodup := nodup_keys_filter hm _
    have hp := List.pairwise_map.mp hk
    exact List.pairwise_map.mpr (hp.imp (fun {a b} (hne : a.1 ≠ b.1) (heq : (a.1, some a.2.val) = (b.1, some b.2.val)) => hne (congrArg Prod.fst heq)))
  have fst_pairs : ∀ (m : Mem), (keys m.store).Nodup → (getMatch name m pat).2.map (·.1) = scan name m pat := by
    intro m hm
    rw [getMatch_out hm, scan_eq, List.map_map]; rfl
  have hno : (t.getMatch name pat).2.Nodup := by
    unfold Tx.getMatch
    refine List.nodup_append.mpr ⟨nodup_pairs t.omem ho, (nodup_pairs t.bmem hb).filter _, ?_⟩
    intro a ha b hb' hab
    subst hab
    simp only [List.mem_filter, Bool.and_eq_true, Bool.not_eq_true', List.contains_eq_mem,
      decide_eq_false_iff_not] at hb'
    exact hb'.2.2 (List.mem_map.mpr ⟨a, ha, rfl⟩)
  rw [List.perm_ext_iff_of_nodup hno (nodup_pairs _ hd)]
  rintro ⟨k, v⟩
  rw [mem_pairs _ hd, Tx.direct_view ho]
  unfold Tx.getMatch
  simp only [List.mem_append, List.mem_filter, Bool.and_eq_true, Bool.not_eq_true', List.contains_eq_mem,
    decide_eq_false_iff_not]
  rw [fst_pairs t.omem ho, mem_scan_iff (m := t.omem) ho, mem_pairs t.omem ho, mem_pairs t.bmem hb]
  unfold Tx.view
  cases hov : t.omem.view k with
  | some e =>
    by_cases hg : glob pat (name k) = true <;> simp [hg]
  | none =>
    by_cases hdel : k ∈ t.del <;> simp [hdel]

/-- **`delete_match` inside a transaction** has, on the directly updated store, exactly the
effect of `delete_match` executed there: applying the transaction's effects after an
in-transaction `delete_match` gives, for a reader, the store obtained by applying them first and
running `delete_match` directly — i.e. matching keys are gone (own writes and store keys alike),
everything else reads as before. -/
theorem tx_delete_match_same (name : Nat → List Char) (t : Tx) (hb : (keys t.backend).Nodup)
    (ho : (keys t.overlay).Nodup) (pat : List Char) (k : Key) :
    (t.deleteMatch name pat).direct.view k = (deleteMatch name t.direct pat).view k ∧
    (t.deleteMatch name pat).direct.view k = if glob pat (name k) then none else t.view k := by
  have hd := Tx.nodup_direct hb
  have ho' : (keys (t.deleteMatch name pat).overlay).Nodup := nodup_deleteMatch (m := t.omem) ho pat
  have key : (t.deleteMatch name pat).direct.view k = if glob pat (name k) then none else t.view k := by
    rw [Tx.direct_view ho']
    unfold Tx.view
    have hom : (t.deleteMatch name pat).omem = deleteMatch name t.omem pat := by
      have := deleteMatch_store (name := name) (m := t.omem) ho pat
      rw [this]
      show ({ now := t.now, cap := 1000, store := (deleteMatch name t.omem pat).store } : Mem) = _
      rw [this]
      rfl
    have h1 : (t.deleteMatch name pat).omem.view k = if glob pat (name k) then none else t.omem.view k := by
      rw [hom]; exact deleteMatch_view (name := name) (m := t.omem) ho pat k
    have h2 : (t.deleteMatch name pat).bmem = t.bmem := rfl
    have h3 : (k ∈ (t.deleteMatch name pat).del) ↔ (k ∈ t.del ∨ ((t.bmem.view k).isSome ∧ glob pat (name k) = true)) := by
      simp only [Tx.deleteMatch, List.mem_append, mem_scan_iff (m := t.bmem) hb]
    rw [h1, h2]
    by_cases hg : glob pat (name k) = true
    · by_cases hdel : k ∈ (t.deleteMatch name pat).del
      · simp [hg, hdel]
      · have := (not_congr h3).mp hdel
        simp only [not_or, not_and] at this
        have hbv : t.bmem.view k = none := by
          cases hv : t.bmem.view k with
          | none => rfl
          | some e => exact absurd hg (this.2 (by simp [hv]))
        simp [hg, hdel, hbv]
    · have hdel : (k ∈ (t.deleteMatch name pat).del) ↔ k ∈ t.del := by
        rw [h3]; simp [hg]
      simp only [hg, hdel]
      rfl
  refine ⟨?_, key⟩
  rw [key, deleteMatch_view hd, Tx.direct_view ho]

/-- The hypothesis of the theorems above (keys of a store are distinct — an `OrderedDict` cannot
hold a key twice) holds in every state the modelled commands can produce: it is preserved by the
transaction's `set`, `delete`, `delete_match` and `get_match`, and holds of the directly updated store. -/
theorem tx_commands_keep_keys_distinct (name : Nat → List Char) (t : Tx) (hb : (keys t.backend).Nodup)
    (ho : (keys t.overlay).Nodup) (k : Key) (v : Val) (ttl : Option Nat) (pat : List Char) :
    ((keys (t.set k v ttl).backend).Nodup ∧ (keys (t.set k v ttl).overlay).Nodup) ∧
    ((keys (t.delete k).backend).Nodup ∧ (keys (t.delete k).overlay).Nodup) ∧
    ((keys (t.deleteMatch name pat).backend).Nodup ∧ (keys (t.deleteMatch name pat).overlay).Nodup) ∧
    ((keys (t.getMatch name pat).1.backend).Nodup ∧ (keys (t.getMatch name pat).1.overlay).Nodup) ∧
    (keys t.direct.store).Nodup := by
  refine ⟨⟨hb, nodup_rawSet (m := t.omem) ho k v ttl⟩, ⟨hb, ?_⟩,
    ⟨hb, nodup_deleteMatch (m := t.omem) ho pat⟩,
    ⟨nodup_getMatch (m := t.bmem) hb pat, nodup_getMatch (m := t.omem) ho pat⟩, Tx.nodup_direct hb⟩
  show (keys (t.omem.rawDelete k).1.store).Nodup
  rw [rawDelete_eq]
  exact Mem.nodup_keys_erase ho k

/-! ### Non-vacuity: the model computes, hypotheses are satisfiable -/

/-- metacharacters are literal, `*` is a wildcard, the whole key must match -/
example : glob ['a', '.', '*', '(', 'b'] ['a', '.', 'x', '+', '(', 'b'] = true
    ∧ glob ['a', '.', 'b'] ['a', 'x', 'b'] = false
    ∧ glob ['a', '+', 'b'] ['a', '+', 'b'] = true
    ∧ glob ['a', '+', 'b'] ['a', 'a', 'b'] = false
    ∧ glob ['a', '*'] ['x', 'a', 'b'] = false
    ∧ glob ['*', ':', '*'] ['a', ':', '\n', 'b'] = true := by decide

/-- the regex built for `a.*(b` and the text handed to `re.compile` (`a\..*\(b`) -/
example : translate ['a', '.', '*', '(', 'b'] = [.lit 'a', .lit '.', .anyStar, .lit '(', .lit 'b']
    ∧ source ['a', '.', '*', '(', 'b'] = ['a', '\\', '.', '.', '*', '\\', '(', 'b']
    ∧ matchRe (translate ['a', '.', '*', '(', 'b']) ['a', '.', '(', 'b'] = true := by decide

/-- an unescaped `(` is *not* in the fragment (`parse` can fail: `never_raises` is not vacuous) -/
example : parse ['a', '(', 'b'] = none ∧ parse ['a', '\\', '(', 'b'] = some [.lit 'a', .lit '(', .lit 'b'] := by decide

/-- key texts used by the examples below: 0 ↦ "a.b", 1 ↦ "axb", 2 ↦ "a.c", 3 ↦ "a.bb" -/
def exName : Nat → List Char
  | 0 => ['a', '.', 'b'] | 1 => ['a', 'x', 'b'] | 2 => ['a', '.', 'c'] | _ => ['a', '.', 'b', 'b']

/-- a store at instant 5 with a live key, a key that only a regex `.` would match, an expired
unpurged matching key (deadline 3) and a live one with a deadline -/
def exMem : Mem :=
  { now := 5, cap := 10,
    store := [(0, ⟨.tok 0, none⟩), (1, ⟨.tok 1, none⟩), (3, ⟨.tok 3, some 3⟩), (2, ⟨.tok 2, some 9⟩)] }

example : (keys exMem.store).Nodup := by decide
example : scan exName exMem ['a', '.', '*'] = [0, 2] := by decide
example : (getMatch exName exMem ['a', '.', '*']).2 = [(0, some (.tok 0)), (2, some (.tok 2))] := by decide
example : (deleteMatch exName exMem ['a', '.', 'b', '*']).store.map (·.1) = [1, 3, 2] := by decide

/-- a transaction: store holds 0,1 and (expired) 3; the transaction overwrote 1, wrote 2, deleted 0 -/
def exTx : Tx :=
  { now := 5,
    backend := [(0, ⟨.tok 0, none⟩), (1, ⟨.tok 1, none⟩), (3, ⟨.tok 3, some 3⟩)],
    overlay := [(2, ⟨.tok 2, some 9⟩), (1, ⟨.tok 11, none⟩)],
    del := [0] }

example : (keys exTx.backend).Nodup ∧ (keys exTx.overlay).Nodup := by decide
example : exTx.scan exName ['a', '*'] = [2, 1] ∧ scan exName exTx.direct ['a', '*'] = [2, 1] := by decide
example : (exTx.getMatch exName ['a', '*']).2 = [(2, some (.tok 2)), (1, some (.tok 11))] := by decide
example : ((exTx.deleteMatch exName ['a', '.', '*']).direct.store.map (·.1)) = [3, 1] := by decide

end CashewsVerif.Props.C13
